"""C13, stream `C13cli`: the real `slicec` binary on real files.

Covers what `compile_from_strings` cannot reach: clap's acceptance of `--allow` spellings (`cliAccepts` / `cliParse` of
Model/Lints.lean: case-insensitive membership, stored as spelled, exit status 2 otherwise), the `DuplicateFile` lint
(no span, no scope: only the command line can silence it) and D-13b on the binary itself.

case line (from `drv gen C13cli`):  cli <family> <scenario> <allow values: hex,hex,… (`e` = the empty string) | -> <expected>
observation:                        exit=<status> diags=<code:severity,…|->   (from `--diagnostic-format json`; errors as `error`)
"""
import json
import os
import shutil
import subprocess
import tempfile
import time

LINTS = ("DuplicateFile", "Deprecated", "MalformedDocComment", "IncorrectDocComment", "BrokenDocLink")

SCENARIOS = {
    # scenario -> (file text, how often the file is named on the command line)
    "dup": ("module M\nstruct S { x: bool }\n", 2),
    "dup-attr": ("[[allow(All)]]\nmodule M\nstruct S { x: bool }\n", 2),
    "dep": ("module M\n[deprecated] struct Dep { x: bool }\nstruct S { f: Dep }\n", 1),
}


def observe(slicec, path, times, values, env):
    cmd = [slicec, "--dry-run", "--diagnostic-format", "json"]
    for v in values:
        cmd += ["--allow", v]
    cmd += [path] * times
    p = subprocess.run(cmd, stdout=subprocess.PIPE, stderr=subprocess.PIPE, env=env, timeout=60)
    if p.returncode < 0:
        return "signal=%d" % -p.returncode
    diags = []
    if p.returncode != 2:
        for line in p.stderr.decode("utf-8", "replace").splitlines():
            line = line.strip()
            if not line.startswith("{"):
                continue
            try:
                d = json.loads(line)
            except ValueError:
                diags.append("unparsable")
                continue
            code = d.get("error_code")
            diags.append("%s:%s" % (code if code in LINTS else "error", d.get("severity")))
    return "exit=%d diags=%s" % (p.returncode, ",".join(diags) if diags else "-")


def run(ctx):
    t0 = time.time()
    res = {"label": "C13cli", "diffs": [], "oracle": [], "model_cex": [], "stats": None, "wall_s": 0, "errors": []}
    slicec, drv = ctx.get("slicec"), ctx.get("drv")
    if not slicec:
        res["errors"].append("the slicec binary is not available")
        return res
    if ctx.get("replay_payload") is not None:
        lines = [c for c in ctx["replay_payload"].get("cases", []) if c.startswith("cli\t")]
    else:
        if not drv:
            res["errors"].append("the Lean driver is not available")
            return res
        p = subprocess.run([drv, "gen", "C13cli", ctx["tier"], str(ctx["seed"])], stdout=subprocess.PIPE, stderr=subprocess.PIPE, env=ctx["env"])
        if p.returncode != 0:
            res["errors"].append("driver exited with status %d: %s" % (p.returncode, p.stderr.decode("utf-8", "replace")[-300:]))
            return res
        lines = p.stdout.decode("utf-8").splitlines()
    scratch = tempfile.mkdtemp(dir="/var/tmp", prefix="c13-")
    families, samples, distinct = {}, [], set()
    n = 0
    try:
        paths = {}
        for name, (text, times) in SCENARIOS.items():
            d = os.path.join(scratch, name)
            os.makedirs(d)
            paths[name] = os.path.join(d, "a.slice")
            with open(paths[name], "w", encoding="utf-8") as f:
                f.write(text)
        for line in lines:
            if not line.strip():
                continue
            f = line.split("\t")
            shown = line.replace("\t", " ")
            if f[0] == "K":
                res["model_cex"].append([" ".join(f[:-1]), f[-1]])
                continue
            if len(f) != 5 or f[0] != "cli" or f[2] not in SCENARIOS:
                res["errors"].append("unknown case shape: " + shown[:120])
                continue
            _, fam, scenario, vals, expected = f
            try:
                values = [] if vals == "-" else ["" if h == "e" else bytes.fromhex(h).decode("utf-8") for h in vals.split(",")]
            except ValueError:
                res["errors"].append("bad hex in case: " + shown[:120])
                continue
            n += 1
            families[fam] = families.get(fam, 0) + 1
            actual = observe(slicec, paths[scenario], SCENARIOS[scenario][1], values, ctx["env"])
            readable = "%s [--allow %s]" % (shown, " --allow ".join(repr(v) for v in values))
            if len(samples) < 6 and families[fam] <= 1:
                samples.append(shown)
            if actual != "exit=0 diags=-" or values:
                distinct.add((scenario, vals))
            if actual.startswith("signal="):
                res["oracle"].append([readable, "slicec was killed by a signal: " + actual])
            if actual != expected:
                res["diffs"].append([readable, "model=%s impl=%s" % (expected, actual)])
    finally:
        shutil.rmtree(scratch, ignore_errors=True)
    res["stats"] = {"evaluations": n, "diffs": len(res["diffs"]), "oracle_failures": len(res["oracle"]),
                    "distinct_nontrivial": len(distinct), "families": families, "samples": samples}
    res["wall_s"] = round(time.time() - t0, 2)
    return res
