"""Process-level stream of C01 with the real `slicec` binary: any arrangement into files and any command-line
options ends with an exit status 0 / 1 / 2 — never a signal, never "panicked" on stderr, never a hang.

No model is involved (implementation-side oracle only). Scenarios are derived from ctx["seed"]:
  * files: valid program, program with an error of each phase, empty file, comment-only file, file-attribute-only
    file, file with only a module, binary garbage (invalid UTF-8), CRLF file, file with a BOM, very long line,
    nonexistent path, directory, wrong extension;
  * options: every subset pattern of -D / -A / -G / -R / -O / --dry-run / --diagnostic-format / --disable-color
    with ordinary, EMPTY-STRING and odd values (`-D ''`, `-A ''`, `-G ''`, `--generator=`, `-O ''`, `-R ''`,
    `--diagnostic-format=`, unknown lint names, repeated options, `--`), plus `--help` / `--version`.
A fake generator (a shell script replying with two empty sequences) is used for `-G` scenarios.
"""
import concurrent.futures
import itertools
import os
import random
import shutil
import subprocess
import tempfile
import time

LABEL = "proc C01"
TIMEOUT_S = 20

FILES = {
    "valid.slice": "module M\nstruct S { a: bool, b: Sequence<int32>? }\ninterface I { op(p: S) -> (x: bool, y: string) }\n",
    "warn.slice": "module M\n[deprecated] struct D {}\nstruct U { d: D }\n/// {@link Missing}\nstruct L {}\n",
    "syntax.slice": "module M\nstruct {\n",
    "attr.slice": "module M\n[foo] struct S {}\n",
    "unresolved.slice": "module M\nstruct S { a: Missing }\n",
    "cycle.slice": "module M\nstruct S { s: S }\n",
    "redef.slice": "module M\nstruct S {}\nstruct S {}\n",
    "rule.slice": "module M\ncompact struct S {}\n",
    "empty.slice": "",
    "comment.slice": "// nothing here\n/* at all */\n",
    "fileattr.slice": "[[cs::x]]\n",
    "onlymodule.slice": "module Only\n",
    "nomodule.slice": "struct S {}\n",
    "crlf.slice": "module M\r\n/// doc\r\nunchecked enum E : uint8 { A }\r\n",
    "bom.slice": "﻿module M\nstruct S {}\n",
    "longline.slice": "module M\nstruct S { " + " ".join("f%d: bool" % i for i in range(400)) + " }\n",
    "preproc.slice": "#if X && (Y || !Z)\nmodule M\n#else\nmodule N\n#endif\nstruct S {}\n#if\n",
    "wrongext.txt": "module M\n",
    # regression inputs of repaired defects
    "shadow_a.slice": "module \\int32\nstruct S {}\n",                                  # D-01b
    "shadow_b.slice": "module M\nstruct T { a: int32 }\n",
    "uaf.slice": "module M enum E { A(\n/// @foo\nx: int32) B(\n/// @foo\ny: int32) }}\n",   # D-01c
    "uafp1.slice": "module M\ninterface N {\n    I(op: int32) foo %\n}\n",
    "uafp2.slice": "module M::N\ninterface I {\n    /// @foo\n    op() bar %\n}\n",
    "mixedwidth.slice": "module M\n/// a\n///\u3000x\n///\u00a0\u00a0y\nstruct S {}\n",     # D-16a
    "inheritloop.slice": "module M\ninterface A : B {}\ninterface B : A {}\n",          # D-05a
    "aliasanon.slice": "module M\ntypealias A = Sequence<A>\n",                         # D-05c
    "basetype.slice": "module M\ninterface I : Sequence<bool> {}\nenum E : Sequence<bool> { A }\n",   # D-01a
    "ifacedag26.slice": "module M\ninterface A0 {}\ninterface B0 {}\n" + "".join(
        "interface A%d : A%d, B%d {}\ninterface B%d : A%d, B%d {}\n" % (i, i - 1, i - 1, i, i - 1, i - 1) for i in range(1, 26)),   # D-05e
    "dense28.slice": "module M\n" + "".join(
        "struct S%d { %s}\n" % (i, "".join("f%d: S%d " % (j, j) for j in range(i + 1, 28))) for i in range(28)),             # D-05b
}

# inputs far beyond 8 KiB whose nesting depth the recursive descent of the compiler follows (open findings D-01d..g):
# the debug binary overflows its 8 MiB stack on each of them
DEEP = {
    "known-d01d-deep-type-nesting.slice": "module M\nstruct S { a: " + "Sequence<" * 8000 + "int32" + ">" * 8000 + " }\n",
    "known-d01e-deep-preprocessor-expression.slice": "#if " + "(" * 25000 + "A" + ")" * 25000 + "\nmodule M\n#endif\n",
    "known-d01f-deep-conditional-nesting.slice": "#if A\n" * 15000 + "module M\n" + "#endif\n" * 15000,
    "known-d01g-deep-compact-key-chain.slice": "module M\n" + "".join("compact struct S%d { a: S%d }\n" % (i, i + 1) for i in range(1500))
                                               + "compact struct S1500 { a: int32 }\nstruct D { d: Dictionary<S0, int32> }\n",
}
# the same shapes at depths that stay within 8 KiB must simply compile
SHALLOW = {
    "nest-types-800.slice": "module M\nstruct S { a: " + "Sequence<" * 800 + "int32" + ">" * 800 + " }\n",
    "nest-parens-4000.slice": "#if " + "(" * 4000 + "A" + ")" * 4000 + "\nmodule M\n#endif\n",
    "nest-if-600.slice": "#if A\n" * 600 + "module M\n" + "#endif\n" * 600,
    "nest-compact-key-250.slice": "module M\n" + "".join("compact struct S%d { a: S%d }\n" % (i, i + 1) for i in range(250))
                                  + "compact struct S250 { a: int32 }\nstruct D { d: Dictionary<S0, int32> }\n",
}
BINARY = {"garbage.slice": b"\xff\xfe\x00module M\n\xc3\x28", "nul.slice": b"module M\nstruct S\x00 {}\n"}

FILE_SETS = [["valid.slice"], ["warn.slice"], ["syntax.slice"], ["attr.slice"], ["unresolved.slice"], ["cycle.slice"], ["redef.slice"],
             ["rule.slice"], ["empty.slice"], ["comment.slice"], ["fileattr.slice"], ["onlymodule.slice"], ["nomodule.slice"],
             ["crlf.slice"], ["bom.slice"], ["longline.slice"], ["preproc.slice"], ["wrongext.txt"], ["garbage.slice"], ["nul.slice"],
             ["missing.slice"], ["."], [], ["valid.slice", "valid.slice"], ["valid.slice", "empty.slice", "warn.slice"],
             ["empty.slice", "comment.slice"], ["valid.slice", "./valid.slice"], ["onlymodule.slice", "valid.slice"],
             ["shadow_a.slice", "shadow_b.slice"], ["shadow_b.slice", "shadow_a.slice"], ["uaf.slice"], ["uafp1.slice", "uafp2.slice"],
             ["uaf.slice", "valid.slice", "warn.slice"], ["mixedwidth.slice"], ["inheritloop.slice"], ["aliasanon.slice"], ["basetype.slice"],
             ["ifacedag26.slice"], ["dense28.slice"]] + [[n] for n in SHALLOW]

DEEP_OPTION_SETS = [[], ["--dry-run"], ["-D", "A"]]

OPTION_SETS = [
    [], ["--dry-run"], ["--diagnostic-format", "json"], ["--diagnostic-format", "JSON", "--disable-color"], ["--diagnostic-format="],
    ["--diagnostic-format", "xml"], ["-D", "X"], ["-D", ""], ["-D", "X", "-D", "X", "-D", "é"], ["-A", "All"], ["-A", "all"], ["-A", ""],
    ["-A", "Nope"], ["-A", "Deprecated", "-A", "BrokenDocLink"], ["-G", "GEN"], ["-G", ""], ["--generator="], ["-G", "GEN,a=b,c"],
    ["-G", "GEN,=x"], ["-G", "GEN,a=b=c"], ["-G", "GEN", "-G", "GEN", "--dry-run"], ["-G", "./nonexistent-generator"], ["-G", "GEN", "-O", "out"],
    ["-G", "GEN", "-O", ""], ["-O", ""], ["-R", ""], ["-R", "."], ["-R", "valid.slice"], ["-R", "missing-dir"], ["--help"], ["--version"],
    ["--bogus"], ["--"], ["-D"], ["-G", "GEN", "-A", "All", "-D", "X", "--diagnostic-format", "json", "--disable-color", "--dry-run"],
]

GENERATOR = "#!/bin/sh\ncat > /dev/null\nprintf '\\000\\000'\n"


def materialise(root):
    for name, text in FILES.items():
        with open(os.path.join(root, name), "w", encoding="utf-8") as f:
            f.write(text)
    for name, text in list(DEEP.items()) + list(SHALLOW.items()):
        with open(os.path.join(root, name), "w", encoding="utf-8") as f:
            f.write(text)
    for name, data in BINARY.items():
        with open(os.path.join(root, name), "wb") as f:
            f.write(data)
    gen = os.path.join(root, "GEN")
    with open(gen, "w") as f:
        f.write(GENERATOR)
    os.chmod(gen, 0o755)
    os.makedirs(os.path.join(root, "out"), exist_ok=True)


def run_one(exe, root, files, opts):
    argv = [exe] + [o.replace("GEN", os.path.join(root, "GEN")) if o.startswith("GEN") else o for o in opts] + files
    t0 = time.time()
    try:
        p = subprocess.run(argv, cwd=root, stdout=subprocess.PIPE, stderr=subprocess.PIPE, timeout=TIMEOUT_S,
                           env={"PATH": os.environ.get("PATH", ""), "NO_COLOR": "1"})
        rc, err = p.returncode, p.stderr.decode("utf-8", "replace")
        timed_out = False
    except subprocess.TimeoutExpired:
        rc, err, timed_out = None, "", True
    wall = time.time() - t0
    reason = None
    if timed_out:
        reason = "no exit within %d s" % TIMEOUT_S
    elif rc < 0:
        reason = "killed by signal %d" % -rc
    elif rc not in (0, 1, 2):
        reason = "exit status %d" % rc
    elif "panicked at" in err or "RUST_BACKTRACE" in err or "overflowed its stack" in err:
        reason = "panic text on stderr: %s" % err.strip().splitlines()[0][:160]
    return rc, reason, wall


def run(ctx):
    t0 = time.time()
    exe = ctx["slicec"]
    tier, seed = ctx["tier"], ctx["seed"]
    res = {"label": LABEL, "diffs": [], "oracle": [], "model_cex": [], "stats": None, "wall_s": 0, "errors": []}
    if not exe or not os.path.exists(exe):
        res["errors"].append("slicec binary missing")
        return res
    rnd = random.Random(seed)
    scenarios = []
    # full product in thorough; a deterministic sample + every option set with every file set at least once in quick
    product = list(itertools.product(range(len(FILE_SETS)), range(len(OPTION_SETS))))
    if tier == "thorough":
        chosen = product
    else:
        chosen = [(i, j) for (i, j) in product if (i + 3 * j) % 4 == seed % 4 or i < 2 or j < 2]
    for (i, j) in chosen:
        scenarios.append((FILE_SETS[i], OPTION_SETS[j]))
    # the memory-unsafe orphaned-member defect crashed only in some runs: repeat its scenarios
    for _ in range(6 if tier == "thorough" else 3):
        scenarios += [(["uaf.slice"], []), (["uafp1.slice", "uafp2.slice"], []), (["uaf.slice"], ["--diagnostic-format", "json"])]
    for name in DEEP:
        for o in DEEP_OPTION_SETS:
            scenarios.append(([name], o))
    root = tempfile.mkdtemp(prefix="c01-", dir="/var/tmp")
    families, samples, nontrivial = {}, [], set()
    try:
        materialise(root)
        with concurrent.futures.ThreadPoolExecutor(max_workers=12) as ex:
            futs = {ex.submit(run_one, exe, root, f, o): (f, o) for (f, o) in scenarios}
            for fut in concurrent.futures.as_completed(futs):
                f, o = futs[fut]
                rc, reason, wall = fut.result()
                case = "proc files=%s opts=%s" % (",".join(f) or "-", " ".join(x if x else "''" for x in o) or "-")
                fam = "exit%s" % rc
                families[fam] = families.get(fam, 0) + 1
                if len(samples) < 6:
                    samples.append(case + " -> exit %s" % rc)
                if f and o:
                    nontrivial.add(case)
                if reason:
                    res["oracle"].append([case, reason])
    finally:
        shutil.rmtree(root, ignore_errors=True)
    res["stats"] = {"evaluations": len(scenarios), "distinct_nontrivial": len(nontrivial), "families": families, "samples": samples,
                    "rule": "binary runs over file sets x option sets incl. empty-string values; oracle: exit status in {0,1,2}, no signal, no panic text, <= 20 s"}
    res["wall_s"] = round(time.time() - t0, 2)
    return res
