"""Process-level check of property C14 with the REAL `slicec` binary.

C14: "Emitted diagnostics are complete, well-formed and match the totals ... in JSON format each
one is a single self-contained JSON object on its own line carrying message, severity, span, notes
and error_code and nothing else is written to the diagnostic stream; in human format the summary
counts equal the numbers of warnings and errors shown.  With colours disabled the output contains
no escape sequences, and suppressed lints leave no trace in either format."

`run(ctx)` generates small Slice programs (deterministically from ctx["seed"]), writes them below a
scratch directory (`tempfile.mkdtemp(dir="/var/tmp")`, removed at the end) and runs the binary on
each of them under
    format in {human, json}  x  `--disable-color` on/off  x  allow-list in
    {[], ["All"], [each single lint that occurs], one pair}
plus three runs with `CLICOLOR_FORCE=1` (colours forced on through the environment) and, for the
syntactically valid lint programs, a variant whose first line is `[[allow(L)]] module M`
(suppression through a file attribute instead of the command line).  `-G` is never passed.

No model is involved: every check is an implementation-side oracle on the observed output, every
failure is an item `[case_text, reason]` in `oracle`:

  a  the process exits by itself (no signal, no time-out, no "panicked" on stderr), status 0 or 1;
  b  JSON format: stdout empty; stderr is a sequence of "\n"-terminated non-blank lines, each of
     which `json.loads` (strict: raw control characters are rejected) reads as one object with the
     keys message, severity, span, notes, error_code in this order and nothing else, with
     well-typed values; exit status 1 iff some severity is "error";
  c  human format: stderr is a sequence of blocks starting with `error [CODE]: ` / `warning
     [CODE]: `; with E / W the numbers of such blocks stdout is exactly the two total lines (each
     only when its count is > 0); exit status 1 iff E > 0; each block has the shape
     prefix, [` --> file:row:col` + snippet], (`note: ` [+ ` --> ` + snippet])*;
  d  for the same program and allow-list the sequences of (severity, code, message,
     file:row:col | None, number of notes) read from the JSON and from the human output are equal
     (skipped when a message or file name contains a line feed);
  e  with `--disable-color` no byte 0x1b is written unless the sources / file names contain one,
     also when `CLICOLOR_FORCE=1`; without the flag the output with the SGR sequences removed is
     the `--disable-color` output; JSON output does not depend on the colour settings at all;
  f  with allow-list L the JSON lines / human blocks are those of the run without `-A` minus
     the entries whose code is in L (every non-`E###` entry for "All"), in the same order, and
     errors are never removed; the same for `[[allow(L)]]` on a file (entries located in it).

One family (`known-D14a`) runs the program of finding D-14a (CRLF file, doc comment directly followed
by `unchecked enum`): until the D-09a repair (93bc41e) the enum's span started at the end of the
comment line and the human format panicked in `get_highlight`; kept as a regression case, its case
text contains the token `known-D14a` (matched by KNOWN_FINDINGS.txt should it crash again).

Replay: when ctx["replay"] / ctx["replay_payload"] is set everything is simply run again (the run
is deterministic for a given tier and seed, and cheap).

Standalone: `python3 c14.py [path-of-slicec]` prints a JSON summary.
"""

import concurrent.futures
import json
import os
import random
import re
import shutil
import subprocess
import sys
import tempfile
import time

LABEL = "proc C14"
LINTS = ["DuplicateFile", "Deprecated", "MalformedDocComment", "IncorrectDocComment", "BrokenDocLink"]
TOP_KEYS = ["message", "severity", "span", "notes", "error_code"]
PREFIX_RE = re.compile(r"^(error|warning) \[([A-Za-z0-9]+)\]: (.*)$", re.S)
ARROW_RE = re.compile(r"^ --> (.*):(\d+):(\d+)$", re.S)
GUTTER_RE = re.compile(r"^(\d+ +| +)\|")
SGR_RE = re.compile(rb"\x1b\[[0-9;]*m")
ERRCODE_RE = re.compile(r"^E\d+$")
TIMEOUT_S = 20
MAX_ITEMS_PER_PROGRAM = 8     # oracle items kept per program (the total is reported in the stats)
FUNKY = 'reason with \\"quotes\\" and \\\\ backslash and unicode é 漢 \U0001F600'
CONTROL = "tab\there \x1b[31mred\x1b[0m \x01 \x7f \u2028 ls \x0c ff \x0b vt \u0085 nel"


# ------------------------------------------------------------------------------------------------
# programs
# ------------------------------------------------------------------------------------------------

class Prog(object):
    def __init__(self, pid, family, files, args, attr=None, only=None, token=None, expect=None):
        self.pid = pid                # unique id
        self.family = family
        self.files = files            # list of (relative path, bytes)
        self.args = args              # file arguments as given on the command line (may repeat)
        self.attr = attr              # index into files: build the `[[allow(L)]] module M` variant of that file
        self.only = only              # None = all combinations; else list of (fmt, disable, allow) to run
        self.token = token            # extra token for the case text (known findings)
        self.expect = expect          # by construction: {"codes": {code: count}} of the run without -A, {"file_order": [names]}

    def has_esc(self):
        return any(b"\x1b" in c or "\x1b" in n for n, c in self.files) or any("\x1b" in a for a in self.args)

    def has_lf_name(self):
        return any("\n" in n for n, _ in self.files) or any("\n" in a for a in self.args)

    def describe(self):
        files = {n: c.decode("utf-8", "backslashreplace") for n, c in self.files}
        return "files=%s" % json.dumps(files, ensure_ascii=True, separators=(",", ":"), sort_keys=True)


def _layout(lines, eol="\n", tabs=False, final_eol=True):
    out = []
    for ln in lines:
        if tabs:
            n = 0
            while ln.startswith("    ", n * 4):
                n += 1
            ln = "\t" * n + ln[n * 4:]
        out.append(ln)
    text = eol.join(out) + (eol if final_eol else "")
    return text.encode("utf-8")


# Building blocks: each returns the lines of one or more definitions; `k` makes the identifiers unique.
def b_ok(k):
    return ["struct Ok%d { a: bool }" % k]


def b_redef(k):
    return ["struct R%d { a: bool }" % k, "struct R%d {" % k, "    b: bool", "}"]


def b_redef_param(k):
    return ["interface IR%d {" % k, "    op(a: bool,", "       a: bool)", "}"]


def b_dep(k, reason=FUNKY):
    head = '[deprecated("%s")]' % reason if reason is not None else "[deprecated]"
    return [head, "struct Old%d { a: bool }" % k, "struct New%d { o: Old%d }" % (k, k)]


def b_dep_many(k):
    return ["[deprecated]", "struct Od%d { a: bool }" % k, "interface ID%d {" % k,
            "    op(a: Od%d,        b: Od%d) -> Od%d" % (k, k, k), "}", "typealias TD%d = Sequence<Od%d>" % (k, k)]


def b_link(k):
    return ["/// See {@link Nope%d} here." % k, "struct L%d { a: bool }" % k]


def b_link_kinds(k):
    return ["/// {@link bool} {@link M} {@link LK%d}" % k, "struct LK%d { a: bool }" % k]


def b_param(k):
    return ["interface IP%d {" % k, "    /// Does it.", "    /// @param nope: x", "    ///    continued here",
            "    /// @returns: nothing", "    op(a: bool)", "}"]


def b_param_struct(k):
    return ["/// @param x: y", "struct PS%d {}" % k]


def b_mal(k):
    return ["/// {@link", "struct Mal%d { a: bool }" % k]


def b_mal_tag(k):
    return ["/// text", "/// @throws Foo: bar", "struct MT%d { a: bool }" % k]


def b_compact(k):
    return ["compact struct", "  C%d" % k, "{", "}"]


def b_enum_empty(k):
    return ["enum En%d : uint8 {" % k, "}"]


def b_enum_vals(k):
    return ["enum Big%d : uint8 { A = 300, B = 1, C = 1 }" % k]


def b_tag(k):
    return ["struct T%d { tag(1) a: bool }" % k]


def b_dictkey(k):
    return ["struct DK%d {" % k, "    c: Dictionary<float32,", "        bool>", "}"]


def b_undef(k):
    return ["struct U%d { a: Missing%d }" % (k, k)]


def b_syntax(k):
    return ["struct X%d { a: bool" % k]


def b_syntax_tag(k):
    return ["struct Y%d { a: tag(1) bool }" % k]


LINT_BLOCKS = [b_dep, b_dep_many, b_link, b_link_kinds, b_param, b_param_struct, b_mal, b_mal_tag]
VALID_ERR_BLOCKS = [b_compact, b_enum_empty, b_enum_vals, b_tag, b_dictkey]
EARLY_ERR_BLOCKS = [b_redef, b_redef_param, b_undef]
SYNTAX_BLOCKS = [b_syntax, b_syntax_tag]


def _file(blocks, k0=0, module="M", **layout):
    lines = ["module %s" % module]
    for i, b in enumerate(blocks):
        lines += b(k0 + i)
    return _layout(lines, **layout)


def curated_programs():
    P = []

    def add(pid, family, files, args=None, **kw):
        P.append(Prog(pid, family, files, args if args is not None else [n for n, _ in files], **kw))

    ok = b"module M\nstruct S { a: bool }\n"
    # --- no diagnostics
    add("clean-1", "clean", [("ok.slice", ok)])
    add("clean-2", "clean", [("a.slice", ok), ("b.slice", b"module M\nstruct T { s: S }\n")])
    add("clean-3", "clean", [("m.slice", b"module Only\n")])
    # --- syntax errors
    add("syntax-eof", "syntax", [("syn.slice", b"module M\nstruct S { a: bool ")])
    add("syntax-eof-nl", "syntax", [("syn.slice", b"module M\nstruct S { a: bool\n")])
    add("syntax-nomod", "syntax", [("nomod.slice", b"struct S { a: bool }\n")])
    add("syntax-string", "syntax", [("str.slice", b'module M\n[deprecated("line1\nline2")]\nstruct S { a: bool }\n')])
    add("syntax-token", "syntax", [("tok.slice", _file([b_ok, b_syntax_tag]))])
    add("syntax-two-files", "syntax", [("one.slice", _file([b_mal, b_ok])), ("two.slice", _file([b_syntax], k0=5))])
    add("syntax-both-files", "syntax", [("one.slice", _file([b_syntax_tag])), ("two.slice", _file([b_syntax], k0=5))])
    # --- errors without a span
    add("io-missing", "io", [("ok.slice", ok)], ["missing.slice", "ok.slice"])
    add("io-utf8", "io", [("bad.slice", b"module M\n// \xff\xfe\n"), ("ok.slice", ok)])
    add("io-two-missing", "io", [("ok.slice", ok)], ["no1.slice", "no2.slice", "no1.slice"])
    # --- redefinitions (notes with spans)
    add("redef-1", "redef", [("redef.slice", _file([b_redef]))])
    add("redef-cross", "redef", [("a.slice", ok), ("b.slice", b"module M\nstruct S { b: bool }\nstruct S {}\n")])
    add("redef-param", "redef", [("rp.slice", _file([b_redef_param, b_redef]))])
    add("undef-1", "redef", [("u.slice", _file([b_undef, b_ok, b_undef]))])
    # --- deprecated
    add("dep-funky", "deprecated", [("dep.slice", _file([b_dep]))], attr=0)
    add("dep-control", "deprecated", [("ctl.slice", _file([lambda k: b_dep(k, CONTROL)]))], attr=0)
    add("dep-noreason", "deprecated", [("dep.slice", _file([lambda k: b_dep(k, None), b_dep_many]))], attr=0)
    add("dep-cross", "deprecated", [("a.slice", b'module M\n[deprecated("x")] struct Old { a: bool }\n'),
                                    ("b.slice", b"module M\nstruct New { o: Old }\n")], attr=1)
    # --- doc comment lints
    add("doc-link", "doclint", [("doc.slice", _file([b_link, b_link_kinds]))], attr=0)
    add("doc-param", "doclint", [("doc.slice", _file([b_param, b_param_struct]))], attr=0)
    add("doc-mal", "doclint", [("doc.slice", _file([b_mal, b_mal_tag]))], attr=0)
    add("doc-all", "doclint", [("doc.slice", _file([b_link, b_param, b_mal, b_mal_tag, b_param_struct, b_dep]))], attr=0)
    # --- duplicate files
    add("dup-1", "dupfile", [("ok.slice", ok)], ["ok.slice", "ok.slice"])
    add("dup-dot", "dupfile", [("ok.slice", ok)], ["ok.slice", "./ok.slice", "ok.slice", "./ok.slice"])
    add("dup-dep", "dupfile", [("dep.slice", _file([b_dep, b_link]))], ["dep.slice", "dep.slice"], attr=0)
    add("dup-error", "dupfile", [("r.slice", _file([b_redef]))], ["r.slice", "r.slice", "r.slice"])
    # --- file names
    odd = "sp ace é漢\"q'.slice"
    add("name-odd", "names", [(odd, _file([b_dep, b_link]))], [odd, odd], attr=0)
    add("name-lf", "names", [("new\nline.slice", ok), ("redef.slice", b"module M\nstruct S { a: bool }\nstruct S { b: bool }\n")],
        ["new\nline.slice", "new\nline.slice", "redef.slice"])
    add("name-esc", "names", [("esc\x1b[31m.slice", _file([b_link]))], ["esc\x1b[31m.slice", "esc\x1b[31m.slice"])
    add("name-subdir", "names", [("sub dir/ü x.slice", _file([b_param, b_compact]))], attr=0)
    add("name-colon", "names", [("a:1:2.slice", _file([b_redef, b_ok])), ("back\\slash {}.slice", _file([b_link], k0=7))])
    add("name-jsonish", "names", [('{"message":"x"}.slice', _file([b_mal]))], ['{"message":"x"}.slice'] * 2)
    # --- layout: multi-line spans, tabs, CR/LF
    add("layout-multiline", "layout", [("ml.slice", _file([b_compact, b_dictkey]))])
    add("layout-tabs", "layout", [("tab.slice", _file([b_param, b_dep_many, b_dictkey], tabs=True))], attr=0)
    add("layout-crlf", "layout", [("crlf.slice", _file([b_redef, b_ok], eol="\r\n", tabs=True))])
    add("layout-crlf-lints", "layout", [("crlf.slice", _file([b_ok, b_dep, b_link, b_param], eol="\r\n"))], attr=0)
    add("layout-crlf-noeol", "layout", [("crlf.slice", _file([b_ok, b_enum_vals], eol="\r\n", final_eol=False))])
    add("layout-cr", "layout", [("cr.slice", b"module M\nstruct S { a: bool }\rstruct S { b: bool }\r")])
    add("layout-rows", "layout", [("rows.slice", _layout(["module M"] + ["// filler"] * 107 + b_enum_vals(1) + b_link(2) + b_compact(3)))], attr=0)
    add("layout-wide", "layout", [("wide.slice", ("module M\n/// 漢字 {@link \U0001F600é} \t{@link Nope}\nstruct W { a: bool }\n").encode("utf-8"))], attr=0)
    # --- mixtures
    add("mix-validators", "mix", [("mix.slice", _file([b_compact, b_param, b_enum_empty, b_enum_vals, b_tag, b_dictkey, b_link, b_dep]))], attr=0)
    add("mix-dup", "mix", [("a.slice", _file([b_dep, b_mal, b_tag])), ("b.slice", _file([b_link, b_enum_vals, b_param_struct], k0=10))],
        ["a.slice", "b.slice", "a.slice"], attr=1)
    add("mix-syntax-lint", "mix", [("a.slice", _file([b_mal, b_mal_tag, b_syntax]))], ["a.slice", "a.slice"])
    # --- volume and order: programs whose diagnostics are known by construction (g)
    many = b"module M\n[deprecated] struct Old {}\nstruct Big {\n" + b"".join(b"    f%d: Old\n" % i for i in range(150)) + b"}\n"
    add("volume-150-warnings", "volume", [("many.slice", many)], expect={"codes": {"Deprecated": 150}}, only=[("json", True, []), ("human", True, []), ("json", True, ["Deprecated"])])
    add("volume-150-warnings-then-error", "volume", [("many.slice", many + b"enum Empty : uint8 {}\n")],
        expect={"codes": {"Deprecated": 150, "E008": 1}}, only=[("json", True, []), ("human", True, []), ("json", True, ["Deprecated"]), ("human", True, ["All"])])
    add("volume-130-errors", "volume", [("errs.slice", b"module M\nstruct S {\n" + b"".join(b"    tag(-1) f%d: int32\n" % i for i in range(130)) + b"}\n")],
        expect={"min_total": 130}, only=[("json", True, []), ("human", True, [])])
    mal = lambda n, k0: b"module M\n" + b"".join(b"/// See {@linked X%d}.\nstruct W%d {}\n" % (k0 + i, k0 + i) for i in range(n))
    add("order-1-then-2", "order", [("a.slice", mal(1, 0)), ("b.slice", mal(2, 10))], expect={"codes": {"MalformedDocComment": 3}, "file_order": ["a.slice", "b.slice"]})
    add("order-2-then-1", "order", [("a.slice", mal(2, 0)), ("b.slice", mal(1, 10))], expect={"codes": {"MalformedDocComment": 3}, "file_order": ["a.slice", "b.slice"]})
    add("order-1-3-2-5", "order", [("a.slice", mal(1, 0)), ("b.slice", mal(3, 10)), ("c.slice", mal(2, 20)), ("d.slice", mal(5, 30))],
        expect={"codes": {"MalformedDocComment": 11}, "file_order": ["a.slice", "b.slice", "c.slice", "d.slice"]})
    add("order-0-4-1", "order", [("a.slice", ok), ("b.slice", mal(4, 10)), ("c.slice", mal(1, 20))],
        expect={"codes": {"MalformedDocComment": 5}, "file_order": ["b.slice", "c.slice"]})
    add("order-syntax-errors", "order", [("a.slice", b"module M\nstruct {\n"), ("b.slice", mal(3, 10) + b"struct {\n")],
        expect={"codes": {"MalformedDocComment": 3, "E002": 2}, "file_order": ["a.slice", "b.slice"]})
    # --- known crash D-14a (human format only; JSON is fine)
    d14a = b"module M\r\n/// doc\r\nunchecked enum E : string { A }\r\n"
    add("known-D14a", "known-D14a", [("d14a.slice", d14a)], only=[("human", True, []), ("json", True, [])], token="known-D14a")
    return P


def random_programs(rng, count):
    P = []
    for i in range(count):
        nfiles = rng.choice([1, 1, 1, 2, 3])
        shape = rng.choice(["lints", "lints", "lints+valid", "lints+valid", "lints+early", "lints+syntax", "all"])
        files = []
        k = 0
        for f in range(nfiles):
            pool = list(LINT_BLOCKS) + [b_ok]
            if shape in ("lints+valid", "all"):
                pool += VALID_ERR_BLOCKS * 2
            if shape in ("lints+early", "all") and f == nfiles - 1:
                pool += EARLY_ERR_BLOCKS
            n = rng.randint(1, 6)
            blocks = [rng.choice(pool) for _ in range(n)]
            if shape == "lints+syntax" and f == nfiles - 1:
                blocks.append(rng.choice(SYNTAX_BLOCKS))
            # None of the blocks puts a doc comment directly in front of a definition that is the subject of a
            # whole-definition error span, so the CRLF layouts stay clear of the known crash D-14a.
            eol = rng.choice(["\n", "\n", "\n", "\r\n"])
            name = rng.choice(["f%d.slice", "f %d.slice", "d%d/é %d.slice", "f'%d\".slice"])
            name = name.replace("%d", str(f))
            files.append((name, _file(blocks, k0=k, eol=eol, tabs=rng.random() < 0.3, final_eol=rng.random() < 0.85)))
            k += n + 1
        args = [n for n, _ in files]
        if rng.random() < 0.3:
            args.insert(rng.randint(0, len(args)), rng.choice(args))
        syntactically_valid = shape != "lints+syntax"
        attr = rng.randrange(nfiles) if syntactically_valid and rng.random() < 0.6 else None
        P.append(Prog("rand-%d" % i, "random-" + shape, files, args, attr=attr))
    return P


# ------------------------------------------------------------------------------------------------
# running and reading the output
# ------------------------------------------------------------------------------------------------

class Run(object):
    __slots__ = ("argv", "rc", "out", "err", "timeout", "forced")


def _pairs(pairs):
    return ("obj", pairs)


def _obj_keys(v):
    return [k for k, _ in v[1]]


def _is_obj(v):
    return isinstance(v, tuple) and len(v) == 2 and v[0] == "obj"


def _is_pos(v):
    return isinstance(v, int) and not isinstance(v, bool) and v >= 1


def check_span(v, where):
    """Returns (problem or None, (file,row,col) or None)."""
    if v is None:
        return None, None
    if not _is_obj(v) or sorted(_obj_keys(v)) != ["end", "file", "start"]:
        return "%s is neither null nor an object with exactly start,end,file" % where, None
    d = dict(v[1])
    for side in ("start", "end"):
        s = d[side]
        if not _is_obj(s) or sorted(_obj_keys(s)) != ["col", "row"]:
            return "%s.%s is not an object with exactly row,col" % (where, side), None
        sd = dict(s[1])
        if not _is_pos(sd["row"]) or not _is_pos(sd["col"]):
            return "%s.%s row/col are not integers >= 1" % (where, side), None
    if not isinstance(d["file"], str):
        return "%s.file is not a string" % where, None
    st = dict(d["start"][1])
    return None, (d["file"], st["row"], st["col"])


def read_json_stream(err_bytes):
    """Returns (problems, entries, raw_lines); an entry is dict(severity, code, message, loc, notes, lf)."""
    problems, entries = [], []
    try:
        text = err_bytes.decode("utf-8")
    except UnicodeDecodeError as e:
        return ["stderr is not valid UTF-8: %s" % e], [], []
    if text == "":
        return [], [], []
    if not text.endswith("\n"):
        problems.append("stderr does not end with a line feed")
    lines = text.split("\n")
    if lines[-1] == "":
        lines.pop()
    for i, line in enumerate(lines):
        if line.strip() == "":
            problems.append("blank line %d on the diagnostic stream" % (i + 1))
            continue
        try:
            v = json.loads(line, object_pairs_hook=_pairs)
        except ValueError as e:
            problems.append("line %d is not a self-contained JSON value (%s): %r" % (i + 1, e, line[:200]))
            continue
        if not _is_obj(v):
            problems.append("line %d is not a JSON object: %r" % (i + 1, line[:200]))
            continue
        if _obj_keys(v) != TOP_KEYS:
            problems.append("line %d has keys %r instead of %r" % (i + 1, _obj_keys(v), TOP_KEYS))
            continue
        d = dict(v[1])
        if not isinstance(d["message"], str):
            problems.append("line %d: message is not a string" % (i + 1))
            continue
        if d["severity"] not in ("error", "warning"):
            problems.append("line %d: severity %r" % (i + 1, d["severity"]))
            continue
        if not isinstance(d["error_code"], str) or d["error_code"] == "":
            problems.append("line %d: error_code %r" % (i + 1, d["error_code"]))
            continue
        p, loc = check_span(d["span"], "span")
        if p:
            problems.append("line %d: %s" % (i + 1, p))
            continue
        lf = "\n" in d["message"] or (loc is not None and "\n" in loc[0])
        if not isinstance(d["notes"], list):
            problems.append("line %d: notes is not a list" % (i + 1))
            continue
        bad = False
        note_locs = []
        for j, n in enumerate(d["notes"]):
            if not _is_obj(n) or sorted(_obj_keys(n)) != ["message", "span"] or not isinstance(dict(n[1])["message"], str):
                problems.append("line %d: note %d is not an object with exactly message (string) and span" % (i + 1, j))
                bad = True
                break
            p, nloc = check_span(dict(n[1])["span"], "notes[%d].span" % j)
            if p:
                problems.append("line %d: %s" % (i + 1, p))
                bad = True
                break
            note_locs.append(nloc)
            if "\n" in dict(n[1])["message"] or (nloc is not None and "\n" in nloc[0]):
                lf = True
        if bad:
            continue
        entries.append({"severity": d["severity"], "code": d["error_code"], "message": d["message"], "loc": loc,
                        "notes": len(d["notes"]), "lf": lf, "raw": line, "note_locs": note_locs})
    return problems, entries, lines


def split_human(err_bytes):
    """Splits the human stderr into blocks at the prefix lines.  Returns (problems, blocks); a block is a list of lines."""
    try:
        text = err_bytes.decode("utf-8")
    except UnicodeDecodeError as e:
        return ["stderr is not valid UTF-8: %s" % e], []
    if text == "":
        return [], []
    problems = []
    if not text.endswith("\n"):
        problems.append("stderr does not end with a line feed")
    lines = text.split("\n")
    if lines[-1] == "":
        lines.pop()
    blocks = []
    for ln in lines:
        if PREFIX_RE.match(ln):
            blocks.append([ln])
        elif not blocks:
            problems.append("text before the first diagnostic on stderr: %r" % ln[:120])
        else:
            blocks[-1].append(ln)
    return problems, blocks


def parse_block(block):
    """Structured reading of one human block (only valid when no message / file name contains a line feed).
    Returns (problem or None, (severity, code, message, loc, n_notes))."""
    m = PREFIX_RE.match(block[0])
    sev, code, msg = m.group(1), m.group(2), m.group(3)
    i = 1

    def snippet(i):
        loc = None
        if i < len(block) and block[i].startswith(" --> "):
            am = ARROW_RE.match(block[i])
            if not am:
                return "malformed location line %r" % block[i][:120], i, None
            loc = (am.group(1), int(am.group(2)), int(am.group(3)))
            i += 1
            n = 0
            while i < len(block) and GUTTER_RE.match(block[i]):
                i += 1
                n += 1
            if n < 2:
                return "location line without a snippet frame", i, None
        return None, i, loc

    p, i, loc = snippet(i)
    if p:
        return p, None
    notes = 0
    while i < len(block):
        if not block[i].startswith("note: "):
            return "unexpected line in a diagnostic block: %r" % block[i][:120], None
        notes += 1
        i += 1
        p, i, _ = snippet(i)
        if p:
            return p, None
    return None, (sev, code, msg, loc, notes)


def block_code(block):
    return PREFIX_RE.match(block[0]).group(2)


def block_file(block):
    """File of the main span of a block (None when the diagnostic has no span)."""
    if len(block) > 1 and block[1].startswith(" --> "):
        m = ARROW_RE.match(block[1])
        if m:
            return m.group(1)
    return None


def suppressed(code, allow):
    if ERRCODE_RE.match(code):
        return False
    return "All" in allow or code in allow


class Checker(object):
    def __init__(self, slicec, env, root):
        self.slicec = slicec
        self.root = root
        base = dict(env)
        for k in ("NO_COLOR", "CLICOLOR_FORCE", "CLICOLOR"):
            base.pop(k, None)
        self.env = base
        self.env_forced = dict(base, CLICOLOR_FORCE="1")

    # -- infrastructure ---------------------------------------------------------------------------
    def write(self, sub, files):
        d = os.path.join(self.root, sub)
        os.makedirs(d)
        for name, content in files:
            p = os.path.join(d, name)
            os.makedirs(os.path.dirname(p), exist_ok=True)
            with open(p, "wb") as f:
                f.write(content)
        return d

    def execute(self, cwd, args, fmt, disable, allow, forced=False, style=0):
        argv = list(args) + ["--diagnostic-format", fmt]
        if disable:
            argv.append("--disable-color")
        for j, a in enumerate(allow):
            form = (style + j) % 3
            argv += [["-A", a], ["--allow", a], ["--allow=" + a]][form]
        r = Run()
        r.argv, r.forced, r.timeout = argv, forced, False
        try:
            p = subprocess.run([self.slicec] + argv, cwd=cwd, env=self.env_forced if forced else self.env,
                               stdin=subprocess.DEVNULL, stdout=subprocess.PIPE, stderr=subprocess.PIPE, timeout=TIMEOUT_S)
            r.rc, r.out, r.err = p.returncode, p.stdout, p.stderr
        except subprocess.TimeoutExpired as e:
            r.rc, r.out, r.err, r.timeout = None, e.stdout or b"", e.stderr or b"", True
        return r

    # -- one program ------------------------------------------------------------------------------
    def check_program(self, prog, rng_style):
        """Returns dict(failures=[[case, reason]], runs=n, nontrivial=n, codes=set, skipped_d=n)."""
        res = {"failures": [], "runs": 0, "nontrivial": 0, "codes": set(), "skipped_d": 0, "sample": None,
               "coloured": 0, "attr_checked": 0, "failures_total": 0}
        cwd = self.write(prog.pid, prog.files)
        desc = prog.describe()

        def case(check, run, files_desc=desc, pid=prog.pid):
            tok = (" " + prog.token) if prog.token else ""
            env = " env=CLICOLOR_FORCE=1" if run is not None and run.forced else ""
            argv = json.dumps(run.argv, ensure_ascii=True, separators=(",", ":")) if run is not None else "[]"
            return "c14 check=%s%s prog=%s family=%s%s argv=%s %s" % (check, tok, pid, prog.family, env, argv, files_desc)

        def fail(check, run, reason, **kw):
            res["failures_total"] += 1
            if len(res["failures"]) >= MAX_ITEMS_PER_PROGRAM:
                return
            res["failures"].append([case(check, run, **kw).replace("\t", " "), reason.replace("\t", " ").replace("\n", "\\n")[:600]])

        def basic(run):
            """Check (a). Returns True when the streams are worth reading further."""
            res["runs"] += 1
            if run.timeout:
                fail("a", run, "no exit within %d s" % TIMEOUT_S)
                return False
            if run.rc < 0:
                fail("a", run, "killed by signal %d; stderr ends: %r" % (-run.rc, run.err[-200:]))
                return False
            if b"panicked at" in run.err:
                m = re.search(rb"panicked at ([^\n]*)\n([^\n]*)", run.err)
                fail("a", run, "panic, exit status %d: at %s %s" % (run.rc, m.group(1).decode("utf-8", "replace") if m else "?",
                                                                  m.group(2).decode("utf-8", "replace") if m else ""))
                return False
            if run.rc not in (0, 1):
                fail("a", run, "exit status %d; stderr ends: %r" % (run.rc, run.err[-200:]))
                return False
            return True

        def read_json(run):
            """Checks (b). Returns (entries, lines) or None."""
            if run.out != b"":
                fail("b", run, "JSON format but stdout is not empty: %r" % run.out[:200])
            problems, entries, lines = read_json_stream(run.err)
            for p in problems[:3]:
                fail("b", run, p)
            if problems:
                return None
            has_err = any(e["severity"] == "error" for e in entries)
            if (run.rc == 1) != has_err:
                fail("b", run, "exit status %d but %s error entries on the JSON stream" % (run.rc, "there are" if has_err else "no"))
            return entries, lines

        def read_human(run, lf):
            """Checks (c). Returns (blocks, parsed or None) or None."""
            problems, blocks = split_human(run.err)
            for p in problems[:3]:
                fail("c", run, p)
            if problems:
                return None
            e = sum(1 for b in blocks if b[0].startswith("error "))
            w = sum(1 for b in blocks if b[0].startswith("warning "))
            want = b""
            if w > 0:
                want += b"Warnings: Compilation generated %d warning(s)\n" % w
            if e > 0:
                want += b"Failed: Compilation failed with %d error(s)\n" % e
            if run.out != want:
                fail("c", run, "stderr shows %d warning(s) and %d error(s) but stdout is %r (expected %r)" % (w, e, run.out[:200], want))
            if (run.rc == 1) != (e > 0):
                fail("c", run, "exit status %d with %d error block(s)" % (run.rc, e))
            parsed = None
            if not lf:
                parsed = []
                for b in blocks:
                    p, t = parse_block(b)
                    if p:
                        fail("c", run, p)
                        parsed = None
                        break
                    parsed.append(t)
            return blocks, parsed

        def strip(b):
            return SGR_RE.sub(b"", b)

        has_esc = prog.has_esc()
        lf_name = prog.has_lf_name()

        # ---- restricted programs (known findings): only the listed runs, checks a-c
        if prog.only is not None:
            for fmt, disable, allow in prog.only:
                run = self.execute(cwd, prog.args, fmt, disable, allow)
                if not basic(run):
                    continue
                if fmt == "json":
                    r = read_json(run)
                    if r and r[0]:
                        res["nontrivial"] += 1
                        res["codes"].update(e["code"] for e in r[0])
                else:
                    r = read_human(run, lf_name)
                    if r and r[0]:
                        res["nontrivial"] += 1
            return res

        grid = {}    # (fmt, disable, tuple(allow)) -> (run, parsed)
        occurring = []
        allows = [[]]
        ai = -1
        while ai + 1 < len(allows):
            ai += 1
            allow = allows[ai]
            key_a = tuple(allow)
            j_entries = None
            lf = lf_name
            for fmt in ("json", "human"):
                for disable in (True, False):
                    run = self.execute(cwd, prog.args, fmt, disable, allow, style=rng_style + ai)
                    ok = basic(run)
                    parsed = None
                    if ok:
                        if fmt == "json":
                            parsed = read_json(run)
                            if parsed and disable:
                                j_entries = parsed[0]
                                lf = lf or any(e["lf"] for e in j_entries)
                            if parsed and parsed[0]:
                                res["nontrivial"] += 1
                                if res["sample"] is None:
                                    res["sample"] = case("-", run)
                        else:
                            parsed = read_human(run, lf)
                            if parsed and parsed[0]:
                                res["nontrivial"] += 1
                    grid[(fmt, disable, key_a)] = (run, parsed if ok else None)

            # ---- the run without -A decides the other allow-lists
            if ai == 0:
                bp0 = grid[("json", True, ())][1]
                if bp0:
                    for e in bp0[0]:
                        if not ERRCODE_RE.match(e["code"]) and e["code"] not in occurring:
                            occurring.append(e["code"])
                    res["codes"].update(e["code"] for e in bp0[0])
                allows += [["All"]] + [[c] for c in occurring]
                others = [c for c in LINTS if c not in occurring]
                if len(occurring) >= 2:
                    i = rng_style % len(occurring)
                    allows.append([occurring[i], occurring[(i + 1) % len(occurring)]])
                elif len(occurring) == 1:
                    allows.append([others[rng_style % len(others)], occurring[0]])
                else:
                    allows.append([others[rng_style % len(others)]])
                    allows.append([others[(rng_style + 1) % len(others)], others[(rng_style + 2) % len(others)]])

            # ---- (d) JSON vs human, colours disabled
            jr, jp = grid[("json", True, key_a)]
            hr, hp = grid[("human", True, key_a)]
            if jp is not None and hp is not None:
                if lf or hp[1] is None:
                    res["skipped_d"] += 1
                    if len(jp[0]) != len(hp[0]):
                        fail("d", hr, "JSON shows %d diagnostics, human format %d" % (len(jp[0]), len(hp[0])))
                else:
                    js = [(e["severity"], e["code"], e["message"], e["loc"], e["notes"]) for e in jp[0]]
                    if js != hp[1]:
                        k = next((i for i in range(min(len(js), len(hp[1]))) if js[i] != hp[1][i]), min(len(js), len(hp[1])))
                        fail("d", hr, "JSON and human format disagree at diagnostic %d: json %r human %r (lengths %d / %d)" % (
                            k, js[k] if k < len(js) else None, hp[1][k] if k < len(hp[1]) else None, len(js), len(hp[1])))

            # ---- (g) what is known by construction: how many diagnostics of which code, files in the order they were given
            if prog.expect and not allow and jp is not None:
                got_codes = {}
                for e in jp[0]:
                    got_codes[e["code"]] = got_codes.get(e["code"], 0) + 1
                want_codes = prog.expect.get("codes")
                if want_codes is not None and got_codes != want_codes:
                    fail("g", jr, "the program produces %r by construction, but %r were written" % (want_codes, got_codes))
                if len(jp[0]) < prog.expect.get("min_total", 0):
                    fail("g", jr, "the program produces at least %d diagnostics by construction, %d were written" % (prog.expect["min_total"], len(jp[0])))
                order = prog.expect.get("file_order")
                if order is not None:
                    seq = [e["loc"][0] for e in jp[0] if e["loc"]]
                    idx = [order.index(f) if f in order else -1 for f in seq]
                    if idx != sorted(idx):
                        fail("g", jr, "diagnostics are not written in the order they were recorded (files %r as given; written: %r)" % (order, seq))

            # ---- (e) colours
            for fmt in ("json", "human"):
                dr, dp = grid[(fmt, True, key_a)]
                pr, pp = grid[(fmt, False, key_a)]
                if dr.timeout or pr.timeout:
                    continue
                if not has_esc and (b"\x1b" in dr.out or b"\x1b" in dr.err):
                    fail("e", dr, "--disable-color but an escape byte is written (none in the sources or file names)")
                if has_esc:
                    same = strip(pr.out) == strip(dr.out) and strip(pr.err) == strip(dr.err) and pr.rc == dr.rc
                else:
                    same = strip(pr.out) == dr.out and strip(pr.err) == dr.err and pr.rc == dr.rc
                if not same:
                    fail("e", pr, "output without --disable-color, SGR sequences removed, differs from the --disable-color output: %r vs %r" % (
                        (strip(pr.out) + strip(pr.err))[:160], (dr.out + dr.err)[:160]))

            # ---- (f) suppression leaves no trace
            if allow:
                for fmt in ("json", "human"):
                    for disable in (True, False):
                        br, bp = grid[(fmt, disable, ())]
                        ar, ap = grid[(fmt, disable, key_a)]
                        if bp is None or ap is None:
                            continue
                        if fmt == "json":
                            want = [e["raw"] for e in bp[0] if not suppressed(e["code"], allow)]
                            got = ap[1]
                        else:
                            want = [b for b in bp[0] if not suppressed(block_code(b), allow)]
                            got = ap[0]
                        if want != got:
                            k = next((i for i in range(min(len(want), len(got))) if want[i] != got[i]), min(len(want), len(got)))
                            fail("f", ar, "with allow-list %r the %s output is not the output without -A minus the allowed lints: "
                                 "%d entries expected, %d seen, first difference at %d: expected %r, seen %r" % (
                                     allow, fmt, len(want), len(got), k, want[k] if k < len(want) else None, got[k] if k < len(got) else None))

        # ---- colours forced on through the environment (allow-list [])
        dj, djp = grid[("json", True, ())]
        dh, dhp = grid[("human", True, ())]
        if not dj.timeout and not dh.timeout:
            fj = self.execute(cwd, prog.args, "json", False, [], forced=True)
            if basic(fj):
                read_json(fj)
                if (fj.out, fj.err, fj.rc) != (dj.out, dj.err, dj.rc):
                    fail("e", fj, "JSON output changes when colours are forced on: %r vs %r" % (fj.err[:160], dj.err[:160]))
            fd = self.execute(cwd, prog.args, "human", True, [], forced=True)
            if basic(fd):
                if not has_esc and (b"\x1b" in fd.out or b"\x1b" in fd.err):
                    fail("e", fd, "--disable-color with CLICOLOR_FORCE=1 but an escape byte is written")
                if (fd.out, fd.err, fd.rc) != (dh.out, dh.err, dh.rc):
                    fail("e", fd, "--disable-color output depends on CLICOLOR_FORCE: %r vs %r" % ((fd.out + fd.err)[:160], (dh.out + dh.err)[:160]))
            fh = self.execute(cwd, prog.args, "human", False, [], forced=True)
            if basic(fh):
                if b"\x1b" in fh.err or b"\x1b" in fh.out:
                    res["coloured"] += 1
                if has_esc:
                    same = strip(fh.out) == strip(dh.out) and strip(fh.err) == strip(dh.err) and fh.rc == dh.rc
                else:
                    same = strip(fh.out) == dh.out and strip(fh.err) == dh.err and fh.rc == dh.rc
                if not same:
                    fail("e", fh, "coloured output with the SGR sequences removed differs from the --disable-color output: %r vs %r" % (
                        (strip(fh.out) + strip(fh.err))[:200], (dh.out + dh.err)[:200]))

        # ---- suppression through a file attribute
        if prog.attr is not None and djp is not None and dhp is not None:
            self.check_attr(prog, occurring, djp, dhp, rng_style, basic, read_json, read_human, fail, res, lf_name)
        return res

    def check_attr(self, prog, occurring, djp, dhp, rng_style, basic, read_json, read_human, fail, res, lf_name):
        name, content = prog.files[prog.attr]
        first, sep, rest = content.partition(b"\n")
        if not first.startswith(b"module ") or not sep:
            return
        # nothing of the base output may be located on line 1 (whose columns move)
        for e in djp[0]:
            for loc in [e["loc"]] + e["note_locs"]:
                if loc is not None and loc[0] == name and loc[1] == 1:
                    return
        if any(e["lf"] for e in djp[0]) or lf_name:
            return
        # `DuplicateFile` is a command-line-only lint: `[[allow(DuplicateFile)]]` is rejected with E027
        usable = [c for c in occurring if c != "DuplicateFile"]
        choices = [["All"]] + [[c] for c in usable]
        if len(usable) >= 2:
            choices.append(usable[:2])
            choices.append(usable[-2:][::-1])
        L = choices[rng_style % len(choices)]
        attr_line = b"".join(b"[[allow(%s)]]" % c.encode() for c in L) if rng_style % 2 else b"[[allow(%s)]]" % b", ".join(c.encode() for c in L)
        files = list(prog.files)
        files[prog.attr] = (name, attr_line + b" " + first + sep + rest)
        vid = prog.pid + "+attr"
        cwd = self.write(vid, files)
        vdesc = "files=%s" % json.dumps({n: c.decode("utf-8", "backslashreplace") for n, c in files}, ensure_ascii=True,
                                        separators=(",", ":"), sort_keys=True)

        def vfail(check, run, reason):
            fail(check, run, reason, files_desc=vdesc, pid=vid)

        n0 = len(res["failures"])
        jr = self.execute(cwd, prog.args, "json", True, [])
        hr = self.execute(cwd, prog.args, "human", True, [])
        okj, okh = basic(jr), basic(hr)
        # failures of a-c recorded by the shared helpers carry the base program's sources; patch them
        for item in res["failures"][n0:]:
            item[0] = item[0].replace("prog=%s " % prog.pid, "prog=%s " % vid).replace(prog.describe(), vdesc)
        if okj:
            p = read_json(jr)
            if p:
                want = [e["raw"] for e in djp[0] if not (suppressed(e["code"], L) and e["loc"] is not None and e["loc"][0] == name)]
                if want != p[1]:
                    vfail("f", jr, "with %s on file %r the JSON output is not the output of the plain program minus the lints located in that file: "
                          "expected %d lines, seen %d; expected %r seen %r" % (attr_line.decode(), name, len(want), len(p[1]), want[:3], p[1][:3]))
                res["attr_checked"] += 1
        if okh:
            p = read_human(hr, False)
            if p:
                want = [b for b in dhp[0] if not (suppressed(block_code(b), L) and block_file(b) == name)]
                if want != p[0]:
                    vfail("f", hr, "with %s on file %r the human output is not the output of the plain program minus the lints located in that file: "
                          "expected %d blocks, seen %d" % (attr_line.decode(), name, len(want), len(p[0])))
        for item in res["failures"][n0:]:
            item[0] = item[0].replace("prog=%s " % prog.pid, "prog=%s " % vid).replace(prog.describe(), vdesc)


# ------------------------------------------------------------------------------------------------
# entry point
# ------------------------------------------------------------------------------------------------

def run(ctx):
    t0 = time.time()
    res = {"label": LABEL, "diffs": [], "oracle": [], "model_cex": [], "stats": None, "wall_s": 0, "errors": []}
    slicec = ctx.get("slicec")
    if slicec is None or not os.path.exists(slicec):
        res["errors"].append("slicec binary not available")
        res["stats"] = {"evaluations": 0, "distinct_nontrivial": 0, "diffs": 0, "oracle_failures": 0, "families": {}, "samples": []}
        res["wall_s"] = round(time.time() - t0, 2)
        return res
    tier = ctx.get("tier", "quick")
    seed = int(ctx.get("seed", 0) or 0)
    rng = random.Random(seed * 1000003 + 14)
    programs = curated_programs() + random_programs(rng, 30 if tier != "thorough" else 650)
    styles = [rng.randrange(1 << 16) for _ in programs]

    root = tempfile.mkdtemp(prefix="c14-", dir="/var/tmp")
    runs = nontrivial = skipped_d = coloured = attr_checked = failures_total = 0
    families, codes, samples, sampled = {}, {}, [], set()
    try:
        chk = Checker(slicec, ctx.get("env") or dict(os.environ), root)
        workers = min(8, os.cpu_count() or 2)
        with concurrent.futures.ThreadPoolExecutor(max_workers=workers) as ex:
            futs = [ex.submit(chk.check_program, p, s) for p, s in zip(programs, styles)]
            for p, f in zip(programs, futs):
                try:
                    r = f.result()
                except Exception as e:  # noqa: BLE001
                    import traceback
                    res["errors"].append("program %s: checker crashed: %s %s" % (p.pid, e, traceback.format_exc()[-400:]))
                    continue
                runs += r["runs"]
                nontrivial += r["nontrivial"]
                skipped_d += r["skipped_d"]
                coloured += r["coloured"]
                attr_checked += r["attr_checked"]
                failures_total += r["failures_total"]
                families[p.family] = families.get(p.family, 0) + r["runs"]
                for c in r["codes"]:
                    codes[c] = codes.get(c, 0) + 1
                res["oracle"] += r["failures"]
                if r["sample"] and p.family not in sampled and len(samples) < 12:
                    sampled.add(p.family)
                    samples.append(r["sample"][:700])
    finally:
        shutil.rmtree(root, ignore_errors=True)
    res["stats"] = {"evaluations": runs, "distinct_nontrivial": nontrivial, "diffs": 0, "oracle_failures": len(res["oracle"]),
                    "families": families, "samples": samples, "programs": len(programs),
                    "programs_per_code": dict(sorted(codes.items())), "cross_format_skipped_line_feed": skipped_d,
                    "forced_colour_runs_with_escapes": coloured, "file_attribute_variants_checked": attr_checked,
                    "failed_checks_before_capping": failures_total}
    res["wall_s"] = round(time.time() - t0, 2)
    return res


if __name__ == "__main__":
    out = run({"slicec": sys.argv[1] if len(sys.argv) > 1 else "/repo/target/debug/slicec",
               "tier": sys.argv[2] if len(sys.argv) > 2 else "quick", "seed": int(sys.argv[3]) if len(sys.argv) > 3 else 1,
               "env": dict(os.environ)})
    summary = {"label": out["label"], "wall_s": out["wall_s"], "errors": out["errors"], "diffs": len(out["diffs"]),
               "model_cex": len(out["model_cex"]), "oracle_failures": len(out["oracle"]),
               "stats": {k: v for k, v in (out["stats"] or {}).items() if k != "samples"},
               "samples": [s[:200] for s in (out["stats"] or {}).get("samples", [])[:3]],
               "first_oracle_items": [[c[:900], r] for c, r in out["oracle"][:10]]}
    print(json.dumps(summary, indent=1, ensure_ascii=False))
