"""Process-level stream of C15 with the real `slicec` binary (implementation-side oracles, no model):

 (r) reproducibility: the same command line, run 4 times in fresh processes (fresh hash seeds), produces byte-identical
     stdout, stderr (JSON diagnostics), exit status, and byte-identical input for every generator (request AND arguments);
 (s) source / reference assignment: for a program whose files each carry lints, every assignment of the files to sources and
     `-R` references (including the one with no source at all), in two file orders, gives the same verdict and the same multiset of diagnostics
     (code, severity, message, file:row:col); only the split of the request changes;
 (sg) the same assignments with a capturing generator (accepted programs, one of them with a file that declares a module and
     nothing else): the request has the same length and, apart from the two sequence sizes, the same multiset of bytes in every assignment;
 (o) file order on the command line: the multiset of diagnostics and the per-file content of the request (each encoded file as a
     byte string, sources and references taken together) do not depend on the order of the source files.

Generators are one generic /bin/sh script that copies its stdin to `<name>.stdin` and answers with two empty sequences.
"""
import concurrent.futures
import itertools
import json
import os
import shutil
import subprocess
import tempfile
import time

LABEL = "proc C15 reruns"
GEN = "#!/bin/sh\ncat > \"$0.stdin\"\nprintf '\\000\\000'\n"

PROGRAMS = {
    "lints-in-every-file": {
        "types.slice": "module Demo\n[deprecated(\"use 'NewId' instead\")] struct OldId { value: int32 }\nstruct NewId { value: string }\n/// {@link Nope}\ncustom C\n",
        "service.slice": "module Demo\n/// Looks things up, see {@link Missing}.\ninterface Lookup { find(id: OldId) -> string }\n",
        "more.slice": "module Demo::Sub\n/// @param x: nothing\nstruct M { o: Demo::OldId }\ntypealias T = Sequence<Demo::OldId>\n",
    },
    "clean-three-modules": {
        "a.slice": "module A\nstruct S { x: int32, tag(1) y: string? }\nenum E : uint8 { X, Y = 7 }\n",
        "b.slice": "module B\ninterface I { op(s: A::S, e: A::E) -> (r: Sequence<A::S>, d: Dictionary<string, A::E>) }\n",
        "c.slice": "module A::C\ntypealias L = Sequence<A::S>\n[cs::attr(\"x\", y)] custom K\n",
    },
    "file-without-definitions": {
        "main.slice": "module Demo\nstruct Point { x: int32 y: int32 }\n",
        "platform.slice": "[[demo::note(\"platform-specific\")]]\nmodule Demo::Platform\n#if WINDOWS\nstruct Handle { value: uint64 }\n#endif\n",
        "empty.slice": "module Demo::Nothing\n",
    },
    "error-in-one-file": {
        "ok.slice": "module M\n/// {@link Gone}\nstruct Fine {}\n",
        "bad.slice": "module M\nstruct Broken { a: NoSuchType }\n[deprecated] struct D {}\nstruct U { d: D }\n",
    },
}
ARGS = "namespace=Demo.Generated,nullable=enable,visibility=internal,header=none,indent=4,line-ending=lf,zeta,alpha=1,alpha=2"


def run(ctx):
    t0 = time.time()
    exe = ctx["slicec"]
    tier = ctx["tier"]
    res = {"label": LABEL, "diffs": [], "oracle": [], "model_cex": [], "stats": None, "wall_s": 0, "errors": []}
    if not exe or not os.path.exists(exe):
        res["errors"].append("slicec binary missing")
        return res
    base = tempfile.mkdtemp(prefix="c15r-", dir="/var/tmp")
    counter = itertools.count()
    evaluations, families, nontrivial = 0, {}, set()

    def execute(files, sources, references, with_gen):
        """-> (rc, stdout, stderr, {generator: stdin bytes})"""
        work = os.path.join(base, "w%d" % next(counter))
        os.makedirs(work)
        try:
            for n, t in files.items():
                with open(os.path.join(work, n), "w", encoding="utf-8") as f:
                    f.write(t)
            argv = [exe, "--diagnostic-format", "json", "--disable-color"] + list(sources)
            for r in references:
                argv += ["-R", r]
            gens = []
            if with_gen:
                for g in ("g1", "g2"):
                    p = os.path.join(work, g)
                    with open(p, "w") as f:
                        f.write(GEN)
                    os.chmod(p, 0o755)
                    gens.append(g)
                argv += ["-G", "./g1," + ARGS, "-G", "./g2", "-O", "out"]
            else:
                argv += ["--dry-run"]
            p = subprocess.run(argv, cwd=work, stdin=subprocess.DEVNULL, stdout=subprocess.PIPE, stderr=subprocess.PIPE, timeout=30,
                               env={"PATH": os.environ.get("PATH", ""), "NO_COLOR": "1"})
            stdin = {}
            for g in gens:
                sp = os.path.join(work, g + ".stdin")
                if os.path.exists(sp):
                    stdin[g] = open(sp, "rb").read()
            return p.returncode, p.stdout, p.stderr, stdin
        finally:
            shutil.rmtree(work, ignore_errors=True)

    def diag_multiset(err):
        out = []
        for line in err.decode("utf-8", "replace").splitlines():
            try:
                d = json.loads(line)
            except ValueError:
                out.append(("unparsable", line[:80]))
                continue
            sp = d.get("span")
            loc = None if not sp else (sp.get("file"), sp.get("start", {}).get("row"), sp.get("start", {}).get("col"))
            out.append((d.get("severity"), d.get("error_code"), d.get("message"), json.dumps(loc)))
        return sorted(out)

    try:
        jobs = []
        with concurrent.futures.ThreadPoolExecutor(max_workers=12) as ex:
            for pname, files in PROGRAMS.items():
                names = list(files)
                # (r) byte-identical reruns, with generators (clean programs) and without
                for with_gen in (True, False):
                    futs = [ex.submit(execute, files, names, [], with_gen) for _ in range(6 if tier == "thorough" else 4)]
                    jobs.append(("r", pname, "gen" if with_gen else "dry", futs))
                # (s) every source / reference assignment, two orders
                assigns = []
                for order in (names, names[::-1]):
                    for mask in list(range(1, 2 ** len(order))) + [0]:  # 0: every file a reference
                        src = [n for i, n in enumerate(order) if mask >> i & 1]
                        ref = [n for i, n in enumerate(order) if not mask >> i & 1]
                        assigns.append((src, ref))
                futs = [ex.submit(execute, files, s, r, False) for (s, r) in assigns]
                jobs.append(("s", pname, assigns, futs))
                # (sg) the same assignments with a generator: the request carries the same files, only split differently
                if pname != "error-in-one-file":
                    futs = [ex.submit(execute, files, s, r, True) for (s, r) in assigns]
                    jobs.append(("sg", pname, assigns, futs))
                # (o) every order of the sources, with a generator
                perms = list(itertools.permutations(names))
                futs = [ex.submit(execute, files, list(p), [], True) for p in perms]
                jobs.append(("o", pname, perms, futs))
            for kind, pname, info, futs in jobs:
                results = [f.result() for f in futs]
                evaluations += len(results)
                families[kind] = families.get(kind, 0) + len(results)
                case = "rerun %s %s" % (kind, pname)
                nontrivial.add(case)
                if kind == "r":
                    first = results[0]
                    for k, r in enumerate(results[1:], 1):
                        if r != first:
                            what = [n for n, a, b in (("exit status", r[0], first[0]), ("stdout", r[1], first[1]), ("stderr", r[2], first[2]),
                                                      ("generator input", r[3], first[3])) if a != b]
                            res["oracle"].append([case + " " + info, "run %d of the identical command line differs from run 0 in: %s" % (k, ", ".join(what))])
                            break
                elif kind == "s":
                    base_d = (results[0][0], diag_multiset(results[0][2]))
                    for (src, ref), r in zip(info, results):
                        d = (r[0], diag_multiset(r[2]))
                        if d != base_d:
                            res["oracle"].append([case + " sources=%s references=%s" % (",".join(src), ",".join(ref)),
                                                  "exit status / diagnostics differ from the assignment sources=%s: %d vs %d diagnostics, exit %d vs %d; only here: %r" % (
                                                      ",".join(info[0][0]), len(d[1]), len(base_d[1]), d[0], base_d[0],
                                                      [x for x in d[1] if x not in base_d[1]][:2] + [x for x in base_d[1] if x not in d[1]][:2])])
                            break
                elif kind == "sg":
                    # every encoded file is a byte string that does not depend on where the file stands: the request of every
                    # assignment has the same length and the same multiset of bytes (files move between two sequences, nothing else)
                    def shape(r, src, ref):
                        req = r[3].get("g2")
                        if req is None:
                            return (r[0], None, None)
                        body = sorted(req)
                        for count in (len(src), len(ref)):          # the two sequence sizes (one byte each below 64 files)
                            if (count << 2) in body:
                                body.remove(count << 2)
                        return (r[0], len(req), body)
                    base_d = shape(results[0], *info[0])
                    for (src, ref), r in zip(info, results):
                        if shape(r, src, ref) != base_d:
                            res["oracle"].append([case + " sources=%s references=%s" % (",".join(src), ",".join(ref)),
                                                  "the generator request differs from the assignment sources=%s in more than the split: exit %s vs %s, %s vs %s bytes" % (
                                                      ",".join(info[0][0]), r[0], base_d[0], shape(r, src, ref)[1], base_d[1])])
                            break
                else:
                    base_d = (results[0][0], diag_multiset(results[0][2]), len(results[0][3].get("g1", b"")), results[0][3].get("g2") is not None)
                    for perm, r in zip(info, results):
                        d = (r[0], diag_multiset(r[2]), len(r[3].get("g1", b"")), r[3].get("g2") is not None)
                        if d != base_d:
                            res["oracle"].append([case + " order=%s" % ",".join(perm),
                                                  "exit status / diagnostics / size of the generator input differ from the order %s" % ",".join(info[0])])
                            break
    except subprocess.TimeoutExpired as e:
        res["oracle"].append(["rerun", "no exit within 30 s: %s" % e])
    finally:
        shutil.rmtree(base, ignore_errors=True)
    res["stats"] = {"evaluations": evaluations, "distinct_nontrivial": len(nontrivial), "families": families, "samples": list(sorted(nontrivial))[:3],
                    "rule": "binary reruns (byte-identical), all source/reference assignments and all source orders of three multi-file programs"}
    res["wall_s"] = round(time.time() - t0, 2)
    return res
