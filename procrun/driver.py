"""Process-level engine for C07 and C18: the real `slicec` binary against scripted fake generators.

Reads scenario lines from `drv gen C07|C18 <tier> <seed>` (format documented at the top of
lean/SlicecVerif/Drv/Driver.lean), materialises each scenario under a scratch directory

    <scratch>/src/   the Slice files named on the command line (as ../src/<name>)
    <scratch>/gen/   the fake generators (as ../gen/<name>) and their side files
    <scratch>/work/  the current directory of the compiler; the only place where files may appear

runs `slicec --diagnostic-format json …` with a 10 s watchdog, collects the observation and compares it
with the model's expected field (any of its `|`-separated alternatives). Independently of the model an
implementation-side oracle is evaluated on every run.

False-alarm discipline
  * Fake generators are symlinks to ONE generic /bin/sh script written before the first run (no executable
    is ever open for writing while scenarios run in parallel: no ETXTBSY); the behaviour is read from side
    files `<g>.conf`, `<g>.err`, `<g>.out`.
  * Every scripted generator creates `<g>.started` first and (except the `n` kind) copies ALL of stdin to
    `<g>.stdin` before it writes or exits, as the compiler requires of generators.
  * The `n` kind closes stdin unread. The compiler's write then either fails with EPIPE (the generator is
    reported) or fits the pipe buffer (exit code / reply decide): with exit code 1 both ways give the same
    observation; with exit code 0 the model lists both answers and either is accepted.
  * Diagnostics are compared by code (compilation: as a sorted multiset; generator block: in order, each
    must be an E001 whose message quotes the expected generator / file path). OS error texts are ignored.
  * Forwarded generator stderr is ignored (only lines that parse as JSON diagnostics count).
"""
import concurrent.futures
import json
import os
import shutil
import signal
import subprocess
import tempfile
import time

WATCHDOG_S = 10
MAX_REPORT = 200
OLD_MTIME = 978307200  # 2001-01-01

GENERIC = r"""#!/bin/sh
: > "$0.started"
. "$0.conf"
if [ "$READ" = 1 ]; then cat > "$0.stdin"; else exec 0<&-; fi
if [ -s "$0.err" ]; then cat "$0.err" >&2; fi
if [ -s "$0.out" ]; then cat "$0.out"; fi
if [ -n "$SIG" ]; then ulimit -c 0; kill -"$SIG" $$; sleep 5; fi
exit "$CODE"
"""


def unhex(s):
    return b"" if s == "-" else bytes.fromhex(s)


def hexf(bs):
    return bs.hex() if bs else "-"


def split_list(s, sep):
    return [] if s == "-" else s.split(sep)


class Scenario:
    def __init__(self, line):
        f = line.rstrip("\n").split("\t")
        if len(f) != 7 or f[0] != "run":
            raise ValueError("unknown case shape")
        self.line = line.rstrip("\n")
        self.fam = f[1]
        self.files = []
        for e in split_list(f[2], ";"):
            n, v = e.split("=")
            self.files.append((unhex(n).decode(), v))
        self.argv = [unhex(a).decode() for a in split_list(f[3], ",")]
        self.gens = []
        for e in split_list(f[4], ";"):
            n, suffix, beh = e.split(",")
            self.gens.append((unhex(n).decode(), unhex(suffix).decode(), beh.split(":")))
        mode, d, pre = f[5].split(",")
        self.mode = mode
        self.dir = unhex(d).decode()
        self.pre = []
        for e in split_list(pre, ";"):
            p, c = e.split("=")
            self.pre.append((unhex(p).decode(), unhex(c)))
        self.expected = f[6].split("|")


def materialise(sc, root, generic, plain):
    src, gen, work = (os.path.join(root, d) for d in ("src", "gen", "work"))
    for d in (src, gen, work):
        os.makedirs(d)
    argv_files = []
    for name, v in sc.files:
        if v == "@":
            os.symlink(name, os.path.join(src, name))          # a link to itself: stat fails with ELOOP, not ENOENT
        elif v not in ("!", "+"):
            with open(os.path.join(src, name), "wb") as fh:
                fh.write(unhex(v))
        argv_files.append("../src/" + name)
    g_args = []
    for name, suffix, beh in sc.gens:
        path = os.path.join(gen, name)
        kind = beh[0]
        if kind == "missing":
            pass
        elif kind == "noexec":
            os.symlink(plain, path)
        else:
            if kind == "x":
                read, code, sig, err, out = 1, beh[1], "", unhex(beh[2]), unhex(beh[3])
            elif kind == "s":
                read, code, sig, err, out = 1, "0", beh[1], unhex(beh[2]), unhex(beh[3])
            elif kind == "n":
                read, code, sig, err, out = 0, beh[1], "", b"", unhex(beh[2])
            else:
                raise ValueError("unknown behaviour " + kind)
            with open(path + ".conf", "w") as fh:
                fh.write("READ=%d\nCODE=%s\nSIG=%s\n" % (read, code, sig))
            if err:
                with open(path + ".err", "wb") as fh:
                    fh.write(err)
            if out:
                with open(path + ".out", "wb") as fh:
                    fh.write(out)
            os.symlink(generic, path)
        g_args += ["-G", "../gen/" + name + suffix]
    o_args = []
    if sc.mode != "a":
        o_args = ["-O", sc.dir]
        if sc.mode == "d":
            os.makedirs(os.path.join(work, sc.dir), exist_ok=True)
        elif sc.mode == "f":
            first = sc.dir.split("/")[0]
            with open(os.path.join(work, first), "wb") as fh:
                fh.write(b"a regular file, not a directory\n")
    before = {}
    for p, c in sc.pre:
        full = os.path.join(work, p)
        os.makedirs(os.path.dirname(full), exist_ok=True)
        with open(full, "wb") as fh:
            fh.write(c)
        os.utime(full, (OLD_MTIME, OLD_MTIME))
        st = os.stat(full)
        before[p] = (st.st_ino, st.st_mtime_ns)
    blocker = sc.dir.split("/")[0] if sc.mode == "f" else None
    return work, gen, ["--diagnostic-format", "json"] + sc.argv + argv_files + g_args + o_args, before, blocker


def list_files(work, blocker):
    out = {}
    for dirpath, _dirs, files in os.walk(work):
        for fn in files:
            full = os.path.join(dirpath, fn)
            rel = os.path.relpath(full, work)
            if blocker is not None and rel == blocker:
                continue
            if os.path.islink(full) or not os.path.isfile(full):
                out[rel] = None
                continue
            with open(full, "rb") as fh:
                out[rel] = fh.read()
    return out


def run_slicec(exe, argv, cwd, env):
    p = subprocess.Popen([exe] + argv, cwd=cwd, env=env, stdin=subprocess.DEVNULL, stdout=subprocess.PIPE,
                         stderr=subprocess.PIPE, start_new_session=True)
    try:
        out, err = p.communicate(timeout=WATCHDOG_S)
        hung = False
    except subprocess.TimeoutExpired:
        hung = True
        try:
            os.killpg(p.pid, signal.SIGKILL)
        except OSError:
            pass
        out, err = p.communicate()
    return p.returncode, out, err, hung


def parse_diags(err):
    diags = []
    for ln in err.decode("utf-8", "replace").splitlines():
        # forwarded generator stderr may precede a diagnostic on the same line (no trailing newline)
        k = ln.find('{"message":')
        if k < 0:
            continue
        ln = ln[k:].strip()
        try:
            d = json.loads(ln)
        except ValueError:
            continue
        if isinstance(d, dict) and "error_code" in d and "severity" in d:
            diags.append(d)
    return diags


def parse_expected(alt):
    d = {}
    for part in alt.split(";"):
        k, v = part.split("=", 1)
        d[k] = v
    return d


def compare(sc, exp, obs):
    """returns None when the observation matches this alternative, else a reason"""
    if str(obs["rc"]) != exp["exit"]:
        return "exit status %s, model %s" % (obs["rc"], exp["exit"])
    att = set(unhex(x).decode() for x in split_list(exp["att"], ","))
    for name, _suffix, beh in sc.gens:
        if beh[0] in ("missing", "noexec"):
            continue
        if (name in obs["started"]) != (name in att):
            return "generator %s %s, model says %s" % (name, "started" if name in obs["started"] else "not started",
                                                      "spawned" if name in att else "not spawned")
    # stdin: shared payload ++ own arguments
    exp_args = {}
    for e in split_list(exp["args"], ","):
        n, v = e.split("=")
        exp_args[unhex(n).decode()] = unhex(v)
    payloads = {}
    for name, _suffix, beh in sc.gens:
        if beh[0] not in ("x", "s"):
            continue
        got = obs["stdin"].get(name)
        if name not in exp_args:
            if got is not None:
                return "generator %s received a request, model says none" % name
            continue
        if got is None:
            return "generator %s left no stdin copy" % name
        suf = exp_args[name]
        if not got.endswith(suf):
            return "stdin of %s does not end with its Arguments encoding %s (tail %s)" % (name, hexf(suf), hexf(got[-len(suf) - 4:]))
        payloads[name] = got[:len(got) - len(suf)]
    if len(set(payloads.values())) > 1:
        return "generators received different requests: lengths %s" % {k: len(v) for k, v in payloads.items()}
    if any(len(v) == 0 for v in payloads.values()):
        return "a generator received an empty request"
    # diagnostics
    exp_cd = sorted(split_list(exp["cd"], ","))
    exp_gd = split_list(exp["gd"], ",")
    diags = obs["diags"]
    n_g = len(exp_gd)
    if len(diags) != len(exp_cd) + n_g:
        return "%d diagnostics printed %s, model %d + %d" % (len(diags), [d["error_code"] for d in diags], len(exp_cd), n_g)
    cpart = diags[:len(diags) - n_g]
    gpart = diags[len(diags) - n_g:]
    got_cd = sorted("%s:%s" % (d["severity"], d["error_code"]) for d in cpart)
    if got_cd != exp_cd:
        return "compilation diagnostics %s, model %s" % (got_cd, exp_cd)
    for d, e in zip(gpart, exp_gd):
        kind, subj = e.split(":")
        subj = unhex(subj).decode()
        if d["error_code"] != "E001" or d["severity"] != "error" or ("'" + subj + "'") not in d["message"]:
            return "generator-block diagnostic %s %r, model expects E001 naming %s (%s)" % (
                d["error_code"], d["message"][:80], subj, "run" if kind == "r" else "write")
    # files
    exp_files = {}
    for e in split_list(exp["files"], ","):
        p, c = e.split("=")
        exp_files[unhex(p).decode()] = unhex(c)
    if obs["files"] != exp_files:
        only_got = sorted(set(obs["files"]) - set(exp_files))
        only_exp = sorted(set(exp_files) - set(obs["files"]))
        differ = sorted(k for k in obs["files"] if k in exp_files and obs["files"][k] != exp_files[k])
        return "files differ: unexpected %s, missing %s, other content %s" % (only_got, only_exp, differ)
    for p in split_list(exp["kept"], ","):
        p = unhex(p).decode()
        if obs["after"].get(p) != obs["before"].get(p):
            return "file %s was present and identical but was rewritten (inode/mtime changed)" % p
    return None


def oracle(sc, obs):
    """the property's own predicates on the implementation's behaviour alone"""
    rc = obs["rc"]
    if obs["hung"]:
        return "slicec did not finish within %d s" % WATCHDOG_S
    if rc is None or rc < 0:
        return "slicec was killed by signal %s" % (-rc if rc is not None else "?")
    if b"panicked at" in obs["stderr_raw"]:
        return "slicec panicked: " + obs["stderr_raw"].decode("utf-8", "replace").split("panicked at", 1)[1][:120].strip()
    if rc not in (0, 1, 2):
        return "exit status %d" % rc
    errors = [d for d in obs["diags"] if d["severity"] == "error"]
    if rc == 0 and errors:
        return "exit status 0 although an error was printed (%s)" % errors[0]["error_code"]
    if rc == 1 and not errors:
        return "exit status 1 without any error diagnostic"
    names = [("../gen/" + n) for n, _s, _b in sc.gens]
    started = obs["started"]
    scripted = [n for n, _s, beh in sc.gens if beh[0] not in ("missing", "noexec")]
    dry = "--dry-run" in sc.argv
    compile_error = any(d["error_code"] != "E001" or d["span"] is not None or "../src/" in d["message"] for d in errors)
    if dry and started:
        return "--dry-run given but generator(s) %s ran" % sorted(started)
    if started and compile_error:
        return "generators ran although the compilation reported an error"
    if started and len(started) != len(scripted):
        return "only %s of the generators %s were started" % (sorted(started), scripted)
    if scripted and not started and not compile_error and not dry:
        return "the compilation was error-free and --dry-run absent, but no generator was started"
    if not started and obs["files"] != dict((p, c) for p, c in sc.pre):
        return "no generator ran but the files in the working directory changed"
    block_ran = bool(started) if scripted else (not compile_error and not dry)
    if block_ran:
        # every generator that certainly fails must be named by an error, and the exit status be 1
        for (n, _s, beh), path in zip(sc.gens, names):
            certain = (beh[0] in ("missing", "noexec", "s") or (beh[0] == "x" and (beh[1] != "0" or beh[2] != "-"))
                       or (beh[0] == "n" and beh[1] != "0"))
            if certain:
                if rc != 1:
                    return "generator %s failed but the exit status is %d" % (n, rc)
                if not any(("'" + path + "'") in d["message"] for d in errors):
                    return "generator %s failed but no error names it" % n
    return None


def run_one(sc, exe, scratch, idx, generic, plain, env):
    root = os.path.join(scratch, "s%06d" % idx)
    os.makedirs(root)
    try:
        work, gen, argv, before, blocker = materialise(sc, root, generic, plain)
        rc, out, err, hung = run_slicec(exe, argv, work, env)
        started, stdin = set(), {}
        for name, _suffix, _beh in sc.gens:
            if os.path.exists(os.path.join(gen, name + ".started")):
                started.add(name)
            sp = os.path.join(gen, name + ".stdin")
            if os.path.exists(sp):
                with open(sp, "rb") as fh:
                    stdin[name] = fh.read()
        files = list_files(work, blocker)
        after = {}
        for p in before:
            try:
                st = os.stat(os.path.join(work, p))
                after[p] = (st.st_ino, st.st_mtime_ns)
            except OSError:
                after[p] = None
        obs = {"rc": rc, "hung": hung, "stderr_raw": err, "diags": parse_diags(err), "started": started,
               "stdin": stdin, "files": files, "before": before, "after": after}
        orc = oracle(sc, obs)
        diff = None
        if not hung:
            reasons = []
            for alt in sc.expected:
                r = compare(sc, parse_expected(alt), obs)
                if r is None:
                    reasons = []
                    break
                reasons.append(r)
            if reasons:
                diff = " | ".join(reasons)
        nontrivial = bool(started) or bool(obs["diags"]) or bool(sc.gens)
        return diff, orc, nontrivial
    finally:
        shutil.rmtree(root, ignore_errors=True)


def run(ctx, prop):
    t0 = time.time()
    res = {"label": "proc " + prop, "diffs": [], "oracle": [], "model_cex": [], "stats": None, "wall_s": 0, "errors": []}
    if ctx.get("replay"):
        lines = [c for c in ctx.get("replay_payload", {}).get("cases", []) if c.startswith("run\t")]
    else:
        if not ctx.get("drv"):
            res["errors"].append("no driver available")
            return res
        p = subprocess.run([ctx["drv"], "gen", prop, ctx["tier"], str(ctx["seed"])], stdout=subprocess.PIPE,
                           stderr=subprocess.PIPE, env=ctx.get("env"))
        if p.returncode != 0:
            res["errors"].append("driver exited with status %s: %s" % (p.returncode, p.stderr.decode("utf-8", "replace")[-300:]))
            return res
        lines = [ln for ln in p.stdout.decode("utf-8").splitlines() if ln]
    exe = ctx.get("slicec")
    if not exe:
        res["errors"].append("no slicec binary available")
        return res
    scenarios = []
    for ln in lines:
        try:
            scenarios.append(Scenario(ln))
        except Exception as e:  # noqa: BLE001
            res["diffs"].append([ln.replace("\t", " "), "unparsable scenario line: %s" % e])
    scratch = tempfile.mkdtemp(prefix="slicec-%s-" % prop.lower(), dir="/var/tmp")
    env = dict(ctx.get("env") or os.environ)
    env.pop("RUST_BACKTRACE", None)
    env["NO_COLOR"] = "1"
    families, samples, distinct = {}, {}, set()
    try:
        generic = os.path.join(scratch, "generic-generator.sh")
        with open(generic, "w") as fh:
            fh.write(GENERIC)
        os.chmod(generic, 0o755)
        plain = os.path.join(scratch, "not-executable")
        with open(plain, "w") as fh:
            fh.write(GENERIC)
        os.chmod(plain, 0o644)
        workers = min(16, (os.cpu_count() or 4))
        with concurrent.futures.ThreadPoolExecutor(max_workers=workers) as pool:
            futs = [pool.submit(run_one, sc, exe, scratch, i, generic, plain, env) for i, sc in enumerate(scenarios)]
            for sc, fut in zip(scenarios, futs):
                case = sc.line.replace("\t", " ")
                fam = sc.fam.split("/")[0]
                families[fam] = families.get(fam, 0) + 1
                if len(samples.setdefault(fam, [])) < 2:
                    samples[fam].append(case[:400])
                try:
                    diff, orc, nontrivial = fut.result()
                except Exception as e:  # noqa: BLE001
                    res["errors"].append("scenario crashed the runner: %s :: %s" % (e, case[:200]))
                    continue
                if nontrivial:
                    distinct.add(sc.line)
                if diff and len(res["diffs"]) < MAX_REPORT:
                    res["diffs"].append([case, diff])
                if orc and len(res["oracle"]) < MAX_REPORT:
                    res["oracle"].append([case, orc])
    finally:
        shutil.rmtree(scratch, ignore_errors=True)
    res["stats"] = {"evaluations": len(scenarios), "distinct_nontrivial": len(distinct), "families": families,
                    "samples": [s for v in samples.values() for s in v], "diffs": len(res["diffs"]),
                    "oracle_failures": len(res["oracle"])}
    res["wall_s"] = round(time.time() - t0, 2)
    return res


def run_c07(ctx):
    return run(ctx, "C07")


def run_c18(ctx):
    return run(ctx, "C18")


def run_c11(ctx):
    """C11, compiler half: malformed generator replies through the real binary (scenarios from `drv gen C11p`)"""
    return run(ctx, "C11p")
