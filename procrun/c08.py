"""Process-level stream of property C08 with the REAL `slicec` binary and a capturing generator.

Cases come from the Lean driver (`drv gen C08p <tier> <seed>`), one per line, tab-separated:

    bin <family> <refs: i.j | -> <args: hexkey:hexvalue,... | -> <files: hex|hex...> <expected>

For every case the files are written as `f0.slice`, `f1.slice`, ... into a fresh scratch directory (below
`tempfile.mkdtemp(dir="/var/tmp")`, removed at the end) and the binary is run there as

    slicec f<sources...>.slice -R f<ref>.slice ... --generator=<scratch>/capture.py[,key=value...]

`capture.py` copies its whole standard input to `stdin.bin` and answers with the empty reply (`00 00`: no generated
file, no diagnostic).  The captured bytes are compared BYTE FOR BYTE with the model's
`encodeRequest (convert P) ++ encodeArguments args` (hex in the last field): a difference is a `diffs` item.
Paths travel as given on the command line (relative names); the compiler lists sources before references, each in
command-line order, which is the order the driver used for the model.

Implementation-side oracle (`oracle` items): the binary exits by itself with status 0, writes nothing that looks like a
panic, and the generator was started exactly once.  Cases of a family whose name starts with `known-` carry the
expectation the PROPERTY demands (see KNOWN_FINDINGS.txt).

Standalone: `python3 c08.py <drv> <slicec> [tier] [seed]` prints a JSON summary.
"""

import binascii
import concurrent.futures
import json
import os
import shutil
import subprocess
import sys
import tempfile
import time

LABEL = "proc C08"
TIMEOUT_S = 30

CAPTURE = """#!/usr/bin/env python3
import os, sys
here = os.path.dirname(os.path.abspath(__file__))
data = sys.stdin.buffer.read()
with open(os.path.join(here, "stdin.bin"), "ab") as f:
    f.write(data)
with open(os.path.join(here, "starts"), "a") as f:
    f.write("x")
sys.stdout.buffer.write(bytes([0, 0]))
sys.stdout.buffer.flush()
"""


def unhex(h):
    return b"" if h in ("-", "") else binascii.unhexlify(h)


def first_diff(a, b):
    n = min(len(a), len(b))
    i = 0
    while i < n and a[i] == b[i]:
        i += 1
    return i


def run_case(slicec, root, idx, line):
    f = line.rstrip("\n").split("\t")
    case_text = " ".join(f[:-1])[:6000]
    if len(f) != 6 or f[0] != "bin":
        return case_text, "unknown case shape", None, False
    _, fam, refs_s, args_s, files_s, expected = f
    refs = [] if refs_s == "-" else [int(x) for x in refs_s.split(".")]
    texts = [unhex(h) for h in files_s.split("|")]
    d = os.path.join(root, "c%d" % idx)
    os.makedirs(d)
    try:
        for i, t in enumerate(texts):
            with open(os.path.join(d, "f%d.slice" % i), "wb") as fh:
                fh.write(t)
        gen = os.path.join(d, "capture.py")
        with open(gen, "w") as fh:
            fh.write(CAPTURE)
        os.chmod(gen, 0o755)
        spec = gen
        if args_s != "-":
            for kv in args_s.split(","):
                k, _, v = kv.partition(":")
                k, v = unhex(k).decode("utf-8"), unhex(v).decode("utf-8")
                spec += "," + k + ("=" + v if v != "" else "")
        argv = [slicec] + ["f%d.slice" % i for i in range(len(texts)) if i not in refs]
        for i in refs:
            argv += ["-R", "f%d.slice" % i]
        argv.append("--generator=" + spec)
        try:
            p = subprocess.run(argv, cwd=d, stdout=subprocess.PIPE, stderr=subprocess.PIPE, timeout=TIMEOUT_S)
        except subprocess.TimeoutExpired:
            return case_text, None, "no exit within %d s" % TIMEOUT_S, True
        oracle = None
        if p.returncode != 0:
            oracle = "exit status %s; stderr: %s" % (p.returncode, p.stderr.decode("utf-8", "replace")[-300:].replace("\n", " | "))
        elif b"panicked" in p.stderr:
            oracle = "panic message on stderr: %s" % p.stderr.decode("utf-8", "replace")[-300:].replace("\n", " | ")
        starts = 0
        if os.path.exists(os.path.join(d, "starts")):
            starts = os.path.getsize(os.path.join(d, "starts"))
        if oracle is None and starts != 1:
            oracle = "the generator was started %d times" % starts
        got = b""
        if os.path.exists(os.path.join(d, "stdin.bin")):
            got = open(os.path.join(d, "stdin.bin"), "rb").read()
        diff = None
        if expected in ("panic", "refused"):
            if starts != 0:
                diff = "model=%s impl=request of %d bytes" % (expected, len(got))
        else:
            want = unhex(expected)
            if got != want:
                i = first_diff(got, want)
                diff = "first difference at byte %d of %d/%d: model=...%s... impl=...%s..." % (
                    i, len(want), len(got), binascii.hexlify(want[max(0, i - 16):i + 24]).decode(),
                    binascii.hexlify(got[max(0, i - 16):i + 24]).decode())
        return case_text, diff, oracle, len(got) > 40
    finally:
        shutil.rmtree(d, ignore_errors=True)


def run(ctx):
    t0 = time.time()
    res = {"label": LABEL, "diffs": [], "oracle": [], "model_cex": [], "stats": None, "wall_s": 0, "errors": []}
    drv, slicec = ctx.get("drv"), ctx.get("slicec")
    if not drv or not slicec:
        res["errors"].append("driver or slicec binary missing")
        return res
    if ctx.get("replay_payload"):
        lines = [c for c in ctx["replay_payload"].get("cases", []) if c.startswith("bin\t")]
    else:
        p = subprocess.run([drv, "gen", "C08p", ctx.get("tier", "quick"), str(ctx.get("seed", 1))], stdout=subprocess.PIPE, stderr=subprocess.PIPE)
        if p.returncode != 0:
            res["errors"].append("driver exited with status %s: %s" % (p.returncode, p.stderr.decode("utf-8", "replace")[-300:]))
            return res
        lines = [l for l in p.stdout.decode("utf-8").split("\n") if l]
    root = tempfile.mkdtemp(prefix="verif-c08-", dir="/var/tmp")
    families, samples, distinct = {}, [], set()
    try:
        with concurrent.futures.ThreadPoolExecutor(max_workers=min(8, (os.cpu_count() or 2))) as ex:
            futs = [ex.submit(run_case, slicec, root, i, l) for i, l in enumerate(lines)]
            for l, fu in zip(lines, futs):
                case_text, diff, oracle, nontrivial = fu.result()
                fam = (l.split("\t") + ["?", "?"])[1]
                families[fam] = families.get(fam, 0) + 1
                if len(samples) < 6:
                    samples.append(case_text[:400])
                if nontrivial:
                    distinct.add(hash(case_text))
                if diff:
                    res["diffs"].append([case_text, diff])
                if oracle:
                    res["oracle"].append([case_text, oracle])
    finally:
        shutil.rmtree(root, ignore_errors=True)
    res["stats"] = {"evaluations": len(lines), "diffs": len(res["diffs"]), "oracle_failures": len(res["oracle"]),
                    "distinct_nontrivial": len(distinct), "families": families, "samples": samples}
    res["wall_s"] = round(time.time() - t0, 2)
    return res


if __name__ == "__main__":
    out = run({"drv": sys.argv[1], "slicec": sys.argv[2], "tier": sys.argv[3] if len(sys.argv) > 3 else "quick",
               "seed": int(sys.argv[4]) if len(sys.argv) > 4 else 1})
    out["diffs"] = out["diffs"][:5]
    out["oracle"] = out["oracle"][:5]
    print(json.dumps(out, indent=1, ensure_ascii=False)[:6000])
