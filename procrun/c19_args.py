"""Process-level stream of C19: the arguments of every `-G` option reach *their* generator unchanged.

Cases come from `drv gen C19g <tier> <seed>`: `gens <fam> <hex spec|hex spec|…> <ok <hex path> <hex k>=<hex v>;…|…>` — 1..4
generator specifications whose paths are the scratch executables g1..g4 (one generic /bin/sh script that copies its stdin
to `<name>.stdin.<pid>` and answers with two empty sequences) and whose expectation is the model's parse of each
specification (`pluginParser`, the function the C19 theorems are about). The real binary is run once per case in a
scratch directory with one clean source file; for every generator the captured stdin must be
`<request> ++ encode(Arguments = the model's key/value list, in order)`, with the same `<request>` for all generators of
the run (which is also the request of a run without any arguments).
"""
import concurrent.futures
import itertools
import os
import shutil
import subprocess
import tempfile
import time

LABEL = "proc C19 arguments"
GEN = "#!/bin/sh\ncat > \"$0.stdin.$$\"\nprintf '\\000\\000'\n"          # one copy per process: the same path may be given twice
SRC = "module M\nstruct S { a: bool }\n"


def unhex(h):
    return b"" if h in ("-", "") else bytes.fromhex(h)


def enc_size(n):
    if n < 64:
        return bytes([n << 2])
    if n < 16384:
        return ((n << 2) | 1).to_bytes(2, "little")
    if n < 2 ** 30:
        return ((n << 2) | 2).to_bytes(4, "little")
    return ((n << 2) | 3).to_bytes(8, "little")


def enc_args(args):
    out = enc_size(len(args))
    for k, v in args:
        out += enc_size(len(k)) + k + enc_size(len(v)) + v
    return out


def parse_expected(exp):
    """-> list of (path bytes, [(k, v)]) or None when the model rejects the command line"""
    if exp == "reject":
        return None
    res = []
    for part in exp.split("|"):
        f = part.split(" ")
        assert f[0] == "ok", part
        args = []
        if f[2] != "-":
            for kv in f[2].split(";"):
                k, v = kv.split("=")
                args.append((unhex(k), unhex(v)))
        res.append((unhex(f[1]), args))
    return res


def run_one(exe, base, idx, specs, expected):
    work = os.path.join(base, "c%d" % idx)
    os.makedirs(work)
    try:
        with open(os.path.join(work, "a.slice"), "w") as f:
            f.write(SRC)
        for j in range(1, 5):
            g = os.path.join(work, "g%d" % j)
            with open(g, "w") as f:
                f.write(GEN)
            os.chmod(g, 0o755)
        argv = [exe, "a.slice"]
        for s in specs:
            argv.append(b"--generator=" + s)
        p = subprocess.run(argv, cwd=work, stdin=subprocess.DEVNULL, stdout=subprocess.PIPE, stderr=subprocess.PIPE, timeout=20,
                           env={"PATH": os.environ.get("PATH", ""), "NO_COLOR": "1"})
        if expected is None:
            if p.returncode != 2:
                return "diff", "the model rejects the command line, slicec exits %d" % p.returncode
            return "ok", None
        if p.returncode != 0:
            return "diff", "slicec exits %d: %s" % (p.returncode, p.stderr.decode("utf-8", "replace")[:200])
        payloads = []
        by_name = {}
        for (path, args) in expected:
            by_name.setdefault(os.path.basename(path.decode("utf-8", "replace")), []).append(enc_args(args))
        for name, sufs in by_name.items():
            copies = [open(os.path.join(work, f), "rb").read() for f in sorted(os.listdir(work)) if f.startswith(name + ".stdin.")]
            if len(copies) != len(sufs):
                return ("diff" if not copies else "oracle"), "generator %s was started %d time(s), the command line names it %d time(s)" % (name, len(copies), len(sufs))
            match = None
            for perm in itertools.permutations(copies):
                if all(c.endswith(sf) for c, sf in zip(perm, sufs)):
                    match = perm
                    break
            if match is None:
                return "oracle", "generator %s did not receive its own arguments unchanged: expected tails %s, got tails %s" % (
                    name, [sf.hex() for sf in sufs], [c[-max(len(sf) for sf in sufs) - 8:].hex() for c in copies])
            payloads += [c[:len(c) - len(sf)] for c, sf in zip(match, sufs)]
        if len(set(payloads)) > 1:
            return "oracle", "the generators of one run received different requests in front of their arguments: lengths %s" % [len(x) for x in payloads]
        return "ok", payloads[0] if payloads else None
    except subprocess.TimeoutExpired:
        return "oracle", "no exit within 20 s"
    finally:
        shutil.rmtree(work, ignore_errors=True)


def run(ctx):
    t0 = time.time()
    exe, drv, tier, seed = ctx["slicec"], ctx["drv"], ctx["tier"], ctx["seed"]
    res = {"label": LABEL, "diffs": [], "oracle": [], "model_cex": [], "stats": None, "wall_s": 0, "errors": []}
    if not exe or not os.path.exists(exe):
        res["errors"].append("slicec binary missing")
        return res
    gen = subprocess.run([drv, "gen", "C19g", tier, str(seed)], stdout=subprocess.PIPE, stderr=subprocess.PIPE)
    if gen.returncode != 0:
        res["errors"].append("drv gen C19g failed: " + gen.stderr.decode("utf-8", "replace")[:300])
        return res
    cases = []
    for line in gen.stdout.decode("utf-8").splitlines():
        f = line.split("\t")
        if len(f) == 4 and f[0] == "gens":
            cases.append((line, [unhex(x) for x in f[2].split("|")], parse_expected(f[3])))
    # an argument or path with a NUL byte cannot be passed through execve at all: not a case of this stream
    cases = [c for c in cases if all(b"\x00" not in s for s in c[1])]
    base = tempfile.mkdtemp(prefix="c19g-", dir="/var/tmp")
    families, nontrivial, requests = {}, set(), set()
    try:
        with concurrent.futures.ThreadPoolExecutor(max_workers=12) as ex:
            futs = {ex.submit(run_one, exe, base, i, c[1], c[2]): c for i, c in enumerate(cases)}
            for fut in concurrent.futures.as_completed(futs):
                line, specs, expected = futs[fut]
                kind, info = fut.result()
                fam = "rejected" if expected is None else "%d-generators" % len(specs)
                families[fam] = families.get(fam, 0) + 1
                if expected is not None and any(a for (_, a) in expected):
                    nontrivial.add(line)
                if kind == "diff":
                    res["diffs"].append([line.replace("\t", " "), info])
                elif kind == "oracle":
                    res["oracle"].append([line.replace("\t", " "), info])
                elif info is not None:
                    requests.add(info)
        if len(requests) > 1:
            res["oracle"].append(["all cases", "the request in front of the arguments differs between runs of the same source file: %d different requests" % len(requests)])
    finally:
        shutil.rmtree(base, ignore_errors=True)
    res["stats"] = {"evaluations": len(cases), "distinct_nontrivial": len(nontrivial), "families": families, "samples": [c[0][:300] for c in cases[:3]],
                    "rule": "binary runs with 1-4 --generator options; each generator's captured stdin = common request ++ encoding of the model's parse of its own specification"}
    res["wall_s"] = round(time.time() - t0, 2)
    return res
