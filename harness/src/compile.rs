//! Engine `compile`: runs `slicec::compile_from_strings` on model-generated programs and renders canonical
//! projections of the result (AST structure, spans, bindings, diagnostics, visitor events, …).
//! Element paths (`d0.f1.t.e` …) are the ones the Lean printer assigns (Model/Print.lean).
//!
//! case line: compile <fam> <projection> <options> <files: hex|hex|…> <expected>
//! options:   `-` or a `;`-separated list of `D=<symbol>`, `A=<lint>`, `ref=<index>` (file is a reference file)

use crate::codec::CaseResult;
use crate::dynval::{hex, unhex};
use slicec::compilation_state::CompilationState;
use slicec::diagnostics::{Diagnostic, DiagnosticLevel};
use slicec::grammar::attributes::*;
use slicec::grammar::*;
use slicec::slice_file::{SliceFile, Span};
use slicec::slice_options::SliceOptions;
use slicec::visitor::Visitor;
use std::panic::{catch_unwind, AssertUnwindSafe};

pub fn hs(s: &str) -> String {
    if s.is_empty() { "-".to_string() } else { hex(s.as_bytes()) }
}

pub struct Compiled {
    pub state: CompilationState,
    pub options: SliceOptions,
}

pub fn parse_options(spec: &str) -> (SliceOptions, Vec<usize>) {
    let mut o = SliceOptions::default();
    let mut refs = vec![];
    if spec != "-" {
        for item in spec.split(';') {
            if let Some(s) = item.strip_prefix("D=") { o.defined_symbols.push(s.to_string()); }
            else if let Some(s) = item.strip_prefix("A=") { o.allowed_lints.push(s.to_string()); }
            else if let Some(s) = item.strip_prefix("ref=") { if let Ok(i) = s.parse() { refs.push(i); } }
        }
    }
    (o, refs)
}

pub fn compile(files_hex: &str, options: &str) -> Option<Compiled> {
    let texts: Option<Vec<String>> = files_hex.split('|').map(|h| unhex(h).and_then(|b| String::from_utf8(b).ok())).collect();
    let texts = texts?;
    let (opts, _refs) = parse_options(options);
    let refs: Vec<&str> = texts.iter().map(|s| s.as_str()).collect();
    let state = slicec::compile_from_strings(&refs, Some(&opts));
    Some(Compiled { state, options: opts })
}

pub fn span4(s: &Span) -> String { format!("{}:{}:{}:{}", s.start.row, s.start.col, s.end.row, s.end.col) }

// ------------------------------------------------------------------------------------------------
// attributes
// ------------------------------------------------------------------------------------------------

/// (directive, args) in a canonical form: parsed kinds are rendered from their fields
pub fn attr_parts(a: &Attribute) -> (String, Vec<String>) {
    if let Some(u) = a.downcast::<Unparsed>() { return (u.directive.clone(), u.args.clone()); }
    if let Some(x) = a.downcast::<Allow>() { return ("allow".into(), x.allowed_lints.clone()); }
    if let Some(x) = a.downcast::<Deprecated>() { return ("deprecated".into(), x.reason.iter().cloned().collect()); }
    if let Some(x) = a.downcast::<Compress>() {
        let mut v = vec![]; if x.compress_args { v.push("Args".to_string()); } if x.compress_return { v.push("Return".to_string()); }
        return ("compress".into(), v);
    }
    if let Some(x) = a.downcast::<SlicedFormat>() {
        let mut v = vec![]; if x.sliced_args { v.push("Args".to_string()); } if x.sliced_return { v.push("Return".to_string()); }
        return ("slicedFormat".into(), v);
    }
    if a.downcast::<Oneway>().is_some() { return ("oneway".into(), vec![]); }
    (a.kind.directive().to_string(), vec!["?".into()])
}

fn attrs_s(attrs: &[&Attribute]) -> String {
    let v: Vec<String> = attrs.iter().map(|a| { let (d, args) = attr_parts(a); format!("{}({})", hs(&d), args.iter().map(|x| hs(x)).collect::<Vec<_>>().join(",")) }).collect();
    format!("[{}]", v.join(","))
}

// ------------------------------------------------------------------------------------------------
// `ast` projection: what the AST says, without spans
// ------------------------------------------------------------------------------------------------

fn def_kind_of_type(t: &dyn Type) -> String {
    match t.concrete_type() {
        Types::Struct(s) => format!("def(struct,{})", hs(&s.module_scoped_identifier())),
        Types::Enum(s) => format!("def(enum,{})", hs(&s.module_scoped_identifier())),
        Types::CustomType(s) => format!("def(custom,{})", hs(&s.module_scoped_identifier())),
        Types::Primitive(p) => format!("prim({})", p.kind()),
        Types::Sequence(s) => format!("seq({})", tref_s(&s.element_type)),
        Types::Dictionary(d) => format!("dict({},{})", tref_s(&d.key_type), tref_s(&d.value_type)),
        Types::ResultType(r) => format!("result({},{})", tref_s(&r.success_type), tref_s(&r.failure_type)),
    }
}

pub fn tref_s(t: &TypeRef) -> String {
    let bound = match &t.definition {
        TypeRefDefinition::Patched(_) => def_kind_of_type(t.definition()),
        TypeRefDefinition::Unpatched(id) => format!("unpatched({})", hs(&id.value)),
    };
    format!("tref({};{};{})", t.is_optional as u8, attrs_s(&t.attributes()), bound)
}

fn tag_s(t: Option<&Integer<u32>>) -> String { t.map_or("-".to_string(), |x| x.value.to_string()) }

fn field_s(f: &Field) -> String {
    format!("field({};{};{};{};{})", hs(f.identifier()), tag_s(f.tag.as_ref()), tref_s(&f.data_type), attrs_s(&f.attributes()), f.comment.is_some() as u8)
}

fn param_s(p: &Parameter) -> String {
    format!("param({};{};{};{};{})", hs(p.identifier()), tag_s(p.tag.as_ref()), p.is_streamed as u8, tref_s(&p.data_type), attrs_s(&p.attributes()))
}

fn def_s(d: &Definition) -> String {
    match d {
        Definition::Struct(p) => { let s = p.borrow();
            format!("struct({};{};{};{};[{}])", hs(s.identifier()), s.is_compact as u8, attrs_s(&s.attributes()), s.comment.is_some() as u8,
                s.fields().iter().map(|f| field_s(f)).collect::<Vec<_>>().join(",")) }
        Definition::Interface(p) => { let s = p.borrow();
            let bases: Vec<String> = s.bases.iter().map(|b| match &b.definition {
                TypeRefDefinition::Patched(_) => format!("base({})", hs(&b.definition().module_scoped_identifier())),
                TypeRefDefinition::Unpatched(id) => format!("unpatched({})", hs(&id.value)) }).collect();
            let ops: Vec<String> = s.operations().iter().map(|o| format!("op({};{};{};{};[{}];[{}])", hs(o.identifier()), o.is_idempotent as u8,
                attrs_s(&o.attributes()), o.comment.is_some() as u8,
                o.parameters().iter().map(|x| param_s(x)).collect::<Vec<_>>().join(","),
                o.return_members().iter().map(|x| param_s(x)).collect::<Vec<_>>().join(","))).collect();
            format!("iface({};{};{};[{}];[{}])", hs(s.identifier()), attrs_s(&s.attributes()), s.comment.is_some() as u8, bases.join(","), ops.join(",")) }
        Definition::Enum(p) => { let s = p.borrow();
            let u = match &s.underlying { None => "-".to_string(), Some(u) => match &u.definition {
                TypeRefDefinition::Patched(_) => format!("u({};{};{})", u.is_optional as u8, attrs_s(&u.attributes()), u.definition().kind()),
                TypeRefDefinition::Unpatched(id) => format!("unpatched({})", hs(&id.value)) } };
            let es: Vec<String> = s.enumerators().iter().map(|e| format!("enumerator({};{};{};{};{};{})", hs(e.identifier()), e.value(),
                matches!(e.value, EnumeratorValue::Explicit(_)) as u8,
                match &e.fields { None => "-".to_string(), Some(_) => format!("[{}]", e.fields().iter().map(|f| field_s(f)).collect::<Vec<_>>().join(",")) },
                attrs_s(&e.attributes()), e.comment.is_some() as u8)).collect();
            format!("enum({};{};{};{};{};{};[{}])", hs(s.identifier()), s.is_compact as u8, s.is_unchecked as u8, attrs_s(&s.attributes()), s.comment.is_some() as u8, u, es.join(",")) }
        Definition::CustomType(p) => { let s = p.borrow(); format!("custom({};{};{})", hs(s.identifier()), attrs_s(&s.attributes()), s.comment.is_some() as u8) }
        Definition::TypeAlias(p) => { let s = p.borrow(); format!("alias({};{};{};{})", hs(s.identifier()), attrs_s(&s.attributes()), s.comment.is_some() as u8, tref_s(&s.underlying)) }
    }
}

pub fn file_ast(f: &SliceFile) -> String {
    let attrs: Vec<&Attribute> = f.attributes.iter().map(|a| a.borrow()).collect();
    let module = match &f.module { None => "nomodule".to_string(), Some(m) => { let m = m.borrow(); format!("module({};{})", hs(m.nested_module_identifier()), attrs_s(&m.attributes())) } };
    format!("file({};{};[{}])", attrs_s(&attrs), module, f.contents.iter().map(def_s).collect::<Vec<_>>().join(","))
}

// ------------------------------------------------------------------------------------------------
// `spans` projection
// ------------------------------------------------------------------------------------------------

fn push_attr_spans(out: &mut Vec<String>, path: &str, attrs: &[&Attribute], written: usize) {
    // only the attributes written at this element (a type reference also carries those inherited through aliases)
    for (i, a) in attrs.iter().take(written).enumerate() { out.push(format!("{}.a{}={}", path, i, span4(&a.span))); }
}

/// true when `inner` lies inside `outer` (same file): a nested type reference that was *written* inside this one,
/// as opposed to one reached through a type alias (whose anonymous type was written elsewhere)
fn written_inside(outer: &Span, inner: &Span) -> bool {
    outer.file == inner.file && (inner.start.row, inner.start.col) >= (outer.start.row, outer.start.col)
        && (inner.end.row, inner.end.col) <= (outer.end.row, outer.end.col)
}

fn tref_spans(out: &mut Vec<String>, path: &str, t: &TypeRef) {
    out.push(format!("{}={}", path, span4(&t.span)));
    if let TypeRefDefinition::Patched(_) = &t.definition {
        let mut sub = |suffix: &str, c: &TypeRef, out: &mut Vec<String>| { if written_inside(&t.span, &c.span) { tref_spans(out, &format!("{}.{}", path, suffix), c); } };
        match t.concrete_type() {
            Types::Sequence(s) => sub("e", &s.element_type, out),
            Types::Dictionary(d) => { sub("k", &d.key_type, out); sub("v", &d.value_type, out); }
            Types::ResultType(r) => { sub("s", &r.success_type, out); sub("f", &r.failure_type, out); }
            _ => {}
        }
    }
}

fn field_spans(out: &mut Vec<String>, path: &str, f: &Field) {
    out.push(format!("{}={}", path, span4(&f.span)));
    out.push(format!("{}.id={}", path, span4(&f.identifier.span)));
    if let Some(t) = &f.tag { out.push(format!("{}.tag={}", path, span4(&t.span))); }
    push_attr_spans(out, path, &f.attributes(), usize::MAX);
    tref_spans(out, &format!("{}.t", path), &f.data_type);
}

fn param_spans(out: &mut Vec<String>, path: &str, p: &Parameter, named: bool) {
    out.push(format!("{}={}", path, span4(&p.span)));
    if named { out.push(format!("{}.id={}", path, span4(&p.identifier.span))); }
    if let Some(t) = &p.tag { out.push(format!("{}.tag={}", path, span4(&t.span))); }
    push_attr_spans(out, path, &p.attributes(), usize::MAX);
    tref_spans(out, &format!("{}.t", path), &p.data_type);
}

pub fn file_spans(f: &SliceFile) -> String {
    let mut out = vec![];
    for (i, a) in f.attributes.iter().enumerate() { out.push(format!("fa{}={}", i, span4(&a.borrow().span))); }
    if let Some(m) = &f.module { let m = m.borrow(); out.push(format!("mod={}", span4(&m.span))); out.push(format!("mod.id={}", span4(&m.identifier.span))); push_attr_spans(&mut out, "mod", &m.attributes(), usize::MAX); }
    for (j, d) in f.contents.iter().enumerate() {
        let p = format!("d{}", j);
        match d {
            Definition::Struct(x) => { let s = x.borrow(); out.push(format!("{}={}", p, span4(&s.span))); out.push(format!("{}.id={}", p, span4(&s.identifier.span)));
                push_attr_spans(&mut out, &p, &s.attributes(), usize::MAX);
                for (k, fl) in s.fields().iter().enumerate() { field_spans(&mut out, &format!("{}.f{}", p, k), fl); } }
            Definition::Interface(x) => { let s = x.borrow(); out.push(format!("{}={}", p, span4(&s.span))); out.push(format!("{}.id={}", p, span4(&s.identifier.span)));
                push_attr_spans(&mut out, &p, &s.attributes(), usize::MAX);
                for (k, b) in s.bases.iter().enumerate() { out.push(format!("{}.b{}={}", p, k, span4(&b.span))); }
                for (k, o) in s.operations().iter().enumerate() { let op = format!("{}.o{}", p, k);
                    out.push(format!("{}={}", op, span4(&o.span))); out.push(format!("{}.id={}", op, span4(&o.identifier.span)));
                    push_attr_spans(&mut out, &op, &o.attributes(), usize::MAX);
                    for (m, pa) in o.parameters().iter().enumerate() { param_spans(&mut out, &format!("{}.p{}", op, m), pa, true); }
                    let rets = o.return_members();
                    let single = rets.len() == 1 && rets[0].identifier() == "returnValue" && rets[0].identifier.span == rets[0].span;
                    for (m, pa) in rets.iter().enumerate() { param_spans(&mut out, &format!("{}.r{}", op, m), pa, !single); } } }
            Definition::Enum(x) => { let s = x.borrow(); out.push(format!("{}={}", p, span4(&s.span))); out.push(format!("{}.id={}", p, span4(&s.identifier.span)));
                push_attr_spans(&mut out, &p, &s.attributes(), usize::MAX);
                if let Some(u) = &s.underlying { out.push(format!("{}.u={}", p, span4(&u.span))); }
                for (k, e) in s.enumerators().iter().enumerate() { let ep = format!("{}.e{}", p, k);
                    out.push(format!("{}={}", ep, span4(&e.span))); out.push(format!("{}.id={}", ep, span4(&e.identifier.span)));
                    push_attr_spans(&mut out, &ep, &e.attributes(), usize::MAX);
                    if let EnumeratorValue::Explicit(i) = &e.value { out.push(format!("{}.val={}", ep, span4(&i.span))); }
                    if e.fields.is_some() { for (m, fl) in e.fields().iter().enumerate() { field_spans(&mut out, &format!("{}.f{}", ep, m), fl); } } } }
            Definition::CustomType(x) => { let s = x.borrow(); out.push(format!("{}={}", p, span4(&s.span))); out.push(format!("{}.id={}", p, span4(&s.identifier.span))); push_attr_spans(&mut out, &p, &s.attributes(), usize::MAX); }
            Definition::TypeAlias(x) => { let s = x.borrow(); out.push(format!("{}={}", p, span4(&s.span))); out.push(format!("{}.id={}", p, span4(&s.identifier.span))); push_attr_spans(&mut out, &p, &s.attributes(), usize::MAX);
                tref_spans(&mut out, &format!("{}.t", p), &s.underlying); }
        }
    }
    out.sort();
    out.join(";")
}

// ------------------------------------------------------------------------------------------------
// diagnostics
// ------------------------------------------------------------------------------------------------

fn level_s(l: DiagnosticLevel) -> &'static str { match l { DiagnosticLevel::Error => "E", DiagnosticLevel::Warning => "W", DiagnosticLevel::Allowed => "A" } }

/// sorted multiset of codes of the diagnostics that are not `Allowed`
pub fn codes(diags: &[Diagnostic]) -> String {
    let mut v: Vec<String> = diags.iter().filter(|d| d.level() != DiagnosticLevel::Allowed).map(|d| d.code().to_string()).collect();
    v.sort();
    if v.is_empty() { "-".into() } else { v.join(",") }
}

/// sorted *set* of error codes (C04 compares sets: one rule violation may be reported more than once)
pub fn error_code_set(diags: &[Diagnostic]) -> String {
    let mut v: Vec<String> = diags.iter().filter(|d| d.level() == DiagnosticLevel::Error).map(|d| d.code().to_string()).collect();
    v.sort(); v.dedup();
    if v.is_empty() { "-".into() } else { v.join(",") }
}

/// every diagnostic in recording order: code/level/span/scope
pub fn diag_list(diags: &[Diagnostic]) -> String {
    let v: Vec<String> = diags.iter().map(|d| format!("{}/{}/{}/{}", d.code(), level_s(d.level()),
        d.span().map_or("-".to_string(), |s| format!("{}@{}", span4(s), s.file)), d.scope().map_or("-".to_string(), |s| hs(s)))).collect();
    if v.is_empty() { "-".into() } else { v.join(";") }
}

// ------------------------------------------------------------------------------------------------
// `visit` projection: a recording visitor
// ------------------------------------------------------------------------------------------------

#[derive(Default)]
pub struct Recorder { pub events: Vec<String> }

impl Visitor for Recorder {
    fn visit_file(&mut self, f: &SliceFile) { self.events.push(format!("file:{}", hs(&f.relative_path))); }
    fn visit_module(&mut self, m: &Module) { self.events.push(format!("module:{}", hs(m.nested_module_identifier()))); }
    fn visit_struct(&mut self, x: &Struct) { self.events.push(format!("struct:{}", hs(&x.parser_scoped_identifier()))); }
    fn visit_interface(&mut self, x: &Interface) { self.events.push(format!("interface:{}", hs(&x.parser_scoped_identifier()))); }
    fn visit_enum(&mut self, x: &Enum) { self.events.push(format!("enum:{}", hs(&x.parser_scoped_identifier()))); }
    fn visit_operation(&mut self, x: &Operation) { self.events.push(format!("operation:{}", hs(&x.parser_scoped_identifier()))); }
    fn visit_custom_type(&mut self, x: &CustomType) { self.events.push(format!("custom:{}", hs(&x.parser_scoped_identifier()))); }
    fn visit_type_alias(&mut self, x: &TypeAlias) { self.events.push(format!("alias:{}", hs(&x.parser_scoped_identifier()))); }
    fn visit_field(&mut self, x: &Field) { self.events.push(format!("field:{}", hs(&x.parser_scoped_identifier()))); }
    fn visit_parameter(&mut self, x: &Parameter) { self.events.push(format!("parameter:{}", hs(&x.parser_scoped_identifier()))); }
    fn visit_enumerator(&mut self, x: &Enumerator) { self.events.push(format!("enumerator:{}", hs(&x.parser_scoped_identifier()))); }
    fn visit_type_ref(&mut self, x: &TypeRef) {
        let what = match &x.definition { TypeRefDefinition::Patched(_) => hs(&x.type_string()), TypeRefDefinition::Unpatched(id) => format!("unpatched:{}", hs(&id.value)) };
        self.events.push(format!("typeref:{}@{}", what, span4(&x.span)));
    }
}

// ------------------------------------------------------------------------------------------------
// dispatch
// ------------------------------------------------------------------------------------------------

pub fn projection(c: Compiled, proj: &str) -> String {
    let Compiled { state, options } = c;
    match proj {
        "ast" => {
            let files: Vec<String> = state.files.iter().map(file_ast).collect();
            let diags = state.diagnostics.into_updated(&state.ast, &state.files, &options);
            format!("{} diags={}", files.join("|"), codes(&diags))
        }
        "spans" => {
            let files: Vec<String> = state.files.iter().map(file_spans).collect();
            let diags = state.diagnostics.into_updated(&state.ast, &state.files, &options);
            format!("{} diags={}", files.join("|"), codes(&diags))
        }
        // C01: the only observation is that a verdict was returned (a crash or a hang is caught by the worker supervisor);
        // exercising the emitter and the request encoder on the result is part of "returning a verdict"
        "any" => {
            let files = state.files;
            let accepted = !state.diagnostics.has_errors();
            let diags = state.diagnostics.into_updated(&state.ast, &files, &options);
            let mut sink: Vec<u8> = Vec::new();
            for format in [slicec::slice_options::DiagnosticFormat::Human, slicec::slice_options::DiagnosticFormat::Json] {
                let o = SliceOptions { diagnostic_format: format, disable_color: true, ..Default::default() };
                let mut emitter = slicec::diagnostic_emitter::DiagnosticEmitter::new(&mut sink, &o, &files);
                // the diagnostics are consumed by the emitter: re-create the list for the second format from codes only
                if format == slicec::slice_options::DiagnosticFormat::Human { let _ = emitter.emit_diagnostics(diags_clone(&diags)); } else { let _ = emitter.emit_diagnostics(diags_clone(&diags)); }
            }
            if accepted { let _ = crate::perm::encode_request_pub(&files); }
            "verdict".to_string()
        }
        "codes" => { let diags = state.diagnostics.into_updated(&state.ast, &state.files, &options); error_code_set(&diags) }
        "allcodes" => { let diags = state.diagnostics.into_updated(&state.ast, &state.files, &options); codes(&diags) }
        "diags" => { let diags = state.diagnostics.into_updated(&state.ast, &state.files, &options); diag_list(&diags) }
        "visit" => {
            let per_file: Vec<String> = state.files.iter().map(|f| { let mut r = Recorder::default(); f.visit_with(&mut r); r.events.join(",") }).collect();
            let diags = state.diagnostics.into_updated(&state.ast, &state.files, &options);
            format!("{} diags={}", per_file.join("|"), codes(&diags))
        }
        other => crate::compile_ext::projection_ext(state, options, other),
    }
}

/// `Diagnostic` is not `Clone`: rebuild an equivalent list (kind is lost, code/message/span/notes are what the emitter reads)
fn diags_clone(diags: &[Diagnostic]) -> Vec<Diagnostic> {
    diags.iter().filter(|d| d.level() != DiagnosticLevel::Allowed).map(|d| {
        let mut n = Diagnostic::new(slicec::diagnostics::Error::Syntax { message: d.message() });
        if let Some(s) = d.span() { n = n.set_span(s); }
        for note in d.notes() { n = n.add_note(note.message.clone(), note.span.as_ref()); }
        n
    }).collect()
}

pub fn run_compile(proj: &str, options: &str, files_hex: &str, expected: &str) -> CaseResult {
    let r = catch_unwind(AssertUnwindSafe(|| compile(files_hex, options).map(|c| projection(c, proj))));
    let (actual, oracle) = match r {
        Ok(Some(a)) => (a, None),
        Ok(None) => ("bad-case".to_string(), None),
        Err(_) => ("panic".to_string(), Some("the compiler panicked".to_string())),
    };
    // a projection may carry the verdict of its property's own predicate on the implementation's output (` oracle=FAIL(<reason>)`)
    let oracle = oracle.or_else(|| actual.split_once(" oracle=FAIL(").map(|(_, r)| format!("the property's predicate fails on the implementation's output: {}", r.trim_end_matches(')'))));
    let diff = if actual != expected { Some(crate::compile::short_diff(expected, &actual)) } else { None };
    // for C01 (`any`) the observation is constant: a case is non-trivial when its input is more than a few tokens long
    let nontrivial = if proj == "any" { files_hex.len() > 24 } else { actual.len() > 40 || actual.contains(',') };
    CaseResult { nontrivial, actual, diff, oracle }
}

pub fn short_diff(expected: &str, actual: &str) -> String {
    let (e, a): (Vec<char>, Vec<char>) = (expected.chars().collect(), actual.chars().collect());
    let mut i = 0;
    while i < e.len() && i < a.len() && e[i] == a[i] { i += 1; }
    let from = i.saturating_sub(60);
    let ee: String = e[from..(i + 100).min(e.len())].iter().collect();
    let aa: String = a[from..(i + 100).min(a.len())].iter().collect();
    format!("first difference at char {}: model=…{}… impl=…{}…", i, ee, aa)
}
