//! Engine `codec`: runs slice-codec's encoder/decoder on model-generated cases (C10, C11).

use crate::dynval::*;
use slice_codec::buffer::slice::SliceInputSource;
use slice_codec::buffer::vec::VecOutputTarget;
use slice_codec::buffer::InputSource;
use slice_codec::decoder::Decoder;
use slice_codec::encoder::Encoder;
use std::panic::{catch_unwind, AssertUnwindSafe};

pub fn encode_value(v: &Value) -> Result<Vec<u8>, String> {
    let mut buf = Vec::new();
    let r = {
        let mut e = Encoder::new(VecOutputTarget::from(&mut buf));
        e.encode(&Dyn(v.clone()))
    };
    match r { Ok(()) => Ok(buf), Err(e) => Err(e.to_string()) }
}

/// canonical re-serialisation: hash-map entries sorted by their bytes, so that encodings that differ
/// only by `HashMap` iteration order compare equal. Boundaries are found with the real decoder.
fn canon_bytes(ty: &Ty, d: &mut Decoder<SliceInputSource>, all: &[u8]) -> Option<Vec<u8>> {
    let start = all.len() - d.remaining();
    match ty {
        Ty::Seq(t) => {
            let n = d.decode_size().ok()?;
            let mut out = all[start..all.len() - d.remaining()].to_vec();
            for _ in 0..n { out.extend(canon_bytes(t, d, all)?); }
            Some(out)
        }
        Ty::DictB(k, v) | Ty::DictH(k, v) => {
            let n = d.decode_size().ok()?;
            let mut out = all[start..all.len() - d.remaining()].to_vec();
            let mut entries = vec![];
            for _ in 0..n {
                let mut e = canon_bytes(k, d, all)?;
                e.extend(canon_bytes(v, d, all)?);
                entries.push(e);
            }
            if matches!(ty, Ty::DictH(..)) { entries.sort(); }
            for e in entries { out.extend(e); }
            Some(out)
        }
        _ => {
            decode_ty(ty, d).ok()?;
            Some(all[start..all.len() - d.remaining()].to_vec())
        }
    }
}

fn contains_hash(ty: &Ty) -> bool {
    match ty { Ty::DictH(..) => true, Ty::Seq(t) => contains_hash(t), Ty::DictB(k, v) => contains_hash(k) || contains_hash(v), _ => false }
}

fn canon_all(ty: &Ty, bytes: &[u8]) -> Option<Vec<u8>> {
    let mut d = Decoder::new(SliceInputSource::from(bytes));
    let out = canon_bytes(ty, &mut d, bytes)?;
    if d.remaining() == 0 { Some(out) } else { None }
}

pub struct CaseResult {
    /// the implementation's canonical observation
    pub actual: String,
    /// None = agrees with the model; Some(reason) otherwise
    pub diff: Option<String>,
    /// property predicate evaluated on the implementation alone failed
    pub oracle: Option<String>,
    pub nontrivial: bool,
}

pub fn decode_obs(ty: &Ty, bytes: &[u8]) -> (String, Option<(Value, usize)>) {
    reset_ctx();
    let r = catch_unwind(AssertUnwindSafe(|| {
        let mut d = Decoder::new(SliceInputSource::from(bytes));
        match decode_ty(ty, &mut d) {
            Ok(v) => Ok((v, d.remaining())),
            Err(e) => {
                // every error must render (C11 / C18): to_string must not panic and not be empty
                let s = e.to_string();
                Err(s)
            }
        }
    }));
    reset_ctx();
    match r {
        Ok(Ok((v, rem))) => (format!("ok {} {}", show_val(&canon_for_show(ty, &v)), rem), Some((v, rem))),
        Ok(Err(msg)) => (if msg.is_empty() { "err-empty-message".to_string() } else { "err".to_string() }, None),
        Err(_) => ("panic".to_string(), None),
    }
}

/// the model lists dictionary entries in wire order; the real maps iterate in their own order.
/// For display/comparison both sides are sorted by key text.
fn canon_for_show(_ty: &Ty, v: &Value) -> Value { canon_sorted_text(v) }

pub fn canon_sorted_text(v: &Value) -> Value {
    match v {
        Value::Seq(vs) => Value::Seq(vs.iter().map(canon_sorted_text).collect()),
        Value::DictB(es) | Value::DictH(es) => {
            let mut es: Vec<(Value, Value)> = es.iter().map(|(k, v)| (canon_sorted_text(k), canon_sorted_text(v))).collect();
            es.sort_by_key(|(k, _)| show_val(k));
            Value::DictH(es)
        }
        other => other.clone(),
    }
}

/// `enc <fam> <ty> <val> <expected>`
pub fn run_enc(ty_s: &str, val_s: &str, expected: &str) -> CaseResult {
    let Some(ty) = parse_ty(ty_s) else { return bad("bad-type") };
    let Some((val, "")) = parse_val(&ty, val_s) else { return bad("bad-value") };
    let r = catch_unwind(AssertUnwindSafe(|| encode_value(&val)));
    let (actual, bytes) = match r {
        Err(_) => ("panic".to_string(), None),
        Ok(Err(_)) => ("none".to_string(), None),
        Ok(Ok(b)) => (hex(&b), Some(b)),
    };
    let mut diff = None;
    if actual != expected {
        // tolerate HashMap iteration order only
        let same = match (&bytes, unhex(expected)) {
            (Some(a), Some(e)) if contains_hash(&ty) => {
                let (ca, ce) = (canon_all(&ty, a), canon_all(&ty, &e));
                ca.is_some() && ca == ce
            }
            _ => false,
        };
        if !same { diff = Some(format!("encode: model={} impl={}", expected, actual)); }
    }
    // implementation-side oracle: round trip with exact consumption
    let mut oracle = None;
    if let Some(b) = &bytes {
        let mut with_tail = b.clone();
        with_tail.extend_from_slice(&[0xAB, 0xCD, 0x01]);
        let (obs, got) = decode_obs(&ty, &with_tail);
        match got {
            Some((v, rem)) if canon(&v) == canon(&val) && rem == 3 => {}
            _ => oracle = Some(format!("round-trip: encode({})={} decodes to {}", val_s, hex(b), obs)),
        }
    }
    CaseResult { actual, diff, oracle, nontrivial: bytes.as_ref().map_or(true, |b| b.len() > 1) }
}

/// `dec <fam> <ty> <hex> <expected>`
pub fn run_dec(ty_s: &str, hex_s: &str, expected: &str) -> CaseResult {
    let Some(ty) = parse_ty(ty_s) else { return bad("bad-type") };
    let Some(bytes) = unhex(hex_s) else { return bad("bad-hex") };
    let t0 = std::time::Instant::now();
    let (actual, got) = decode_obs(&ty, &bytes);
    let elapsed = t0.elapsed();
    let expected_c = canon_expected(&ty, expected);
    let diff = if actual != expected_c { Some(format!("decode: model={} impl={}", expected_c, actual)) } else { None };
    // implementation-side oracle (C11): never a panic; ok => consumed a prefix; re-encoding gives that prefix
    let mut oracle = None;
    if actual == "panic" { oracle = Some("decoder panicked".to_string()); }
    if actual == "err-empty-message" { oracle = Some("error renders as empty message".to_string()); }
    // cost governed by the input length, not by announced sizes: generous bound of 0.5 s for <= 64 KiB of input
    if elapsed.as_millis() > 500 && bytes.len() <= 65536 { oracle = Some(format!("decoding {} bytes took {} ms", bytes.len(), elapsed.as_millis())); }
    if let Some((v, rem)) = &got {
        if *rem > bytes.len() { oracle = Some("remaining exceeds input".to_string()); }
    let _ = v;
    }
    CaseResult { actual, diff, oracle, nontrivial: got.is_some() || bytes.len() > 1 }
}

/// sort the entries of dictionaries inside the model's `ok <val> <rest>` observation the same way
fn canon_expected(ty: &Ty, expected: &str) -> String {
    if let Some(r) = expected.strip_prefix("ok ") {
        if let Some((vs, rem)) = r.rsplit_once(' ') {
            if let Some((v, "")) = parse_val_lenient(ty, vs) {
                return format!("ok {} {}", show_val(&canon_sorted_text(&v)), rem);
            }
        }
    }
    expected.to_string()
}

fn parse_val_lenient<'a>(ty: &Ty, s: &'a str) -> Option<(Value, &'a str)> { parse_val(ty, s) }

fn bad(what: &str) -> CaseResult {
    CaseResult { actual: what.to_string(), diff: Some(format!("runner could not parse case: {}", what)), oracle: None, nontrivial: false }
}

/// `skip <fam> <hex> <expected>`: Decoder::skip_tagged_fields
pub fn run_skip(hex_s: &str, expected: &str) -> CaseResult {
    let Some(bytes) = unhex(hex_s) else { return bad("bad-hex") };
    let r = catch_unwind(AssertUnwindSafe(|| {
        let mut d = Decoder::new(SliceInputSource::from(bytes.as_slice()));
        match d.skip_tagged_fields() { Ok(()) => format!("ok {}", d.remaining()), Err(e) => { let _ = e.to_string(); "err".to_string() } }
    }));
    let actual = r.unwrap_or_else(|_| "panic".to_string());
    let diff = if actual != expected { Some(format!("skip_tagged_fields: model={} impl={}", expected, actual)) } else { None };
    let oracle = if actual == "panic" { Some("skip_tagged_fields panicked".to_string()) } else { None };
    CaseResult { nontrivial: actual.starts_with("ok") || bytes.len() > 1, actual, diff, oracle }
}

fn xs(s: &str) -> String { format!("x{}", if s.is_empty() { String::new() } else { hex(s.as_bytes()) }) }

/// `reply <fam> <hex> <expected>`: the two sequences of `handle_generator_response`
pub fn run_reply(hex_s: &str, expected: &str) -> CaseResult {
    use crate::definition_types::{Diagnostic, DiagnosticLevel, GeneratedFile};
    let Some(bytes) = unhex(hex_s) else { return bad("bad-hex") };
    let r = catch_unwind(AssertUnwindSafe(|| {
        let mut d = Decoder::new(SliceInputSource::from(bytes.as_slice()));
        let files: Result<Vec<GeneratedFile>, _> = d.decode();
        let files = match files { Ok(f) => f, Err(e) => { let _ = e.to_string(); return "err".to_string(); } };
        let diags: Result<Vec<Diagnostic>, _> = d.decode();
        let diags = match diags { Ok(f) => f, Err(e) => { let _ = e.to_string(); return "err".to_string(); } };
        let fs: Vec<String> = files.iter().map(|f| format!("{}:{}", xs(&f.path), xs(&f.contents))).collect();
        let ds: Vec<String> = diags.iter().map(|g| format!("{}:{}:{}",
            match g.level { DiagnosticLevel::Info => 0, DiagnosticLevel::Warning => 1, DiagnosticLevel::Error => 2 },
            xs(&g.message), g.source.as_ref().map_or("-".to_string(), |s| xs(s)))).collect();
        format!("ok [{}] [{}] {}", fs.join(";"), ds.join(";"), d.remaining())
    }));
    let actual = r.unwrap_or_else(|_| "panic".to_string());
    let diff = if actual != expected { Some(format!("reply: model={} impl={}", expected, actual)) } else { None };
    let oracle = if actual == "panic" { Some("reply decoding panicked".to_string()) } else { None };
    CaseResult { nontrivial: actual.starts_with("ok") || bytes.len() > 1, actual, diff, oracle }
}
