//! Engine `compile`, op `perm` (C15): compile the same files in several orders (and twice in the same order) and
//! compare, on the implementation's own results: the verdict (accepted / rejected), and for accepted programs each
//! file's compiled content (AST dump + spans), the multiset of warnings and the encoded generator request.
//!
//! case line: perm <fam> <options> <files: hex|hex|…> <orders: "0,1,2;2,0,1;…"> <expected: accepted|rejected>

use crate::codec::CaseResult;
use crate::compile::*;
use crate::dynval::hex;
use slice_codec::encoder::Encoder;
use slicec::diagnostics::DiagnosticLevel;
use std::collections::BTreeMap;
use std::panic::{catch_unwind, AssertUnwindSafe};

struct Outcome {
    accepted: bool,
    /// file text -> (ast dump, spans)
    per_file: BTreeMap<String, (String, String)>,
    /// sorted multiset of code@span@file-text-hash
    warnings: Vec<String>,
    errors: Vec<String>,
    /// diagnostics in recording order with messages (byte-identical reruns)
    diag_text: String,
    request: Option<Vec<u8>>,
}

pub fn encode_request_pub(files: &[slicec::slice_file::SliceFile]) -> Option<Vec<u8>> { encode_request(files) }

fn encode_request(files: &[slicec::slice_file::SliceFile]) -> Option<Vec<u8>> {
    // the logic of `encode_generate_code_request` in main.rs
    let mut buf: Vec<u8> = Vec::new();
    {
        let mut enc = Encoder::from(&mut buf);
        enc.encode("generateCode").ok()?;
        let mut sources = Vec::new();
        let mut references = Vec::new();
        for f in files {
            if f.module.is_none() { continue; } // as main.rs: a module-less file has no definitions and is left out
            let converted = crate::definition_types::SliceFile::from(f);
            if f.is_source { sources.push(converted) } else { references.push(converted) }
        }
        enc.encode(&sources).ok()?;
        enc.encode(&references).ok()?;
    }
    Some(buf)
}

fn run_once(texts: &[String], options: &str) -> Outcome {
    let refs: Vec<&str> = texts.iter().map(|s| s.as_str()).collect();
    let (opts, _) = parse_options(options);
    let state = slicec::compile_from_strings(&refs, Some(&opts));
    let accepted = !state.diagnostics.has_errors();
    // the compiled content is only compared (and only meaningful) for accepted programs: the type references of a program the
    // alias gate rejected (`typealias A = Sequence<A>`, E019) form a cycle, on which the dumper's descent would never end
    let per_file: BTreeMap<String, (String, String)> = if accepted {
        state.files.iter().map(|f| (f.raw_text.clone(), (file_ast(f), file_spans(f)))).collect()
    } else { BTreeMap::new() };
    let text_of: BTreeMap<String, String> = state.files.iter().map(|f| (f.relative_path.clone(), f.raw_text.clone())).collect();
    let request = if accepted && state.files.iter().all(|f| f.module.is_some()) { encode_request(&state.files) } else { None };
    let files = state.files;
    let diags = state.diagnostics.into_updated(&state.ast, &files, &opts);
    let key = |d: &slicec::diagnostics::Diagnostic| {
        let sp = d.span().map_or("-".to_string(), |s| format!("{}:{}:{}:{}@{:x}", s.start.row, s.start.col, s.end.row, s.end.col,
            fnv(text_of.get(&s.file).map(|t| t.as_bytes()).unwrap_or(b""))));
        format!("{}@{}", d.code(), sp)
    };
    let mut warnings: Vec<String> = diags.iter().filter(|d| d.level() == DiagnosticLevel::Warning).map(key).collect();
    warnings.sort();
    let mut errors: Vec<String> = diags.iter().filter(|d| d.level() == DiagnosticLevel::Error).map(|d| d.code().to_string()).collect();
    errors.sort();
    let diag_text = diags.iter().map(|d| format!("{}|{}|{:?}", d.code(), d.message(), d.span().map(|s| (s.start.row, s.start.col, s.end.row, s.end.col, s.file.clone())))).collect::<Vec<_>>().join("\n");
    Outcome { accepted, per_file, warnings, errors, diag_text, request }
}

fn fnv(bs: &[u8]) -> u64 { let mut h: u64 = 0xcbf29ce484222325; for b in bs { h = (h ^ (*b as u64)).wrapping_mul(0x100000001b3); } h }

pub fn run_perm(options: &str, files_hex: &str, orders: &str, expected: &str) -> CaseResult {
    let texts: Option<Vec<String>> = files_hex.split('|').map(|h| crate::dynval::unhex(h).and_then(|b| String::from_utf8(b).ok())).collect();
    let Some(texts) = texts else { return CaseResult { actual: "bad".into(), diff: Some("bad case".into()), oracle: None, nontrivial: false } };
    let orders: Vec<Vec<usize>> = orders.split(';').map(|o| o.split(',').filter_map(|x| x.parse().ok()).collect()).collect();
    let r = catch_unwind(AssertUnwindSafe(|| {
        let mut oracle: Option<String> = None;
        let base_order: Vec<String> = orders[0].iter().map(|i| texts[*i].clone()).collect();
        let base = run_once(&base_order, options);
        // reproducibility: same inputs, same options, twice
        let again = run_once(&base_order, options);
        if again.diag_text != base.diag_text { oracle = Some("two runs on identical inputs produced different diagnostics".into()); }
        if again.request != base.request { oracle = Some("two runs on identical inputs produced different generator requests".into()); }
        for o in orders.iter().skip(1) {
            let t: Vec<String> = o.iter().map(|i| texts[*i].clone()).collect();
            let r = run_once(&t, options);
            if r.accepted != base.accepted {
                oracle = Some(format!("order {:?} is {} but order {:?} is {} (errors {:?} vs {:?})", orders[0], if base.accepted { "accepted" } else { "rejected" },
                    o, if r.accepted { "accepted" } else { "rejected" }, base.errors, r.errors));
                break;
            }
            if base.accepted {
                if r.per_file != base.per_file {
                    let which = base.per_file.iter().find(|(k, v)| r.per_file.get(*k) != Some(v)).map(|(k, _)| k.chars().take(60).collect::<String>()).unwrap_or_default();
                    oracle = Some(format!("compiled content of a file differs between orders {:?} and {:?}: {}", orders[0], o, which)); break;
                }
                if r.warnings != base.warnings { oracle = Some(format!("warnings differ between orders {:?} and {:?}: {:?} vs {:?}", orders[0], o, base.warnings, r.warnings)); break; }
            }
        }
        (if base.accepted { "accepted" } else { "rejected" }.to_string(), oracle, base.request.map(|b| b.len()).unwrap_or(0))
    }));
    match r {
        Ok((actual, oracle, _n)) => {
            let diff = if actual != expected { Some(format!("verdict: model={} impl={}", expected, actual)) } else { None };
            CaseResult { nontrivial: texts.len() > 1, actual, diff, oracle }
        }
        Err(_) => CaseResult { actual: "panic".into(), diff: Some("panic".into()), oracle: Some("the compiler panicked".into()), nontrivial: true },
    }
}

#[allow(dead_code)]
fn _unused() { let _ = hex(&[]); }
