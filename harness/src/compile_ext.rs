//! Per-property projections of a compilation: `cNN:<name>` is handled by `proj_cNN::project`.
use slicec::compilation_state::CompilationState;
use slicec::slice_options::SliceOptions;

pub fn projection_ext(state: CompilationState, options: SliceOptions, proj: &str) -> String {
    match proj.split_once(':') {
        Some(("c03", n)) => crate::proj_c03::project(state, options, n),
        Some(("c04", n)) => crate::proj_c04::project(state, options, n),
        Some(("c05", n)) => crate::proj_c05::project(state, options, n),
        Some(("c08", n)) => crate::proj_c08::project(state, options, n),
        Some(("c09", n)) => crate::proj_c09::project(state, options, n),
        Some(("c13", n)) => crate::proj_c13::project(state, options, n),
        Some(("c16", n)) => crate::proj_c16::project(state, options, n),
        Some(("c20", n)) => crate::proj_c20::project(state, options, n),
        _ => format!("unknown-projection:{}", proj),
    }
}
