//! Projections of a compilation used by property C08 (engine `compile`, projection names `c08:<name>`).
//!
//! `c08:request[;r=<i>.<j>…][;a=<hexkey>:<hexvalue>,…]` — the generator request, byte for byte:
//!   the files listed after `r=` are marked as reference files (`is_source = false`, all others `true`), then the REAL
//!   conversion (`definition_types::SliceFile::from`, slicec/src/slice_file_converter.rs, `#[path]`-included from the
//!   repository) and the REAL encoders (slicec/src/definition_types.rs) run in the arrangement of
//!   `encode_generate_code_request` (slicec/src/main.rs, replicated below: it lives in the binary crate's `main.rs`
//!   and cannot be included), followed — when `a=` is present — by `Arguments(args)` as `spawn_plugin_process` appends
//!   them. Output: the bytes in lower-case hex (`-` = empty), `errors:<codes>` when the compilation has errors (no
//!   request is built then), `panic` when conversion or encoding panicked, `refused` when the encoder returned `Err`.
//!
//! Implementation-side oracle (on the produced bytes alone, with a hand-written walker that follows
//! slice/Compiler/*.slice and does NOT use definition_types.rs): the stream decodes completely (operation name, source
//! files, reference files, then the arguments, nothing left over); every numeric type id of symbol `i` is `< i` and
//! names a Sequence/Dictionary/Result symbol of the same file; every other type id is a primitive keyword or the
//! scoped identifier of a struct / enum / custom type of some transmitted file; every base is an interface of some
//! transmitted file; every doc-comment link that the compiler resolved names an entity of some transmitted file; the
//! source/reference split and the file order are those of the compilation. A failed check is reported in place of the
//! bytes as `oracle-failed(<reason>)` (it then shows up as a difference to the model's bytes).
#![allow(unused_imports, dead_code)]
use crate::compile::*;
use crate::definition_types as dt;
use crate::dynval::{hex, unhex};
use slice_codec::encoder::Encoder;
use slicec::compilation_state::CompilationState;
use slicec::diagnostics::DiagnosticLevel;
use slicec::grammar::*;
use slicec::slice_options::SliceOptions;
use std::collections::HashSet;
use std::panic::{catch_unwind, AssertUnwindSafe};

/// `encode_generate_code_request` of slicec/src/main.rs (the translator asserts the shape of the original on every run:
/// operation-name literal, module-less files skipped, `is_source` routing, sources encoded before references).
fn encode_generate_code_request(parsed_files: &[slicec::slice_file::SliceFile]) -> Result<Vec<u8>, slice_codec::Error> {
    let mut encoding_buffer: Vec<u8> = Vec::new();
    let mut slice_encoder = Encoder::from(&mut encoding_buffer);
    slice_encoder.encode("generateCode")?;
    let mut source_files = Vec::new();
    let mut reference_files = Vec::new();
    for parsed_file in parsed_files {
        if parsed_file.module.is_none() {
            continue;
        }
        let converted_file = dt::SliceFile::from(parsed_file);
        match parsed_file.is_source {
            true => source_files.push(converted_file),
            false => reference_files.push(converted_file),
        }
    }
    slice_encoder.encode(&source_files)?;
    slice_encoder.encode(&reference_files)?;
    Ok(encoding_buffer)
}

/// the tail `spawn_plugin_process` writes after the payload
fn encode_arguments(args: &[(String, String)]) -> Result<Vec<u8>, slice_codec::Error> {
    let mut arguments_payload = Vec::new();
    let mut slice_encoder = Encoder::from(&mut arguments_payload);
    slice_encoder.encode(dt::Arguments(args.to_vec()))?;
    Ok(arguments_payload)
}

// ------------------------------------------------------------------------------------------------
// a reader that follows slice/Compiler/*.slice
// ------------------------------------------------------------------------------------------------

struct Rd<'a> { b: &'a [u8], p: usize }

type R<T> = Result<T, String>;

impl<'a> Rd<'a> {
    fn take(&mut self, n: usize) -> R<&'a [u8]> {
        if self.b.len() - self.p < n { return Err(format!("end of buffer at {} (wanted {})", self.p, n)); }
        let s = &self.b[self.p..self.p + n];
        self.p += n;
        Ok(s)
    }
    fn u8(&mut self) -> R<u8> { Ok(self.take(1)?[0]) }
    fn boolean(&mut self) -> R<bool> { match self.u8()? { 0 => Ok(false), 1 => Ok(true), v => Err(format!("bool byte {} at {}", v, self.p - 1)) } }
    fn width(&self) -> R<usize> { if self.p >= self.b.len() { Err("end of buffer".into()) } else { Ok(1usize << (self.b[self.p] & 3)) } }
    fn varuint(&mut self) -> R<u64> {
        let w = self.width()?;
        let mut raw = [0u8; 8];
        raw[..w].copy_from_slice(self.take(w)?);
        Ok(u64::from_le_bytes(raw) >> 2)
    }
    fn varint(&mut self) -> R<i64> {
        let w = self.width()?;
        let s = self.take(w)?;
        let mut raw = if s[w - 1] & 0x80 != 0 { [0xffu8; 8] } else { [0u8; 8] };
        raw[..w].copy_from_slice(s);
        Ok(i64::from_le_bytes(raw) >> 2)
    }
    fn varint32(&mut self) -> R<i32> { i32::try_from(self.varint()?).map_err(|_| "varint32 out of range".to_string()) }
    fn size(&mut self) -> R<usize> { Ok(self.varuint()? as usize) }
    fn string(&mut self) -> R<String> {
        let n = self.size()?;
        String::from_utf8(self.take(n)?.to_vec()).map_err(|_| format!("invalid UTF-8 before {}", self.p))
    }
    fn i32le(&mut self) -> R<i32> { let mut a = [0u8; 4]; a.copy_from_slice(self.take(4)?); Ok(i32::from_le_bytes(a)) }
    fn u64le(&mut self) -> R<u64> { let mut a = [0u8; 8]; a.copy_from_slice(self.take(8)?); Ok(u64::from_le_bytes(a)) }
    /// the request carries no tagged fields: the tag end marker must follow immediately
    fn tag_end(&mut self, what: &str) -> R<()> {
        let at = self.p;
        match self.varint32()? { -1 => Ok(()), t => Err(format!("{}: tag {} instead of the tag end marker at {}", what, t, at)) }
    }
    fn seq<T>(&mut self, mut f: impl FnMut(&mut Self) -> R<T>) -> R<Vec<T>> {
        let n = self.size()?;
        if n > self.b.len() - self.p { return Err(format!("sequence of {} elements with {} bytes left", n, self.b.len() - self.p)); }
        let mut v = Vec::with_capacity(n);
        for _ in 0..n { v.push(f(self)?); }
        Ok(v)
    }
}

#[derive(Default, Debug)]
struct DSym {
    kind: i32,
    ident: String,
    type_ids: Vec<String>,
    underlying: Option<String>,
    bases: Vec<String>,
    /// identifiers of members relative to the symbol: `f`, `op`, `op::p`, `X`, `X::f`
    members: Vec<String>,
}

#[derive(Debug)]
struct DFile { path: String, module: String, syms: Vec<DSym> }

fn r_attribute(r: &mut Rd) -> R<()> { r.string()?; r.seq(|r| r.string())?; r.tag_end("Attribute") }

fn r_type_ref(r: &mut Rd, out: &mut Vec<String>) -> R<()> {
    let id = r.string()?;
    r.boolean()?;
    r.seq(r_attribute)?;
    r.tag_end("TypeRef")?;
    out.push(id);
    Ok(())
}

fn r_message_component(r: &mut Rd) -> R<()> {
    match r.varint32()? { 0 | 1 => { r.string()?; } d => return Err(format!("MessageComponent discriminant {}", d)) }
    r.tag_end("MessageComponent")
}

fn r_doc_comment(r: &mut Rd) -> R<()> { r.seq(r_message_component)?; r.seq(|r| r.string())?; r.tag_end("DocComment") }

fn r_entity_info(r: &mut Rd) -> R<String> {
    let bits = r.u8()?;
    if bits > 1 { return Err(format!("EntityInfo bit sequence {:#x}", bits)); }
    let ident = r.string()?;
    r.seq(r_attribute)?;
    if bits & 1 == 1 { r_doc_comment(r)?; }
    r.tag_end("EntityInfo")?;
    Ok(ident)
}

fn r_field(r: &mut Rd, type_ids: &mut Vec<String>) -> R<String> {
    let bits = r.u8()?;
    if bits > 1 { return Err(format!("Field bit sequence {:#x}", bits)); }
    let ident = r_entity_info(r)?;
    if bits & 1 == 1 { let t = r.varint32()?; if t < 0 { return Err(format!("negative tag {}", t)); } }
    r_type_ref(r, type_ids)?;
    r.tag_end("Field")?;
    Ok(ident)
}

fn r_symbol(r: &mut Rd) -> R<DSym> {
    let mut s = DSym { kind: r.varint32()?, ..Default::default() };
    match s.kind {
        0 => { // Interface
            s.ident = r_entity_info(r)?;
            s.bases = r.seq(|r| r.string())?;
            let n = r.size()?;
            for _ in 0..n {
                let op = r_entity_info(r)?;
                r.boolean()?;
                let ps = { let mut v = vec![]; let k = r.size()?; for _ in 0..k { v.push(r_field(r, &mut s.type_ids)?); } v };
                r.boolean()?;
                let rs = { let mut v = vec![]; let k = r.size()?; for _ in 0..k { v.push(r_field(r, &mut s.type_ids)?); } v };
                r.boolean()?;
                r.tag_end("Operation")?;
                for p in ps.iter().chain(rs.iter()) { s.members.push(format!("{}::{}", op, p)); }
                s.members.push(op);
            }
            r.tag_end("Interface")?;
        }
        1 => { // BasicEnum
            s.ident = r_entity_info(r)?;
            r.boolean()?;
            s.underlying = Some(r.string()?);
            let n = r.size()?;
            for _ in 0..n { let e = r_entity_info(r)?; r.u64le()?; r.boolean()?; r.tag_end("Enumerator")?; s.members.push(e); }
            r.tag_end("BasicEnum")?;
        }
        2 => { // VariantEnum
            s.ident = r_entity_info(r)?;
            r.boolean()?; r.boolean()?;
            let n = r.size()?;
            for _ in 0..n {
                let e = r_entity_info(r)?;
                let d = r.i32le()?;
                if d < 0 { return Err(format!("negative discriminant {}", d)); }
                let k = r.size()?;
                for _ in 0..k { let f = r_field(r, &mut s.type_ids)?; s.members.push(format!("{}::{}", e, f)); }
                r.tag_end("Variant")?;
                s.members.push(e);
            }
            r.tag_end("VariantEnum")?;
        }
        3 => { // Struct
            s.ident = r_entity_info(r)?;
            r.boolean()?;
            let n = r.size()?;
            for _ in 0..n { let f = r_field(r, &mut s.type_ids)?; s.members.push(f); }
            r.tag_end("Struct")?;
        }
        4 => { s.ident = r_entity_info(r)?; r.tag_end("CustomType")?; }
        5 => { r_type_ref(r, &mut s.type_ids)?; r.tag_end("SequenceType")?; }
        6 | 7 => { r_type_ref(r, &mut s.type_ids)?; r_type_ref(r, &mut s.type_ids)?; r.tag_end(if s.kind == 6 { "DictionaryType" } else { "ResultType" })?; }
        8 => { s.ident = r_entity_info(r)?; r_type_ref(r, &mut s.type_ids)?; r.tag_end("TypeAlias")?; }
        d => return Err(format!("Symbol discriminant {}", d)),
    }
    r.tag_end("Symbol")?;
    Ok(s)
}

fn r_slice_file(r: &mut Rd) -> R<DFile> {
    let path = r.string()?;
    let module = r.string()?;
    r.seq(r_attribute)?;
    r.tag_end("Module")?;
    r.seq(r_attribute)?;
    let syms = r.seq(r_symbol)?;
    r.tag_end("SliceFile")?;
    Ok(DFile { path, module, syms })
}

const PRIMS: [&str; 16] = ["bool", "int8", "uint8", "int16", "uint16", "int32", "uint32", "varint32", "varuint32", "int64", "uint64",
    "varint62", "varuint62", "float32", "float64", "string"];

/// decodes `bytes` as the request (+ arguments when `with_args`) and checks the structural invariants
fn oracle(bytes: &[u8], with_args: bool, state: &CompilationState) -> R<()> {
    let mut r = Rd { b: bytes, p: 0 };
    let op = r.string()?;
    if op != "generateCode" { return Err(format!("operation name {:?}", op)); }
    let sources = r.seq(r_slice_file)?;
    let references = r.seq(r_slice_file)?;
    if with_args {
        let n = r.size()?;
        for _ in 0..n { r.string()?; r.string()?; }
    }
    if r.p != bytes.len() { return Err(format!("{} bytes left over", bytes.len() - r.p)); }

    // split and order are those of the compilation (module-less files are not transmitted)
    let want = |src: bool| -> Vec<String> { state.files.iter().filter(|f| f.is_source == src && f.module.is_some()).map(|f| f.relative_path.clone()).collect() };
    let got = |fs: &Vec<DFile>| -> Vec<String> { fs.iter().map(|f| f.path.clone()).collect() };
    if got(&sources) != want(true) { return Err(format!("source files {:?}, compiled {:?}", got(&sources), want(true))); }
    if got(&references) != want(false) { return Err(format!("reference files {:?}, compiled {:?}", got(&references), want(false))); }

    let mut types: HashSet<String> = HashSet::new();
    let mut interfaces: HashSet<String> = HashSet::new();
    let mut entities: HashSet<String> = HashSet::new();
    for f in sources.iter().chain(references.iter()) {
        for s in &f.syms {
            if matches!(s.kind, 5 | 6 | 7) { continue; }
            let id = format!("{}::{}", f.module, s.ident);
            if matches!(s.kind, 1 | 2 | 3 | 4) { types.insert(id.clone()); }
            if s.kind == 0 { interfaces.insert(id.clone()); }
            for m in &s.members { entities.insert(format!("{}::{}", id, m)); }
            entities.insert(id);
        }
    }
    for f in sources.iter().chain(references.iter()) {
        for (i, s) in f.syms.iter().enumerate() {
            for id in &s.type_ids {
                if !id.is_empty() && id.bytes().all(|c| c.is_ascii_digit()) {
                    let j: usize = id.parse().map_err(|_| format!("numeric id {} too large", id))?;
                    if j >= i { return Err(format!("{}: symbol {} uses numeric id {} (not earlier)", f.path, i, j)); }
                    if !matches!(f.syms[j].kind, 5 | 6 | 7) { return Err(format!("{}: numeric id {} names a symbol of kind {}", f.path, j, f.syms[j].kind)); }
                } else if !PRIMS.contains(&id.as_str()) && !types.contains(id) {
                    return Err(format!("{}: type id {:?} names no transmitted struct / enum / custom type", f.path, id));
                }
            }
            if let Some(u) = &s.underlying { if !PRIMS.contains(&u.as_str()) { return Err(format!("underlying {:?} is not a primitive", u)); } }
            for b in &s.bases { if !interfaces.contains(b) { return Err(format!("{}: base {:?} names no transmitted interface", f.path, b)); } }
        }
    }
    // links the compiler resolved must name transmitted entities
    let mut check_comment = |c: Option<&DocComment>| -> R<()> {
        if let Some(c) = c {
            let mut links: Vec<String> = vec![];
            let mut msg = |m: &Message| { for comp in &m.value { if let MessageComponent::Link(l) = comp { if let Ok(e) = l.linked_entity() { links.push(e.parser_scoped_identifier()); } } } };
            if let Some(o) = &c.overview { msg(o); }
            for p in &c.params { msg(&p.message); }
            for s in &c.see { if let Ok(e) = s.linked_entity() { links.push(e.parser_scoped_identifier()); } }
            for l in links { if !entities.contains(&l) { return Err(format!("resolved link {:?} names no transmitted entity", l)); } }
        }
        Ok(())
    };
    for f in state.files.iter().filter(|f| f.module.is_some()) {
        for d in &f.contents {
            match d {
                Definition::Struct(p) => { let s = p.borrow(); check_comment(s.comment())?; for x in s.fields() { check_comment(x.comment())?; } }
                Definition::Interface(p) => { let s = p.borrow(); check_comment(s.comment())?; for x in s.operations() { check_comment(x.comment())?; } }
                Definition::Enum(p) => { let s = p.borrow(); check_comment(s.comment())?;
                    for x in s.enumerators() { check_comment(x.comment())?; if x.fields.is_some() { for y in x.fields() { check_comment(y.comment())?; } } } }
                Definition::CustomType(p) => check_comment(p.borrow().comment())?,
                Definition::TypeAlias(p) => check_comment(p.borrow().comment())?,
            }
        }
    }
    Ok(())
}

pub fn project(state: CompilationState, options: SliceOptions, name: &str) -> String {
    let _ = &options;
    let mut parts = name.split(';');
    let head = parts.next().unwrap_or("");
    if head != "request" { return format!("unknown-projection:c08:{}", name); }
    let mut refs: Vec<usize> = vec![];
    let mut args: Option<Vec<(String, String)>> = None;
    for p in parts {
        if let Some(l) = p.strip_prefix("r=") {
            refs = l.split('.').filter(|x| !x.is_empty()).filter_map(|x| x.parse().ok()).collect();
        } else if let Some(l) = p.strip_prefix("a=") {
            let mut v = vec![];
            for kv in l.split(',').filter(|x| !x.is_empty()) {
                let (k, val) = kv.split_once(':').unwrap_or((kv, ""));
                let d = |h: &str| if h.is_empty() { Some(String::new()) } else { unhex(h).and_then(|b| String::from_utf8(b).ok()) };
                match (d(k), d(val)) { (Some(k), Some(val)) => v.push((k, val)), _ => return "bad-case".into() }
            }
            args = Some(v);
        }
    }
    let mut state = state;
    if state.diagnostics.has_errors() {
        // main.rs builds no request when the compilation has errors
        let mut v: Vec<String> = state.diagnostics.into_inner().iter().filter(|d| d.level() == DiagnosticLevel::Error).map(|d| d.code().to_string()).collect();
        v.sort(); v.dedup();
        return format!("errors:{}", v.join(","));
    }
    for (i, f) in state.files.iter_mut().enumerate() { f.is_source = !refs.contains(&i); }
    let encoded = catch_unwind(AssertUnwindSafe(|| {
        let mut bytes = encode_generate_code_request(&state.files)?;
        if let Some(a) = &args { bytes.extend(encode_arguments(a)?); }
        Ok::<Vec<u8>, slice_codec::Error>(bytes)
    }));
    match encoded {
        Err(_) => "panic".into(),
        Ok(Err(_)) => "refused".into(),
        Ok(Ok(bytes)) => match oracle(&bytes, args.is_some(), &state) {
            Ok(()) => if bytes.is_empty() { "-".into() } else { hex(&bytes) },
            Err(reason) => format!("oracle-failed({})", reason.replace(['\t', '\n'], " ")),
        },
    }
}
