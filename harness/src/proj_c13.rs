//! Projections of a compilation used by property C13 (engine `compile`, projection names `c13:<name>`).
//!
//! `c13:diags`         every diagnostic after `into_updated`, in recording order: `code/level/span@file/scope`; the
//!                     span is written in full for `Deprecated` (the model knows where type references are) and as
//!                     `*` for everything else (positions inside doc comments belong to C09/C16); no message text.
//! `c13:diags-sorted`  the same entries sorted (random programs with many lints: levels matter, not the order
//!                     in which the phases of the compiler happened to record them).
//! `c13:frame/<options>/<files>/<allow arguments|->`
//!                     frame check done on this side: the case's own files+options are the variant WITH the
//!                     suppression, the projection name carries the variant WITHOUT it (same syntax as the case
//!                     fields). Both are compiled; everything must be identical except
//!                       * the AST dump (`file_ast`) of the first may contain one more `allow(<arguments>)` attribute,
//!                       * levels may go from Warning to Allowed (never anything else, never an error).
//!                     Output `frame-ok changed=<k> errors=<n>` (k = number of levels that differ) or `frame-FAIL …`.
#![allow(unused_imports, dead_code)]
use crate::compile::*;
use slicec::compilation_state::CompilationState;
use slicec::diagnostics::{Diagnostic, DiagnosticLevel};
use slicec::grammar::*;
use slicec::slice_options::SliceOptions;

fn lvl(l: DiagnosticLevel) -> &'static str {
    match l { DiagnosticLevel::Error => "E", DiagnosticLevel::Warning => "W", DiagnosticLevel::Allowed => "A" }
}

fn entries(diags: &[Diagnostic]) -> Vec<String> {
    diags.iter().map(|d| {
        let span = match d.span() {
            None => "-".to_string(),
            Some(s) if d.code() == "Deprecated" => format!("{}:{}:{}:{}@{}", s.start.row, s.start.col, s.end.row, s.end.col, s.file),
            Some(s) => format!("*@{}", s.file),
        };
        // errors are shown as `error` (which error it is belongs to C04); a lint is whatever `Lint` declares
        let code = if slicec::diagnostics::Lint::ALLOWABLE_LINT_IDENTIFIERS.contains(&d.code()) { d.code() } else { "error" };
        format!("{}/{}/{}/{}", code, lvl(d.level()), span, d.scope().map_or("-".to_string(), |s| hs(s)))
    }).collect()
}

fn join(v: Vec<String>) -> String { if v.is_empty() { "-".into() } else { v.join(";") } }

/// everything about a diagnostic except its level
fn frame_key(d: &Diagnostic) -> String {
    let span = |s: Option<&slicec::slice_file::Span>| s.map_or("-".to_string(), |s| format!("{}:{}:{}:{}@{}", s.start.row, s.start.col, s.end.row, s.end.col, s.file));
    let notes: Vec<String> = d.notes().iter().map(|n| format!("{}@{}", n.message, span(n.span.as_ref()))).collect();
    format!("{}|{}|{}|{}|{}", d.code(), span(d.span()), d.scope().cloned().unwrap_or_else(|| "-".into()), d.message(), notes.join("~"))
}

/// `with` equals `without`, or `without` with exactly one more attribute entry `entry` in some attribute list
fn differs_by_one_entry(with: &str, without: &str, entry: Option<&str>) -> bool {
    if with == without { return true; }
    let Some(entry) = entry else { return false };
    let mut from = 0;
    while let Some(p) = with[from..].find(entry) {
        let i = from + p;
        let j = i + entry.len();
        let mut cands: Vec<String> = vec![format!("{}{}", &with[..i], &with[j..])];
        if with[j..].starts_with(',') { cands.push(format!("{}{}", &with[..i], &with[j + 1..])); }
        if with[..i].ends_with(',') { cands.push(format!("{}{}", &with[..i - 1], &with[j..])); }
        if cands.iter().any(|c| c == without) { return true; }
        from = i + 1;
    }
    false
}

fn frame(state: CompilationState, options: SliceOptions, spec: &str) -> String {
    let parts: Vec<&str> = spec.split('/').collect();
    if parts.len() != 3 { return "frame-FAIL bad projection arguments".into(); }
    let Some(base) = compile(parts[1], parts[0]) else { return "frame-FAIL bad baseline files".into() };
    let entry = if parts[2] == "-" { None } else {
        Some(format!("{}({})", hs("allow"), parts[2].split(',').map(|a| hs(a)).collect::<Vec<_>>().join(",")))
    };
    let ast_with: String = state.files.iter().map(file_ast).collect::<Vec<_>>().join("|");
    let ast_base: String = base.state.files.iter().map(file_ast).collect::<Vec<_>>().join("|");
    if !differs_by_one_entry(&ast_with, &ast_base, entry.as_deref()) {
        return format!("frame-FAIL the AST differs by more than the attribute: {}", short_diff(&ast_base, &ast_with));
    }
    let with = state.diagnostics.into_updated(&state.ast, &state.files, &options);
    let without = base.state.diagnostics.into_updated(&base.state.ast, &base.state.files, &base.options);
    if with.len() != without.len() {
        return format!("frame-FAIL {} diagnostics with the suppression, {} without", with.len(), without.len());
    }
    let mut changed = 0;
    for (i, (a, b)) in with.iter().zip(without.iter()).enumerate() {
        if frame_key(a) != frame_key(b) {
            return format!("frame-FAIL diagnostic {} differs beyond its level: {} vs {}", i, frame_key(a), frame_key(b));
        }
        if a.level() != b.level() {
            if !(b.level() == DiagnosticLevel::Warning && a.level() == DiagnosticLevel::Allowed) {
                return format!("frame-FAIL diagnostic {} ({}) went from {} to {}", i, a.code(), lvl(b.level()), lvl(a.level()));
            }
            changed += 1;
        }
    }
    let errors = with.iter().filter(|d| d.level() == DiagnosticLevel::Error).count();
    format!("frame-ok changed={} errors={}", changed, errors)
}

pub fn project(state: CompilationState, options: SliceOptions, name: &str) -> String {
    if let Some(spec) = name.strip_prefix("frame/") { return frame(state, options, spec); }
    match name {
        "diags" => { let d = state.diagnostics.into_updated(&state.ast, &state.files, &options); join(entries(&d)) }
        "diags-sorted" => { let d = state.diagnostics.into_updated(&state.ast, &state.files, &options); let mut v = entries(&d); v.sort(); join(v) }
        _ => format!("unknown-projection:c13:{}", name),
    }
}
