//! Engine `slicelex` (C02): the private Slice lexer of slicec (`parsers/slice/lexer.rs`), reached through
//! `slicec::verif_hooks::lex_slice` (`--cfg slicec_verif`), on model-generated text: one source block starting at 1:1.
//!
//! case line:
//!   lex <fam> <text hex> <expected>
//! `expected` is the model's output stream (Model/SliceLexer.lean `lexRun`), `-` when empty, otherwise comma-separated:
//!   `I:<hex>` Identifier, `S:<hex>` StringLiteral, `N:<hex>` IntegerLiteral, `D:<hex>` DocComment (payload texts),
//!   the `Debug` name of every other token kind (`StructKeyword`, `LeftParenthesis`, `DoubleColon`, …),
//!   `E:UnknownSymbol:<hex symbol>:<hex suggestion | ~>`, `E:UnterminatedStringLiteral`, `E:UnterminatedBlockComment`.
//! The whole iterator output is compared, i.e. also what the lexer returns *after* an error (the parser itself stops at
//! the first one). Locations are not compared here (C09).

use crate::codec::CaseResult;
use crate::dynval::unhex;
use slicec::verif_hooks;
use std::panic::{catch_unwind, AssertUnwindSafe};

const PLAIN_KINDS: [&str; 47] = [
    "ModuleKeyword", "StructKeyword", "InterfaceKeyword", "EnumKeyword", "CustomKeyword", "TypeAliasKeyword", "ResultKeyword",
    "SequenceKeyword", "DictionaryKeyword", "BoolKeyword", "Int8Keyword", "UInt8Keyword", "Int16Keyword", "UInt16Keyword",
    "Int32Keyword", "UInt32Keyword", "VarInt32Keyword", "VarUInt32Keyword", "Int64Keyword", "UInt64Keyword", "VarInt62Keyword",
    "VarUInt62Keyword", "Float32Keyword", "Float64Keyword", "StringKeyword", "CompactKeyword", "IdempotentKeyword", "StreamKeyword",
    "TagKeyword", "UncheckedKeyword", "LeftParenthesis", "RightParenthesis", "LeftBracket", "RightBracket", "DoubleLeftBracket",
    "DoubleRightBracket", "LeftBrace", "RightBrace", "LeftChevron", "RightChevron", "Comma", "Colon", "DoubleColon", "Equals",
    "QuestionMark", "Arrow", "Minus",
];

/// the `Debug` text the real token / error kinds print, built from the model's canonical token
fn debug_of(tok: &str) -> Option<String> {
    let txt = |h: &str| unhex(h).and_then(|b| String::from_utf8(b).ok());
    if PLAIN_KINDS.contains(&tok) { return Some(tok.to_string()); }
    let p: Vec<&str> = tok.split(':').collect();
    Some(match p.as_slice() {
        ["I", h] => format!("Identifier({:?})", txt(h)?),
        ["S", h] => format!("StringLiteral({:?})", txt(h)?),
        ["N", h] => format!("IntegerLiteral({:?})", txt(h)?),
        ["D", h] => format!("DocComment({:?})", txt(h)?),
        ["E", "UnknownSymbol", h, "~"] => format!("UnknownSymbol {{ symbol: {:?}, suggestion: None }}", txt(h)?),
        ["E", "UnknownSymbol", h, s] => format!("UnknownSymbol {{ symbol: {:?}, suggestion: Some({:?}) }}", txt(h)?, txt(s)?),
        ["E", "UnterminatedStringLiteral"] => "UnterminatedStringLiteral".to_string(),
        ["E", "UnterminatedBlockComment"] => "UnterminatedBlockComment".to_string(),
        _ => return None,
    })
}

pub fn run_lex(text: &str, expected: &str) -> CaseResult {
    let bad = |why: &str| CaseResult { actual: "bad-case".into(), diff: Some(why.to_string()), oracle: None, nontrivial: false };
    let Some(input) = unhex(text).and_then(|b| String::from_utf8(b).ok()) else { return bad("undecodable text") };
    let exp: Option<Vec<String>> = if expected == "-" { Some(vec![]) } else { expected.split(',').map(debug_of).collect() };
    let Some(exp) = exp else { return bad("undecodable expected tokens") };
    let r = catch_unwind(AssertUnwindSafe(|| verif_hooks::lex_slice(&input)));
    let (act, oracle): (Vec<String>, Option<String>) = match r {
        Err(_) => (vec!["panic".to_string()], Some("the Slice lexer panicked".to_string())),
        Ok(items) => (items.into_iter().map(|it| match it { Ok((t, _)) => t, Err((e, _)) => e }).collect(), None),
    };
    let actual = act.join(" ");
    let diff = if act != exp { Some(crate::compile::short_diff(&exp.join(" "), &actual)) } else { None };
    CaseResult { nontrivial: act.len() > 2, actual, diff, oracle }
}
