//! Engine `slicelex` (C02): the private Slice lexer of slicec (`parsers/slice/lexer.rs`), reached through
//! `slicec::verif_hooks::lex_slice` (`--cfg slicec_verif`), on model-generated text: one source block starting at 1:1.
//!
//! case line:
//!   lex <fam> <text hex> <expected>
//! `expected` is the model's output stream (Model/SliceLexer.lean `lexRun`), `-` when empty, otherwise comma-separated:
//!   `I:<hex>` Identifier, `S:<hex>` StringLiteral, `N:<hex>` IntegerLiteral, `D:<hex>` DocComment (payload texts),
//!   the `Debug` name of every other token kind (`StructKeyword`, `LeftParenthesis`, `DoubleColon`, …),
//!   `E:UnknownSymbol:<hex symbol>:<hex suggestion | ~>`, `E:UnterminatedStringLiteral`, `E:UnterminatedBlockComment`.
//! The whole iterator output is compared, i.e. also what the lexer returns *after* an error (the parser itself stops at
//! the first one). Locations are not compared by `lex` (C02).
//!
//!   lexloc <fam> <text hex> <expected>      (C09, stream `C09lex`)
//! the same stream WITH the locations every token / error is returned with (Model/SliceLexerLoc.lean `lexRunLoc`):
//! every element is `<token as above>@<start row>.<start col>-<end row>.<end col>`.
//! Oracle on the lexer's output alone: rows / columns are 1-based, start <= end, elements do not overlap and are in
//! source order, and the characters between start and end (rows split at LF, columns counted in characters) are the
//! token's spelling: the text of an integer literal, `"` + text + `"` of a string literal, the text of an identifier
//! with or without a leading backslash, the text of a doc comment (plus a CR that was stripped) preceded by `///`.

use crate::codec::CaseResult;
use crate::dynval::unhex;
use slicec::verif_hooks;
use std::panic::{catch_unwind, AssertUnwindSafe};

const PLAIN_KINDS: [&str; 47] = [
    "ModuleKeyword", "StructKeyword", "InterfaceKeyword", "EnumKeyword", "CustomKeyword", "TypeAliasKeyword", "ResultKeyword",
    "SequenceKeyword", "DictionaryKeyword", "BoolKeyword", "Int8Keyword", "UInt8Keyword", "Int16Keyword", "UInt16Keyword",
    "Int32Keyword", "UInt32Keyword", "VarInt32Keyword", "VarUInt32Keyword", "Int64Keyword", "UInt64Keyword", "VarInt62Keyword",
    "VarUInt62Keyword", "Float32Keyword", "Float64Keyword", "StringKeyword", "CompactKeyword", "IdempotentKeyword", "StreamKeyword",
    "TagKeyword", "UncheckedKeyword", "LeftParenthesis", "RightParenthesis", "LeftBracket", "RightBracket", "DoubleLeftBracket",
    "DoubleRightBracket", "LeftBrace", "RightBrace", "LeftChevron", "RightChevron", "Comma", "Colon", "DoubleColon", "Equals",
    "QuestionMark", "Arrow", "Minus",
];

/// the `Debug` text the real token / error kinds print, built from the model's canonical token
fn debug_of(tok: &str) -> Option<String> {
    let txt = |h: &str| unhex(h).and_then(|b| String::from_utf8(b).ok());
    if PLAIN_KINDS.contains(&tok) { return Some(tok.to_string()); }
    let p: Vec<&str> = tok.split(':').collect();
    Some(match p.as_slice() {
        ["I", h] => format!("Identifier({:?})", txt(h)?),
        ["S", h] => format!("StringLiteral({:?})", txt(h)?),
        ["N", h] => format!("IntegerLiteral({:?})", txt(h)?),
        ["D", h] => format!("DocComment({:?})", txt(h)?),
        ["E", "UnknownSymbol", h, "~"] => format!("UnknownSymbol {{ symbol: {:?}, suggestion: None }}", txt(h)?),
        ["E", "UnknownSymbol", h, s] => format!("UnknownSymbol {{ symbol: {:?}, suggestion: Some({:?}) }}", txt(h)?, txt(s)?),
        ["E", "UnterminatedStringLiteral"] => "UnterminatedStringLiteral".to_string(),
        ["E", "UnterminatedBlockComment"] => "UnterminatedBlockComment".to_string(),
        _ => return None,
    })
}

pub fn run_lex(text: &str, expected: &str) -> CaseResult {
    let bad = |why: &str| CaseResult { actual: "bad-case".into(), diff: Some(why.to_string()), oracle: None, nontrivial: false };
    let Some(input) = unhex(text).and_then(|b| String::from_utf8(b).ok()) else { return bad("undecodable text") };
    let exp: Option<Vec<String>> = if expected == "-" { Some(vec![]) } else { expected.split(',').map(debug_of).collect() };
    let Some(exp) = exp else { return bad("undecodable expected tokens") };
    let r = catch_unwind(AssertUnwindSafe(|| verif_hooks::lex_slice(&input)));
    let (act, oracle): (Vec<String>, Option<String>) = match r {
        Err(_) => (vec!["panic".to_string()], Some("the Slice lexer panicked".to_string())),
        Ok(items) => (items.into_iter().map(|it| match it { Ok((t, _)) => t, Err((e, _)) => e }).collect(), None),
    };
    let actual = act.join(" ");
    let diff = if act != exp { Some(crate::compile::short_diff(&exp.join(" "), &actual)) } else { None };
    CaseResult { nontrivial: act.len() > 2, actual, diff, oracle }
}

/// index (in characters) of a 1-based location when rows are split at LF and every other character is one column
fn char_index(chars: &[char], row: usize, col: usize) -> Option<usize> {
    if row == 0 || col == 0 { return None; }
    let (mut r, mut c) = (1usize, 1usize);
    for (i, ch) in chars.iter().enumerate() {
        if r == row && c == col { return Some(i); }
        if *ch == '\n' { r += 1; c = 1; } else { c += 1; }
    }
    if r == row && c == col { Some(chars.len()) } else { None }
}

/// the property's own predicate on one returned element
fn check_extent(chars: &[char], dbg: &str, l: (usize, usize, usize, usize), prev_end: (usize, usize)) -> Option<String> {
    let (sr, sc, er, ec) = l;
    if (sr, sc) > (er, ec) { return Some(format!("{dbg}: start {sr}:{sc} after end {er}:{ec}")); }
    if (sr, sc) < prev_end { return Some(format!("{dbg}: starts at {sr}:{sc}, before the end of the previous element {}:{}", prev_end.0, prev_end.1)); }
    let (Some(i), Some(j)) = (char_index(chars, sr, sc), char_index(chars, er, ec)) else {
        return Some(format!("{dbg}: location {sr}:{sc}-{er}:{ec} is not a position of the text"));
    };
    let slice: String = chars[i..j].iter().collect();
    let payload = |name: &str| -> Option<String> {
        let inner = dbg.strip_prefix(name)?.strip_prefix('(')?.strip_suffix(')')?;
        // undo `{:?}` of a &str: the harness only needs equality with a re-quoted candidate
        Some(inner.to_string())
    };
    let q = |t: &str| format!("{:?}", t);
    if let Some(p) = payload("IntegerLiteral") {
        if q(&slice) != p { return Some(format!("{dbg}: the text at {sr}:{sc}-{er}:{ec} is {:?}", slice)); }
    } else if let Some(p) = payload("StringLiteral") {
        let ok = slice.len() >= 2 && slice.starts_with('"') && slice.ends_with('"') && q(&slice[1..slice.len() - 1]) == p;
        if !ok { return Some(format!("{dbg}: the text at {sr}:{sc}-{er}:{ec} is {:?}", slice)); }
    } else if let Some(p) = payload("Identifier") {
        let ok = q(&slice) == p || (slice.starts_with('\\') && q(&slice[1..]) == p);
        if !ok { return Some(format!("{dbg}: the text at {sr}:{sc}-{er}:{ec} is {:?}", slice)); }
    } else if let Some(p) = payload("DocComment") {
        let ok = q(&slice) == p || (slice.ends_with('\r') && q(&slice[..slice.len() - 1]) == p);
        let slashes = i >= 3 && chars[i - 3..i].iter().all(|c| *c == '/');
        if !ok || !slashes { return Some(format!("{dbg}: the text at {sr}:{sc}-{er}:{ec} is {:?} (preceded by ///: {slashes})", slice)); }
    } else if PLAIN_KINDS.contains(&dbg) && (slice.is_empty() || slice.chars().any(|c| c.is_whitespace())) {
        return Some(format!("{dbg}: the text at {sr}:{sc}-{er}:{ec} is {:?}", slice));
    }
    None
}

pub fn run_lexloc(text: &str, expected: &str) -> CaseResult {
    let bad = |why: &str| CaseResult { actual: "bad-case".into(), diff: Some(why.to_string()), oracle: None, nontrivial: false };
    let Some(input) = unhex(text).and_then(|b| String::from_utf8(b).ok()) else { return bad("undecodable text") };
    let one = |e: &str| -> Option<String> {
        let (t, l) = e.rsplit_once('@')?;
        let (a, b) = l.split_once('-')?;
        let (sr, sc) = a.split_once('.')?;
        let (er, ec) = b.split_once('.')?;
        let n = |x: &str| x.parse::<usize>().ok();
        Some(format!("{}@{}.{}-{}.{}", debug_of(t)?, n(sr)?, n(sc)?, n(er)?, n(ec)?))
    };
    let exp: Option<Vec<String>> = if expected == "-" { Some(vec![]) } else { expected.split(',').map(one).collect() };
    let Some(exp) = exp else { return bad("undecodable expected tokens") };
    let r = catch_unwind(AssertUnwindSafe(|| verif_hooks::lex_slice(&input)));
    let (act, oracle): (Vec<String>, Option<String>) = match r {
        Err(_) => (vec!["panic".to_string()], Some("the Slice lexer panicked".to_string())),
        Ok(items) => {
            let chars: Vec<char> = input.chars().collect();
            let mut oracle = None;
            let mut prev_end = (1usize, 1usize);
            let mut out = Vec::new();
            for it in items {
                let (is_tok, (d, l)) = match it { Ok(x) => (true, x), Err(x) => (false, x) };
                if oracle.is_none() {
                    oracle = if is_tok { check_extent(&chars, &d, l, prev_end) }
                             else if (l.0, l.1) > (l.2, l.3) || (l.0, l.1) < prev_end { Some(format!("{d}: error span {l:?} out of order")) }
                             else { None };
                }
                prev_end = (l.2, l.3);
                out.push(format!("{}@{}.{}-{}.{}", d, l.0, l.1, l.2, l.3));
            }
            (out, oracle)
        }
    };
    let actual = act.join(" ");
    let diff = if act != exp { Some(crate::compile::short_diff(&exp.join(" "), &actual)) } else { None };
    CaseResult { nontrivial: act.len() > 2, actual, diff, oracle }
}
