//! Engine `comments` (C16): the private doc-comment lexer and parser of slicec, reached through
//! `slicec::verif_hooks` (`--cfg slicec_verif`), on model-generated comment lines.
//!
//! case lines (lines = hex|hex|…, `-` = empty line, `~` = no line at all):
//!   lex  <fam> <lines> <expected>   tokens up to and including the first lexer error: `T:<hex>` text, `I:<hex>` identifier,
//!                                   `NL`, `ParamKeyword` …, `LB RB C DC`, `E:<kind>[:<hex>…]`
//!   doc  <fam> <lines> <expected>   `doc(ov=…;p=[…];r=[…];s=[…])` with message components exactly as produced
//!                                   (`t:<hex>` / `l:<hex id>`), or `malformed`, or `panic`
//!   docm <fam> <lines> <expected>   the same with adjacent texts merged and empty texts dropped
//! Line `i` (0-based) is handed over with the span (i+1):4 – (i+1):(4+chars), as the Slice lexer does for a
//! `///` at column 1. Spans and message texts of lints are not compared.
//!
//!   lexloc <fam> <located lines> <expected>     (C09, stream `C09clex`)
//! located lines = `<hex>@<start row>.<start col>-<end row>.<end col>|…`: every line comes with the span the case names
//! (any row, any column). The token stream of `lex` WITH the locations every token / error is returned with
//! (Model/CommentLoc.lean `lexCommentLoc`): every element is `<token as above>@<start row>.<start col>-<end row>.<end col>`.
//! Oracle on the lexer's output alone: an element lies on the row of the line it was lexed from (line k = the number of
//! `Newline`s before it), between that line's start column and start column + number of characters, start <= end,
//! elements of a line in order without overlap, the characters between start and end are the element's spelling
//! (`Text` / `Identifier` payload, `@` + tag for keywords and tag errors, `{` + blanks, `}`, `:`, `::`, the unknown symbol),
//! what lies between two elements is whitespace, and `Newline` / `UnterminatedInlineTag` are zero-width at the line's end.
//!
//!   docloc <fam> <located lines> <expected>     (C09, stream `C09doc`)
//! the comment parser (`verif_hooks::parse_doc_comment`) on lines with the spans the case names; compared is the located
//! comment `doc(<span>;ov=…;p=[…];r=[…];s=[…])` (format: harness/src/proj_c09.rs; Model/CommentDocLoc.lean `ldocS`), or
//! `malformed` (the hook returns the lint's code, not its span: the span is compared by projection `c09:docspans`), or `panic`.
//! Oracle on the parser's output alone: `proj_c09::doc_oracle` with the case's lines as the comment's lines.

use crate::codec::CaseResult;
use crate::dynval::{hex, unhex};
use slicec::grammar::{DocComment, Message, MessageComponent, TypeRefDefinition};
use slicec::verif_hooks;
use std::panic::{catch_unwind, AssertUnwindSafe};

fn hs(s: &str) -> String { hex(s.as_bytes()) }

fn decode_lines(field: &str) -> Option<Vec<(String, verif_hooks::Loc4)>> {
    if field == "~" { return Some(vec![]); }
    let mut out = vec![];
    for (i, h) in field.split('|').enumerate() {
        let text = String::from_utf8(unhex(h)?).ok()?;
        let n = text.chars().count();
        out.push((text, (i + 1, 4, i + 1, 4 + n)));
    }
    Some(out)
}

fn link_id(l: &TypeRefDefinition<dyn slicec::grammar::Entity>) -> String {
    match l {
        TypeRefDefinition::Unpatched(id) => id.value.clone(),
        TypeRefDefinition::Patched(_) => "<patched>".to_string(),
    }
}

/// components of a message: (is_link, text or identifier)
fn comps(m: &Message, merged: bool) -> Vec<(bool, String)> {
    let mut out: Vec<(bool, String)> = vec![];
    for c in &m.value {
        match c {
            MessageComponent::Text(t) => {
                if merged {
                    if t.is_empty() { continue; }
                    if let Some((false, last)) = out.last_mut() { last.push_str(t); continue; }
                }
                out.push((false, t.clone()));
            }
            MessageComponent::Link(l) => out.push((true, link_id(&l.link))),
        }
    }
    out
}

fn msg_s(m: &Message, merged: bool) -> String {
    let v: Vec<String> = comps(m, merged).into_iter().map(|(l, s)| format!("{}:{}", if l { "l" } else { "t" }, hs(&s))).collect();
    format!("[{}]", v.join(","))
}

pub fn doc_s(c: &DocComment, merged: bool) -> String {
    let ov = c.overview.as_ref().map_or("none".to_string(), |m| msg_s(m, merged));
    let p: Vec<String> = c.params.iter().map(|t| format!("{}={}", hs(&t.identifier.value), msg_s(&t.message, merged))).collect();
    let r: Vec<String> = c.returns.iter().map(|t| format!("{}={}", t.identifier.as_ref().map_or("none".to_string(), |i| hs(&i.value)), msg_s(&t.message, merged))).collect();
    let s: Vec<String> = c.see.iter().map(|t| hs(&link_id(&t.link))).collect();
    format!("doc(ov={};p=[{}];r=[{}];s=[{}])", ov, p.join(","), r.join(","), s.join(","))
}

pub fn run_doc(lines: &str, expected: &str, merged: bool) -> CaseResult {
    let Some(input) = decode_lines(lines) else {
        return CaseResult { actual: "bad-case".into(), diff: Some("undecodable lines".into()), oracle: None, nontrivial: false };
    };
    let r = catch_unwind(AssertUnwindSafe(|| verif_hooks::parse_doc_comment(&input, "M::x")));
    let (actual, oracle) = match r {
        Err(_) => ("panic".to_string(), if input.is_empty() { None } else { Some("the comment parser panicked".to_string()) }),
        Ok((comment, codes)) => {
            // the property on the implementation alone: failures are reported as exactly one lint, successes silently
            let oracle = match &comment {
                Some(_) if !codes.is_empty() => Some(format!("a parsed comment came with diagnostics {:?}", codes)),
                None if codes.len() != 1 || codes[0] != "MalformedDocComment" => Some(format!("a rejected comment was reported as {:?}, not as one MalformedDocComment lint", codes)),
                _ => None,
            };
            (comment.map_or("malformed".to_string(), |c| doc_s(&c, merged)), oracle)
        }
    };
    let diff = if actual != expected { Some(crate::compile::short_diff(expected, &actual)) } else { None };
    CaseResult { nontrivial: actual.starts_with("doc(") && actual.len() > 40, actual, diff, oracle }
}

/// the `Debug` text the real token / error kinds print, built from the model's canonical token
fn debug_of(tok: &str) -> Option<String> {
    let txt = |h: &str| unhex(h).and_then(|b| String::from_utf8(b).ok());
    Some(match tok {
        "NL" => "Newline".into(), "LB" => "LeftBrace".into(), "RB" => "RightBrace".into(), "C" => "Colon".into(), "DC" => "DoubleColon".into(),
        "ParamKeyword" | "ReturnsKeyword" | "SeeKeyword" | "LinkKeyword" => tok.to_string(),
        "E:MissingTag" => "MissingTag".into(), "E:UnterminatedInlineTag" => "UnterminatedInlineTag".into(),
        _ => {
            let p: Vec<&str> = tok.split(':').collect();
            match p.as_slice() {
                ["T", h] => format!("Text({:?})", txt(h)?),
                ["I", h] => format!("Identifier({:?})", txt(h)?),
                ["E", "UnknownSymbol", h] => format!("UnknownSymbol {{ symbol: {:?} }}", txt(h)?.chars().next()?),
                ["E", "UnknownTag", h] => format!("UnknownTag {{ tag: {:?} }}", txt(h)?),
                ["E", "IncorrectContextForTag", h, i] => format!("IncorrectContextForTag {{ tag: {:?}, is_inline: {} }}", txt(h)?, *i == "1"),
                _ => return None,
            }
        }
    })
}

pub fn run_lex(lines: &str, expected: &str) -> CaseResult {
    let Some(input) = decode_lines(lines) else {
        return CaseResult { actual: "bad-case".into(), diff: Some("undecodable lines".into()), oracle: None, nontrivial: false };
    };
    let exp: Option<Vec<String>> = if expected == "-" { Some(vec![]) } else { expected.split(',').map(debug_of).collect() };
    let Some(exp) = exp else {
        return CaseResult { actual: "bad-case".into(), diff: Some("undecodable expected tokens".into()), oracle: None, nontrivial: false };
    };
    let r = catch_unwind(AssertUnwindSafe(|| verif_hooks::lex_comment(&input)));
    let (act, oracle): (Vec<String>, Option<String>) = match r {
        Err(_) => (vec!["panic".to_string()], Some("the comment lexer panicked".to_string())),
        Ok(items) => {
            let mut v = vec![];
            for it in items {
                match it { Ok((t, _)) => v.push(t), Err((e, _)) => { v.push(e); break; } }
            }
            (v, None)
        }
    };
    let actual = act.join(" ");
    let diff = if act != exp { Some(crate::compile::short_diff(&exp.join(" "), &actual)) } else { None };
    CaseResult { nontrivial: act.len() > 2, actual, diff, oracle }
}

fn decode_lines_loc(field: &str) -> Option<Vec<(String, verif_hooks::Loc4)>> {
    if field == "~" { return Some(vec![]); }
    let mut out = vec![];
    for item in field.split('|') {
        let (h, l) = item.rsplit_once('@')?;
        let (a, b) = l.split_once('-')?;
        let (sr, sc) = a.split_once('.')?;
        let (er, ec) = b.split_once('.')?;
        let n = |x: &str| x.parse::<usize>().ok();
        let text = String::from_utf8(unhex(h)?).ok()?;
        out.push((text, (n(sr)?, n(sc)?, n(er)?, n(ec)?)));
    }
    Some(out)
}

/// the property's own predicate on one element of the comment lexer's output: `line` = the line it was lexed from,
/// `prev_end` = the column where the previous element of that line ended (the line's start column for the first)
fn check_comment_extent(dbg: &str, is_tok: bool, l: verif_hooks::Loc4, line: &(String, verif_hooks::Loc4), prev_end: usize) -> Option<String> {
    let (sr, sc, er, ec) = l;
    let (row, col0) = (line.1 .0, line.1 .1);
    let chars: Vec<char> = line.0.chars().collect();
    let at = format!("{sr}:{sc}-{er}:{ec}");
    if sr == 0 || sc == 0 || er == 0 || ec == 0 { return Some(format!("{dbg}: {at} is not 1-based")); }
    if sr != row || er != row { return Some(format!("{dbg}: {at} is not on row {row} of the line it was lexed from")); }
    if sc > ec { return Some(format!("{dbg}: start after end ({at})")); }
    if sc < col0 || ec > col0 + chars.len() { return Some(format!("{dbg}: {at} is outside the line's columns {}..{}", col0, col0 + chars.len())); }
    if sc < prev_end { return Some(format!("{dbg}: starts at column {sc}, before the end of the previous element ({prev_end})")); }
    if chars[prev_end - col0..sc - col0].iter().any(|c| !c.is_whitespace()) { return Some(format!("{dbg}: the characters between the previous element and {at} are not all whitespace")); }
    let slice: String = chars[sc - col0..ec - col0].iter().collect();
    let at_end = ec == col0 + chars.len();
    let q = |t: &str| format!("{:?}", t);
    let payload = |name: &str| -> Option<String> { Some(dbg.strip_prefix(name)?.strip_prefix('(')?.strip_suffix(')')?.to_string()) };
    let field = |name: &str, key: &str| -> Option<String> {
        let inner = dbg.strip_prefix(name)?.strip_prefix(" { ")?.strip_prefix(key)?.strip_prefix(": ")?;
        Some(inner.split(", is_inline").next()?.trim_end_matches(" }").to_string())
    };
    let bad = || Some(format!("{dbg}: the text at {at} is {:?}", slice));
    if is_tok {
        if let Some(p) = payload("Text") { if q(&slice) != p || slice.is_empty() { return bad(); } }
        else if let Some(p) = payload("Identifier") { if q(&slice) != p || slice.is_empty() { return bad(); } }
        else {
            match dbg {
                "Newline" => if !slice.is_empty() || !at_end { return Some(format!("{dbg}: {at} is not the zero-width position at the end of its line ({}:{})", row, col0 + chars.len())); },
                "ParamKeyword" => if slice != "@param" { return bad(); },
                "ReturnsKeyword" => if slice != "@returns" { return bad(); },
                "SeeKeyword" => if slice != "@see" { return bad(); },
                "LinkKeyword" => if slice != "@link" { return bad(); },
                "LeftBrace" => if !(slice.starts_with('{') && slice[1..].chars().all(|c| c.is_whitespace())) { return bad(); },
                "RightBrace" => if slice != "}" { return bad(); },
                "Colon" => if slice != ":" { return bad(); },
                "DoubleColon" => if slice != "::" { return bad(); },
                _ => return Some(format!("{dbg}: unknown token kind")),
            }
        }
    } else if dbg == "UnterminatedInlineTag" {
        if !slice.is_empty() || !at_end { return Some(format!("{dbg}: {at} is not the zero-width position at the end of its line")); }
    } else if dbg == "MissingTag" {
        if slice != "@" { return bad(); }
    } else if let Some(t) = field("UnknownTag", "tag") {
        // tags are ASCII alphanumeric runs: their `Debug` text is the text in quotes
        if slice != format!("@{}", t.trim_matches('"')) { return bad(); }
    } else if let Some(t) = field("IncorrectContextForTag", "tag") {
        if slice != format!("@{}", t.trim_matches('"')) { return bad(); }
    } else if dbg.starts_with("UnknownSymbol") {
        if slice.chars().count() != 1 || !dbg.contains(&format!("{:?}", slice.chars().next().unwrap())) { return bad(); }
    } else {
        return Some(format!("{dbg}: unknown error kind"));
    }
    None
}

pub fn run_lexloc(lines: &str, expected: &str) -> CaseResult {
    let bad = |why: &str| CaseResult { actual: "bad-case".into(), diff: Some(why.to_string()), oracle: None, nontrivial: false };
    let Some(input) = decode_lines_loc(lines) else { return bad("undecodable lines") };
    let one = |e: &str| -> Option<String> {
        let (t, l) = e.rsplit_once('@')?;
        let (a, b) = l.split_once('-')?;
        let (sr, sc) = a.split_once('.')?;
        let (er, ec) = b.split_once('.')?;
        let n = |x: &str| x.parse::<usize>().ok();
        Some(format!("{}@{}.{}-{}.{}", debug_of(t)?, n(sr)?, n(sc)?, n(er)?, n(ec)?))
    };
    let exp: Option<Vec<String>> = if expected == "-" { Some(vec![]) } else { expected.split(',').map(one).collect() };
    let Some(exp) = exp else { return bad("undecodable expected tokens") };
    if input.is_empty() { return bad("lexloc needs at least one line (Lexer::new panics on an empty comment)"); }
    let r = catch_unwind(AssertUnwindSafe(|| verif_hooks::lex_comment(&input)));
    let (act, oracle): (Vec<String>, Option<String>) = match r {
        Err(_) => (vec!["panic".to_string()], Some("the comment lexer panicked".to_string())),
        Ok(items) => {
            let mut oracle = None;
            let mut out = vec![];
            let mut k = 0usize;                       // index of the line the next element is lexed from
            let mut prev_end = input[0].1 .1;
            for it in items {
                let (is_tok, (d, l)) = match it { Ok(x) => (true, x), Err(x) => (false, x) };
                if oracle.is_none() {
                    oracle = match input.get(k) {
                        Some(line) => check_comment_extent(&d, is_tok, l, line, prev_end),
                        None => Some(format!("{d}: an element after the Newline of the last line")),
                    };
                }
                out.push(format!("{}@{}.{}-{}.{}", d, l.0, l.1, l.2, l.3));
                if !is_tok { break; }                  // the parser stops at the first lexer error
                if d == "Newline" { k += 1; prev_end = input.get(k).map_or(0, |x| x.1 .1); } else { prev_end = l.3; }
            }
            (out, oracle)
        }
    };
    let actual = act.join(" ");
    let diff = if act != exp { Some(crate::compile::short_diff(&exp.join(" "), &actual)) } else { None };
    CaseResult { nontrivial: act.len() > 2, actual, diff, oracle }
}

pub fn run_docloc(lines: &str, expected: &str) -> CaseResult {
    let bad = |why: &str| CaseResult { actual: "bad-case".into(), diff: Some(why.to_string()), oracle: None, nontrivial: false };
    let Some(input) = decode_lines_loc(lines) else { return bad("undecodable lines") };
    let r = catch_unwind(AssertUnwindSafe(|| verif_hooks::parse_doc_comment(&input, "M::x")));
    let (actual, oracle) = match r {
        // `create_doc_comment` subtracts 3 from a column: a span that starts left of column 3 (no `///` fits in front of it) panics
        Err(_) => ("panic".to_string(), if input.is_empty() || input.iter().any(|l| l.1 .1 < 4) { None } else { Some("the comment parser panicked".to_string()) }),
        Ok((Some(c), codes)) => {
            let rows = crate::proj_c09::DocRows::of_lines(&input);
            let oracle = if !codes.is_empty() { Some(format!("a parsed comment came with diagnostics {:?}", codes)) } else { crate::proj_c09::doc_oracle(&rows, &c) };
            (crate::proj_c09::doc_dump(&c), oracle)
        }
        Ok((None, _)) => ("malformed".to_string(), None),
    };
    let diff = if actual != expected { Some(crate::compile::short_diff(expected, &actual)) } else { None };
    CaseResult { nontrivial: actual.starts_with("doc(") && actual.len() > 60, actual, diff, oracle }
}
