//! Engine `comments` (C16): the private doc-comment lexer and parser of slicec, reached through
//! `slicec::verif_hooks` (`--cfg slicec_verif`), on model-generated comment lines.
//!
//! case lines (lines = hex|hex|…, `-` = empty line, `~` = no line at all):
//!   lex  <fam> <lines> <expected>   tokens up to and including the first lexer error: `T:<hex>` text, `I:<hex>` identifier,
//!                                   `NL`, `ParamKeyword` …, `LB RB C DC`, `E:<kind>[:<hex>…]`
//!   doc  <fam> <lines> <expected>   `doc(ov=…;p=[…];r=[…];s=[…])` with message components exactly as produced
//!                                   (`t:<hex>` / `l:<hex id>`), or `malformed`, or `panic`
//!   docm <fam> <lines> <expected>   the same with adjacent texts merged and empty texts dropped
//! Line `i` (0-based) is handed over with the span (i+1):4 – (i+1):(4+chars), as the Slice lexer does for a
//! `///` at column 1. Spans and message texts of lints are not compared.

use crate::codec::CaseResult;
use crate::dynval::{hex, unhex};
use slicec::grammar::{DocComment, Message, MessageComponent, TypeRefDefinition};
use slicec::verif_hooks;
use std::panic::{catch_unwind, AssertUnwindSafe};

fn hs(s: &str) -> String { hex(s.as_bytes()) }

fn decode_lines(field: &str) -> Option<Vec<(String, verif_hooks::Loc4)>> {
    if field == "~" { return Some(vec![]); }
    let mut out = vec![];
    for (i, h) in field.split('|').enumerate() {
        let text = String::from_utf8(unhex(h)?).ok()?;
        let n = text.chars().count();
        out.push((text, (i + 1, 4, i + 1, 4 + n)));
    }
    Some(out)
}

fn link_id(l: &TypeRefDefinition<dyn slicec::grammar::Entity>) -> String {
    match l {
        TypeRefDefinition::Unpatched(id) => id.value.clone(),
        TypeRefDefinition::Patched(_) => "<patched>".to_string(),
    }
}

/// components of a message: (is_link, text or identifier)
fn comps(m: &Message, merged: bool) -> Vec<(bool, String)> {
    let mut out: Vec<(bool, String)> = vec![];
    for c in &m.value {
        match c {
            MessageComponent::Text(t) => {
                if merged {
                    if t.is_empty() { continue; }
                    if let Some((false, last)) = out.last_mut() { last.push_str(t); continue; }
                }
                out.push((false, t.clone()));
            }
            MessageComponent::Link(l) => out.push((true, link_id(&l.link))),
        }
    }
    out
}

fn msg_s(m: &Message, merged: bool) -> String {
    let v: Vec<String> = comps(m, merged).into_iter().map(|(l, s)| format!("{}:{}", if l { "l" } else { "t" }, hs(&s))).collect();
    format!("[{}]", v.join(","))
}

pub fn doc_s(c: &DocComment, merged: bool) -> String {
    let ov = c.overview.as_ref().map_or("none".to_string(), |m| msg_s(m, merged));
    let p: Vec<String> = c.params.iter().map(|t| format!("{}={}", hs(&t.identifier.value), msg_s(&t.message, merged))).collect();
    let r: Vec<String> = c.returns.iter().map(|t| format!("{}={}", t.identifier.as_ref().map_or("none".to_string(), |i| hs(&i.value)), msg_s(&t.message, merged))).collect();
    let s: Vec<String> = c.see.iter().map(|t| hs(&link_id(&t.link))).collect();
    format!("doc(ov={};p=[{}];r=[{}];s=[{}])", ov, p.join(","), r.join(","), s.join(","))
}

pub fn run_doc(lines: &str, expected: &str, merged: bool) -> CaseResult {
    let Some(input) = decode_lines(lines) else {
        return CaseResult { actual: "bad-case".into(), diff: Some("undecodable lines".into()), oracle: None, nontrivial: false };
    };
    let r = catch_unwind(AssertUnwindSafe(|| verif_hooks::parse_doc_comment(&input, "M::x")));
    let (actual, oracle) = match r {
        Err(_) => ("panic".to_string(), if input.is_empty() { None } else { Some("the comment parser panicked".to_string()) }),
        Ok((comment, codes)) => {
            // the property on the implementation alone: failures are reported as exactly one lint, successes silently
            let oracle = match &comment {
                Some(_) if !codes.is_empty() => Some(format!("a parsed comment came with diagnostics {:?}", codes)),
                None if codes.len() != 1 || codes[0] != "MalformedDocComment" => Some(format!("a rejected comment was reported as {:?}, not as one MalformedDocComment lint", codes)),
                _ => None,
            };
            (comment.map_or("malformed".to_string(), |c| doc_s(&c, merged)), oracle)
        }
    };
    let diff = if actual != expected { Some(crate::compile::short_diff(expected, &actual)) } else { None };
    CaseResult { nontrivial: actual.starts_with("doc(") && actual.len() > 40, actual, diff, oracle }
}

/// the `Debug` text the real token / error kinds print, built from the model's canonical token
fn debug_of(tok: &str) -> Option<String> {
    let txt = |h: &str| unhex(h).and_then(|b| String::from_utf8(b).ok());
    Some(match tok {
        "NL" => "Newline".into(), "LB" => "LeftBrace".into(), "RB" => "RightBrace".into(), "C" => "Colon".into(), "DC" => "DoubleColon".into(),
        "ParamKeyword" | "ReturnsKeyword" | "SeeKeyword" | "LinkKeyword" => tok.to_string(),
        "E:MissingTag" => "MissingTag".into(), "E:UnterminatedInlineTag" => "UnterminatedInlineTag".into(),
        _ => {
            let p: Vec<&str> = tok.split(':').collect();
            match p.as_slice() {
                ["T", h] => format!("Text({:?})", txt(h)?),
                ["I", h] => format!("Identifier({:?})", txt(h)?),
                ["E", "UnknownSymbol", h] => format!("UnknownSymbol {{ symbol: {:?} }}", txt(h)?.chars().next()?),
                ["E", "UnknownTag", h] => format!("UnknownTag {{ tag: {:?} }}", txt(h)?),
                ["E", "IncorrectContextForTag", h, i] => format!("IncorrectContextForTag {{ tag: {:?}, is_inline: {} }}", txt(h)?, *i == "1"),
                _ => return None,
            }
        }
    })
}

pub fn run_lex(lines: &str, expected: &str) -> CaseResult {
    let Some(input) = decode_lines(lines) else {
        return CaseResult { actual: "bad-case".into(), diff: Some("undecodable lines".into()), oracle: None, nontrivial: false };
    };
    let exp: Option<Vec<String>> = if expected == "-" { Some(vec![]) } else { expected.split(',').map(debug_of).collect() };
    let Some(exp) = exp else {
        return CaseResult { actual: "bad-case".into(), diff: Some("undecodable expected tokens".into()), oracle: None, nontrivial: false };
    };
    let r = catch_unwind(AssertUnwindSafe(|| verif_hooks::lex_comment(&input)));
    let (act, oracle): (Vec<String>, Option<String>) = match r {
        Err(_) => (vec!["panic".to_string()], Some("the comment lexer panicked".to_string())),
        Ok(items) => {
            let mut v = vec![];
            for it in items {
                match it { Ok((t, _)) => v.push(t), Err((e, _)) => { v.push(e); break; } }
            }
            (v, None)
        }
    };
    let actual = act.join(" ");
    let diff = if act != exp { Some(crate::compile::short_diff(&exp.join(" "), &actual)) } else { None };
    CaseResult { nontrivial: act.len() > 2, actual, diff, oracle }
}
