//! Engine `compile`, op `parse` (C02, stream `C02parse`): the Slice parser of slicec (the LALRPOP automaton generated
//! from `parsers/slice/grammar.lalrpop` + the actions of `grammar.rs`) against the recursive-descent model
//! `Model/SliceParser.lean`, on one source file given as text.
//!
//! case line:
//!   parse <fam> <text hex> <expected>
//! `expected` is the model's observation: `syn=1` when the model says a syntax error (E002) is reported for the text
//! (lexer error, grammar, doc comment on a module / parameter, definitions without a module declaration), otherwise
//! `syn=0 <astDump of the parsed file>` (the same canonical dump as projection `ast`, ending in ` diags=-`).
//!
//! Compared: (1) always: "some diagnostic has code E002" against `syn`; (2) when neither side reports E002 and the
//! real compilation produced no diagnostic at all: the real AST dump against the model's dump of the file its own
//! parser built. When the compiler reports other diagnostics (later phases: undefined types, redefinitions, bad tags,
//! lints, …) only (1) is compared — those are other properties' business and the AST is then incomplete by design.

use crate::codec::CaseResult;
use crate::compile::{codes, compile, file_ast, short_diff};
use std::panic::{catch_unwind, AssertUnwindSafe};

pub fn run_parse(text_hex: &str, expected: &str) -> CaseResult {
    let bad = |why: &str| CaseResult { actual: "bad-case".into(), diff: Some(why.to_string()), oracle: None, nontrivial: false };
    let (exp_syn, exp_ast) = match expected.split_once(' ') {
        Some(("syn=0", ast)) => (false, Some(ast)),
        None if expected == "syn=1" => (true, None),
        _ => return bad("undecodable expected observation"),
    };
    let r = catch_unwind(AssertUnwindSafe(|| {
        let c = compile(text_hex, "-")?;
        let files: Vec<String> = c.state.files.iter().map(file_ast).collect();
        let diags = c.state.diagnostics.into_updated(&c.state.ast, &c.state.files, &c.options);
        let syn = diags.iter().any(|d| d.code() == "E002");
        Some((syn, codes(&diags), files.join("|")))
    }));
    let (syn, all_codes, ast) = match r {
        Ok(Some(x)) => x,
        Ok(None) => return bad("undecodable text"),
        Err(_) => return CaseResult { actual: "panic".into(), diff: Some("the compiler panicked".into()),
                                      oracle: Some("the compiler panicked".into()), nontrivial: true },
    };
    let actual = if syn { "syn=1".to_string() } else if all_codes == "-" { format!("syn=0 {} diags=-", ast) } else { format!("syn=0 other-diagnostics={}", all_codes) };
    let diff = if syn != exp_syn {
        Some(format!("syntax verdict: model syn={} impl syn={} (impl diagnostics: {})", exp_syn as u8, syn as u8, all_codes))
    } else if !syn && all_codes == "-" && exp_ast != Some(&actual["syn=0 ".len()..]) {
        Some(short_diff(exp_ast.unwrap_or(""), &actual["syn=0 ".len()..]))
    } else { None };
    // non-trivial: the text was accepted and its AST compared, or it is a rejection of more than a handful of characters
    let nontrivial = (!syn && all_codes == "-" && ast.len() > 40) || (syn && text_hex.len() > 40);
    CaseResult { nontrivial, actual, diff, oracle: None }
}
