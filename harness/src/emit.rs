//! Engine `emit` (C14, snippet geometry of C09): feeds hand-constructed `Diagnostic`s, built through the
//! public API only, to the real `DiagnosticEmitter` writing into a `Vec<u8>` and compares the exact bytes
//! and `get_totals` with the Lean model (colours off); with colours on only the presence of ESC and
//! equality after stripping ANSI sequences are checked.
//!
//! case: emit|emitc  family  json|human  files  diags  expected      (syntax: lean/SlicecVerif/Drv/C14.lean)

use crate::codec::CaseResult;
use slicec::ast::Ast;
use slicec::diagnostic_emitter::DiagnosticEmitter;
use slicec::diagnostics::{get_totals, Diagnostic, DiagnosticLevel, Diagnostics, Error, Lint};
use slicec::slice_file::{Location, SliceFile, Span};
use slicec::slice_options::{DiagnosticFormat, SliceOptions};
use std::panic::{catch_unwind, AssertUnwindSafe};

fn unhex(s: &str) -> Option<String> {
    if s == "-" { return Some(String::new()); }
    if s.len() % 2 != 0 { return None; }
    let mut out = Vec::with_capacity(s.len() / 2);
    for i in (0..s.len()).step_by(2) { out.push(u8::from_str_radix(s.get(i..i + 2)?, 16).ok()?); }
    String::from_utf8(out).ok()
}

fn hex(bytes: &[u8]) -> String {
    if bytes.is_empty() { return "-".into(); }
    let mut s = String::with_capacity(bytes.len() * 2);
    for b in bytes { s.push_str(&format!("{:02x}", b)); }
    s
}

#[derive(Clone, Debug)]
struct SpanSpec { r1: usize, c1: usize, r2: usize, c2: usize, file: String }
#[derive(Clone, Debug)]
struct NoteSpec { message: String, span: Option<SpanSpec> }
#[derive(Clone, Debug)]
struct DiagSpec { kind: char, level: char, payload: String, span: Option<SpanSpec>, notes: Vec<NoteSpec>,
                  /// `Diagnostic::message()` of the real diagnostic built from this spec (filled in by `run_emit`)
                  real_message: Option<String> }

impl DiagSpec {
    /// the code the diagnostic must carry (codes are part of the compiler's interface; message *wording* is not)
    fn code(&self) -> &'static str {
        match self.kind { 'S' => "E002", 'M' => "MalformedDocComment", 'I' => "IncorrectDocComment", 'B' => "BrokenDocLink", 'F' => "DuplicateFile", _ => "Deprecated" }
    }
    /// what the emitter must print as the message: whatever `Diagnostic::message()` says for this diagnostic. Its wording is owned
    /// by diagnostics/errors.rs and lints.rs and may change freely; only kinds whose message *is* the payload are pinned here.
    fn message(&self) -> String {
        match (self.kind, &self.real_message) {
            ('F' | 'D' | 'S', Some(m)) => m.clone(),
            _ => self.payload.clone(),
        }
    }
}

fn parse_span(s: &str) -> Option<Option<SpanSpec>> {
    if s == "~" { return Some(None); }
    let p: Vec<&str> = s.split('.').collect();
    if p.len() != 5 { return None; }
    Some(Some(SpanSpec { r1: p[0].parse().ok()?, c1: p[1].parse().ok()?, r2: p[2].parse().ok()?, c2: p[3].parse().ok()?, file: unhex(p[4])? }))
}

fn parse_diags(s: &str) -> Option<Vec<DiagSpec>> {
    if s == "_" { return Some(vec![]); }
    let mut out = vec![];
    for d in s.split(';') {
        let p: Vec<&str> = d.split(',').collect();
        if p.len() != 5 { return None; }
        let mut notes = vec![];
        if p[4] != "_" {
            for n in p[4].split('/') {
                let (m, sp) = n.split_once('@')?;
                notes.push(NoteSpec { message: unhex(m)?, span: parse_span(sp)? });
            }
        }
        out.push(DiagSpec { kind: p[0].chars().next()?, level: p[1].chars().next()?, payload: unhex(p[2])?, span: parse_span(p[3])?, notes, real_message: None });
    }
    Some(out)
}

fn parse_files(s: &str) -> Option<Vec<(String, String)>> {
    if s == "_" { return Some(vec![]); }
    s.split(';').map(|f| { let (p, t) = f.split_once('=')?; Some((unhex(p)?, unhex(t)?)) }).collect()
}

fn mk_span(s: &SpanSpec) -> Span {
    Span::new(Location { row: s.r1, col: s.c1 }, Location { row: s.r2, col: s.c2 }, &s.file)
}

fn mk_files(files: &[(String, String)]) -> Vec<SliceFile> {
    files.iter().map(|(p, t)| SliceFile::new(p.clone(), t.clone(), true)).collect()
}

/// builds the real diagnostics; `Allowed` is reached the way the compiler reaches it: `into_updated` with
/// an `--allow All` option, applied to that diagnostic alone.
fn mk_diags(specs: &[DiagSpec], files: &[(String, String)]) -> Vec<Diagnostic> {
    // `into_updated` looks the span's file up (`expect("no file")`): give it every path that is mentioned
    let mut all: Vec<(String, String)> = files.to_vec();
    for d in specs {
        if let Some(s) = &d.span {
            if !all.iter().any(|(p, _)| *p == s.file) { all.push((s.file.clone(), String::new())); }
        }
    }
    let lookup = mk_files(&all);
    let ast = Ast::create();
    let allow_all = SliceOptions { allowed_lints: vec!["All".to_owned()], ..Default::default() };
    let mut out = vec![];
    for d in specs {
        let m = d.payload.clone();
        let mut diag = match d.kind {
            'S' => Diagnostic::new(Error::Syntax { message: m }),
            'M' => Diagnostic::new(Lint::MalformedDocComment { message: m }),
            'I' => Diagnostic::new(Lint::IncorrectDocComment { message: m }),
            'B' => Diagnostic::new(Lint::BrokenDocLink { message: m }),
            'F' => Diagnostic::new(Lint::DuplicateFile { path: m }),
            _ => Diagnostic::new(Lint::Deprecated { identifier: m, reason: None }),
        };
        if let Some(s) = &d.span { diag = diag.set_span(&mk_span(s)); }
        for n in &d.notes {
            let sp = n.span.as_ref().map(mk_span);
            diag = diag.add_note(n.message.clone(), sp.as_ref());
        }
        if d.level == 'a' {
            let mut ds = Diagnostics::new();
            diag.push_into(&mut ds);
            diag = ds.into_updated(&ast, &lookup, &allow_all).pop().expect("one diagnostic");
        }
        out.push(diag);
    }
    out
}

fn level_char(l: DiagnosticLevel) -> char {
    match l { DiagnosticLevel::Error => 'e', DiagnosticLevel::Warning => 'w', DiagnosticLevel::Allowed => 'a' }
}

fn panic_class(msg: &str) -> &'static str {
    if msg.contains("subtract with overflow") { "sub" }
    else if msg.contains("unwrap()") { "unwrap" }
    else if msg.contains("assertion failed") { "assert" }
    else { "other" }
}

/// Ok(bytes) or Err(panic message)
fn run_emitter(human: bool, colour_off: bool, files: &[SliceFile], diags: Vec<Diagnostic>) -> Result<Vec<u8>, String> {
    let options = SliceOptions {
        diagnostic_format: if human { DiagnosticFormat::Human } else { DiagnosticFormat::Json },
        disable_color: colour_off,
        ..Default::default()
    };
    let mut out: Vec<u8> = Vec::new();
    let r = catch_unwind(AssertUnwindSafe(|| {
        let mut emitter = DiagnosticEmitter::new(&mut out, &options, files);
        emitter.emit_diagnostics(diags).map_err(|e| e.to_string())
    }));
    match r {
        Ok(Ok(())) => Ok(out),
        Ok(Err(e)) => Err(format!("io error: {e}")),
        Err(p) => Err(p.downcast_ref::<&str>().map(|s| s.to_string()).or_else(|| p.downcast_ref::<String>().cloned()).unwrap_or_else(|| "?".into())),
    }
}

fn strip_ansi(b: &[u8]) -> Vec<u8> {
    let mut out = Vec::with_capacity(b.len());
    let mut i = 0;
    while i < b.len() {
        if b[i] == 0x1b && i + 1 < b.len() && b[i + 1] == b'[' {
            let mut j = i + 2;
            while j < b.len() && (b[j].is_ascii_digit() || b[j] == b';') { j += 1; }
            if j < b.len() && b[j] == b'm' { i = j + 1; continue; }
        }
        out.push(b[i]);
        i += 1;
    }
    out
}

fn span_matches(v: &serde_json::Value, s: &Option<SpanSpec>) -> bool {
    match s {
        None => v.is_null(),
        Some(s) => {
            let Some(o) = v.as_object() else { return false };
            let loc = |v: &serde_json::Value, r: usize, c: usize| v.as_object().map_or(false, |o| o.len() == 2 && o.get("row").and_then(|x| x.as_u64()) == Some(r as u64) && o.get("col").and_then(|x| x.as_u64()) == Some(c as u64));
            o.len() == 3 && o.get("start").map_or(false, |x| loc(x, s.r1, s.c1)) && o.get("end").map_or(false, |x| loc(x, s.r2, s.c2)) && o.get("file").and_then(|x| x.as_str()) == Some(s.file.as_str())
        }
    }
}

/// the property's own predicate on the JSON stream, evaluated with serde_json's reader
fn json_oracle(out: &[u8], shown: &[&DiagSpec]) -> Option<String> {
    let Ok(text) = std::str::from_utf8(out) else { return Some("the JSON stream is not UTF-8".into()) };
    if !text.is_empty() && !text.ends_with('\n') { return Some("the JSON stream does not end with a newline".into()); }
    let lines: Vec<&str> = if text.is_empty() { vec![] } else { text[..text.len() - 1].split('\n').collect() };
    if lines.len() != shown.len() { return Some(format!("{} lines for {} diagnostics that are not allowed", lines.len(), shown.len())); }
    for (i, (line, d)) in lines.iter().zip(shown).enumerate() {
        let v: serde_json::Value = match serde_json::from_str(line) { Ok(v) => v, Err(e) => return Some(format!("line {} is not JSON: {e}", i + 1)) };
        let Some(o) = v.as_object() else { return Some(format!("line {} is not an object", i + 1)) };
        let mut keys: Vec<&str> = o.keys().map(String::as_str).collect();
        keys.sort();
        if keys != ["error_code", "message", "notes", "severity", "span"] { return Some(format!("line {} has keys {:?}", i + 1, keys)); }
        if o["message"].as_str() != Some(d.message().as_str()) { return Some(format!("line {}: message does not read back", i + 1)); }
        if o["severity"].as_str() != Some(if d.level == 'e' { "error" } else { "warning" }) { return Some(format!("line {}: severity", i + 1)); }
        if o["error_code"].as_str() != Some(d.code()) { return Some(format!("line {}: error_code", i + 1)); }
        if !span_matches(&o["span"], &d.span) { return Some(format!("line {}: span does not read back", i + 1)); }
        let Some(ns) = o["notes"].as_array() else { return Some(format!("line {}: notes is not an array", i + 1)) };
        if ns.len() != d.notes.len() { return Some(format!("line {}: {} notes for {}", i + 1, ns.len(), d.notes.len())); }
        for (n, spec) in ns.iter().zip(&d.notes) {
            let ok = n.as_object().map_or(false, |o| o.len() == 2 && o.get("message").and_then(|x| x.as_str()) == Some(spec.message.as_str()) && o.get("span").map_or(false, |x| span_matches(x, &spec.span)));
            if !ok { return Some(format!("line {}: a note does not read back", i + 1)); }
        }
    }
    None
}

pub fn run_emit(op: &str, fam: &str, format: &str, files: &str, diags: &str, expected: &str) -> CaseResult {
    let bad = |why: &str| CaseResult { actual: "?".into(), diff: Some(format!("unreadable case: {why}")), oracle: None, nontrivial: false };
    let Some(file_specs) = parse_files(files) else { return bad("files") };
    let Some(mut specs) = parse_diags(diags) else { return bad("diags") };
    let human = match format { "human" => true, "json" => false, _ => return bad("format") };
    let colour_on = op == "emitc";

    let built = catch_unwind(AssertUnwindSafe(|| (mk_files(&file_specs), mk_diags(&specs, &file_specs))));
    let Ok((real_files, real_diags)) = built else { return bad("the diagnostics could not be constructed") };

    for (d, s) in real_diags.iter().zip(specs.iter_mut()) {
        // the payload must still be part of the message, whatever the wording around it
        if d.message().contains(s.payload.as_str()) { s.real_message = Some(d.message()); }
    }
    // levels and totals of the real values against the case's own levels (independent of the model)
    let mut oracle: Option<String> = None;
    for (d, s) in real_diags.iter().zip(&specs) {
        if level_char(d.level()) != s.level { oracle = Some(format!("constructed level {:?} for requested '{}'", d.level(), s.level)); }
        if d.code() != s.code() || d.message() != s.message() { oracle = Some("code or message differ from the documented format".into()); }
    }
    let (w, e) = get_totals(&real_diags);
    let want_w = specs.iter().filter(|s| s.level == 'w').count();
    let want_e = specs.iter().filter(|s| s.level == 'e').count();
    if (w, e) != (want_w, want_e) { oracle = Some(format!("get_totals = ({w},{e}) but the list holds {want_w} warnings and {want_e} errors")); }

    if colour_on { console::set_colors_enabled(true); console::set_colors_enabled_stderr(true); }
    let res = run_emitter(human, !colour_on, &real_files, real_diags);
    if colour_on { console::set_colors_enabled(false); console::set_colors_enabled_stderr(false); }

    let shown: Vec<&DiagSpec> = specs.iter().filter(|s| s.level != 'a').collect();
    let input_has_esc = file_specs.iter().any(|(p, t)| p.contains('\x1b') || t.contains('\x1b'))
        || specs.iter().any(|d| d.payload.contains('\x1b') || d.span.as_ref().map_or(false, |s| s.file.contains('\x1b'))
            || d.notes.iter().any(|n| n.message.contains('\x1b') || n.span.as_ref().map_or(false, |s| s.file.contains('\x1b'))));

    let exp_parts: Vec<&str> = expected.splitn(3, ',').collect();
    if exp_parts.len() != 3 { return bad("expected"); }
    let exp_out = exp_parts[2];
    let mut diff: Option<String> = None;
    if exp_parts[0] != w.to_string() || exp_parts[1] != e.to_string() {
        diff = Some(format!("totals: implementation ({w},{e}), model ({},{})", exp_parts[0], exp_parts[1]));
    }
    let actual;
    match &res {
        Err(msg) => {
            actual = format!("{w},{e},panic:{}", panic_class(msg));
            let exp_class = exp_out.strip_prefix("panic:").map(|s| s.split(':').next().unwrap_or(""));
            if exp_class != Some(panic_class(msg)) {
                diff = Some(format!("implementation panicked ({msg}), model expects {}", &exp_out[..exp_out.len().min(60)]));
            }
            if !fam.starts_with("illformed") && oracle.is_none() {
                oracle = Some(format!("the emitter panicked on spans a lexer can hand out: {msg}"));
            }
        }
        Ok(bytes) => {
            let cmp: Vec<u8> = if colour_on { strip_ansi(bytes) } else { bytes.clone() };
            actual = format!("{w},{e},{}", hex(&cmp));
            if hex(&cmp) != exp_out {
                let got = String::from_utf8_lossy(&cmp);
                let want = unhex(exp_out).unwrap_or_else(|| exp_out.to_string());
                let at = got.bytes().zip(want.bytes()).position(|(a, b)| a != b).unwrap_or(got.len().min(want.len()));
                diff = Some(format!("output differs at byte {at}: implementation {:?} model {:?}",
                    got.chars().skip(at.saturating_sub(20)).take(60).collect::<String>(), want.chars().skip(at.saturating_sub(20)).take(60).collect::<String>()));
            }
            if oracle.is_none() {
                if colour_on {
                    let has_esc = bytes.contains(&0x1b);
                    if human && !shown.is_empty() && !has_esc { oracle = Some("colours enabled but no escape sequence in the human output".into()); }
                    if !human && has_esc && !input_has_esc { oracle = Some("escape sequence in the JSON stream".into()); }
                } else {
                    if bytes.contains(&0x1b) && !input_has_esc { oracle = Some("escape sequence in the output although colours are disabled".into()); }
                    if !human { if let Some(why) = json_oracle(bytes, &shown) { oracle = Some(why); } }
                    // suppressed lints leave no trace: emitting the list without them gives the same bytes
                    if oracle.is_none() && shown.len() != specs.len() {
                        let kept: Vec<DiagSpec> = specs.iter().filter(|s| s.level != 'a').cloned().collect();
                        let again = run_emitter(human, true, &real_files, mk_diags(&kept, &file_specs));
                        if again.as_ref().ok() != Some(bytes) { oracle = Some("the output changes when the allowed diagnostics are removed from the list".into()); }
                    }
                    if oracle.is_none() && shown.is_empty() && !bytes.is_empty() { oracle = Some("output without any diagnostic to show".into()); }
                }
            }
        }
    }
    CaseResult { actual, diff, oracle, nontrivial: !shown.is_empty() }
}
