//! Dynamically typed values routed through slice-codec's *generic* `EncodeInto`/`DecodeFrom`
//! implementations (`Vec<T>`, `HashMap<K,V>`, `BTreeMap<K,V>`, `&str`, `String`, numerics, var-ints).
//! The element type of a collection being decoded is carried in a thread-local stack, because
//! `DecodeFrom::decode_from` has no context argument.

use slice_codec::buffer::{InputSource, OutputTarget};
use slice_codec::decode_from::DecodeFrom;
use slice_codec::decoder::Decoder;
use slice_codec::encode_into::EncodeInto;
use slice_codec::encoder::Encoder;
use slice_codec::Result;
use std::cell::RefCell;
use std::collections::{BTreeMap, HashMap};

#[derive(Clone, Debug, PartialEq, Eq)]
pub enum Ty {
    Bool,
    U8, U16, U32, U64,
    I8, I16, I32, I64,
    F32, F64,
    VI32, VU32, VI62, VU62, Size,
    Str,
    Seq(Box<Ty>),
    DictB(Box<Ty>, Box<Ty>),
    DictH(Box<Ty>, Box<Ty>),
}

#[derive(Clone, Debug, PartialEq, Eq, Hash, PartialOrd, Ord)]
pub enum Value {
    Bool(bool),
    U8(u8), U16(u16), U32(u32), U64(u64),
    I8(i8), I16(i16), I32(i32), I64(i64),
    F32(u32), F64(u64),
    VI32(i32), VU32(u32), VI62(i64), VU62(u64), Size(usize),
    Str(String),
    Seq(Vec<Value>),
    /// entries in iteration order of the real map
    DictB(Vec<(Value, Value)>),
    DictH(Vec<(Value, Value)>),
}

pub fn parse_ty(s: &str) -> Option<Ty> {
    let (t, rest) = parse_ty_prefix(s)?;
    if rest.is_empty() { Some(t) } else { None }
}

fn parse_ty_prefix(s: &str) -> Option<(Ty, &str)> {
    let names: [(&str, Ty); 17] = [
        ("bool", Ty::Bool), ("u8", Ty::U8), ("u16", Ty::U16), ("u32", Ty::U32), ("u64", Ty::U64),
        ("i8", Ty::I8), ("i16", Ty::I16), ("i32", Ty::I32), ("i64", Ty::I64), ("f32", Ty::F32), ("f64", Ty::F64),
        ("vi32", Ty::VI32), ("vu32", Ty::VU32), ("vi62", Ty::VI62), ("vu62", Ty::VU62), ("size", Ty::Size), ("str", Ty::Str),
    ];
    if let Some(r) = s.strip_prefix("seq(") {
        let (t, r) = parse_ty_prefix(r)?;
        return Some((Ty::Seq(Box::new(t)), r.strip_prefix(')')?));
    }
    for (pre, b) in [("db(", true), ("dh(", false)] {
        if let Some(r) = s.strip_prefix(pre) {
            let (k, r) = parse_ty_prefix(r)?;
            let r = r.strip_prefix(',')?;
            let (v, r) = parse_ty_prefix(r)?;
            let r = r.strip_prefix(')')?;
            return Some((if b { Ty::DictB(Box::new(k), Box::new(v)) } else { Ty::DictH(Box::new(k), Box::new(v)) }, r));
        }
    }
    // longest name first
    let mut best: Option<(Ty, &str)> = None;
    for (n, t) in names.iter() {
        if let Some(r) = s.strip_prefix(n) {
            if best.as_ref().map_or(true, |(_, br)| r.len() < br.len()) {
                best = Some((t.clone(), r));
            }
        }
    }
    best
}

pub fn hex(bytes: &[u8]) -> String {
    if bytes.is_empty() { return "-".to_string(); }
    let mut s = String::with_capacity(bytes.len() * 2);
    for b in bytes { s.push_str(&format!("{:02x}", b)); }
    s
}

pub fn unhex(s: &str) -> Option<Vec<u8>> {
    if s == "-" { return Some(vec![]); }
    if s.len() % 2 != 0 { return None; }
    (0..s.len() / 2).map(|i| u8::from_str_radix(s.get(2 * i..2 * i + 2)?, 16).ok()).collect()
}

/// Parses a value of type `ty`; returns None when the text is not a value of the *Rust input type*.
pub fn parse_val<'a>(ty: &Ty, s: &'a str) -> Option<(Value, &'a str)> {
    fn num(s: &str) -> (&str, &str) {
        let end = s.char_indices().find(|(i, c)| !(c.is_ascii_digit() || (*i == 0 && *c == '-'))).map_or(s.len(), |(i, _)| i);
        (&s[..end], &s[end..])
    }
    macro_rules! int { ($variant:ident, $t:ty) => {{ let (n, r) = num(s); Some((Value::$variant(n.parse::<$t>().ok()?), r)) }}; }
    match ty {
        Ty::Bool => { let (n, r) = num(s); Some((Value::Bool(match n { "0" => false, "1" => true, _ => return None }), r)) }
        Ty::U8 => int!(U8, u8), Ty::U16 => int!(U16, u16), Ty::U32 => int!(U32, u32), Ty::U64 => int!(U64, u64),
        Ty::I8 => int!(I8, i8), Ty::I16 => int!(I16, i16), Ty::I32 => int!(I32, i32), Ty::I64 => int!(I64, i64),
        Ty::F32 => int!(F32, u32), Ty::F64 => int!(F64, u64),
        Ty::VI32 => int!(VI32, i32), Ty::VU32 => int!(VU32, u32), Ty::VI62 => int!(VI62, i64), Ty::VU62 => int!(VU62, u64),
        Ty::Size => int!(Size, usize),
        Ty::Str => {
            let r = s.strip_prefix('x')?;
            let end = r.find(|c: char| !c.is_ascii_hexdigit()).unwrap_or(r.len());
            let bytes = if end == 0 { vec![] } else { unhex(&r[..end])? };
            Some((Value::Str(String::from_utf8(bytes).ok()?), &r[end..]))
        }
        Ty::Seq(t) => {
            let mut r = s.strip_prefix('[')?;
            let mut out = vec![];
            if let Some(r2) = r.strip_prefix(']') { return Some((Value::Seq(out), r2)); }
            loop {
                let (v, r2) = parse_val(t, r)?;
                out.push(v);
                if let Some(r3) = r2.strip_prefix(';') { r = r3; } else { r = r2.strip_prefix(']')?; break; }
            }
            Some((Value::Seq(out), r))
        }
        Ty::DictB(k, v) | Ty::DictH(k, v) => {
            let mut r = s.strip_prefix('{')?;
            let mut out = vec![];
            let mk = |o| if matches!(ty, Ty::DictB(..)) { Value::DictB(o) } else { Value::DictH(o) };
            if let Some(r2) = r.strip_prefix('}') { return Some((mk(out), r2)); }
            loop {
                let (kv, r2) = parse_val(k, r)?;
                let r2 = r2.strip_prefix(':')?;
                let (vv, r2) = parse_val(v, r2)?;
                out.push((kv, vv));
                if let Some(r3) = r2.strip_prefix(';') { r = r3; } else { r = r2.strip_prefix('}')?; break; }
            }
            Some((mk(out), r))
        }
    }
}

pub fn show_val(v: &Value) -> String {
    match v {
        Value::Bool(b) => (if *b { "1" } else { "0" }).to_string(),
        Value::U8(x) => x.to_string(), Value::U16(x) => x.to_string(), Value::U32(x) => x.to_string(), Value::U64(x) => x.to_string(),
        Value::I8(x) => x.to_string(), Value::I16(x) => x.to_string(), Value::I32(x) => x.to_string(), Value::I64(x) => x.to_string(),
        Value::F32(x) => x.to_string(), Value::F64(x) => x.to_string(),
        Value::VI32(x) => x.to_string(), Value::VU32(x) => x.to_string(), Value::VI62(x) => x.to_string(), Value::VU62(x) => x.to_string(),
        Value::Size(x) => x.to_string(),
        Value::Str(s) => format!("x{}", if s.is_empty() { String::new() } else { hex(s.as_bytes()) }),
        Value::Seq(vs) => format!("[{}]", vs.iter().map(show_val).collect::<Vec<_>>().join(";")),
        Value::DictB(es) | Value::DictH(es) => format!("{{{}}}", es.iter().map(|(k, v)| format!("{}:{}", show_val(k), show_val(v))).collect::<Vec<_>>().join(";")),
    }
}

// ---------------------------------------------------------------------------------------------
// Encoding through the real generic impls
// ---------------------------------------------------------------------------------------------

/// Wrapper so that `&Vec<Dyn>`, `&HashMap<Dyn, Dyn>`, `&BTreeMap<Dyn, Dyn>` use slice-codec's own impls.
#[derive(Clone, Debug, PartialEq, Eq, Hash, PartialOrd, Ord)]
pub struct Dyn(pub Value);

impl EncodeInto for &Dyn {
    fn encode_into(self, e: &mut Encoder<impl OutputTarget>) -> Result<()> {
        match &self.0 {
            Value::Bool(x) => e.encode(*x),
            Value::U8(x) => e.encode(*x), Value::U16(x) => e.encode(*x), Value::U32(x) => e.encode(*x), Value::U64(x) => e.encode(*x),
            Value::I8(x) => e.encode(*x), Value::I16(x) => e.encode(*x), Value::I32(x) => e.encode(*x), Value::I64(x) => e.encode(*x),
            Value::F32(x) => e.encode(f32::from_bits(*x)), Value::F64(x) => e.encode(f64::from_bits(*x)),
            Value::VI32(x) => e.encode_varint(*x), Value::VU32(x) => e.encode_varuint(*x),
            Value::VI62(x) => e.encode_varint(*x), Value::VU62(x) => e.encode_varuint(*x),
            Value::Size(x) => e.encode_size(*x),
            Value::Str(s) => e.encode(s),
            Value::Seq(vs) => { let v: Vec<Dyn> = vs.iter().cloned().map(Dyn).collect(); e.encode(&v) }
            Value::DictB(es) => { let m: BTreeMap<Dyn, Dyn> = es.iter().cloned().map(|(k, v)| (Dyn(k), Dyn(v))).collect(); e.encode(&m) }
            Value::DictH(es) => { let m: HashMap<Dyn, Dyn> = es.iter().cloned().map(|(k, v)| (Dyn(k), Dyn(v))).collect(); e.encode(&m) }
        }
    }
}

// ---------------------------------------------------------------------------------------------
// Decoding through the real generic impls
// ---------------------------------------------------------------------------------------------

thread_local! {
    /// stack of "what type is the next `Dyn`/`DynK`/`DynV` to decode"
    static CTX: RefCell<Vec<(Ty, Ty)>> = const { RefCell::new(Vec::new()) };
}

fn with_ctx<R>(k: Ty, v: Ty, f: impl FnOnce() -> R) -> R {
    CTX.with(|c| c.borrow_mut().push((k, v)));
    struct Pop;
    impl Drop for Pop { fn drop(&mut self) { CTX.with(|c| { c.borrow_mut().pop(); }); } }
    let _p = Pop;
    f()
}

pub fn reset_ctx() { CTX.with(|c| c.borrow_mut().clear()); }

fn cur(first: bool) -> Ty {
    CTX.with(|c| { let b = c.borrow(); let t = b.last().expect("ctx"); if first { t.0.clone() } else { t.1.clone() } })
}

/// element / key position
#[derive(Clone, Debug, PartialEq, Eq, Hash, PartialOrd, Ord)]
pub struct DynK(pub Value);
/// value position
#[derive(Clone, Debug, PartialEq, Eq, Hash, PartialOrd, Ord)]
pub struct DynV(pub Value);

impl DecodeFrom for DynK {
    fn decode_from(d: &mut Decoder<impl InputSource>) -> Result<Self> { decode_ty(&cur(true), d).map(DynK) }
}
impl DecodeFrom for DynV {
    fn decode_from(d: &mut Decoder<impl InputSource>) -> Result<Self> { decode_ty(&cur(false), d).map(DynV) }
}

pub fn decode_ty(ty: &Ty, d: &mut Decoder<impl InputSource>) -> Result<Value> {
    Ok(match ty {
        Ty::Bool => Value::Bool(d.decode()?),
        Ty::U8 => Value::U8(d.decode()?), Ty::U16 => Value::U16(d.decode()?), Ty::U32 => Value::U32(d.decode()?), Ty::U64 => Value::U64(d.decode()?),
        Ty::I8 => Value::I8(d.decode()?), Ty::I16 => Value::I16(d.decode()?), Ty::I32 => Value::I32(d.decode()?), Ty::I64 => Value::I64(d.decode()?),
        Ty::F32 => Value::F32(d.decode::<f32>()?.to_bits()), Ty::F64 => Value::F64(d.decode::<f64>()?.to_bits()),
        Ty::VI32 => Value::VI32(d.decode_varint()?), Ty::VU32 => Value::VU32(d.decode_varuint()?),
        Ty::VI62 => Value::VI62(d.decode_varint()?), Ty::VU62 => Value::VU62(d.decode_varuint()?),
        Ty::Size => Value::Size(d.decode_size()?),
        Ty::Str => Value::Str(d.decode()?),
        Ty::Seq(t) => {
            let v: Vec<DynK> = with_ctx((**t).clone(), Ty::Bool, || d.decode())?;
            Value::Seq(v.into_iter().map(|x| x.0).collect())
        }
        Ty::DictB(k, v) => {
            let m: BTreeMap<DynK, DynV> = with_ctx((**k).clone(), (**v).clone(), || d.decode())?;
            Value::DictB(m.into_iter().map(|(a, b)| (a.0, b.0)).collect())
        }
        Ty::DictH(k, v) => {
            let m: HashMap<DynK, DynV> = with_ctx((**k).clone(), (**v).clone(), || d.decode())?;
            Value::DictH(m.into_iter().map(|(a, b)| (a.0, b.0)).collect())
        }
    })
}

/// order-insensitive canonical form (dictionary entries sorted), for comparing decoded values
pub fn canon(v: &Value) -> Value {
    match v {
        Value::Seq(vs) => Value::Seq(vs.iter().map(canon).collect()),
        Value::DictB(es) | Value::DictH(es) => {
            let mut es: Vec<(Value, Value)> = es.iter().map(|(k, v)| (canon(k), canon(v))).collect();
            es.sort();
            Value::DictH(es)
        }
        other => other.clone(),
    }
}
