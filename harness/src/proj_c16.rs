//! Projections of a compilation used by property C16 (engine `compile`, projection names `c16:<name>`).
//!
//! `c16:docs` — per file (joined by `|`), every commentable element in source order as `<path>=<comment>`
//! (joined by `;`), where `<path>` is the Lean printer's element path (`d0`, `d0.f1`, `d1.o0`, `d2.e0`, `d2.e0.f1`)
//! and `<comment>` is `none` or `doc(ov=…;p=[…];r=[…];s=[…])` with adjacent texts merged, empty texts dropped,
//! message components `t:<hex>` / `resolved:<kind>:<hex parser-scoped id>` / `unresolved:<hex id>`;
//! then ` diags=` the *sorted* list `code/level` of all diagnostics (after `into_updated`), then ` oracle=ok`
//! or ` oracle=<what failed>`: the property evaluated on the implementation alone (every diagnostic about a doc
//! comment is a lint and never Error-level).
use crate::compile::*;
use slicec::compilation_state::CompilationState;
use slicec::diagnostics::DiagnosticLevel;
use slicec::grammar::*;
use slicec::slice_options::SliceOptions;

fn kind_s(e: &dyn Entity) -> &'static str {
    match e.concrete_entity() {
        Entities::Struct(_) => "struct",
        Entities::Field(_) => "field",
        Entities::Interface(_) => "interface",
        Entities::Operation(_) => "operation",
        Entities::Parameter(_) => "parameter",
        Entities::Enum(_) => "enum",
        Entities::Enumerator(_) => "enumerator",
        Entities::CustomType(_) => "custom",
        Entities::TypeAlias(_) => "alias",
    }
}

fn link_s(l: &TypeRefDefinition<dyn Entity>) -> String {
    match l {
        TypeRefDefinition::Patched(p) => { let e = p.borrow(); format!("resolved:{}:{}", kind_s(e), hs(&e.parser_scoped_identifier())) }
        TypeRefDefinition::Unpatched(id) => format!("unresolved:{}", hs(&id.value)),
    }
}

fn msg_s(m: &Message) -> String {
    let mut out: Vec<String> = vec![];
    let mut pending = String::new();
    for c in &m.value {
        match c {
            MessageComponent::Text(t) => pending.push_str(t),
            MessageComponent::Link(l) => {
                if !pending.is_empty() { out.push(format!("t:{}", hs(&pending))); pending.clear(); }
                out.push(link_s(&l.link));
            }
        }
    }
    if !pending.is_empty() { out.push(format!("t:{}", hs(&pending))); }
    format!("[{}]", out.join(","))
}

fn doc_s(c: Option<&DocComment>) -> String {
    let Some(c) = c else { return "none".to_string() };
    let ov = c.overview.as_ref().map_or("none".to_string(), msg_s);
    let p: Vec<String> = c.params.iter().map(|t| format!("{}={}", hs(&t.identifier.value), msg_s(&t.message))).collect();
    let r: Vec<String> = c.returns.iter().map(|t| format!("{}={}", t.identifier.as_ref().map_or("none".to_string(), |i| hs(&i.value)), msg_s(&t.message))).collect();
    let s: Vec<String> = c.see.iter().map(|t| link_s(&t.link)).collect();
    format!("doc(ov={};p=[{}];r=[{}];s=[{}])", ov, p.join(","), r.join(","), s.join(","))
}

fn file_docs(f: &slicec::slice_file::SliceFile) -> String {
    let mut out: Vec<String> = vec![];
    for (j, d) in f.contents.iter().enumerate() {
        let p = format!("d{}", j);
        match d {
            Definition::Struct(x) => { let s = x.borrow(); out.push(format!("{}={}", p, doc_s(s.comment())));
                for (k, fl) in s.fields().iter().enumerate() { out.push(format!("{}.f{}={}", p, k, doc_s(fl.comment()))); } }
            Definition::Interface(x) => { let s = x.borrow(); out.push(format!("{}={}", p, doc_s(s.comment())));
                for (k, o) in s.operations().iter().enumerate() { out.push(format!("{}.o{}={}", p, k, doc_s(o.comment()))); } }
            Definition::Enum(x) => { let s = x.borrow(); out.push(format!("{}={}", p, doc_s(s.comment())));
                for (k, e) in s.enumerators().iter().enumerate() {
                    out.push(format!("{}.e{}={}", p, k, doc_s(e.comment())));
                    if e.fields.is_some() { for (m, fl) in e.fields().iter().enumerate() { out.push(format!("{}.e{}.f{}={}", p, k, m, doc_s(fl.comment()))); } }
                } }
            Definition::CustomType(x) => { let s = x.borrow(); out.push(format!("{}={}", p, doc_s(s.comment()))); }
            Definition::TypeAlias(x) => { let s = x.borrow(); out.push(format!("{}={}", p, doc_s(s.comment()))); }
        }
    }
    out.join(";")
}

const DOC_LINTS: [&str; 3] = ["MalformedDocComment", "BrokenDocLink", "IncorrectDocComment"];

pub fn project(state: CompilationState, options: SliceOptions, name: &str) -> String {
    match name {
        "docs" => {
            let files: Vec<String> = state.files.iter().map(file_docs).collect();
            let diags = state.diagnostics.into_updated(&state.ast, &state.files, &options);
            let mut v: Vec<String> = diags.iter().map(|d| format!("{}/{}", d.code(), match d.level() { DiagnosticLevel::Error => "E", DiagnosticLevel::Warning => "W", DiagnosticLevel::Allowed => "A" })).collect();
            v.sort();
            // implementation-side predicate: nothing is Error-level, and whatever is reported is one of the three doc lints
            let bad: Vec<String> = diags.iter().filter(|d| d.level() == DiagnosticLevel::Error || !DOC_LINTS.contains(&d.code())).map(|d| d.code().to_string()).collect();
            let oracle = if bad.is_empty() { "ok".to_string() } else { format!("not-a-doc-lint-or-error-level:{}", bad.join(",")) };
            format!("{} diags={} oracle={}", files.join("|"), if v.is_empty() { "-".to_string() } else { v.join(",") }, oracle)
        }
        _ => format!("unknown-projection:c16:{}", name),
    }
}
