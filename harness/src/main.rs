//! runner <engine>: reads model-generated case lines on stdin (tab-separated, last field = the model's
//! expected observation), executes the real slicec / slice-codec code, and reports
//!   DIFF\t<case line>\t<reason>      model and implementation disagree
//!   ORACLE\t<case line>\t<reason>    the property predicate fails on the implementation's own output
//!   STATS\t<json>                    totals
mod buffers;
mod codec;
mod dynval;
// the binary-private modules of slicec, compiled from the repository's current files
#[path = "/repo/slicec/src/definition_types.rs"]
#[allow(dead_code, unused_imports)]
mod definition_types;

use std::collections::{BTreeMap, HashSet};
use std::hash::{Hash, Hasher};
use std::io::{BufRead, Write};

pub struct Stats {
    pub total: u64,
    pub diffs: u64,
    pub oracle: u64,
    pub families: BTreeMap<String, u64>,
    pub samples: BTreeMap<String, Vec<String>>,
    pub distinct_nontrivial: HashSet<u64>,
}

fn json_str(s: &str) -> String {
    let mut o = String::from("\"");
    for c in s.chars() {
        match c {
            '"' => o.push_str("\\\""), '\\' => o.push_str("\\\\"), '\n' => o.push_str("\\n"), '\t' => o.push_str("\\t"),
            c if (c as u32) < 0x20 => o.push_str(&format!("\\u{:04x}", c as u32)),
            c => o.push(c),
        }
    }
    o.push('"');
    o
}

fn main() {
    std::panic::set_hook(Box::new(|_| {})); // panics are observations, not noise
    let args: Vec<String> = std::env::args().collect();
    let engine = args.get(1).map(String::as_str).unwrap_or("");
    let stdin = std::io::stdin();
    let stdout = std::io::stdout();
    let mut out = std::io::BufWriter::new(stdout.lock());
    let mut st = Stats { total: 0, diffs: 0, oracle: 0, families: BTreeMap::new(), samples: BTreeMap::new(), distinct_nontrivial: HashSet::new() };
    for line in stdin.lock().lines() {
        let line = line.expect("stdin");
        if line.is_empty() { continue; }
        let f: Vec<&str> = line.split('\t').collect();
        if f[0] == "K" {
            // the model itself violates the stated property on this input (model-level counterexample)
            writeln!(out, "MODELCEX\t{}\t{}", f[..f.len() - 1].join(" "), f[f.len() - 1]).unwrap();
            continue;
        }
        let res = match (engine, f.as_slice()) {
            ("codec", ["enc", _fam, ty, val, exp]) => codec::run_enc(ty, val, exp),
            ("codec", ["dec", _fam, ty, hx, exp]) => codec::run_dec(ty, hx, exp),
            ("buffers", ["hist", _fam, target, ops, exp]) => buffers::run_hist(target, ops, exp),
            ("buffers", ["src", _fam, buf, ops, exp]) => buffers::run_src(buf, ops, exp),
            ("codec", ["skip", _fam, hx, exp]) => codec::run_skip(hx, exp),
            ("codec", ["reply", _fam, hx, exp]) => codec::run_reply(hx, exp),
            _ => codec::CaseResult { actual: "?".into(), diff: Some("unknown case shape".into()), oracle: None, nontrivial: false },
        };
        st.total += 1;
        let fam = f.get(1).copied().unwrap_or("?").to_string();
        *st.families.entry(fam.clone()).or_insert(0) += 1;
        let s = st.samples.entry(fam).or_default();
        if s.len() < 2 { s.push(line.clone()); }
        if res.nontrivial {
            let mut h = std::collections::hash_map::DefaultHasher::new();
            f[..f.len() - 1].hash(&mut h);
            st.distinct_nontrivial.insert(h.finish());
        }
        if let Some(d) = res.diff { st.diffs += 1; if st.diffs <= 200 { writeln!(out, "DIFF\t{}\t{}", line.replace('\t', " "), d).unwrap(); } }
        if let Some(d) = res.oracle { st.oracle += 1; if st.oracle <= 200 { writeln!(out, "ORACLE\t{}\t{}", line.replace('\t', " "), d).unwrap(); } }
    }
    // peak resident set of the whole run: a decoder whose memory follows announced sizes shows up here
    let hwm_kb: u64 = std::fs::read_to_string("/proc/self/status").ok().and_then(|t| t.lines().find(|l| l.starts_with("VmHWM:"))
        .and_then(|l| l.split_whitespace().nth(1).and_then(|n| n.parse().ok()))).unwrap_or(0);
    if engine == "codec" && hwm_kb > 400_000 {
        writeln!(out, "ORACLE\tpeak-rss\tthe decoder run peaked at {} KiB of resident memory on inputs of at most 64 bytes", hwm_kb).unwrap();
    }
    let fams: Vec<String> = st.families.iter().map(|(k, v)| format!("{}:{}", json_str(k), v)).collect();
    let samples: Vec<String> = st.samples.values().flatten().map(|s| json_str(s)).collect();
    writeln!(out, "STATS\t{{\"evaluations\":{},\"diffs\":{},\"oracle_failures\":{},\"distinct_nontrivial\":{},\"peak_rss_kb\":{},\"families\":{{{}}},\"samples\":[{}]}}",
        st.total, st.diffs, st.oracle, st.distinct_nontrivial.len(), hwm_kb, fams.join(","), samples.join(",")).unwrap();
}
