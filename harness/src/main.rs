fn main() { println!("hello"); }
