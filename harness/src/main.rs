//! runner <engine>: reads model-generated case lines on stdin (tab-separated, last field = the model's
//! expected observation), executes the real slicec / slice-codec code, and reports
//!   DIFF\t<case line>\t<reason>      model and implementation disagree
//!   ORACLE\t<case line>\t<reason>    the property predicate fails on the implementation's own output
//!   MODELCEX\t<case>\t<reason>       the model itself violates the stated property (K lines of the driver)
//!   STATS\t<json>                    totals
//! Engines that run the compiler execute every case in a worker process (`runner --worker <engine>`), so that
//! a stack overflow, an abort or a hang is observed and attributed to its case instead of killing the run.
mod buffers;
mod codec;
mod comments;
mod compile;
mod compile_ext;
mod dynval;
mod emit;
mod options;
mod perm;
mod preproc;
mod files;
mod proj_c03;
mod proj_c04;
mod proj_c05;
mod proj_c08;
mod proj_c09;
mod proj_c13;
mod proj_c16;
mod proj_c20;
mod slicelex;
mod sliceparse;
// the binary-private modules of slicec, compiled from the repository's current files
#[path = "/repo/slicec/src/definition_types.rs"]
#[allow(dead_code, unused_imports)]
mod definition_types;
#[path = "/repo/slicec/src/slice_file_converter.rs"]
#[allow(dead_code, unused_imports)]
mod slice_file_converter;

use codec::CaseResult;
use std::collections::{BTreeMap, HashSet};
use std::hash::{Hash, Hasher};
use std::io::{BufRead, BufReader, Write};
use std::process::{Child, Command, Stdio};
use std::sync::mpsc;
use std::time::Duration;

const ISOLATED: [&str; 1] = ["compile"];
const CASE_TIMEOUT_S: u64 = 20;

pub struct Stats {
    pub total: u64,
    pub diffs: u64,
    pub oracle: u64,
    pub families: BTreeMap<String, u64>,
    pub samples: BTreeMap<String, Vec<String>>,
    pub distinct_nontrivial: HashSet<u64>,
    pub max_case_heap: usize,
    pub hangs: u64,
}

fn json_str(s: &str) -> String {
    let mut o = String::from("\"");
    for c in s.chars() {
        match c {
            '"' => o.push_str("\\\""), '\\' => o.push_str("\\\\"), '\n' => o.push_str("\\n"), '\t' => o.push_str("\\t"),
            c if (c as u32) < 0x20 => o.push_str(&format!("\\u{:04x}", c as u32)),
            c => o.push(c),
        }
    }
    o.push('"');
    o
}

/// Counting allocator: lets the runner attribute heap use to the case that caused it (a decoder whose allocations follow
/// announced sizes shows up as one case with a huge transient peak) instead of looking at the resident set of the whole
/// run, which also contains the runner's own bookkeeping.
struct CountingAlloc;
static ALLOC_CUR: std::sync::atomic::AtomicUsize = std::sync::atomic::AtomicUsize::new(0);
static ALLOC_PEAK: std::sync::atomic::AtomicUsize = std::sync::atomic::AtomicUsize::new(0);
unsafe impl std::alloc::GlobalAlloc for CountingAlloc {
    unsafe fn alloc(&self, l: std::alloc::Layout) -> *mut u8 {
        let p = std::alloc::System.alloc(l);
        if !p.is_null() { let c = ALLOC_CUR.fetch_add(l.size(), std::sync::atomic::Ordering::Relaxed) + l.size(); ALLOC_PEAK.fetch_max(c, std::sync::atomic::Ordering::Relaxed); }
        p
    }
    unsafe fn dealloc(&self, p: *mut u8, l: std::alloc::Layout) { ALLOC_CUR.fetch_sub(l.size(), std::sync::atomic::Ordering::Relaxed); std::alloc::System.dealloc(p, l) }
    unsafe fn alloc_zeroed(&self, l: std::alloc::Layout) -> *mut u8 {
        let p = std::alloc::System.alloc_zeroed(l);
        if !p.is_null() { let c = ALLOC_CUR.fetch_add(l.size(), std::sync::atomic::Ordering::Relaxed) + l.size(); ALLOC_PEAK.fetch_max(c, std::sync::atomic::Ordering::Relaxed); }
        p
    }
    unsafe fn realloc(&self, p: *mut u8, l: std::alloc::Layout, n: usize) -> *mut u8 {
        let q = std::alloc::System.realloc(p, l, n);
        if !q.is_null() {
            if n >= l.size() { let c = ALLOC_CUR.fetch_add(n - l.size(), std::sync::atomic::Ordering::Relaxed) + (n - l.size()); ALLOC_PEAK.fetch_max(c, std::sync::atomic::Ordering::Relaxed); }
            else { ALLOC_CUR.fetch_sub(l.size() - n, std::sync::atomic::Ordering::Relaxed); }
        }
        q
    }
}
#[global_allocator]
static GLOBAL: CountingAlloc = CountingAlloc;
/// heap bytes a codec case may hold at its peak beyond what was allocated before it started (inputs are at most a few KiB)
const CASE_HEAP_LIMIT: usize = 64 << 20;
/// hanging cases tolerated per stream before it is cut short (known findings that are hangs: at most 3 per stream)
const MAX_HANGS: u64 = 12;

fn run_case(engine: &str, f: &[&str]) -> CaseResult {
    match (engine, f) {
        ("codec", ["enc", _fam, ty, val, exp]) => codec::run_enc(ty, val, exp),
        ("codec", ["dec", _fam, ty, hx, exp]) => codec::run_dec(ty, hx, exp),
        ("buffers", ["hist", _fam, target, ops, exp]) => buffers::run_hist(target, ops, exp),
        ("buffers", ["src", _fam, buf, ops, exp]) => buffers::run_src(buf, ops, exp),
        ("codec", ["skip", _fam, hx, exp]) => codec::run_skip(hx, exp),
        ("codec", ["reply", _fam, hx, exp]) => codec::run_reply(hx, exp),
        ("emit", [op @ ("emit" | "emitc"), fam, format, files, diags, exp]) => emit::run_emit(op, fam, format, files, diags, exp),
        ("preproc", ["pp", _fam, text, syms, exp @ ..]) if !exp.is_empty() => preproc::run_pp(text, syms, &exp.join(" ")),
        ("preproc", ["multi", fam, files, syms, exp @ ..]) if !exp.is_empty() => preproc::run_multi(fam, files, syms, &exp.join(" ")),
        ("comments", ["lex", _fam, lines, exp]) => comments::run_lex(lines, exp),
        ("comments", ["lexloc", _fam, lines, exp]) => comments::run_lexloc(lines, exp),
        ("comments", ["docloc", _fam, lines, exp]) => comments::run_docloc(lines, exp),
        ("comments", ["doc", _fam, lines, exp]) => comments::run_doc(lines, exp, false),
        ("comments", ["docm", _fam, lines, exp]) => comments::run_doc(lines, exp, true),
        ("files", ["tree", _fam, tree, argv, exp]) => files::run_tree(tree, argv, exp),
        ("compile", ["perm", _fam, opts, files, orders, exp]) => perm::run_perm(opts, files, orders, exp),
        ("compile", ["compile", _fam, proj, opts, files, exp]) => compile::run_compile(proj, opts, files, exp),
        ("compile", ["parse", _fam, text, exp]) => sliceparse::run_parse(text, exp),
        ("slicelex", ["lex", _fam, text, exp]) => slicelex::run_lex(text, exp),
        ("slicelex", ["lexloc", _fam, text, exp]) => slicelex::run_lexloc(text, exp),
        ("options", ["spec", _fam, hx, exp]) => options::run_spec(hx, exp),
        ("options", ["specd", _fam, hx, exp]) => options::run_spec_detached(hx, exp),
        ("options", ["multi", _fam, hxs, exp]) => options::run_multi(hxs, exp),
        _ => CaseResult { actual: "?".into(), diff: Some("unknown case shape".into()), oracle: None, nontrivial: false },
    }
}

fn clean(s: &str) -> String { s.replace(['\t', '\n', '\r'], " ") }

/// worker protocol: one line in, one line out: `R\t<nontrivial 0|1>\t<diff or ->\t<oracle or ->`
fn worker(engine: &str) {
    let stdin = std::io::stdin();
    let stdout = std::io::stdout();
    let mut out = stdout.lock();
    for line in stdin.lock().lines() {
        let line = line.expect("stdin");
        let f: Vec<&str> = line.split('\t').collect();
        let res = run_case(engine, &f);
        writeln!(out, "R\t{}\t{}\t{}", res.nontrivial as u8, res.diff.map_or("-".to_string(), |d| clean(&d)), res.oracle.map_or("-".to_string(), |d| clean(&d))).unwrap();
        out.flush().unwrap();
    }
}

struct Isolated { child: Child, rx: mpsc::Receiver<String> }

fn spawn_worker(engine: &str) -> Isolated {
    // the worker runs under an address-space limit (4 GiB): a compilation that allocates without bound aborts ("process died")
    // instead of exhausting the machine before the watchdog fires
    let exe = std::env::current_exe().unwrap();
    let mut child = Command::new("/bin/sh").arg("-c").arg("ulimit -v 4194304 2>/dev/null; exec \"$0\" --worker \"$1\"").arg(&exe).arg(engine)
        .stdin(Stdio::piped()).stdout(Stdio::piped()).stderr(Stdio::null()).spawn().expect("spawn worker");
    let stdout = child.stdout.take().unwrap();
    let (tx, rx) = mpsc::channel();
    std::thread::spawn(move || { for l in BufReader::new(stdout).lines() { match l { Ok(l) => { if tx.send(l).is_err() { break; } } Err(_) => break } } });
    Isolated { child, rx }
}

/// user + system CPU time of a process in clock ticks (100 per second on Linux), from /proc/<pid>/stat
fn cpu_ticks(pid: u32) -> Option<u64> {
    let stat = std::fs::read_to_string(format!("/proc/{}/stat", pid)).ok()?;
    let rest = &stat[stat.rfind(')')? + 1..];
    let f: Vec<&str> = rest.split_whitespace().collect();
    Some(f.get(11)?.parse::<u64>().ok()? + f.get(12)?.parse::<u64>().ok()?)
}

fn run_isolated(w: &mut Option<Isolated>, engine: &str, line: &str) -> CaseResult {
    if w.is_none() { *w = Some(spawn_worker(engine)); }
    let iso = w.as_mut().unwrap();
    let sent = iso.child.stdin.as_mut().map(|s| writeln!(s, "{}", line).and_then(|_| s.flush()).is_ok()).unwrap_or(false);
    // The limit is on the CPU time the worker spends on the case (a loaded machine must not turn a 2 s case into a "hang"),
    // with a wall-clock limit six times as long for a worker that is blocked rather than busy.
    let (wall0, cpu0) = (std::time::Instant::now(), cpu_ticks(iso.child.id()));
    let reply = if !sent { Err(mpsc::RecvTimeoutError::Disconnected) } else {
        loop {
            match iso.rx.recv_timeout(Duration::from_millis(500)) {
                Err(mpsc::RecvTimeoutError::Timeout) => {
                    let cpu_s = match (cpu0, cpu_ticks(iso.child.id())) { (Some(a), Some(b)) => b.saturating_sub(a) / 100, _ => wall0.elapsed().as_secs() };
                    if cpu_s >= CASE_TIMEOUT_S || wall0.elapsed().as_secs() >= 6 * CASE_TIMEOUT_S { break Err(mpsc::RecvTimeoutError::Timeout); }
                }
                other => break other,
            }
        }
    };
    match reply {
        Ok(l) => {
            let p: Vec<&str> = l.split('\t').collect();
            let opt = |s: &str| if s == "-" { None } else { Some(s.to_string()) };
            CaseResult { actual: String::new(), nontrivial: p.get(1) == Some(&"1"), diff: p.get(2).and_then(|s| opt(s)), oracle: p.get(3).and_then(|s| opt(s)) }
        }
        Err(e) => {
            let what = match e {
                mpsc::RecvTimeoutError::Timeout => { let _ = iso.child.kill(); format!("no verdict within {} s of CPU time (hang)", CASE_TIMEOUT_S) }
                mpsc::RecvTimeoutError::Disconnected => "process died".to_string(),
            };
            let status = iso.child.wait().map(|s| format!("{:?}", s)).unwrap_or_default();
            *w = None;
            CaseResult { actual: "crash".into(), nontrivial: true, diff: Some(format!("implementation crashed: {} ({})", what, status)),
                oracle: Some(format!("the compiler did not return a verdict: {} ({})", what, status)) }
        }
    }
}

fn main() {
    std::panic::set_hook(Box::new(|_| {})); // panics are observations, not noise
    let args: Vec<String> = std::env::args().collect();
    if args.get(1).map(String::as_str) == Some("--worker") { worker(args.get(2).map(String::as_str).unwrap_or("")); return; }
    let engine = args.get(1).map(String::as_str).unwrap_or("");
    let isolated = ISOLATED.contains(&engine);
    let mut iso: Option<Isolated> = None;
    let stdin = std::io::stdin();
    let stdout = std::io::stdout();
    let mut out = std::io::BufWriter::new(stdout.lock());
    let mut st = Stats { total: 0, diffs: 0, oracle: 0, families: BTreeMap::new(), samples: BTreeMap::new(), distinct_nontrivial: HashSet::new(), max_case_heap: 0, hangs: 0 };
    // in-process engines have no supervisor: a case that never returns would hang the whole check. A watchdog thread
    // ends the run (exit status 97, the case on stderr) when one case takes more than three times the per-case limit.
    let current: std::sync::Arc<std::sync::Mutex<(u64, std::time::Instant, String)>> =
        std::sync::Arc::new(std::sync::Mutex::new((0, std::time::Instant::now(), String::new())));
    if !isolated {
        let cur = current.clone();
        std::thread::spawn(move || loop {
            std::thread::sleep(Duration::from_secs(2));
            let g = cur.lock().unwrap();
            if g.0 > 0 && g.1.elapsed() > Duration::from_secs(3 * CASE_TIMEOUT_S) {
                eprintln!("WATCHDOG: case {} gave no result within {} s (in-process engine, the run is abandoned): {}", g.0, 3 * CASE_TIMEOUT_S,
                          g.2.chars().take(240).collect::<String>());
                std::process::exit(97);
            }
        });
    }
    let mut case_no: u64 = 0;
    for line in stdin.lock().lines() {
        let line = line.expect("stdin");
        if line.is_empty() { continue; }
        case_no += 1;
        if !isolated { *current.lock().unwrap() = (case_no, std::time::Instant::now(), line.clone()); }
        let f: Vec<&str> = line.split('\t').collect();
        if f[0] == "K" {
            // the model itself violates the stated property on this input (model-level counterexample)
            writeln!(out, "MODELCEX\t{}\t{}", f[..f.len() - 1].join(" "), f[f.len() - 1]).unwrap();
            continue;
        }
        let heap_before = ALLOC_CUR.load(std::sync::atomic::Ordering::Relaxed);
        ALLOC_PEAK.store(heap_before, std::sync::atomic::Ordering::Relaxed);
        let mut res = if isolated { run_isolated(&mut iso, engine, &line) } else { run_case(engine, &f) };
        let case_heap = ALLOC_PEAK.load(std::sync::atomic::Ordering::Relaxed).saturating_sub(heap_before);
        st.max_case_heap = st.max_case_heap.max(case_heap);
        if engine == "codec" && case_heap > CASE_HEAP_LIMIT && res.oracle.is_none() {
            res.oracle = Some(format!("this case allocated {} KiB of heap at its peak (limit {} KiB): memory follows an announced size instead of the bytes present", case_heap >> 10, CASE_HEAP_LIMIT >> 10));
        }
        st.total += 1;
        let fam = f.get(1).copied().unwrap_or("?").to_string();
        *st.families.entry(fam.clone()).or_insert(0) += 1;
        let s = st.samples.entry(fam).or_default();
        if s.len() < 2 { s.push(if line.len() > 600 { format!("{}…", line.chars().take(600).collect::<String>()) } else { line.clone() }); }
        if res.nontrivial {
            let mut h = std::collections::hash_map::DefaultHasher::new();
            f[..f.len() - 1].hash(&mut h);
            st.distinct_nontrivial.insert(h.finish());
        }
        // every hang costs the full watchdog time: after a dozen of them the stream is cut short (the run has its verdict)
        if res.oracle.as_deref().is_some_and(|o| o.contains("did not return a verdict")) {
            // a hang costs the whole watchdog time, a crash a worker restart (and often seconds of runaway allocation before it)
            st.hangs += if res.oracle.as_deref().is_some_and(|o| o.contains("(hang)")) { 4 } else { 1 };
            if st.hangs > 4 * MAX_HANGS {
                writeln!(out, "ORACLE\tstream-cut\tmore than {} cases gave no verdict within {} s (or four times as many crashed the worker); the remaining cases of this stream were not run", MAX_HANGS, CASE_TIMEOUT_S).unwrap();
                st.oracle += 1;
                if let Some(d) = res.diff { st.diffs += 1; if st.diffs <= 200 { writeln!(out, "DIFF\t{}\t{}", line.replace('\t', "\u{1f}"), d).unwrap(); } }
                break;
            }
        }
        if let Some(d) = res.diff { st.diffs += 1; if st.diffs <= 200 { writeln!(out, "DIFF\t{}\t{}", line.replace('\t', "\u{1f}"), d).unwrap(); } }
        if let Some(d) = res.oracle { st.oracle += 1; if st.oracle <= 200 { writeln!(out, "ORACLE\t{}\t{}", line.replace('\t', "\u{1f}"), d).unwrap(); } }
    }
    // resident set of the whole run (reported, not judged: it contains the runner's own bookkeeping, e.g. the set of distinct cases)
    let hwm_kb: u64 = std::fs::read_to_string("/proc/self/status").ok().and_then(|t| t.lines().find(|l| l.starts_with("VmHWM:"))
        .and_then(|l| l.split_whitespace().nth(1).and_then(|n| n.parse().ok()))).unwrap_or(0);
    let fams: Vec<String> = st.families.iter().map(|(k, v)| format!("{}:{}", json_str(k), v)).collect();
    let samples: Vec<String> = st.samples.values().flatten().map(|s| json_str(s)).collect();
    writeln!(out, "STATS\t{{\"evaluations\":{},\"diffs\":{},\"oracle_failures\":{},\"distinct_nontrivial\":{},\"peak_rss_kb\":{},\"max_case_heap_kb\":{},\"families\":{{{}}},\"samples\":[{}]}}",
        st.total, st.diffs, st.oracle, st.distinct_nontrivial.len(), hwm_kb, st.max_case_heap >> 10, fams.join(","), samples.join(",")).unwrap();
}
