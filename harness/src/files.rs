//! Engine `files` (C17): materialises a model-generated directory tree under /var/tmp, changes into it and
//! calls `slicec::compile_from_options` in-process with the generated sources / references.  Observed:
//! `state.files` (canonical path relative to the scenario root, `is_source`, order), the codes of
//! `state.diagnostics`, and how many files were parsed (have a module afterwards).
//!
//! The current directory is process-global: cases run strictly one after the other (the runner is
//! single-threaded) and the directory is restored and the tree removed after every case.

use crate::codec::CaseResult;
use crate::dynval::{hex, unhex};
use slicec::slice_options::SliceOptions;
use std::collections::BTreeMap;
use std::panic::{catch_unwind, AssertUnwindSafe};
use std::path::{Path, PathBuf};
use std::sync::atomic::{AtomicU64, Ordering};

static COUNTER: AtomicU64 = AtomicU64::new(0);

fn bad(what: &str) -> CaseResult {
    CaseResult { actual: what.to_string(), diff: Some(format!("runner could not set up the case: {}", what)), oracle: None, nontrivial: false }
}

fn field_str(h: &str) -> Option<String> {
    String::from_utf8(unhex(h)?).ok()
}

struct Scratch {
    root: PathBuf,
    back: PathBuf,
}

impl Drop for Scratch {
    fn drop(&mut self) {
        let _ = std::env::set_current_dir(&self.back);
        let _ = std::fs::remove_dir_all(&self.root); // does not follow symbolic links
    }
}

fn materialise(root: &Path, tree: &str) -> Result<(), String> {
    if tree == "-" { return Ok(()); }
    for (index, e) in tree.split(',').enumerate() {
        let parts: Vec<&str> = e.split(':').collect();
        let kind = parts[0];
        let rel = field_str(parts.get(1).ok_or("entry without path")?).ok_or("bad hex in path")?;
        let p = root.join(&rel);
        let r = match kind {
            "f" => std::fs::write(&p, format!("module M{}\n", index)),
            "u" => std::fs::write(&p, [0x6du8, 0x6f, 0x64, 0xff, 0xfe, 0x0a]),
            "d" => std::fs::create_dir(&p),
            "l" | "L" => {
                let t = field_str(parts.get(2).ok_or("link without target")?).ok_or("bad hex in target")?;
                let target = if kind == "L" { root.join(&t) } else { PathBuf::from(t) };
                std::os::unix::fs::symlink(target, &p)
            }
            _ => return Err(format!("unknown entry kind {}", kind)),
        };
        r.map_err(|e| format!("{} {}: {}", kind, rel, e))?;
    }
    Ok(())
}

pub fn run_tree(tree: &str, argv: &str, expected: &str) -> CaseResult {
    let back = std::env::current_dir().unwrap_or_else(|_| PathBuf::from("/"));
    let n = COUNTER.fetch_add(1, Ordering::SeqCst);
    let root = PathBuf::from(format!("/var/tmp/verif-c17-{}-{}", std::process::id(), n));
    let _ = std::fs::remove_dir_all(&root);
    if let Err(e) = std::fs::create_dir_all(&root) { return bad(&format!("mkdir {}: {}", root.display(), e)); }
    let scratch = Scratch { root: root.clone(), back };
    let root = match root.canonicalize() { Ok(r) => r, Err(e) => return bad(&format!("canonicalize root: {}", e)) };
    if let Err(e) = materialise(&root, tree) { return bad(&e); }

    let mut options = SliceOptions::default();
    if argv != "-" {
        for a in argv.split(',') {
            let Some((kind, h)) = a.split_once(':') else { return bad("argument without kind") };
            let Some(p) = field_str(h) else { return bad("bad hex in argument") };
            let spelled = match kind {
                "s" | "r" => p,
                "S" | "R" => format!("{}/{}", root.display(), p),
                _ => return bad("unknown argument kind"),
            };
            if kind == "s" || kind == "S" { options.sources.push(spelled) } else { options.references.push(spelled) }
        }
    }
    if let Err(e) = std::env::set_current_dir(&root) { return bad(&format!("chdir: {}", e)); }

    let outcome = catch_unwind(AssertUnwindSafe(|| slicec::compile_from_options(&options)));
    let state = match outcome {
        Ok(s) => s,
        Err(p) => {
            let msg = p.downcast_ref::<String>().cloned().or_else(|| p.downcast_ref::<&str>().map(|s| s.to_string())).unwrap_or_default();
            drop(scratch);
            let actual = "panic".to_string();
            return CaseResult { diff: Some(format!("model: {} implementation: panic", expected)), oracle: Some(format!("compile_from_options panicked: {}", msg)), actual, nontrivial: true };
        }
    };

    // ---- observation (taken while the tree still exists: canonical paths are asked of the real file system) ----
    let mut oracle: Vec<String> = Vec::new();
    let mut sources: Vec<String> = Vec::new();
    let mut references: Vec<String> = Vec::new();
    let mut seen: Vec<PathBuf> = Vec::new();
    let mut reference_seen = false;
    let mut parsed = 0usize;
    for file in &state.files {
        let canonical = match Path::new(&file.relative_path).canonicalize() {
            Ok(c) => c,
            Err(e) => { oracle.push(format!("listed file {:?} cannot be canonicalised: {}", file.relative_path, e)); continue; }
        };
        if seen.contains(&canonical) { oracle.push(format!("{:?} is compiled twice", canonical.strip_prefix(&root).unwrap_or(&canonical))); }
        seen.push(canonical.clone());
        let shown = match canonical.strip_prefix(&root) {
            Ok(r) => hex(r.to_string_lossy().as_bytes()),
            Err(_) => format!("outside:{}", hex(canonical.to_string_lossy().as_bytes())),
        };
        if file.is_source {
            if reference_seen { oracle.push(format!("source {:?} listed after a reference", file.relative_path)); }
            sources.push(shown);
        } else {
            reference_seen = true;
            references.push(shown);
        }
        if !file.relative_path.ends_with(".slice") { oracle.push(format!("listed file {:?} does not end with .slice", file.relative_path)); }
        if file.module.is_some() || !file.contents.is_empty() { parsed += 1; }
    }
    references.sort();
    let mut codes: BTreeMap<String, usize> = BTreeMap::new();
    let has_errors = state.diagnostics.has_errors();
    let n_files = state.files.len();
    for d in state.diagnostics.into_inner() { *codes.entry(d.code().to_string()).or_insert(0) += 1; }
    let e001 = codes.get("E001").copied().unwrap_or(0);
    if e001 > 0 && parsed > 0 { oracle.push(format!("{} I/O error(s) were reported and {} file(s) were parsed all the same", e001, parsed)); }
    if e001 > 0 && !has_errors { oracle.push("an I/O error is present but has_errors() is false".to_string()); }
    if !has_errors && parsed != n_files { oracle.push(format!("no error, {} files listed but {} parsed", n_files, parsed)); }
    drop(scratch);

    let list = |v: &[String]| if v.is_empty() { "-".to_string() } else { v.join(",") };
    let d: Vec<String> = codes.iter().map(|(k, v)| format!("{}*{}", k, v)).collect();
    let actual = format!("S={};R={};D={};P={}", list(&sources), list(&references), list(&d), parsed);
    let diff = if actual == expected { None } else { Some(format!("model: {} implementation: {}", expected, actual)) };
    let oracle = if oracle.is_empty() { None } else { Some(oracle.join("; ")) };
    CaseResult { nontrivial: n_files > 0 || !codes.is_empty(), actual, diff, oracle }
}
