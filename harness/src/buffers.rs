//! Engine `buffers`: lock-step histories on SliceOutputTarget / VecOutputTarget / SliceInputSource (C12).
//! The fixed-slice target is placed between two canary regions which are checked after every operation.

use crate::codec::CaseResult;
use crate::dynval::{hex, unhex};
use slice_codec::buffer::slice::{SliceInputSource, SliceOutputTarget};
use slice_codec::buffer::vec::VecOutputTarget;
use slice_codec::buffer::{InputSource, OutputTarget, Reservation};
use slice_codec::ErrorKind;
use std::panic::{catch_unwind, AssertUnwindSafe};

const CANARY: usize = 32;
/// stale bytes left behind the contents of the recycled growable target
const STALE_SPARE: usize = 96;

fn fnv1a(bs: &[u8]) -> u64 {
    let mut h: u64 = 0xcbf29ce484222325;
    for b in bs { h = (h ^ (*b as u64)).wrapping_mul(0x100000001b3); }
    h
}

fn show_buf(bs: &[u8]) -> String {
    if bs.len() <= 16 { hex(bs) } else { format!("{}#{}", bs.len(), fnv1a(bs)) }
}

fn payload(s: &str) -> Option<Vec<u8>> {
    if let Some(p) = s.strip_prefix('P') {
        let (k, seed) = p.split_once('.')?;
        let (k, seed): (usize, usize) = (k.parse().ok()?, seed.parse().ok()?);
        Some((0..k).map(|t| ((seed + t * 7) % 256) as u8).collect())
    } else { unhex(s) }
}

enum Op { Write(Vec<u8>), Reserve(usize), Resv(usize, Vec<u8>), Foreign(usize, usize, Vec<u8>) }

fn parse_ops(s: &str) -> Option<Vec<Op>> {
    if s.is_empty() { return Some(vec![]); }
    s.split(',').map(|o| {
        let f: Vec<&str> = o.split(':').collect();
        Some(match f.as_slice() {
            ["w", p] => Op::Write(payload(p)?),
            ["r", k] => Op::Reserve(k.parse().ok()?),
            ["v", i, p] => Op::Resv(i.parse().ok()?, payload(p)?),
            ["f", a, b, p] => Op::Foreign(a.parse().ok()?, b.parse().ok()?, payload(p)?),
            _ => return None,
        })
    }).collect()
}

fn forge(start: usize, end: usize) -> Reservation {
    // `Reservation` is a private tuple struct over `Range<usize>`; a caller can only forge one by
    // reinterpreting memory, which is exactly the "intentional tampering" the API documents.
    assert_eq!(std::mem::size_of::<Reservation>(), std::mem::size_of::<std::ops::Range<usize>>());
    unsafe { std::mem::transmute::<std::ops::Range<usize>, Reservation>(start..end) }
}

fn res_range(r: &Reservation) -> (usize, usize) {
    let rr: &std::ops::Range<usize> = unsafe { &*(r as *const Reservation as *const std::ops::Range<usize>) };
    (rr.start, rr.end)
}

fn err_code(e: &slice_codec::Error) -> &'static str {
    let _ = e.to_string();
    match e.kind() { ErrorKind::UnexpectedEob { .. } => "E", ErrorKind::InvalidReservation { .. } => "I", _ => "?" }
}

fn step<T: OutputTarget>(t: &mut T, res: &mut Vec<Reservation>, op: &Op) -> String {
    match op {
        Op::Write(bs) => {
            let r = if bs.len() == 1 { t.write_byte(bs[0]) } else { t.write_bytes_exact(bs) };
            match r { Ok(()) => "ok".into(), Err(e) => err_code(&e).into() }
        }
        Op::Reserve(k) => match t.reserve_space(*k) {
            Ok(r) => { let (a, b) = res_range(&r); res.push(r); format!("R{}-{}", a, b) }
            Err(e) => err_code(&e).into(),
        },
        Op::Resv(i, bs) => match res.get_mut(*i) {
            None => "N".into(),
            Some(r) => match t.write_bytes_into_reserved_exact(r, bs) {
                Ok(()) => { let (a, b) = res_range(r); format!("R{}-{}", a, b) }
                Err(e) => err_code(&e).into(),
            },
        },
        Op::Foreign(a, b, bs) => {
            let mut r = forge(*a, *b);
            match t.write_bytes_into_reserved_exact(&mut r, bs) {
                Ok(()) => { let (a, b) = res_range(&r); format!("R{}-{}", a, b) }
                Err(e) => err_code(&e).into(),
            }
        }
    }
}

pub fn run_hist(target: &str, ops_s: &str, expected: &str) -> CaseResult {
    let Some(ops) = parse_ops(ops_s) else { return bad("bad-ops") };
    let mut oracle = None;
    let r = catch_unwind(AssertUnwindSafe(|| {
        let mut obs: Vec<String> = vec![];
        let mut stale_diff: Option<String> = None;
        if let Some(init_s) = target.strip_prefix("slice:") {
            let init = unhex(init_s).unwrap_or_default();
            let cap = init.len();
            let mut mem = vec![0x5Au8; cap + 2 * CANARY];
            mem[CANARY..CANARY + cap].copy_from_slice(&init);
            let mut res = vec![];
            let mut canary_broken = None;
            // the target borrows the middle of `mem`; contents are read back through a raw pointer between operations
            let base = mem.as_mut_ptr();
            {
                let middle: &mut [u8] = unsafe { std::slice::from_raw_parts_mut(base.add(CANARY), cap) };
                let mut t = SliceOutputTarget::from(middle);
                for (n, op) in ops.iter().enumerate() {
                    let o = step(&mut t, &mut res, op);
                    let pos = cap - t.remaining();
                    let all: &[u8] = unsafe { std::slice::from_raw_parts(base, cap + 2 * CANARY) };
                    if canary_broken.is_none() && (all[..CANARY].iter().any(|b| *b != 0x5A) || all[CANARY + cap..].iter().any(|b| *b != 0x5A)) {
                        canary_broken = Some(n);
                    }
                    obs.push(format!("{}@{}:{}", o, pos, show_buf(&all[CANARY..CANARY + cap])));
                }
            }
            (obs, canary_broken, stale_diff)
        } else {
            let init = unhex(target.strip_prefix("vec:").unwrap_or("-")).unwrap_or_default();
            // The growable target is exercised from two legal initial states of the same contents: a Vec whose
            // capacity equals its length, and a recycled Vec whose spare capacity still holds stale non-zero bytes
            // (`clear()` / `truncate()` keep the allocation). The property does not depend on the spare capacity, so
            // both must produce the model's observations; the second is what exposes a reservation that is not zeroed.
            let run_from = |mut v: Vec<u8>| -> Vec<String> {
                let mut obs: Vec<String> = vec![];
                let mut res = vec![];
                for op in ops.iter() {
                    let o = { let mut t = VecOutputTarget::from(&mut v); step(&mut t, &mut res, op) };
                    obs.push(format!("{}@{}", o, show_buf(&v)));
                }
                obs
            };
            let clean = run_from(init.clone());
            let mut stale = vec![0xA5u8; init.len() + STALE_SPARE];
            stale[..init.len()].copy_from_slice(&init);
            stale.truncate(init.len());
            let dirty = run_from(stale);
            if clean != dirty {
                let n = (0..clean.len().max(dirty.len())).find(|i| clean.get(*i) != dirty.get(*i)).unwrap_or(0);
                stale_diff = Some(format!(
                    "growable target with stale spare capacity behaves differently after operation {}: exact-capacity Vec {} / recycled Vec {}",
                    n, clean.get(n).map(String::as_str).unwrap_or("<none>"), dirty.get(n).map(String::as_str).unwrap_or("<none>")));
            }
            obs = clean;
            (obs, None, stale_diff)
        }
    }));
    let actual = match r {
        Ok((obs, canary, stale)) => {
            if let Some(d) = stale { oracle = Some(d); }
            if let Some(n) = canary { oracle = Some(format!("operation {} wrote outside the target's slice (canary overwritten)", n)); }
            obs.join(",")
        }
        Err(_) => { oracle = Some("panic".to_string()); "panic".to_string() }
    };
    let diff = if actual != expected { Some(first_diff(expected, &actual)) } else { None };
    let nontrivial = actual.contains("ok@") || actual.contains('R');
    CaseResult { actual, diff, oracle, nontrivial }
}

fn first_diff(expected: &str, actual: &str) -> String {
    let (e, a): (Vec<&str>, Vec<&str>) = (expected.split(',').collect(), actual.split(',').collect());
    for i in 0..e.len().max(a.len()) {
        if e.get(i) != a.get(i) {
            return format!("after operation {}: model={} impl={}", i, e.get(i).unwrap_or(&"<none>"), a.get(i).unwrap_or(&"<none>"));
        }
    }
    "differ".to_string()
}

pub fn run_src(buf_s: &str, ops_s: &str, expected: &str) -> CaseResult {
    let Some(buf) = unhex(buf_s) else { return bad("bad-hex") };
    let mut oracle = None;
    let r = catch_unwind(AssertUnwindSafe(|| {
        let mut s = SliceInputSource::from(buf.as_slice());
        let mut obs = vec![];
        for o in ops_s.split(',').filter(|x| !x.is_empty()) {
            let (kind, k) = o.split_once(':').unwrap();
            let k: usize = k.parse().unwrap();
            let before = buf.len() - s.remaining();
            let r: Result<Vec<u8>, slice_codec::Error> = match (kind, k) {
                ("p", 1) => s.peek_byte().map(|b| vec![b]),
                ("d", 1) => s.read_byte().map(|b| vec![b]),
                ("p", 2) => s.peek_bytes_exact::<2>().map(|b| b.to_vec()),
                ("d", 2) => s.read_bytes_exact::<2>().map(|b| b.to_vec()),
                ("p", 4) => s.peek_byte_slice_exact(4).map(|b| b.to_vec()),
                ("d", 4) => { let mut d = [0u8; 4]; s.read_bytes_into_exact(&mut d).map(|_| d.to_vec()) }
                ("p", k) => s.peek_byte_slice_exact(k).map(|b| b.to_vec()),
                (_, k) => s.read_byte_slice_exact(k).map(|b| b.to_vec()),
            };
            let pos = buf.len() - s.remaining();
            match r {
                Ok(bs) => {
                    // implementation-side oracle: bytes come from inside the buffer at the cursor
                    if before + k > buf.len() || bs != buf[before..before + k] { return Err(format!("read {} at {} yielded {}", k, before, hex(&bs))); }
                    obs.push(format!("ok:{}@{}", show_buf(&bs), pos));
                }
                Err(e) => { let _ = e.to_string(); obs.push(format!("E@{}", pos)); }
            }
        }
        Ok(obs.join(","))
    }));
    let actual = match r {
        Ok(Ok(a)) => a,
        Ok(Err(msg)) => { oracle = Some(msg); "oracle-failure".to_string() }
        Err(_) => { oracle = Some("panic".into()); "panic".to_string() }
    };
    let diff = if actual != expected { Some(first_diff(expected, &actual)) } else { None };
    CaseResult { nontrivial: actual.contains("ok:"), actual, diff, oracle }
}

fn bad(what: &str) -> CaseResult {
    CaseResult { actual: what.to_string(), diff: Some(format!("runner could not parse case: {}", what)), oracle: None, nontrivial: false }
}
