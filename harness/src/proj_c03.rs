//! Projections of a compilation used by property C03 (engine `compile`, projection names `c03:<name>`).
//!
//! `c03:bind`: per file (joined by `|`), for every written type reference / base interface / enum underlying type
//! in element-path order (paths as in Model/Print.lean), `path=<bound>[directives]` joined by `;`, where
//! `<bound>` = `prim(kw)` | `def(kind,hex module-scoped id)` | `anon(seq|dict|result)` | `unpatched(hex id)` and
//! the directives are those of the attributes the reference carries (written, then inherited through aliases);
//! then `;find:retrieve=ok` when every definition, field, enumerator and operation is returned by
//! `Ast::find_element::<dyn Entity>(parser_scoped_identifier)` (else `retrieve=fail(hex ids, sorted)`),
//! then ` diags=<sorted multiset of codes>`.
//! `c03:find`: the same without the ` diags=` part.
#![allow(unused_imports, dead_code)]
use crate::compile::*;
use slicec::ast::node::Node;
use slicec::compilation_state::CompilationState;
use slicec::grammar::*;
use slicec::slice_file::{SliceFile, Span};
use slicec::slice_options::SliceOptions;

pub fn project(state: CompilationState, options: SliceOptions, name: &str) -> String {
    match name {
        "bind" => bind(state, options),
        "find" => find(state),
        _ => format!("unknown-projection:c03:{}", name),
    }
}

fn dirs(attrs: &[&Attribute]) -> String {
    let v: Vec<String> = attrs.iter().map(|a| attr_parts(a).0).collect();
    format!("[{}]", v.join(","))
}

/// `inner` was written inside `outer` (as opposed to an anonymous type reached through a type alias)
fn written_inside(outer: &Span, inner: &Span) -> bool {
    outer.file == inner.file
        && (inner.start.row, inner.start.col) >= (outer.start.row, outer.start.col)
        && (inner.end.row, inner.end.col) <= (outer.end.row, outer.end.col)
}

fn type_ref(out: &mut Vec<String>, path: &str, t: &TypeRef) {
    match &t.definition {
        TypeRefDefinition::Unpatched(id) => out.push(format!("{}=unpatched({}){}", path, hs(&id.value), dirs(&t.attributes()))),
        TypeRefDefinition::Patched(_) => {
            let bound = match t.definition().concrete_type() {
                Types::Struct(s) => format!("def(struct,{})", hs(&s.module_scoped_identifier())),
                Types::Enum(s) => format!("def(enum,{})", hs(&s.module_scoped_identifier())),
                Types::CustomType(s) => format!("def(custom,{})", hs(&s.module_scoped_identifier())),
                Types::Primitive(p) => format!("prim({})", p.kind()),
                Types::Sequence(_) => "anon(seq)".to_string(),
                Types::Dictionary(_) => "anon(dict)".to_string(),
                Types::ResultType(_) => "anon(result)".to_string(),
            };
            out.push(format!("{}={}{}", path, bound, dirs(&t.attributes())));
            let mut sub = |suffix: &str, c: &TypeRef, out: &mut Vec<String>| {
                if written_inside(&t.span, &c.span) { type_ref(out, &format!("{}.{}", path, suffix), c); }
            };
            match t.definition().concrete_type() {
                Types::Sequence(s) => sub("e", &s.element_type, out),
                Types::Dictionary(d) => { sub("k", &d.key_type, out); sub("v", &d.value_type, out); }
                Types::ResultType(r) => { sub("s", &r.success_type, out); sub("f", &r.failure_type, out); }
                _ => {}
            }
        }
    }
}

fn file_bind(f: &SliceFile) -> String {
    let mut out = vec![];
    for (j, d) in f.contents.iter().enumerate() {
        let p = format!("d{}", j);
        match d {
            Definition::Struct(x) => {
                let s = x.borrow();
                for (k, fl) in s.fields().iter().enumerate() { type_ref(&mut out, &format!("{}.f{}.t", p, k), &fl.data_type); }
            }
            Definition::Interface(x) => {
                let s = x.borrow();
                for (k, b) in s.bases.iter().enumerate() {
                    let bound = match &b.definition {
                        TypeRefDefinition::Patched(_) => format!("def(interface,{})", hs(&b.definition().module_scoped_identifier())),
                        TypeRefDefinition::Unpatched(id) => format!("unpatched({})", hs(&id.value)),
                    };
                    out.push(format!("{}.b{}={}{}", p, k, bound, dirs(&b.attributes())));
                }
                for (k, o) in s.operations().iter().enumerate() {
                    for (m, pa) in o.parameters().iter().enumerate() { type_ref(&mut out, &format!("{}.o{}.p{}.t", p, k, m), &pa.data_type); }
                    for (m, pa) in o.return_members().iter().enumerate() { type_ref(&mut out, &format!("{}.o{}.r{}.t", p, k, m), &pa.data_type); }
                }
            }
            Definition::Enum(x) => {
                let s = x.borrow();
                if let Some(u) = &s.underlying {
                    let bound = match &u.definition {
                        TypeRefDefinition::Patched(_) => format!("prim({})", u.definition().kind()),
                        TypeRefDefinition::Unpatched(id) => format!("unpatched({})", hs(&id.value)),
                    };
                    out.push(format!("{}.u={}{}", p, bound, dirs(&u.attributes())));
                }
                for (k, e) in s.enumerators().iter().enumerate() {
                    if e.fields.is_some() {
                        for (m, fl) in e.fields().iter().enumerate() { type_ref(&mut out, &format!("{}.e{}.f{}.t", p, k, m), &fl.data_type); }
                    }
                }
            }
            Definition::CustomType(_) => {}
            Definition::TypeAlias(x) => { let s = x.borrow(); type_ref(&mut out, &format!("{}.t", p), &s.underlying); }
        }
    }
    out.join(";")
}

fn thin<T: ?Sized>(r: &T) -> *const u8 { r as *const T as *const u8 }

/// every definition, field, enumerator and operation must be what `find_element` returns for its scoped identifier
fn retrieve(state: &CompilationState) -> String {
    let mut failing = vec![];
    for node in state.ast.as_slice() {
        if matches!(node, Node::Parameter(_)) { continue; }
        let Ok(entity) = <&dyn Entity>::try_from(node) else { continue };
        let id = entity.parser_scoped_identifier();
        let same = match state.ast.find_element::<dyn Entity>(&id) {
            Ok(found) => thin(found) == thin(entity),
            Err(_) => false,
        };
        if !same { failing.push(hs(&id)); }
    }
    if failing.is_empty() { "retrieve=ok".to_string() } else { failing.sort(); format!("retrieve=fail({})", failing.join(",")) }
}

/// `c03:find`: bindings and retrieval without the diagnostics
fn find(state: CompilationState) -> String {
    let files: Vec<String> = state.files.iter().map(file_bind).collect();
    format!("{};find:{}", files.join("|"), retrieve(&state))
}

fn bind(state: CompilationState, options: SliceOptions) -> String {
    let files: Vec<String> = state.files.iter().map(file_bind).collect();
    let found = retrieve(&state);
    let diags = state.diagnostics.into_updated(&state.ast, &state.files, &options);
    format!("{};find:{} diags={}", files.join("|"), found, codes(&diags))
}
