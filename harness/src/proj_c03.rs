//! Projections of a compilation used by property C03 (engine `compile`, projection names `c03:<name>`).
#![allow(unused_imports, dead_code)]
use crate::compile::*;
use slicec::compilation_state::CompilationState;
use slicec::grammar::*;
use slicec::slice_options::SliceOptions;

pub fn project(state: CompilationState, options: SliceOptions, name: &str) -> String {
    let _ = (&state, &options);
    format!("unknown-projection:c03:{}", name)
}
