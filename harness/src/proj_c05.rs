//! Projections of a compilation used by property C05 (engine `compile`, projection names `c05:<name>`).
//!
//! `c05:cycles`  `E032=[root:c0.f0,c1.f1,…|…];E019=[alias|…];oncycle=[type|…];oracle=ok|FAIL(…)`
//!     * E032: one entry per infinite-size diagnostic, sorted (a multiset; the order of diagnostics is not compared).
//!       `root` = the struct/enum the diagnostic points at (found by span), then link by link the type that holds the
//!       field a note points at (found by span) and the field's identifier. Message texts are not compared.
//!     * E019: the aliases self-referential-alias diagnostics point at (by span), sorted.
//!     * oncycle: the types that contain themselves, computed HERE from the compiled AST by a transitive closure
//!       (the driver computes the same list from the abstract graph it generated).
//!     * oracle: the property's predicate on the implementation's own reports, independent of the detector model:
//!       every chain is a closed path of fields of the AST's containment graph starting at its root, every type it
//!       passes through is named in the message, every type on a cycle is passed through by some chain, and there is
//!       no report when nothing is on a cycle.
//!     Other error codes are deliberately not part of this projection (C04's business).
//! `c05:gate`    `E019=[alias|…];IFACE=[interface|…];E032=[root:c0.f0,…|…] oracle=ok|FAIL(…)` — the whole cycle gate:
//!     E032 diagnostics that point at an interface (by span) are listed under IFACE (sorted), those that point at a
//!     struct/enum under E032 as in `c05:cycles`. The oracle of `c05:cycles` plus: the flagged interfaces are exactly
//!     the interfaces that reach themselves through base references (closure computed HERE from the AST), and the
//!     message of each names the interface.
//! `c05:verdict` `rejected` if there is any error, else `accepted`
//! `c05:alias`   `E019=[…];E033=<count>;rejected=0|1`
//! `c05:inherit` `rejected:E032@I0|E032@I1|…` if there is any error — every error diagnostic as code@interface, the interface
//!     being the one whose span equals the diagnostic's span (`-` if it points at anything else), sorted — else
//!     `accepted:I0=[all_base_interfaces…]|I1=[…]` (definition order)
#![allow(unused_imports, dead_code)]
use crate::compile::*;
use slicec::compilation_state::CompilationState;
use slicec::diagnostics::{Diagnostic, DiagnosticLevel};
use slicec::grammar::*;
use slicec::slice_file::Span;
use slicec::slice_options::SliceOptions;
use std::collections::{BTreeMap, BTreeSet};

struct TypeInfo<'a> {
    id: String,
    span: &'a Span,
    fields: Vec<&'a Field>,
}

/// struct/enum leaves of a type reference (through optional, sequence, dictionary key/value, result success/failure);
/// the depth guard only matters for the ill-founded types of D-05c
fn leaves(t: &TypeRef, depth: usize, out: &mut Vec<String>) {
    if depth > 64 { return; }
    if let TypeRefDefinition::Unpatched(_) = &t.definition { return; }
    match t.concrete_type() {
        Types::Struct(s) => out.push(s.module_scoped_identifier()),
        Types::Enum(e) => out.push(e.module_scoped_identifier()),
        Types::Sequence(s) => leaves(&s.element_type, depth + 1, out),
        Types::Dictionary(d) => { leaves(&d.key_type, depth + 1, out); leaves(&d.value_type, depth + 1, out); }
        Types::ResultType(r) => { leaves(&r.success_type, depth + 1, out); leaves(&r.failure_type, depth + 1, out); }
        Types::Primitive(_) | Types::CustomType(_) => {}
    }
}

fn list(v: &[String]) -> String { format!("[{}]", v.join("|")) }

fn cycles(state: CompilationState, options: SliceOptions, gate: bool) -> String {
    let CompilationState { ast, diagnostics, files } = state;
    let diags = diagnostics.into_updated(&ast, &files, &options);

    // the containment graph as the AST has it
    let structs: Vec<_> = files.iter().flat_map(|f| f.contents.iter()).filter_map(|d| if let Definition::Struct(p) = d { Some(p.borrow()) } else { None }).collect();
    let enums: Vec<_> = files.iter().flat_map(|f| f.contents.iter()).filter_map(|d| if let Definition::Enum(p) = d { Some(p.borrow()) } else { None }).collect();
    let aliases: Vec<_> = files.iter().flat_map(|f| f.contents.iter()).filter_map(|d| if let Definition::TypeAlias(p) = d { Some(p.borrow()) } else { None }).collect();
    let ifaces: Vec<_> = files.iter().flat_map(|f| f.contents.iter()).filter_map(|d| if let Definition::Interface(p) = d { Some(p.borrow()) } else { None }).collect();
    let mut types: Vec<TypeInfo> = vec![];
    for s in &structs { types.push(TypeInfo { id: s.module_scoped_identifier(), span: &s.span, fields: s.fields() }); }
    for e in &enums { types.push(TypeInfo { id: e.module_scoped_identifier(), span: &e.span, fields: e.enumerators().into_iter().flat_map(|x| x.fields()).collect() }); }
    let index: BTreeMap<&str, usize> = types.iter().enumerate().map(|(i, t)| (t.id.as_str(), i)).collect();
    let n = types.len();
    let mut reach = vec![vec![false; n]; n];
    for (i, t) in types.iter().enumerate() {
        for f in &t.fields {
            let mut l = vec![]; leaves(&f.data_type, 0, &mut l);
            for x in l { if let Some(&j) = index.get(x.as_str()) { reach[i][j] = true; } }
        }
    }
    let step = reach.clone();
    for k in 0..n { for i in 0..n { if reach[i][k] { for j in 0..n { if reach[k][j] { reach[i][j] = true; } } } } }
    let mut oncycle: Vec<String> = (0..n).filter(|&i| reach[i][i]).map(|i| types[i].id.clone()).collect();
    oncycle.sort();

    // the reports
    let mut failures: Vec<String> = vec![];
    let mut e032: Vec<String> = vec![];
    let mut e019: Vec<String> = vec![];
    let mut named: BTreeSet<usize> = BTreeSet::new();
    let mut iface_flagged: Vec<String> = vec![];
    for d in diags.iter().filter(|d| d.level() == DiagnosticLevel::Error) {
        match d.code() {
            "E032" if gate && d.span().map_or(false, |s| ifaces.iter().any(|i| &i.span == s)) => {
                let i = ifaces.iter().find(|i| Some(&i.span) == d.span()).unwrap();
                if !d.message().contains(i.identifier()) { failures.push(format!("the message of the report for interface {} does not name it", i.identifier())); }
                iface_flagged.push(i.module_scoped_identifier());
            }
            "E032" => {
                let root = d.span().and_then(|s| types.iter().position(|t| t.span == s));
                let Some(root) = root else { failures.push("an E032 diagnostic does not point at a struct or enum".into()); e032.push("?".into()); continue };
                let message = d.message();
                let mut links: Vec<(usize, &Field)> = vec![];
                for note in d.notes() {
                    let hit = note.span.as_ref().and_then(|s| types.iter().enumerate().find_map(|(i, t)| t.fields.iter().find(|f| &f.span == s).map(|f| (i, *f))));
                    match hit { Some(h) => links.push(h), None => failures.push(format!("a note of the report for {} does not point at a field", types[root].id)) }
                }
                e032.push(format!("{}:{}", types[root].id, links.iter().map(|(c, f)| format!("{}.{}", types[*c].id, f.identifier())).collect::<Vec<_>>().join(",")));
                // closed path of fields starting (and ending) at the root
                if links.is_empty() { failures.push(format!("the report for {} has no chain", types[root].id)); continue; }
                if links[0].0 != root { failures.push(format!("the chain reported for {} does not start at it", types[root].id)); }
                for (k, (c, f)) in links.iter().enumerate() {
                    let next = if k + 1 < links.len() { links[k + 1].0 } else { root };
                    let mut l = vec![]; leaves(&f.data_type, 0, &mut l);
                    if !l.iter().any(|x| x == &types[next].id) {
                        failures.push(format!("reported link {}.{} does not contain {}", types[*c].id, f.identifier(), types[next].id));
                    }
                    if !message.contains(types[*c].id.as_str()) { failures.push(format!("the message of the report for {} does not name {}", types[root].id, types[*c].id)); }
                    named.insert(*c);
                    let _ = step[*c][next];
                }
            }
            "E019" => {
                match d.span().and_then(|s| aliases.iter().find(|a| &a.span == s)) {
                    Some(a) => e019.push(a.module_scoped_identifier()),
                    None => { failures.push("an E019 diagnostic does not point at a type alias".into()); e019.push("?".into()); }
                }
            }
            _ => {}
        }
    }
    e032.sort();
    e019.sort();
    // (in `gate` mode with alias errors the alias gate returned first: the detector did not run)
    let detector_ran = !(gate && !e019.is_empty());
    for i in 0..n { if detector_ran && reach[i][i] && !named.contains(&i) { failures.push(format!("{} contains itself but no reported cycle names it", types[i].id)); } }
    if oncycle.is_empty() && !e032.is_empty() { failures.push("a cycle is reported although no type contains itself".into()); }
    if gate {
        // which interfaces inherit from themselves, from the AST's base references
        let m = ifaces.len();
        let ids: Vec<String> = ifaces.iter().map(|i| i.module_scoped_identifier()).collect();
        let mut r = vec![vec![false; m]; m];
        for (a, i) in ifaces.iter().enumerate() {
            for b in &i.bases {
                if let TypeRefDefinition::Patched(_) = &b.definition {
                    if let Some(j) = ids.iter().position(|x| x == &b.definition().module_scoped_identifier()) { r[a][j] = true; }
                }
            }
        }
        for k in 0..m { for a in 0..m { if r[a][k] { for b in 0..m { if r[k][b] { r[a][b] = true; } } } } }
        iface_flagged.sort();
        let mut looping: Vec<String> = (0..m).filter(|&a| r[a][a]).map(|a| ids[a].clone()).collect();
        looping.sort();
        // the alias gate returns before the interface gate: nothing is expected then
        if e019.is_empty() && looping != iface_flagged {
            failures.push(format!("interfaces that inherit from themselves: {}; interfaces reported: {}", list(&looping), list(&iface_flagged)));
        }
        let oracle = if failures.is_empty() { "ok".to_string() } else { format!("FAIL({})", failures.join("; ")) };
        return format!("E019={};IFACE={};E032={} oracle={}", list(&e019), list(&iface_flagged), list(&e032), oracle);
    }
    let oracle = if failures.is_empty() { "ok".to_string() } else { format!("FAIL({})", failures.join("; ")) };
    format!("E032={};E019={};oncycle={} oracle={}", list(&e032), list(&e019), list(&oncycle), oracle)
}

fn verdict(state: CompilationState, options: SliceOptions) -> String {
    let CompilationState { ast, diagnostics, files } = state;
    let diags = diagnostics.into_updated(&ast, &files, &options);
    if diags.iter().any(|d| d.level() == DiagnosticLevel::Error) { "rejected".to_string() } else { "accepted".to_string() }
}

fn alias(state: CompilationState, options: SliceOptions) -> String {
    let CompilationState { ast, diagnostics, files } = state;
    let diags = diagnostics.into_updated(&ast, &files, &options);
    let aliases: Vec<_> = files.iter().flat_map(|f| f.contents.iter()).filter_map(|d| if let Definition::TypeAlias(p) = d { Some(p.borrow()) } else { None }).collect();
    let errors: Vec<&Diagnostic> = diags.iter().filter(|d| d.level() == DiagnosticLevel::Error).collect();
    let mut e019: Vec<String> = errors.iter().filter(|d| d.code() == "E019")
        .map(|d| d.span().and_then(|s| aliases.iter().find(|a| &a.span == s)).map_or("?".to_string(), |a| a.module_scoped_identifier())).collect();
    e019.sort();
    let e033 = errors.iter().filter(|d| d.code() == "E033").count();
    format!("E019={};E033={};rejected={}", list(&e019), e033, !errors.is_empty() as u8)
}

fn inherit(state: CompilationState, options: SliceOptions) -> String {
    let CompilationState { ast, diagnostics, files } = state;
    let diags = diagnostics.into_updated(&ast, &files, &options);
    let ifaces: Vec<_> = files.iter().flat_map(|f| f.contents.iter()).filter_map(|d| if let Definition::Interface(p) = d { Some(p.borrow()) } else { None }).collect();
    let errors: Vec<&Diagnostic> = diags.iter().filter(|d| d.level() == DiagnosticLevel::Error).collect();
    if !errors.is_empty() {
        // WHICH element every error points at: the interface whose span is the diagnostic's span, `-` for anything else
        let mut v: Vec<String> = errors.iter().map(|d| format!("{}@{}", d.code(),
            d.span().and_then(|s| ifaces.iter().find(|i| &i.span == s)).map_or("-".to_string(), |i| i.identifier().to_string()))).collect();
        v.sort();
        return format!("rejected:{}", v.join("|"));
    }
    let v: Vec<String> = ifaces.iter()
        .map(|i| format!("{}=[{}]", i.identifier(), i.all_base_interfaces().iter().map(|b| b.identifier().to_string()).collect::<Vec<_>>().join(","))).collect();
    format!("accepted:{}", v.join("|"))
}

pub fn project(state: CompilationState, options: SliceOptions, name: &str) -> String {
    match name {
        "cycles" => cycles(state, options, false),
        "gate" => cycles(state, options, true),
        "verdict" => verdict(state, options),
        "alias" => alias(state, options),
        "inherit" => inherit(state, options),
        _ => format!("unknown-projection:c05:{}", name),
    }
}
