//! Engine `preproc` (C06): the real preprocessor through `slicec::verif_hooks::preprocess`, and the real
//! `parse_files` (one clone of the symbol set per file) through `slicec::compile_from_strings`.
//!
//!   pp    <fam> <hex text> <symbols|-> <expected>         expected = `ok <row:col:hex(content);…|-> <symbols|->` |
//!                                                          `reject <row>:<col>[-<row>:<col>];…` (start[-end] of every diagnostic, report order)
//!   multi <fam> <hex file1>|<hex file2>… <symbols|-> <expected per file joined by |>
//!         fam `hook…`    : one hook call per file, observation per file as for `pp`
//!         fam `compile…` : one `compile_from_strings` call for all files; every source line of the files is a probe
//!                          definition `struct <name> {}`; observation per file = `ok <row:col:name;…|->` | `reject`
//!
//! Oracle on the implementation alone: never a panic; every returned block's content is the text found in the
//! input at the block's start location (recomputed by scanning the input), blocks are in order and disjoint;
//! a rejection carries at least one diagnostic and only `E002` (syntax error) diagnostics, each located inside the text
//! (1-based, row <= number of rows + 1, column <= length of the row in CHARACTERS + 1) with start <= end.

use crate::codec::CaseResult;
use crate::dynval::{hex, unhex};
use slicec::grammar::*;
use slicec::slice_options::SliceOptions;
use std::panic::{catch_unwind, AssertUnwindSafe};

fn bad(why: &str) -> CaseResult {
    CaseResult { actual: "?".into(), diff: Some(format!("malformed case: {why}")), oracle: None, nontrivial: false }
}

fn parse_syms(s: &str) -> Vec<String> {
    if s == "-" { vec![] } else { s.split(',').map(str::to_owned).collect() }
}

fn text_of(hx: &str) -> Option<String> {
    String::from_utf8(unhex(hx)?).ok()
}

/// byte offset of the first character at (row, col) when rows/cols are counted in characters from 1 and
/// only '\n' starts a new row; `text.len()` is the location one past the last character
fn offset_of(text: &str, row: usize, col: usize) -> Option<usize> {
    let (mut r, mut c) = (1usize, 1usize);
    for (i, ch) in text.char_indices() {
        if (r, c) == (row, col) { return Some(i); }
        if ch == '\n' { r += 1; c = 1; } else { c += 1; }
    }
    if (r, c) == (row, col) { Some(text.len()) } else { None }
}

struct HookObs {
    obs: String,
    oracle: Option<String>,
    accepted: bool,
    blocks: usize,
}

fn hook_obs(text: &str, syms: &[String]) -> HookObs {
    let r = catch_unwind(AssertUnwindSafe(|| slicec::verif_hooks::preprocess(text, syms)));
    match r {
        Err(_) => HookObs { obs: "panic".into(), oracle: Some("the preprocessor panicked".into()), accepted: false, blocks: 0 },
        Ok(Err(diags)) => {
            let mut oracle = None;
            if diags.is_empty() {
                oracle = Some("rejected without any diagnostic".to_string());
            } else if let Some((code, _)) = diags.iter().find(|(code, _)| code != "E002") {
                oracle = Some(format!("rejection reported as {code}, not as a syntax error (E002)"));
            }
            // every diagnostic is located inside the text: rows/columns counted in CHARACTERS from 1, the position one
            // past the last character of a row (the '\n' or the end of the text) included; start <= end
            let rows: Vec<usize> = text.split('\n').map(|l| l.chars().count()).collect();
            let inside = |r: usize, c: usize| r >= 1 && c >= 1 && r <= rows.len() + 1 && c <= rows.get(r - 1).copied().unwrap_or(0) + 1;
            let mut locs = Vec::new();
            for (_, span) in &diags {
                match span {
                    None => {
                        if oracle.is_none() { oracle = Some("a syntax error of the preprocessor carries no location".to_string()); }
                        locs.push("?".to_string());
                    }
                    Some((sr, sc, er, ec)) => {
                        if oracle.is_none() {
                            if !inside(*sr, *sc) || !inside(*er, *ec) {
                                oracle = Some(format!("diagnostic located at {sr}:{sc}-{er}:{ec}, which is not a position of the text (rows and columns in characters)"));
                            } else if (*er, *ec) < (*sr, *sc) {
                                oracle = Some(format!("diagnostic located at {sr}:{sc}-{er}:{ec}: the end precedes the start"));
                            }
                        }
                        locs.push(if (sr, sc) == (er, ec) { format!("{sr}:{sc}") } else { format!("{sr}:{sc}-{er}:{ec}") });
                    }
                }
            }
            HookObs { obs: format!("reject {}", locs.join(";")), oracle, accepted: false, blocks: 0 }
        }
        Ok(Ok((blocks, mut defined))) => {
            defined.sort();
            let mut oracle = None;
            let mut prev_end = 0usize;
            for ((sr, sc, _er, _ec), content) in &blocks {
                match offset_of(text, *sr, *sc) {
                    None => { oracle = Some(format!("block start {sr}:{sc} is not a location of the input")); break; }
                    Some(off) => {
                        if !text[off..].starts_with(content.as_str()) {
                            oracle = Some(format!("block at {sr}:{sc} is not the input text found at that location (moved or altered)"));
                            break;
                        }
                        if off < prev_end {
                            oracle = Some(format!("block at {sr}:{sc} overlaps or precedes the previous block"));
                            break;
                        }
                        prev_end = off + content.len();
                    }
                }
            }
            let bl = if blocks.is_empty() { "-".to_string() } else {
                blocks.iter().map(|((sr, sc, _, _), c)| format!("{}:{}:{}", sr, sc, hex(c.as_bytes()))).collect::<Vec<_>>().join(";")
            };
            let sy = if defined.is_empty() { "-".to_string() } else { defined.join(",") };
            HookObs { obs: format!("ok {bl} {sy}"), oracle, accepted: true, blocks: blocks.len() }
        }
    }
}

/// `pp <fam> <hex text> <symbols> <expected>`
pub fn run_pp(text_hex: &str, syms: &str, expected: &str) -> CaseResult {
    let Some(text) = text_of(text_hex) else { return bad("text is not hex-encoded UTF-8") };
    let syms = parse_syms(syms);
    let o = hook_obs(&text, &syms);
    let diff = if o.obs != expected { Some(format!("preprocess: model={} impl={}", expected, o.obs)) } else { None };
    // non-trivial: the file contains at least one directive line
    let has_directive = text.split('\n').any(|l| l.trim_start().starts_with('#'));
    let _ = (o.accepted, o.blocks);
    CaseResult { actual: o.obs, diff, oracle: o.oracle, nontrivial: has_directive }
}

fn compile_obs(texts: &[String], syms: &[String]) -> (Vec<String>, Option<String>) {
    let r = catch_unwind(AssertUnwindSafe(|| {
        let options = SliceOptions { defined_symbols: syms.to_vec(), ..Default::default() };
        let inputs: Vec<&str> = texts.iter().map(String::as_str).collect();
        let state = slicec::compile_from_strings(&inputs, Some(&options));
        let diags = state.diagnostics.into_inner();
        let mut out = Vec::new();
        let mut oracle = None;
        for (i, file) in state.files.iter().enumerate() {
            let name = format!("string-{i}");
            let rejected = diags.iter().any(|d| d.code() == "E002" && d.span().is_some_and(|s| s.file == name));
            if rejected {
                out.push("reject".to_string());
                continue;
            }
            let mut probes = Vec::new();
            for def in &file.contents {
                let e = def.borrow();
                let sp = e.span();
                if sp.file != name {
                    oracle = Some(format!("definition {} of file {name} carries a span in {}", e.identifier(), sp.file));
                }
                // in place: the text at the reported location of the raw input is the definition itself
                let want = format!("struct {} {{}}", e.identifier());
                match offset_of(&texts[i], sp.start.row, sp.start.col) {
                    Some(off) if texts[i][off..].starts_with(&want) => {}
                    _ => oracle = Some(format!("definition {} is reported at {}:{} but is not there in the raw text",
                                               e.identifier(), sp.start.row, sp.start.col)),
                }
                probes.push(format!("{}:{}:{}", sp.start.row, sp.start.col, e.identifier()));
            }
            out.push(if probes.is_empty() { "ok -".to_string() } else { format!("ok {}", probes.join(";")) });
        }
        (out, oracle)
    }));
    match r {
        Ok(x) => x,
        Err(_) => (vec!["panic".to_string()], Some("compile_from_strings panicked".to_string())),
    }
}

/// `multi <fam> <hex files joined by |> <symbols> <expected per file joined by |>`
pub fn run_multi(fam: &str, files_hex: &str, syms: &str, expected: &str) -> CaseResult {
    let mut texts = Vec::new();
    for hx in files_hex.split('|') {
        let Some(t) = text_of(hx) else { return bad("file is not hex-encoded UTF-8") };
        texts.push(t);
    }
    let syms = parse_syms(syms);
    let (obs, oracle) = if fam.starts_with("compile") {
        compile_obs(&texts, &syms)
    } else {
        let mut obs = Vec::new();
        let mut oracle = None;
        for t in &texts {
            let o = hook_obs(t, &syms);
            if o.oracle.is_some() { oracle = o.oracle; }
            obs.push(o.obs);
        }
        (obs, oracle)
    };
    let actual = obs.join("|");
    let diff = if actual != expected { Some(format!("files: model={} impl={}", expected, actual)) } else { None };
    CaseResult { actual, diff, oracle, nontrivial: texts.len() > 1 }
}
