//! Projections of a compilation used by property C09 (engine `compile`, projection names `c09:<name>`), and the dump of
//! a located doc comment shared with engine `comments` (op `docloc`).
//!
//! `c09:docspans` — per file (joined by `|`), every commentable element that HAS a parsed comment, in source order, as
//! `<path>=<comment>` (joined by `;`), `<path>` being the Lean printer's element path (`d0`, `d0.f1`, `d1.o0`, `d2.e0`,
//! `d2.e0.f1`) and `<comment>` =
//!   `doc(<span>;ov=<msg>|none;p=[<tag>,…];r=[<tag>,…];s=[<link>,…])`
//!   `<msg>`  = `msg(<span>;[<link>,…])`                      the links of the message in order
//!   `<tag>`  = `tag(<span>;<hex id>@<span>|none;<msg>)`      span of the tag, its identifier with span, its message
//!   `<link>` = `link(<span>;<hex id>@<span>)` for a link that was not patched (identifier and its span are still there),
//!              `link(<span>;resolved)` for a patched one
//!   `<span>` = `row:col:row:col`
//! then ` diags=` the SORTED list `<code>@<span>@<file index>` of all diagnostics (after `into_updated`, any level), then
//! ` oracle=ok` or ` oracle=FAIL(<what>)`: the property evaluated on the implementation's output alone —
//!   * every span of a doc-comment part has start <= end, is 1-based, and both ends lie on doc-comment lines of the file
//!     (a row whose first non-blank characters are exactly `///`), between the column behind the `///` and the end of the line;
//!   * a tag's span starts at an `@`, a tag identifier's / link identifier's span covers an identifier (or `::`-path) exactly;
//!   * a message's span ends at the END of a doc-comment line, and before the start of the next tag of that comment;
//!   * every diagnostic is one of the three doc lints; its span lies on doc-comment lines as above; an `IncorrectDocComment`
//!     starts where a param / returns tag of the file starts, a `BrokenDocLink` is the identifier span of an unpatched link.
use crate::compile::*;
use slicec::compilation_state::CompilationState;
use slicec::grammar::*;
use slicec::slice_file::{SliceFile, Span};
use slicec::slice_options::SliceOptions;

pub fn sp(s: &Span) -> String { format!("{}:{}:{}:{}", s.start.row, s.start.col, s.end.row, s.end.col) }

fn link_dump(span: &Span, l: &TypeRefDefinition<dyn Entity>) -> String {
    match l {
        TypeRefDefinition::Unpatched(id) => format!("link({};{}@{})", sp(span), hs(&id.value), sp(&id.span)),
        TypeRefDefinition::Patched(_) => format!("link({};resolved)", sp(span)),
    }
}

fn msg_dump(m: &Message) -> String {
    let links: Vec<String> = m.value.iter().filter_map(|c| match c { MessageComponent::Link(l) => Some(link_dump(&l.span, &l.link)), _ => None }).collect();
    format!("msg({};[{}])", sp(&m.span), links.join(","))
}

fn tag_dump(span: &Span, id: Option<&Identifier>, m: &Message) -> String {
    format!("tag({};{};{})", sp(span), id.map_or("none".to_string(), |i| format!("{}@{}", hs(&i.value), sp(&i.span))), msg_dump(m))
}

pub fn doc_dump(c: &DocComment) -> String {
    let ov = c.overview.as_ref().map_or("none".to_string(), msg_dump);
    let p: Vec<String> = c.params.iter().map(|t| tag_dump(&t.span, Some(&t.identifier), &t.message)).collect();
    let r: Vec<String> = c.returns.iter().map(|t| tag_dump(&t.span, t.identifier.as_ref(), &t.message)).collect();
    let s: Vec<String> = c.see.iter().map(|t| link_dump(&t.span, &t.link)).collect();
    format!("doc({};ov={};p=[{}];r=[{}];s=[{}])", sp(&c.span), ov, p.join(","), r.join(","), s.join(","))
}

// ------------------------------------------------------------------------------------------------
// the property's predicate on the implementation's output alone
// ------------------------------------------------------------------------------------------------

/// the doc-comment lines of a text: row -> (column behind `///`, column behind the last character of the line's text)
pub struct DocRows { rows: std::collections::BTreeMap<usize, (usize, usize, Vec<char>)> }

impl DocRows {
    /// the doc-comment lines of a source text, as the real Slice lexer (hook `lex_slice`, one block from 1:1) finds them
    pub fn of_text(text: &str) -> DocRows {
        let mut rows = std::collections::BTreeMap::new();
        let lines: Vec<Vec<char>> = text.split('\n').map(|l| l.chars().collect()).collect();
        for (d, l) in slicec::verif_hooks::lex_slice(text).into_iter().flatten() {
            if !d.starts_with("DocComment(") { continue; }
            let Some(chars) = lines.get(l.0.wrapping_sub(1)) else { continue };
            // the token's end lies behind a CR that was stripped from the text
            let mut end = l.3;
            if end > l.1 && chars.get(end.wrapping_sub(2)) == Some(&'\r') { end -= 1; }
            rows.insert(l.0, (l.1, end, chars.clone()));
        }
        DocRows { rows }
    }
    pub fn of_lines(lines: &[(String, (usize, usize, usize, usize))]) -> DocRows {
        let mut rows = std::collections::BTreeMap::new();
        for (t, l) in lines {
            // columns of the line's characters: character k sits at column l.1 + k
            let mut chars: Vec<char> = std::iter::repeat(' ').take(l.1.saturating_sub(1)).collect();
            chars.extend(t.chars());
            rows.insert(l.0, (l.1, l.1 + t.chars().count(), chars));
        }
        DocRows { rows }
    }
    fn within(&self, row: usize, col: usize) -> bool { self.rows.get(&row).map_or(false, |(a, b, _)| *a <= col && col <= *b) }
    fn at_line_end(&self, row: usize, col: usize) -> bool { self.rows.get(&row).map_or(false, |(_, b, _)| col == *b) }
    fn text(&self, s: &Span) -> Option<String> {
        if s.start.row != s.end.row || s.start.col > s.end.col { return None; }
        let (_, _, chars) = self.rows.get(&s.start.row)?;
        if s.end.col - 1 > chars.len() { return None; }
        Some(chars[s.start.col - 1..s.end.col - 1].iter().collect())
    }
}

fn span_ok(rows: &DocRows, what: &str, s: &Span) -> Option<String> {
    if s.start.row == 0 || s.start.col == 0 { return Some(format!("{what} {} is not 1-based", sp(s))); }
    if (s.start.row, s.start.col) > (s.end.row, s.end.col) { return Some(format!("{what} {}: start after end", sp(s))); }
    if !rows.within(s.start.row, s.start.col) { return Some(format!("{what} {}: the start is not inside the text of a doc-comment line", sp(s))); }
    if !rows.within(s.end.row, s.end.col) { return Some(format!("{what} {}: the end is not inside the text of a doc-comment line", sp(s))); }
    None
}

fn is_scoped_ident(t: &str) -> bool {
    let t = t.strip_prefix("::").unwrap_or(t);
    !t.is_empty() && t.split("::").all(|seg| { let seg = seg.trim(); !seg.is_empty() && seg.chars().next().unwrap().is_ascii_alphabetic() && seg.chars().all(|c| c.is_ascii_alphanumeric() || c == '_') })
}

fn link_ok(rows: &DocRows, span: &Span, l: &TypeRefDefinition<dyn Entity>, what: &str) -> Option<String> {
    if let Some(e) = span_ok(rows, what, span) { return Some(e); }
    if let TypeRefDefinition::Unpatched(id) = l {
        if let Some(e) = span_ok(rows, "link identifier", &id.span) { return Some(e); }
        match rows.text(&id.span) { Some(t) if is_scoped_ident(&t) => {}, t => return Some(format!("link identifier {} covers {:?}", sp(&id.span), t)) }
        if (id.span.end.row, id.span.end.col) != (span.end.row, span.end.col) { return Some(format!("{what} {} does not end with its identifier {}", sp(span), sp(&id.span))); }
    }
    match rows.text(span) { Some(t) if t.starts_with('@') => None, t => Some(format!("{what} {} does not start at an `@`: {:?}", sp(span), t)) }
}

fn msg_ok(rows: &DocRows, m: &Message, next_tag: Option<(usize, usize)>, what: &str) -> Option<String> {
    if let Some(e) = span_ok(rows, what, &m.span) { return Some(e); }
    if !rows.at_line_end(m.span.end.row, m.span.end.col) { return Some(format!("{what} {} does not end at the end of a doc-comment line", sp(&m.span))); }
    if let Some(n) = next_tag { if (m.span.end.row, m.span.end.col) > n { return Some(format!("{what} {} ends behind the start {}:{} of the next tag", sp(&m.span), n.0, n.1)); } }
    for c in &m.value { if let MessageComponent::Link(l) = c {
        if let Some(e) = link_ok(rows, &l.span, &l.link, "inline link") { return Some(e); }
        if (l.span.start.row, l.span.start.col) < (m.span.start.row, m.span.start.col) || (l.span.end.row, l.span.end.col) > (m.span.end.row, m.span.end.col) { return Some(format!("inline link {} lies outside its message {}", sp(&l.span), sp(&m.span))); }
    } }
    None
}

/// the predicate on one parsed comment
pub fn doc_oracle(rows: &DocRows, c: &DocComment) -> Option<String> {
    // the comment itself starts AT its `///`, three columns left of the first line's text
    let mut body = c.span.clone();
    body.start.col += 3;
    if let Some(e) = span_ok(rows, "comment (behind its ///)", &body) { return Some(e); }
    // the tags in source order: where each starts
    let mut starts: Vec<(usize, usize)> = vec![];
    for t in &c.params { starts.push((t.span.start.row, t.span.start.col)); }
    for t in &c.returns { starts.push((t.span.start.row, t.span.start.col)); }
    for t in &c.see { starts.push((t.span.start.row, t.span.start.col)); }
    starts.sort();
    let next_after = |p: (usize, usize)| starts.iter().copied().find(|s| *s > p);
    if let Some(m) = &c.overview {
        if let Some(e) = msg_ok(rows, m, starts.first().copied(), "overview") { return Some(e); }
        if (m.span.start.row, m.span.start.col) < (c.span.start.row, c.span.start.col + 3) { return Some(format!("overview {} starts before its comment {}", sp(&m.span), sp(&c.span))); }
    }
    let tag = |span: &Span, id: Option<&Identifier>, m: &Message, kw: &str| -> Option<String> {
        if let Some(e) = span_ok(rows, "tag", span) { return Some(e); }
        match rows.text(span) { Some(t) if t.starts_with(kw) => {}, t => return Some(format!("tag {} does not start with {kw}: {:?}", sp(span), t)) }
        if let Some(i) = id {
            if let Some(e) = span_ok(rows, "tag identifier", &i.span) { return Some(e); }
            if rows.text(&i.span).as_deref() != Some(i.value.as_str()) { return Some(format!("tag identifier {} covers {:?}, not {:?}", sp(&i.span), rows.text(&i.span), i.value)); }
            if (i.span.end.row, i.span.end.col) != (span.end.row, span.end.col) { return Some(format!("tag {} does not end with its identifier {}", sp(span), sp(&i.span))); }
        }
        if (m.span.start.row, m.span.start.col) < (span.end.row, span.end.col) { return Some(format!("message {} starts before the end of its tag {}", sp(&m.span), sp(span))); }
        msg_ok(rows, m, next_after((span.start.row, span.start.col)), "tag message")
    };
    for t in &c.params { if let Some(e) = tag(&t.span, Some(&t.identifier), &t.message, "@param") { return Some(e); } }
    for t in &c.returns { if let Some(e) = tag(&t.span, t.identifier.as_ref(), &t.message, "@returns") { return Some(e); } }
    for t in &c.see {
        if let Some(e) = link_ok(rows, &t.span, &t.link, "see tag") { return Some(e); }
        match rows.text(&t.span) { Some(x) if x.starts_with("@see") => {}, x => return Some(format!("see tag {} does not start with @see: {:?}", sp(&t.span), x)) }
    }
    // the comment's own span ends where its last part's header ends
    None
}

// ------------------------------------------------------------------------------------------------
// whole programs
// ------------------------------------------------------------------------------------------------

struct FileDocs<'a> { entries: Vec<(String, &'a DocComment)> }

fn collect<'a>(f: &'a SliceFile, out: &mut FileDocs<'a>) {
    for (j, d) in f.contents.iter().enumerate() {
        let p = format!("d{}", j);
        let mut push = |path: String, c: Option<&'a DocComment>| { if let Some(c) = c { out.entries.push((path, c)); } };
        match d {
            Definition::Struct(x) => { let s = x.borrow(); push(p.clone(), s.comment());
                for (k, fl) in s.fields().iter().enumerate() { push(format!("{}.f{}", p, k), fl.comment()); } }
            Definition::Interface(x) => { let s = x.borrow(); push(p.clone(), s.comment());
                for (k, o) in s.operations().iter().enumerate() { push(format!("{}.o{}", p, k), o.comment()); } }
            Definition::Enum(x) => { let s = x.borrow(); push(p.clone(), s.comment());
                for (k, e) in s.enumerators().iter().enumerate() {
                    push(format!("{}.e{}", p, k), e.comment());
                    if e.fields.is_some() { for (m, fl) in e.fields().iter().enumerate() { push(format!("{}.e{}.f{}", p, k, m), fl.comment()); } }
                } }
            Definition::CustomType(x) => { let s = x.borrow(); push(p.clone(), s.comment()); }
            Definition::TypeAlias(x) => { let s = x.borrow(); push(p.clone(), s.comment()); }
        }
    }
}

/// the identifier spans of the links that were not patched
fn unpatched_id_spans(c: &DocComment) -> Vec<String> {
    let mut out = vec![];
    let mut of_link = |l: &TypeRefDefinition<dyn Entity>| { if let TypeRefDefinition::Unpatched(id) = l { out.push(sp(&id.span)); } };
    let msgs = c.overview.iter().chain(c.params.iter().map(|t| &t.message)).chain(c.returns.iter().map(|t| &t.message));
    for m in msgs { for x in &m.value { if let MessageComponent::Link(l) = x { of_link(&l.link); } } }
    for t in &c.see { of_link(&t.link); }
    out
}

const DOC_LINTS: [&str; 3] = ["MalformedDocComment", "BrokenDocLink", "IncorrectDocComment"];

pub fn project(state: CompilationState, options: SliceOptions, name: &str) -> String {
    match name {
        "docspans" => {
            let mut per_file: Vec<String> = vec![];
            let mut oracle: Option<String> = None;
            // what the lints may point at, per file index
            let mut tag_starts: Vec<Vec<(usize, usize)>> = vec![];
            let mut open_link_ids: Vec<Vec<String>> = vec![];
            let mut rows_of: Vec<DocRows> = vec![];
            for f in &state.files {
                let rows = DocRows::of_text(&f.raw_text);
                let mut docs = FileDocs { entries: vec![] };
                collect(f, &mut docs);
                let mut ts = vec![];
                let mut li = vec![];
                let mut out = vec![];
                for (path, c) in &docs.entries {
                    out.push(format!("{}={}", path, doc_dump(c)));
                    if oracle.is_none() { oracle = doc_oracle(&rows, c).map(|e| format!("{path}: {e}")); }
                    for t in &c.params { ts.push((t.span.start.row, t.span.start.col)); }
                    for t in &c.returns { ts.push((t.span.start.row, t.span.start.col)); }
                    li.extend(unpatched_id_spans(c));
                }
                per_file.push(out.join(";"));
                tag_starts.push(ts);
                open_link_ids.push(li);
                rows_of.push(rows);
            }
            let diags = state.diagnostics.into_updated(&state.ast, &state.files, &options);
            let mut v: Vec<String> = vec![];
            for d in &diags {
                let (s, fi) = match d.span() {
                    Some(s) => (sp(s), s.file.strip_prefix("string-").and_then(|x| x.parse::<usize>().ok())),
                    None => ("-".to_string(), None),
                };
                v.push(format!("{}@{}@{}", d.code(), s, fi.map_or("?".to_string(), |i| i.to_string())));
                if oracle.is_none() {
                    oracle = (|| {
                        if !DOC_LINTS.contains(&d.code()) { return Some(format!("{} is not a doc lint", d.code())); }
                        let (Some(s), Some(fi)) = (d.span(), fi) else { return Some(format!("{} without a span in one of the files", d.code())) };
                        let rows = rows_of.get(fi)?;
                        if let Some(e) = span_ok(rows, d.code(), s) { return Some(e); }
                        match d.code() {
                            "IncorrectDocComment" if !tag_starts[fi].contains(&(s.start.row, s.start.col)) => Some(format!("IncorrectDocComment {} does not start at a param / returns tag", sp(s))),
                            "BrokenDocLink" if !open_link_ids[fi].contains(&sp(s)) => Some(format!("BrokenDocLink {} is not the identifier of an unresolved link", sp(s))),
                            _ => None,
                        }
                    })();
                }
            }
            v.sort();
            format!("{} diags={} oracle={}", per_file.join("|"), if v.is_empty() { "-".to_string() } else { v.join(",") },
                oracle.map_or("ok".to_string(), |e| format!("FAIL({})", e.replace(['(', ')'], "'"))))
        }
        _ => format!("unknown-projection:c09:{}", name),
    }
}
