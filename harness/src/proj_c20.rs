//! Projections of a compilation used by property C20 (engine `compile`, projection names `c20:<name>`).
//!
//! `c20:events` — every file is walked with a recording visitor; every callback is reported as `kind:path`, type
//! references as `typeref:path@own|@other` (does the span of the presented `TypeRef` object lie in the walked file?).
//! Output: events of a file joined by `,`, files by `|`, then ` diags=<allcodes> oracle=ok|FAIL(<reason>)`.
//! `c20:walk` — the same without the `diags=` part (used for programs with unresolvable references).
//!
//! The path of an event is NOT taken from names and NOT from the order of the callbacks: before the walk the
//! harness indexes the file *by position* (`contents[j]` → `d<j>`, `fields()[k]` → `d<j>.f<k>`, `operations()[k]`,
//! `parameters()[m]`, `return_members()[m]`, `enumerators()[k]`, …) keyed by the address of the element; a callback
//! looks its argument up by address. Type references are located relative to the most recent owner (field /
//! parameter / alias): the owner's reference is `<owner>.t`, the references nested in the type it is patched to are
//! `.e`, `.k`/`.v`, `.s`/`.f` (the same `TypeRef` object can occur under several paths when aliases are flattened, so
//! the table is a multimap used in order). An element the index does not know is reported as `?`.
//!
//! Oracle on the implementation alone: no path twice, no unknown element, every owner is directly followed by its
//! `.t` and every `.t` directly follows its owner, and the number of events equals the number of indexed positions.
#![allow(unused_imports, dead_code)]
use crate::compile::*;
use slicec::compilation_state::CompilationState;
use slicec::grammar::*;
use slicec::slice_file::SliceFile;
use slicec::slice_options::SliceOptions;
use slicec::visitor::Visitor;
use std::collections::{HashMap, HashSet};

fn addr<T: ?Sized>(x: &T) -> usize { x as *const T as *const u8 as usize }

/// positions of the type references below (and including) `t`, by the harness's own descent
fn tref_positions(t: &TypeRef, path: String, out: &mut Vec<(usize, String, bool)>, depth: usize) {
    out.push((addr(t), path.clone(), false));
    if depth > 200 { out.push((0, format!("{}.<cyclic>", path), false)); return; }
    if let TypeRefDefinition::Patched(_) = &t.definition {
        match t.concrete_type() {
            Types::Sequence(s) => tref_positions(&s.element_type, format!("{}.e", path), out, depth + 1),
            Types::Dictionary(d) => {
                tref_positions(&d.key_type, format!("{}.k", path), out, depth + 1);
                tref_positions(&d.value_type, format!("{}.v", path), out, depth + 1);
            }
            Types::ResultType(r) => {
                tref_positions(&r.success_type, format!("{}.s", path), out, depth + 1);
                tref_positions(&r.failure_type, format!("{}.f", path), out, depth + 1);
            }
            _ => {}
        }
    }
}

/// index of a file by position: element address → path, and the number of positions (incl. type references)
struct Index { elems: HashMap<usize, String>, positions: usize }

impl Index {
    fn put<T: ?Sized>(&mut self, x: &T, path: String) { self.elems.insert(addr(x), path); self.positions += 1; }
    fn owner<T: ?Sized>(&mut self, x: &T, path: String, t: &TypeRef) {
        let mut v = vec![];
        tref_positions(t, format!("{}.t", path), &mut v, 0);
        self.positions += v.len();
        self.put(x, path);
    }
    fn build(f: &SliceFile) -> Index {
        let mut ix = Index { elems: HashMap::new(), positions: 0 };
        ix.put(f, "file".into());
        if let Some(m) = &f.module { ix.put(m.borrow(), "mod".into()); }
        for (j, d) in f.contents.iter().enumerate() {
            let p = format!("d{}", j);
            match d {
                Definition::Struct(x) => { let s = x.borrow(); ix.put(s, p.clone());
                    for (k, fl) in s.fields().iter().enumerate() { ix.owner(*fl, format!("{}.f{}", p, k), &fl.data_type); } }
                Definition::Interface(x) => { let s = x.borrow(); ix.put(s, p.clone());
                    for (k, o) in s.operations().iter().enumerate() { let op = format!("{}.o{}", p, k); ix.put(*o, op.clone());
                        for (m, pa) in o.parameters().iter().enumerate() { ix.owner(*pa, format!("{}.p{}", op, m), &pa.data_type); }
                        for (m, pa) in o.return_members().iter().enumerate() { ix.owner(*pa, format!("{}.r{}", op, m), &pa.data_type); } } }
                Definition::Enum(x) => { let s = x.borrow(); ix.put(s, p.clone());
                    for (k, e) in s.enumerators().iter().enumerate() { let ep = format!("{}.e{}", p, k); ix.put(*e, ep.clone());
                        if e.fields.is_some() { for (m, fl) in e.fields().iter().enumerate() { ix.owner(*fl, format!("{}.f{}", ep, m), &fl.data_type); } } } }
                Definition::CustomType(x) => { ix.put(x.borrow(), p.clone()); }
                Definition::TypeAlias(x) => { let s = x.borrow(); ix.owner(s, p.clone(), &s.underlying); }
            }
        }
        ix
    }
}

struct PathRecorder<'a> {
    index: &'a Index,
    own_file: String,
    /// positions of the type references of the most recent owner: (address, path, already presented)
    current: Vec<(usize, String, bool)>,
    kinds: Vec<&'static str>,
    paths: Vec<String>,
    events: Vec<String>,
}

impl PathRecorder<'_> {
    fn elem<T: ?Sized>(&mut self, kind: &'static str, x: &T) -> String {
        let p = self.index.elems.get(&addr(x)).cloned().unwrap_or_else(|| "?".to_string());
        self.current.clear();
        self.kinds.push(kind); self.paths.push(p.clone()); self.events.push(format!("{}:{}", kind, p));
        p
    }
    fn owner<T: ?Sized>(&mut self, kind: &'static str, x: &T, t: &TypeRef) {
        let p = self.elem(kind, x);
        let mut v = vec![];
        tref_positions(t, format!("{}.t", p), &mut v, 0);
        self.current = v;
    }
}

impl Visitor for PathRecorder<'_> {
    fn visit_file(&mut self, f: &SliceFile) { self.elem("file", f); }
    fn visit_module(&mut self, m: &Module) { self.elem("module", m); }
    fn visit_struct(&mut self, x: &Struct) { self.elem("struct", x); }
    fn visit_interface(&mut self, x: &Interface) { self.elem("interface", x); }
    fn visit_enum(&mut self, x: &Enum) { self.elem("enum", x); }
    fn visit_operation(&mut self, x: &Operation) { self.elem("operation", x); }
    fn visit_custom_type(&mut self, x: &CustomType) { self.elem("custom", x); }
    fn visit_type_alias(&mut self, x: &TypeAlias) { self.owner("alias", x, &x.underlying); }
    fn visit_field(&mut self, x: &Field) { self.owner("field", x, &x.data_type); }
    fn visit_parameter(&mut self, x: &Parameter) { self.owner("parameter", x, &x.data_type); }
    fn visit_enumerator(&mut self, x: &Enumerator) { self.elem("enumerator", x); }
    fn visit_type_ref(&mut self, x: &TypeRef) {
        let a = addr(x);
        let p = match self.current.iter_mut().find(|e| e.0 == a && !e.2) {
            Some(e) => { e.2 = true; e.1.clone() }
            None => "?".to_string(),
        };
        let whose = if x.span.file == self.own_file { "own" } else { "other" };
        self.kinds.push("typeref"); self.paths.push(p.clone()); self.events.push(format!("typeref:{}@{}", p, whose));
    }
}

fn is_owner(kind: &str) -> bool { kind == "field" || kind == "parameter" || kind == "alias" }

/// the property's own predicate on the recorded walk of one file
fn oracle(file: usize, index: &Index, r: &PathRecorder) -> Option<String> {
    let mut seen = HashSet::new();
    for p in &r.paths {
        if p == "?" { return Some(format!("file {}: a callback presented an element that is not at any position of the walked file", file)); }
        if !seen.insert(p.as_str()) { return Some(format!("file {}: {} presented twice", file, p)); }
    }
    for i in 0..r.paths.len() {
        if is_owner(r.kinds[i]) {
            let want = format!("{}.t", r.paths[i]);
            if r.paths.get(i + 1) != Some(&want) || r.kinds[i + 1] != "typeref" { return Some(format!("file {}: {} is not directly followed by its type", file, r.paths[i])); }
        }
        if r.paths[i].ends_with(".t") {
            let ok = i > 0 && is_owner(r.kinds[i - 1]) && format!("{}.t", r.paths[i - 1]) == r.paths[i];
            if !ok { return Some(format!("file {}: {} does not directly follow its owner", file, r.paths[i])); }
        }
    }
    if r.paths.len() != index.positions { return Some(format!("file {}: {} callbacks for {} positions", file, r.paths.len(), index.positions)); }
    None
}

fn walk_files(state: &CompilationState) -> (String, String) {
    let mut per_file = vec![];
    let mut verdict: Option<String> = None;
    for (i, f) in state.files.iter().enumerate() {
        let index = Index::build(f);
        let mut r = PathRecorder { index: &index, own_file: f.relative_path.clone(), current: vec![], kinds: vec![], paths: vec![], events: vec![] };
        f.visit_with(&mut r);
        if verdict.is_none() { verdict = oracle(i, &index, &r); }
        per_file.push(r.events.join(","));
    }
    (per_file.join("|"), verdict.map_or("ok".to_string(), |v| format!("FAIL({})", v)))
}

pub fn project(state: CompilationState, options: SliceOptions, name: &str) -> String {
    match name {
        "events" => {
            let (events, verdict) = walk_files(&state);
            let diags = state.diagnostics.into_updated(&state.ast, &state.files, &options);
            format!("{} diags={} oracle={}", events, codes(&diags), verdict)
        }
        "walk" => {
            let (events, verdict) = walk_files(&state);
            format!("{} oracle={}", events, verdict)
        }
        _ => format!("unknown-projection:c20:{}", name),
    }
}
