//! Engine `options`: generator specifications through the real command-line parser (C19).
//!
//! `spec  <fam> <hex spec> <expected>`   argv = ["slicec", "--generator=<spec>", "x.slice"]
//! `specd <fam> <hex spec> <expected>`   argv = ["slicec", "-G", "<spec>", "x.slice"]      (detached form)
//! `multi <fam> <hex>|<hex>|… <expected>` argv = ["slicec", "--generator=<s1>", "--generator=<s2>", …, "x.slice"]
//!
//! Observation: `ok <hex path> <hex k>=<hex v>;…` (`-` = empty string, `-` alone = no arguments), for `multi`
//! the observations of all generators joined by `|`; `reject` for any clap error (kinds and message texts are
//! not compared); `panic`. Implementation-side oracle: never `panic`; a rejection is a usage error that
//! renders a non-empty message; an accepted plugin has a non-empty path and non-empty keys, all trimmed.

use crate::codec::CaseResult;
use crate::dynval::{hex, unhex};
use clap::Parser;
use slicec::slice_options::{Plugin, SliceOptions};
use std::panic::{catch_unwind, AssertUnwindSafe};

fn show_plugin(p: &Plugin) -> String {
    let args = if p.args.is_empty() {
        "-".to_string()
    } else {
        p.args.iter().map(|(k, v)| format!("{}={}", hex(k.as_bytes()), hex(v.as_bytes()))).collect::<Vec<_>>().join(";")
    };
    format!("ok {} {}", hex(p.path.as_bytes()), args)
}

fn trimmed(s: &str) -> bool {
    s.trim() == s
}

/// runs the real parser on `argv`; returns (observation, oracle failure)
fn observe(argv: Vec<String>, n_specs: usize) -> (String, Option<String>) {
    let r = catch_unwind(AssertUnwindSafe(|| SliceOptions::try_parse_from(argv.iter())));
    match r {
        Err(_) => ("panic".to_string(), Some("the option parser panicked".to_string())),
        Ok(Err(e)) => {
            let rendered = e.to_string();
            let mut oracle = None;
            if rendered.trim().is_empty() {
                oracle = Some("a rejected specification produced an empty usage message".to_string());
            } else if e.exit_code() != 2 {
                oracle = Some(format!("a rejected specification is not reported as a usage error (exit code {})", e.exit_code()));
            }
            ("reject".to_string(), oracle)
        }
        Ok(Ok(opts)) => {
            let mut oracle = None;
            if opts.generators.len() != n_specs {
                oracle = Some(format!("{} generator options given, {} plugins parsed", n_specs, opts.generators.len()));
            }
            for g in &opts.generators {
                if g.path.is_empty() || g.args.iter().any(|(k, _)| k.is_empty()) {
                    oracle = Some("accepted a specification with an empty path or an empty key".to_string());
                }
                if !trimmed(&g.path) || g.args.iter().any(|(k, v)| !trimmed(k) || !trimmed(v)) {
                    oracle = Some("an accepted component keeps surrounding whitespace".to_string());
                }
            }
            if opts.sources != vec!["x.slice".to_string()] {
                oracle = Some(format!("the source list was disturbed by the generator option: {:?}", opts.sources));
            }
            (opts.generators.iter().map(show_plugin).collect::<Vec<_>>().join("|"), oracle)
        }
    }
}

fn bad(why: &str) -> CaseResult {
    CaseResult { actual: "?".into(), diff: Some(why.into()), oracle: None, nontrivial: false }
}

fn finish(actual: String, oracle: Option<String>, expected: &str) -> CaseResult {
    let diff = if actual != expected { Some(format!("model={} impl={}", expected, actual)) } else { None };
    // non-trivial: accepted, or rejected on an input of more than one character (the engine's trivial
    // observation is the rejection of the empty / one-character string)
    let nontrivial = actual.starts_with("ok ");
    CaseResult { actual, diff, oracle, nontrivial }
}

fn spec_of(hex_s: &str) -> Option<String> {
    String::from_utf8(unhex(hex_s)?).ok()
}

/// `spec <fam> <hex> <expected>`
pub fn run_spec(hex_s: &str, expected: &str) -> CaseResult {
    let Some(spec) = spec_of(hex_s) else { return bad("bad-hex") };
    let argv = vec!["slicec".to_string(), format!("--generator={}", spec), "x.slice".to_string()];
    let (actual, oracle) = observe(argv, 1);
    let mut r = finish(actual, oracle, expected);
    r.nontrivial = r.nontrivial || spec.chars().count() > 1;
    r
}

/// `specd <fam> <hex> <expected>` (detached `-G VALUE`; the driver only emits values that do not start with `-`)
pub fn run_spec_detached(hex_s: &str, expected: &str) -> CaseResult {
    let Some(spec) = spec_of(hex_s) else { return bad("bad-hex") };
    let argv = vec!["slicec".to_string(), "-G".to_string(), spec.clone(), "x.slice".to_string()];
    let (actual, oracle) = observe(argv, 1);
    let mut r = finish(actual, oracle, expected);
    r.nontrivial = r.nontrivial || spec.chars().count() > 1;
    r
}

/// `multi <fam> <hex>|<hex>|… <expected>`
pub fn run_multi(hexes: &str, expected: &str) -> CaseResult {
    let mut argv = vec!["slicec".to_string()];
    let mut n = 0;
    for h in hexes.split('|') {
        let Some(spec) = spec_of(h) else { return bad("bad-hex") };
        argv.push(format!("--generator={}", spec));
        n += 1;
    }
    argv.push("x.slice".to_string());
    let (actual, oracle) = observe(argv, n);
    finish(actual, oracle, expected)
}
