#!/bin/sh
# tools/seedrun.sh <patch.diff> <Cxx> [more checks...] : apply a seeded change in the isolated mutant env, run the checks, undo
M=/var/tmp/mut
P="$1"; shift
cd $M/repo && git checkout -q -- . && git apply "$P" || { echo "PATCH-DOES-NOT-APPLY"; exit 3; }
cd $M/verif
for c in "$@"; do ./check $c 2>&1 | grep -E "^VIOLATION|^KNOWN|^  [0-9]+ failing|^C[0-9]+ " | cut -c1-420; done
cd $M/repo && git checkout -q -- .
