#!/bin/sh
# tools/seedconfirm.sh <agent-worktree> <A|B> : confirm a delivered seeded change myself: the demonstration must FAIL with the patch
# applied and PASS on the unchanged tree (in the agent's scratch worktree, never /repo). Prints CONFIRMED or NOT-CONFIRMED.
W=$1; V=$2; O=$W/OUT/$V
cd $W || exit 2
git checkout -q -- . ; 
demo=$(ls $O/*.rs 2>/dev/null | head -1)
[ -z "$demo" ] && { sh_demo=$(ls $O/*.sh 2>/dev/null | head -1); }
run_demo() {
  if [ -n "$demo" ]; then
    name=$(basename $demo .rs)
    crate=slicec; grep -q 'slice_codec' $demo && ! grep -q 'slicec::' $demo && ! grep -q 'CARGO_BIN_EXE_slicec' $demo && crate=slice-codec
    cp $demo $W/$crate/tests/$name.rs
    (cd $W && CARGO_NET_OFFLINE=true timeout 900 cargo test --offline -p $crate --test $name 2>&1 | grep -E '^test result|panicked|error(\[|:)' | head -5)
    rm -f $W/$crate/tests/$name.rs
  else
    (cd $W && CARGO_NET_OFFLINE=true cargo build --offline -q 2>&1 | tail -2; sh $sh_demo >/dev/null 2>&1; echo "script exit $?")
  fi
}
git apply $O/patch.diff || { echo "NOT-CONFIRMED: patch does not apply"; exit 1; }
echo "--- with change:"; with=$(run_demo); echo "$with"
git checkout -q -- .
echo "--- without change:"; without=$(run_demo); echo "$without"
if echo "$with" | grep -qE 'FAILED|panicked|script exit [1-9]' && echo "$without" | grep -qE 'test result: ok|script exit 0' && ! echo "$without" | grep -q FAILED; then echo "CONFIRMED $W $V"; else echo "NOT-CONFIRMED $W $V"; fi
