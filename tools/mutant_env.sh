#!/bin/sh
# tools/mutant_env.sh : (re)create an isolated copy of /verif + a scratch worktree of /repo under /var/tmp/mut so that
# seeded changes can be tried without touching /repo (other builds path-depend on it). Usage:
#   tools/mutant_env.sh            create / refresh
#   then: cd /var/tmp/mut/repo && git apply <patch>; cd /var/tmp/mut/verif && ./check Cxx; cd ../repo && git checkout -- .
set -e
M=${1:-/var/tmp/mut}
mkdir -p $M
if [ -d $M/repo ]; then git -C /repo worktree remove --force $M/repo 2>/dev/null || rm -rf $M/repo; fi
git -C /repo worktree prune
git -C /repo worktree add -q --detach $M/repo HEAD
rsync -a --delete --exclude .git --exclude replays --exclude evidence /verif/ $M/verif/
cd $M/verif
sed -i "s#/repo/#$M/repo/#g" harness/Cargo.toml harness/src/main.rs
sed -i "s#^REPO = \"/repo\"#REPO = \"$M/repo\"#" checklib.py
sed -i "s#/repo#$M/repo#g" setup.sh
grep -rl '"/repo' procrun/*.py 2>/dev/null | xargs -r sed -i "s#\"/repo#\"$M/repo#g"
mkdir -p evidence replays
echo "mutant env ready: $M"
