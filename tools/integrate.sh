#!/bin/sh
# tools/integrate.sh <agent-dir> : copy an agent's deliverables (Lean/Rust/procrun/translator files) into /verif
set -e
D="$1/deliver"
cd /verif
for sub in lean/SlicecVerif harness/src procrun; do
  if [ -d "$D/$sub" ]; then
    mkdir -p "$sub"
    (cd "$D/$sub" && find . -type f ! -name '*.add' ! -name 'main.rs' ! -name 'Main.lean') | while read f; do
      mkdir -p "$sub/$(dirname "$f")"; cp "$D/$sub/$f" "$sub/$f"; echo "copied $sub/$f"
    done
  fi
done
ls "$D"
