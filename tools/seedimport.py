#!/usr/bin/env python3
"""tools/seedimport.py <scratch-worktree> <Cxx> [base-commit] [letters] : copy OUT/A, OUT/B of a seeding agent into seeded/Cxx-<letters[0]>,
seeded/Cxx-<letters[1]> (default AB; round 3 uses CD, round 4 EF)"""
import json, os, shutil, sys
V = os.path.dirname(os.path.dirname(os.path.abspath(__file__)))
src_root, pid = sys.argv[1], sys.argv[2]
base = sys.argv[3] if len(sys.argv) > 3 else "?"
letters = sys.argv[4] if len(sys.argv) > 4 else "AB"
for v, w in zip(("A", "B"), letters):
    src = os.path.join(src_root, "OUT", v)
    if not os.path.isdir(src):
        print("missing", src); continue
    dst = os.path.join(V, "seeded", "%s-%s" % (pid, w))
    os.makedirs(dst, exist_ok=True)
    for f in os.listdir(src):
        p = os.path.join(src, f)
        if os.path.isfile(p) and os.path.getsize(p) < 400000:
            shutil.copy(p, os.path.join(dst, f))
    readme = open(os.path.join(src, "README.md")).read()
    meta = {"property": pid, "title": readme.splitlines()[0].lstrip("# ").strip(), "base_commit": base,
            "origin": "fresh sub-agent given only the property text and a scratch worktree of /repo; nothing from /verif",
            "needs_to_manifest": None, "ran": None, "detected_by": None}
    json.dump(meta, open(os.path.join(dst, "meta.json"), "w"), indent=1)
    print("imported", dst)
