#!/usr/bin/env python3
"""tools/seedimport.py <scratch-worktree> <Cxx> [base-commit] : copy OUT/A, OUT/B of a seeding agent into seeded/Cxx-A, seeded/Cxx-B"""
import json, os, shutil, sys
V = os.path.dirname(os.path.dirname(os.path.abspath(__file__)))
src_root, pid = sys.argv[1], sys.argv[2]
base = sys.argv[3] if len(sys.argv) > 3 else "?"
for v in ("A", "B"):
    src = os.path.join(src_root, "OUT", v)
    if not os.path.isdir(src):
        print("missing", src); continue
    dst = os.path.join(V, "seeded", "%s-%s" % (pid, v))
    os.makedirs(dst, exist_ok=True)
    for f in os.listdir(src):
        p = os.path.join(src, f)
        if os.path.isfile(p) and os.path.getsize(p) < 400000:
            shutil.copy(p, os.path.join(dst, f))
    readme = open(os.path.join(src, "README.md")).read()
    meta = {"property": pid, "title": readme.splitlines()[0].lstrip("# ").strip(), "base_commit": base,
            "origin": "fresh sub-agent given only the property text and a scratch worktree of /repo; nothing from /verif",
            "needs_to_manifest": None, "ran": None, "detected_by": None}
    json.dump(meta, open(os.path.join(dst, "meta.json"), "w"), indent=1)
    print("imported", dst)
