#!/usr/bin/env python3
"""tools/mkdesign_tables.py : regenerate the generated tables of DESIGN.md (between <!-- BEGIN x --> / <!-- END x --> markers)
from evidence/*.json, seeded/*/meta.json, props.py and translator output. Run after `./check` of every property."""
import glob, json, os, re, sys
V = os.path.dirname(os.path.dirname(os.path.abspath(__file__)))
sys.path.insert(0, V)
import props  # noqa: E402

def status_table():
    rows = ["| property | theorems (all axioms ⊆ propext, Classical.choice, Quot.sound) | translator tables | correspondence streams | last run: cases / distinct non-trivial / wall |",
            "|---|---|---|---|---|"]
    for pid in sorted(props.PROPS):
        P = props.PROPS[pid]
        ev = os.path.join(V, "evidence", pid + ".json")
        e = json.load(open(ev)) if os.path.exists(ev) else {}
        cov = e.get("coverage", {})
        streams = []
        for s in P["streams"]:
            streams.append("`drv gen %s` → `runner %s`" % ("+".join(s["gen"]), s["engine"]) if "gen" in s else "python `%s`" % s.get("label", "?"))
        cases = cov.get("cases") or cov.get("evaluations") or "?"
        rows.append("| %s | %s/%s | %s | %s | %s (%s) / %s / %s s |" % (
            pid, cov.get("discharged", "?"), cov.get("obligations", "?"), ", ".join(P.get("tables", [])) or "—", "; ".join(streams),
            cases, e.get("tier", "?"), cov.get("distinct_nontrivial", "?"), e.get("wall_s", "?")))
    return "\n".join(rows)

def seed_table():
    rows = ["| seeded change | what it changes | what it needs to manifest | detected by (quick tier, seed 1) |", "|---|---|---|---|"]
    for d in sorted(glob.glob(os.path.join(V, "seeded", "*"))):
        mp = os.path.join(d, "meta.json")
        if not os.path.exists(mp):
            continue
        m = json.load(open(mp))
        title = re.sub(r"\s+", " ", m.get("title", ""))[:170]
        needs = re.sub(r"\s+", " ", m.get("needs_to_manifest") or "")[:260]
        det = m.get("detected_by")
        rows.append("| `seeded/%s` | %s | %s | %s |" % (os.path.basename(d), title.replace("|", "/"), needs.replace("|", "/"),
                                                   ", ".join("`./check %s`" % c for c in det) if det else "**nothing**" if det == [] else "not run"))
    return "\n".join(rows)

def main():
    p = os.path.join(V, "DESIGN.md")
    s = open(p).read()
    for name, fn in (("STATUS", status_table), ("SEEDS", seed_table)):
        b, e = "<!-- BEGIN %s -->" % name, "<!-- END %s -->" % name
        if b in s and e in s:
            i, j = s.index(b) + len(b), s.index(e)
            s = s[:i] + "\n" + fn() + "\n" + s[j:]
    open(p, "w").write(s)

main()
