#!/usr/bin/env python3
"""Regenerates MANIFEST.json from props.py (claimed checks) — unclaimed properties are listed under
not_applicable with the reason recorded in props.NOT_CLAIMED (or 'check not built yet')."""
import json
import os
import sys

ROOT = os.path.dirname(os.path.dirname(os.path.abspath(__file__)))
sys.path.insert(0, ROOT)
import props  # noqa: E402

ids = [json.loads(l)["id"] for l in open(os.path.join(ROOT, "properties.jsonl"))]
checks = []
na = []
for pid in ids:
    cfg = props.PROPS.get(pid)
    if cfg and cfg.get("claimed", True):
        checks.append({
            "property_id": pid,
            "quick_cmd": "./check %s --tier quick" % pid,
            "thorough_cmd": "./check %s --tier thorough" % pid,
            "evidence_file": "/verif/evidence/%s.json" % pid,
            "replay_cmd_template": "./check %s --replay {path}" % pid,
            "engine": cfg.get("engine_name", ",".join(sorted({s.get("engine", s.get("label", "py")) for s in cfg.get("streams", [])}))),
            "level_claimed": {"category": cfg.get("level", "proof"), "text": cfg["level_text"], "design_ref": "DESIGN.md §7 " + pid},
            "level_note": cfg["level_note"],
            "technique": cfg.get("technique", "Lean 4 proof over an executable model tied to the source by table translation and differential execution"),
        })
    else:
        na.append({"property_id": pid, "reason": getattr(props, "NOT_CLAIMED", {}).get(pid, "check not built yet (work in progress; the property is in scope of the Lean-proof technique, see DESIGN.md §7)")})
m = {
    "version": 1,
    "setup_cmd": "./setup.sh",
    "hooks": props.HOOKS,
    "engines": props.ENGINES,
    "checks": checks,
    "notes": "All checks share ./check (checklib.py): translator -> lake build + axiom audit -> cargo build of the harness against /repo's working tree -> model-generated cases run on the real code. See DESIGN.md.",
    "not_applicable": na,
}
json.dump(m, open(os.path.join(ROOT, "MANIFEST.json"), "w"), indent=1)
print("claimed:", [c["property_id"] for c in checks])
print("not claimed:", [n["property_id"] for n in na])
