#!/usr/bin/env python3
"""tools/seedall.py [ids...] : run every stored seeded change (seeded/<id>/patch.diff) against the checks, in the isolated
mutant environment (tools/mutant_env.sh: a scratch worktree of /repo + a copy of /verif under /var/tmp/mut), and record
in seeded/<id>/meta.json what was run and what the checks reported. /repo itself is never touched."""
import json, os, re, subprocess, sys
V = os.path.dirname(os.path.dirname(os.path.abspath(__file__)))
M = os.environ.get("MUT", "/var/tmp/mut")
EXTRA = {"C09": ["C09", "C15"], "C15": ["C15", "C09", "C13"], "C14": ["C14", "C09"], "C02": ["C02", "C06"], "C06": ["C06", "C02"],
         "C10": ["C10", "C11"], "C11": ["C11", "C10", "C18"],
         "C05": ["C05", "C01", "C03", "C04", "C20"], "C01": ["C01", "C05", "C16", "C19"], "C03": ["C03", "C04", "C20"], "C04": ["C04", "C03"],
         "C07": ["C07", "C18", "C17"], "C18": ["C18", "C07"], "C08": ["C08", "C10"], "C13": ["C13"], "C16": ["C16", "C08"]}

def sh(cmd, cwd=None):
    return subprocess.run(cmd, shell=True, cwd=cwd, stdout=subprocess.PIPE, stderr=subprocess.STDOUT, text=True)

def section(readme, head):
    m = re.search(r"^## " + re.escape(head) + r".*?\n(.*?)(?=^## |\Z)", readme, re.S | re.M)
    return re.sub(r"\s+", " ", m.group(1)).strip() if m else None

def main():
    ids = sys.argv[1:] or sorted(os.listdir(os.path.join(V, "seeded")))
    head = sh("git -C %s/repo rev-parse --short HEAD" % M).stdout.strip()
    for sid in ids:
        d = os.path.join(V, "seeded", sid)
        if not os.path.isfile(os.path.join(d, "patch.diff")):
            continue
        meta = json.load(open(os.path.join(d, "meta.json")))
        pid = meta["property"]
        sh("git reset -q --hard && git clean -fdq", cwd=M + "/repo")
        r = sh("git apply %s/patch.diff" % d, cwd=M + "/repo")
        if r.returncode != 0:
            sh("git reset -q --hard && git clean -fdq", cwd=M + "/repo")
            meta["ran"] = "git apply on %s failed: %s" % (head, r.stdout.strip()[:300])
            meta["detected_by"] = []
            print(sid, "PATCH-DOES-NOT-APPLY")
        else:
            results, detected = [], []
            for c in EXTRA.get(pid, [pid]):
                out = sh("./check %s" % c, cwd=M + "/verif").stdout
                lines = [l[:500] for l in out.splitlines() if re.match(r"VIOLATION|C\d\d (quick|thorough)|  \d+ failing|  obligation", l)]
                viol = [l for l in lines if l.startswith("VIOLATION")]
                if viol:
                    detected.append(c)
                results.append({"check": "./check %s (quick, seed 1)" % c, "output": lines[:8]})
            meta["ran"] = {"tree": "scratch worktree of /repo at %s + patch.diff (never /repo itself)" % head, "checks": results}
            meta["detected_by"] = detected
            print(sid, "detected by", detected or "NOTHING")
        readme = open(os.path.join(d, "README.md")).read() if os.path.exists(os.path.join(d, "README.md")) else ""
        meta["needs_to_manifest"] = meta.get("needs_to_manifest") or section(readme, "What is needed for it to manifest")
        json.dump(meta, open(os.path.join(d, "meta.json"), "w"), indent=1, ensure_ascii=False)
        sh("git reset -q --hard && git clean -fdq", cwd=M + "/repo")

main()
