#!/bin/sh
# Offline build of the framework (MANIFEST.setup_cmd): Lean proofs + driver, Rust harness, slicec binary.
set -e
cd "$(dirname "$0")"
export CARGO_NET_OFFLINE=true
python3 translator/extract.py /repo lean/SlicecVerif/Gen
(cd lean && lake build SlicecVerif drv)
mkdir -p .build && cp lean/.lake/build/bin/drv .build/drv.good
(cd harness && cargo build --offline)
RUSTFLAGS="--cfg slicec_verif" cargo build --offline --manifest-path /repo/Cargo.toml -p slicec --bin slicec --target-dir .build/repo-target
echo setup-ok
