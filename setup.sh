#!/bin/sh
# Offline build of the framework (MANIFEST.setup_cmd): Lean proofs + driver, Rust harness, slicec binary.
set -e
cd "$(dirname "$0")"
export CARGO_NET_OFFLINE=true
python3 translator/extract.py /repo lean/SlicecVerif/Gen
# the library root imports every property file, so one `lake build` checks everything
(cd lean && { for f in SlicecVerif/Props/*.lean; do echo "import SlicecVerif.Props.$(basename "$f" .lean)"; done; } > SlicecVerif.lean && lake build SlicecVerif drv) > .setup-lake.log 2>&1 || { tail -40 .setup-lake.log; exit 1; }
mkdir -p .build && cp lean/.lake/build/bin/drv .build/drv.good
(cd harness && cargo build --offline) 2>&1 | tail -3
RUSTFLAGS="--cfg slicec_verif" cargo build --offline --manifest-path /repo/Cargo.toml -p slicec --bin slicec --target-dir .build/repo-target 2>&1 | tail -2
echo setup-ok
