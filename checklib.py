"""Shared machinery of ./check: translator, Lean build + axiom audit, harness build, correspondence
streams, verdict, evidence, replays, known findings."""
import fcntl
import glob
import hashlib
import json
import os
import re
import shutil
import subprocess
import sys
import time

ROOT = os.path.dirname(os.path.abspath(__file__))
REPO = "/repo"
LEAN = os.path.join(ROOT, "lean")
HARNESS = os.path.join(ROOT, "harness")
BUILD = os.path.join(ROOT, ".build")
EVIDENCE = os.path.join(ROOT, "evidence")
REPLAYS = os.path.join(ROOT, "replays")
ALLOWED_AXIOMS = {"propext", "Classical.choice", "Quot.sound"}
FORBIDDEN = re.compile(r"\bsorry\b|\badmit\b|^\s*axiom\s|native_decide|bv_decide|implemented_by|\bunsafe\s|maxHeartbeats\s+0")

ENV = dict(os.environ)
ENV["CARGO_NET_OFFLINE"] = "true"
ENV.setdefault("CARGO_TERM_COLOR", "never")
RUSTFLAGS = "--cfg slicec_verif"

TRUSTED_COMMON = [
    "Lean 4.33 kernel; axioms limited to propext, Classical.choice, Quot.sound (audited per theorem with #print axioms)",
    "Lean compiler/runtime executing the model in the driver (same definitions the theorems are about)",
    "translator/extract.py (source text -> Gen/*.lean tables) and the Rust harness / python runners (canonical observations)",
    "rustc, std and third-party crates are not modelled",
]

from props import PROPS  # noqa: E402


def sh(cmd, cwd=None, env=None, timeout=None, stdin=None):
    p = subprocess.run(cmd, cwd=cwd, env=env or ENV, stdout=subprocess.PIPE, stderr=subprocess.STDOUT,
                       text=True, timeout=timeout, input=stdin, errors="replace")
    return p.returncode, p.stdout


class Lock:
    def __init__(self, name):
        os.makedirs(BUILD, exist_ok=True)
        self.path = os.path.join(BUILD, name + ".lock")

    def __enter__(self):
        self.f = open(self.path, "w")
        fcntl.flock(self.f, fcntl.LOCK_EX)
        return self

    def __exit__(self, *a):
        fcntl.flock(self.f, fcntl.LOCK_UN)
        self.f.close()


# ------------------------------------------------------------------------------------------------
# step 1: translator
# ------------------------------------------------------------------------------------------------

def run_translator(tables):
    """returns (extractions: {table: {rows, sha}}, broken: [str])"""
    if not tables:
        return {}, []
    rc, out = sh([sys.executable, os.path.join(ROOT, "translator", "extract.py"), REPO,
                  os.path.join(LEAN, "SlicecVerif", "Gen")] + tables)
    ext, broken = {}, []
    for line in out.splitlines():
        m = re.match(r"TABLE (\S+) rows=(\d+) sha=(\S+) (\S+)", line)
        if m:
            ext[m.group(1)] = {"rows": int(m.group(2)), "sha": m.group(3), "state": m.group(4)}
        elif line.startswith("EXTRACTION-FAILED"):
            broken.append("extraction: " + line[len("EXTRACTION-FAILED "):])
        elif line.startswith("NOTE "):
            print(line.strip())                      # informational (e.g. a retired ledger entry): shown, not an obligation
        elif line.strip():
            broken.append("translator: " + line.strip())
    if rc != 0 and not broken:
        broken.append("translator exited with status %d" % rc)
    # The driver imports every Gen table: refresh the others too, so that it is built against the current source; a table of
    # another property that cannot be extracted keeps its last version and is that property's business, not this one's.
    sh([sys.executable, os.path.join(ROOT, "translator", "extract.py"), REPO, os.path.join(LEAN, "SlicecVerif", "Gen"), "--others"] + tables)
    return ext, broken


# ------------------------------------------------------------------------------------------------
# step 2: Lean build, obligations, axiom audit
# ------------------------------------------------------------------------------------------------

def strip_lean_comments(src):
    out, i, n, depth = [], 0, len(src), 0
    while i < n:
        if src.startswith("/-", i):
            depth += 1
            i += 2
        elif depth and src.startswith("-/", i):
            depth -= 1
            i += 2
        elif depth:
            if src[i] == "\n":
                out.append("\n")
            i += 1
        elif src.startswith("--", i):
            j = src.find("\n", i)
            i = n if j < 0 else j
        else:
            out.append(src[i])
            i += 1
    return "".join(out)


def theorems_of(props_file):
    src = strip_lean_comments(open(props_file, encoding="utf-8").read())
    ns = re.search(r"^namespace\s+(\S+)", src, re.M)
    prefix = (ns.group(1) + ".") if ns else ""
    return [prefix + m.group(1) for m in re.finditer(r"^theorem\s+([A-Za-z_][A-Za-z0-9_'.]*)", src, re.M)]


def forbidden_hits():
    hits = []
    for path in glob.glob(os.path.join(LEAN, "**", "*.lean"), recursive=True):
        if os.sep + ".lake" + os.sep in path:
            continue
        src = strip_lean_comments(open(path, encoding="utf-8").read())
        for ln, line in enumerate(src.splitlines(), 1):
            # string literals are data (e.g. Rust source lines quoted in Gen/PanicSites.lean), not Lean constructs
            line = re.sub(r'"(?:[^"\\]|\\.)*"', '""', line)
            if FORBIDDEN.search(line):
                hits.append("%s:%d: %s" % (os.path.relpath(path, ROOT), ln, line.strip()[:80]))
    return hits


def lake_build(cfg, tier):
    """returns dict(theorems={name: {axioms:[..], ok:bool}}, broken=[..], drv=path or None, log=str)"""
    module = cfg["props_module"]
    props_file = os.path.join(LEAN, *module.split(".")) + ".lean"
    names = theorems_of(props_file)
    with Lock("lake"):
        rc, out = sh(["lake", "build", module, "drv"], cwd=LEAN, timeout=3000)
        drv = os.path.join(LEAN, ".lake", "build", "bin", "drv")
        good = os.path.join(BUILD, "drv.good")
        drv_failed = ("- drv" in out or "Main" in re.findall(r"^- (\S+)", out, re.M)) or not os.path.exists(drv)
        # was the *driver* (model + generators) built from the current Gen tables?
        failed_targets = re.findall(r"^- (\S+)", out, re.M)
        drv_ok = os.path.exists(drv) and not any(t == "drv" or t == "Main" or t.startswith("SlicecVerif.Model")
                                                 or t.startswith("SlicecVerif.Drv") or t.startswith("SlicecVerif.Gen")
                                                 for t in failed_targets)
        if drv_ok:
            os.makedirs(BUILD, exist_ok=True)
            shutil.copy2(drv, good + ".tmp")
            os.replace(good + ".tmp", good)
        use_drv = drv if drv_ok else (good if os.path.exists(good) else None)
    axioms = {}
    for m in re.finditer(r"'([^']+)' depends on axioms: \[([^\]]*)\]", out):
        axioms[m.group(1)] = [a.strip() for a in m.group(2).split(",") if a.strip()]
    for m in re.finditer(r"'([^']+)' does not depend on any axioms", out):
        axioms[m.group(1)] = []
    theorems, broken = {}, []
    for n in names:
        if n not in axioms:
            theorems[n] = {"axioms": None, "ok": False}
            broken.append("theorem %s: no kernel-checked proof (module %s did not elaborate it or #print axioms is missing)" % (n, module))
        else:
            bad = [a for a in axioms[n] if a not in ALLOWED_AXIOMS]
            theorems[n] = {"axioms": axioms[n], "ok": not bad}
            if bad:
                broken.append("theorem %s: depends on %s" % (n, ", ".join(bad)))
    if rc != 0:
        errs = re.findall(r"^error: (.*)$", out, re.M)
        broken.append("lake build %s failed: %s" % (module, "; ".join(errs[:3])[:400]))
        if not drv_ok:
            broken.append("the driver could not be rebuilt from the regenerated model; using the last good driver" if use_drv else "no driver available")
    for h in forbidden_hits():
        broken.append("forbidden construct in Lean sources: " + h)
    checker = "lake build %s  (+ #print axioms per theorem)" % module
    if tier == "thorough" and rc == 0:
        with Lock("lake"):
            rc2, out2 = sh(["lake", "env", "leanchecker", module], cwd=LEAN, timeout=3000)
        checker += " ; lake env leanchecker %s" % module
        if rc2 != 0:
            broken.append("leanchecker rejected %s: %s" % (module, out2.strip()[-300:]))
    return {"theorems": theorems, "broken": broken, "drv": use_drv, "log": out, "checker_cmd": checker}


# ------------------------------------------------------------------------------------------------
# step 3: implementation side
# ------------------------------------------------------------------------------------------------

def cargo_build_harness():
    with Lock("cargo"):
        rc, out = sh(["cargo", "build", "--offline"], cwd=HARNESS, timeout=3000)
    exe = os.path.join(HARNESS, "target", "debug", "runner")
    return (exe if rc == 0 and os.path.exists(exe) else None), out


def cargo_build_slicec():
    env = dict(ENV)
    env["RUSTFLAGS"] = RUSTFLAGS
    tdir = os.path.join(BUILD, "repo-target")
    with Lock("cargo-bin"):
        rc, out = sh(["cargo", "build", "--offline", "--manifest-path", os.path.join(REPO, "Cargo.toml"),
                      "-p", "slicec", "--bin", "slicec", "--target-dir", tdir], env=env, timeout=3000)
    exe = os.path.join(tdir, "debug", "slicec")
    return (exe if rc == 0 and os.path.exists(exe) else None), out


# ------------------------------------------------------------------------------------------------
# step 4/5: correspondence streams
# ------------------------------------------------------------------------------------------------

def run_stream(drv, runner, stream, tier, seed):
    """drv gen ... | runner engine  -> parsed result"""
    gen_cmd = [drv, "gen"] + stream["gen"] + [tier, str(seed)]
    run_cmd = [runner, stream["engine"]] + stream.get("runner_args", [])
    t0 = time.time()
    p1 = subprocess.Popen(gen_cmd, stdout=subprocess.PIPE, stderr=subprocess.PIPE, env=ENV)
    p2 = subprocess.Popen(run_cmd, stdin=p1.stdout, stdout=subprocess.PIPE, stderr=subprocess.PIPE, env=ENV)
    p1.stdout.close()
    out, err2 = p2.communicate()
    err1 = p1.stderr.read()
    p1.wait()
    return parse_runner_output(out.decode("utf-8", "replace"), p1.returncode, p2.returncode,
                               (err1 + err2).decode("utf-8", "replace"), time.time() - t0, " ".join(stream["gen"]))


def parse_runner_output(text, rc1, rc2, err, wall, label):
    res = {"label": label, "diffs": [], "oracle": [], "model_cex": [], "stats": None, "wall_s": round(wall, 2), "errors": []}
    for line in text.splitlines():
        if line.startswith("DIFF\t"):
            res["diffs"].append(line.split("\t", 2)[1:])
        elif line.startswith("ORACLE\t"):
            res["oracle"].append(line.split("\t", 2)[1:])
        elif line.startswith("MODELCEX\t"):
            res["model_cex"].append(line.split("\t", 2)[1:])
        elif line.startswith("STATS\t"):
            try:
                res["stats"] = json.loads(line.split("\t", 1)[1])
            except Exception as e:  # noqa: BLE001
                res["errors"].append("unparsable STATS line: %s" % e)
    if rc1 != 0:
        res["errors"].append("driver exited with status %s: %s" % (rc1, err.strip()[-300:]))
    if rc2 != 0:
        res["errors"].append("runner exited with status %s: %s" % (rc2, err.strip()[-300:]))
    if res["stats"] is None:
        res["errors"].append("runner produced no STATS line")
    return res


# ------------------------------------------------------------------------------------------------
# known findings, replays, evidence
# ------------------------------------------------------------------------------------------------

def known_findings(prop):
    path = os.path.join(ROOT, "KNOWN_FINDINGS.txt")
    out = []
    if not os.path.exists(path):
        return out
    for line in open(path, encoding="utf-8"):
        line = line.strip()
        m = re.match(r"open:\s+property=(\S+)\s+id=(\S+)\s+witness=(\S+)\s+(.*)", line)
        if m and m.group(1) == prop:
            out.append({"id": m.group(2), "witness": m.group(3), "what": m.group(4)})
    return out


def match_known(findings, case_text):
    for f in findings:
        if f["witness"] in case_text:
            return f
    return None


def write_replay(prop, n, payload):
    os.makedirs(REPLAYS, exist_ok=True)
    path = os.path.join(REPLAYS, "%s-%d.json" % (prop, n))
    with open(path, "w", encoding="utf-8") as f:
        json.dump(payload, f, indent=1, ensure_ascii=False)
    return path


def write_evidence(prop, ev):
    os.makedirs(EVIDENCE, exist_ok=True)
    path = os.path.join(EVIDENCE, prop + ".json")
    tmp = path + ".tmp"
    with open(tmp, "w", encoding="utf-8") as f:
        json.dump(ev, f, indent=1, ensure_ascii=False)
    os.replace(tmp, path)


# ------------------------------------------------------------------------------------------------
# main entry
# ------------------------------------------------------------------------------------------------

def run_check(prop, tier, seed, replay=None):
    t0 = time.time()
    if prop not in PROPS:
        print("unknown property", prop)
        return 2
    cfg = PROPS[prop]
    if tier not in ("quick", "thorough"):
        tier = "quick"
    findings = known_findings(prop)
    broken = []          # obligations / extractions / correspondence streams that no longer check
    concrete = []        # concrete failing inputs: dict(kind, case, reason)
    known_seen = []

    ext, b = run_translator(cfg.get("tables", []))
    broken += b
    lean = lake_build(cfg, tier)
    broken += lean["broken"]

    runner = None
    if any(s.get("engine") for s in cfg.get("streams", [])) or cfg.get("needs_runner"):
        runner, out = cargo_build_harness()
        if runner is None:
            errs = re.findall(r"^error.*$", out, re.M)
            broken.append("the harness does not build against the current tree: " + "; ".join(errs[:3])[:400])
    slicec_bin = None
    if cfg.get("needs_binary"):
        slicec_bin, out = cargo_build_slicec()
        if slicec_bin is None:
            errs = re.findall(r"^error.*$", out, re.M)
            broken.append("the slicec binary does not build: " + "; ".join(errs[:3])[:400])

    streams_out = []
    ctx = {"drv": lean["drv"], "runner": runner, "slicec": slicec_bin, "tier": tier, "seed": seed,
           "root": ROOT, "repo": REPO, "build": BUILD, "env": ENV, "replay": replay}
    if replay:
        rp = json.load(open(replay, encoding="utf-8"))
        ctx["replay_payload"] = rp
    for s in cfg.get("streams", []):
        if "py" in s:
            try:
                r = s["py"](ctx)
            except Exception as e:  # noqa: BLE001
                import traceback
                r = {"label": s.get("label", "py"), "diffs": [], "oracle": [], "model_cex": [], "stats": None,
                     "wall_s": 0, "errors": ["runner crashed: %s\n%s" % (e, traceback.format_exc()[-800:])]}
        else:
            if lean["drv"] is None or runner is None:
                broken.append("correspondence stream `%s` could not run (driver or runner missing)" % " ".join(s["gen"]))
                continue
            if replay:
                lines = "\n".join(c for c in ctx["replay_payload"].get("cases", [])) + "\n"
                p = subprocess.run([runner, s["engine"]] + s.get("runner_args", []), input=lines.encode(), stdout=subprocess.PIPE,
                                   stderr=subprocess.PIPE, env=ENV)
                r = parse_runner_output(p.stdout.decode("utf-8", "replace"), 0, p.returncode,
                                        p.stderr.decode("utf-8", "replace"), 0, "replay")
            else:
                r = run_stream(lean["drv"], runner, s, tier, seed)
        streams_out.append(r)
        for e in r["errors"]:
            broken.append("correspondence stream `%s`: %s" % (r["label"], e))
        for kind, key in (("model-vs-implementation", "diffs"), ("implementation-vs-oracle", "oracle"), ("model-counterexample", "model_cex")):
            for item in r[key]:
                case, reason = (item + [""])[:2]
                k = match_known(findings, case)
                if k:
                    if k["id"] not in [x["id"] for x in known_seen]:
                        known_seen.append(k)
                    continue
                concrete.append({"kind": kind, "stream": r["label"], "case": case, "reason": reason})

    # ---- verdict -------------------------------------------------------------------------------
    for k in known_seen:
        print("KNOWN-FINDING: property=%s %s (%s)" % (prop, k["what"], k["id"]))
    rc = 0
    n_replay = 0
    if concrete:
        rc = 1
        first = concrete[0]
        n_replay += 1
        path = write_replay(prop, n_replay, {
            "property": prop, "kind": first["kind"], "cases": [(c["case"].replace("\x1f", "\t") if "\x1f" in c["case"] else c["case"].replace(" ", "\t")) for c in concrete[:20]],
            "reasons": [c["reason"] for c in concrete[:20]], "count": len(concrete), "broken_obligations": broken,
            "replay_cmd": "./check %s --replay <this file>" % prop})
        print("VIOLATION property=%s replay=%s" % (prop, path))
        print("  %d failing case(s); first: [%s] %s :: %s" % (len(concrete), first["kind"], first["case"][:300], first["reason"][:300]))
    elif broken:
        rc = 1
        n_replay += 1
        path = write_replay(prop, n_replay, {"property": prop, "kind": "broken-obligation", "no_longer_checks": broken,
                                             "note": "no input on which the property fails was found by the correspondence and oracle runs"})
        print("VIOLATION property=%s replay=%s no-failing-input-found" % (prop, path))
        for bline in broken[:8]:
            print("  " + bline[:400])

    # ---- evidence ------------------------------------------------------------------------------
    obligations = len(lean["theorems"])
    discharged = sum(1 for t in lean["theorems"].values() if t["ok"])
    evaluations = sum((r["stats"] or {}).get("evaluations", 0) for r in streams_out)
    distinct = sum((r["stats"] or {}).get("distinct_nontrivial", 0) for r in streams_out)
    families = {}
    samples = []
    for r in streams_out:
        st = r["stats"] or {}
        for k, v in st.get("families", {}).items():
            families[r["label"] + "/" + k] = v
        samples += st.get("samples", [])[:12]
    ev = {
        "property_id": prop, "tier": tier, "seed": seed, "level": cfg.get("level", "proof"),
        "coverage": {
            "obligations": obligations, "discharged": discharged,
            "checker_cmd": lean["checker_cmd"],
            "trusted_base": TRUSTED_COMMON + cfg.get("trusted", []),
            "theorems": {n: t["axioms"] for n, t in lean["theorems"].items()},
            "extractions": ext,
            "evaluations": evaluations, "distinct_nontrivial": distinct,
            "rule": cfg.get("rule", ""),
            "families": families,
            "samples": samples[:40] or ["(no correspondence cases in this run)"],
            "streams": [{"label": r["label"], "wall_s": r["wall_s"], "evaluations": (r["stats"] or {}).get("evaluations", 0),
                         "diffs": len(r["diffs"]), "oracle_failures": len(r["oracle"]),
                         "extra": {k: v for k, v in (r["stats"] or {}).items() if k not in ("families", "samples", "evaluations", "distinct_nontrivial")}}
                        for r in streams_out],
            "broken_obligations": broken,
            "known_findings_seen": [k["id"] for k in known_seen],
            "exhaustive": False,
            "explanation": cfg.get("explanation", ""),
        },
        "assumptions": cfg.get("assumptions", []),
        "wall_s": round(time.time() - t0, 2),
        "violations": len(concrete) + (1 if (broken and not concrete) else 0),
    }
    write_evidence(prop, ev)
    print("%s %s: obligations %d/%d, cases %d (distinct non-trivial %d), diffs %d, %.1fs" % (
        prop, tier, discharged, obligations, evaluations, distinct, len(concrete), time.time() - t0))
    return rc
