import SlicecVerif.Drv.C10
import SlicecVerif.Drv.C11
import SlicecVerif.Drv.C12
import SlicecVerif.Drv.C02
import SlicecVerif.Drv.C02lex
import SlicecVerif.Drv.C06c
import SlicecVerif.Drv.C02parse
import SlicecVerif.Drv.C09lex
import SlicecVerif.Drv.C09clex
import SlicecVerif.Drv.C09doc
import SlicecVerif.Drv.C17
import SlicecVerif.Drv.C08
import SlicecVerif.Drv.C16
import SlicecVerif.Drv.C05
import SlicecVerif.Drv.C13
import SlicecVerif.Drv.C04
import SlicecVerif.Drv.C03
import SlicecVerif.Drv.C07
import SlicecVerif.Drv.C18
import SlicecVerif.Drv.C01
import SlicecVerif.Drv.C20
import SlicecVerif.Drv.C06
import SlicecVerif.Drv.C15
import SlicecVerif.Drv.C14
import SlicecVerif.Drv.C19

open Slicec Slicec.Drv

def usage : String := "usage: drv gen <Cxx> <quick|thorough> <seed>"

def main (args : List String) : IO UInt32 := do
  match args with
  | ["gen", prop, tier, seed] =>
    let o ← Out.new
    let t := Tier.ofString tier
    let s := seed.toNat?.getD 1
    match prop with
    | "C10" => genC10 t s o
    | "C11" => genC11 t s o
    | "C12" => genC12 t s o
    | "C02" => genC02 t s o
    | "C09" => genC09 t s o
    | "C02lex" => genC02lex t s o
    | "C06c" => genC06c t s o
    | "C02parse" => genC02parse t s o
    | "C09lex" => genC09lex t s o
    | "C09clex" => genC09clex t s o
    | "C09doc" => genC09doc t s o
    | "C09docp" => genC09docp t s o
    | "C17" => genC17 t s o
    | "C08" => genC08 t s o
    | "C08p" => genC08p t s o
    | "C16" => genC16 t s o
    | "C16p" => genC16p t s o
    | "C05" => genC05 t s o
    | "C13" => genC13 t s o
    | "C13cli" => genC13cli t s o
    | "C04" => genC04 t s o
    | "C03" => genC03 t s o
    | "C07" => genC07 t s o
    | "C18" => genC18 t s o
    | "C11p" => genC11p t s o
    | "C01" => genC01 t s o
    | "C20" => genC20 t s o
    | "C06" => genC06 t s o
    | "C15" => genC15 t s o
    | "C14" => genC14 t s o
    | "C19" => genC19 t s o
    | "C19g" => genC19g t s o
    | _ => IO.eprintln s!"unknown property {prop}"; return 2
    o.flush
    return 0
  | _ => IO.eprintln usage; return 2
