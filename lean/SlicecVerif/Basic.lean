def hello := "world"
