/-
  C17 — Each input file is compiled exactly once: sources first, in the order given.

  Every theorem quantifies over an ARBITRARY environment `env : FsEnv P C` (any path type, any canonical-path type,
  any answers to exists / is_file / is_dir / read_dir / canonicalize / read_to_string — no law is assumed, so file
  systems with symlink cycles, unreadable directories or inconsistent answers are included), every walk bound `fuel`
  and every pair of argument lists.  "Canonical path" is whatever `env.canon` (= `Path::canonicalize`) answers: two
  spellings of one file ('.', '..', absolute, through a symbolic link) are the same file exactly when the operating
  system canonicalises them to the same path; that part is the OS's contract, exercised by the correspondence
  (`Drv/C17.lean` + engine `files`) on a concrete tree model with links.

  `srcFound` / `refFound` are the entries `find_slice_files` returns for the two lists (in argument order, a
  directory replaced by the walk of its subtree), `keepFirst []` is the first-occurrence de-duplication
  specification (`Lemmas/Files.lean`; characterised by `dedup_keeps_first`).
-/
import SlicecVerif.Lemmas.Files

namespace Slicec.C17

open Slicec

variable {P C : Type} [DecidableEq C]

/-- Exactly once: no two entries of the compiled file list (`state.files`), nor of the list handed to the parser,
    nor of the list before reading, have the same canonical path. -/
theorem once (env : FsEnv P C) (fuel : Nat) (sources references : List P) :
    ((resolveFilesFrom env fuel sources references).filePaths.map (·.canon)).Nodup ∧
    ((compileFromOptions env fuel sources references).files.map (·.canon)).Nodup ∧
    ((compileFromOptions env fuel sources references).parsed.map (·.canon)).Nodup := by
  have h := filePaths_nodup env fuel sources references
  have hf : ((compileFromOptions env fuel sources references).files.map (·.canon)).Nodup := by
    simp only [compileFromOptions, resolveFilesFrom]
    exact h.sublist ((List.filter_sublist).map _)
  refine ⟨h, hf, ?_⟩
  simp only [compileFromOptions] at hf ⊢
  split
  · simp
  · exact hf

/-- Sources first, in order: the file list is the de-duplicated discovered sources (argument order) followed by the
    de-duplicated discovered references (argument / walk order) minus every file already discovered as a source;
    `state.files` is that list without the entries that could not be read (order kept); every source entry carries
    `is_source = true`, every reference entry `false`; and each discovered list spells its entries in discovery
    order (only paths that cannot be canonicalised are dropped). -/
theorem sources_first_in_order (env : FsEnv P C) (fuel : Nat) (sources references : List P) :
    (resolveFilesFrom env fuel sources references).filePaths =
        keepFirst [] (srcFound env fuel sources) ++
        (keepFirst [] (refFound env fuel references)).filter
          (fun f => decide (f.canon ∉ (srcFound env fuel sources).map (·.canon))) ∧
    (compileFromOptions env fuel sources references).files =
        (resolveFilesFrom env fuel sources references).filePaths.filter (fun f => env.readOk f.path) ∧
    (∀ f ∈ srcFound env fuel sources, f.isSource = true) ∧
    (∀ f ∈ refFound env fuel references, f.isSource = false) ∧
    (srcFound env fuel sources).map (·.path) =
        (discovered env fuel sources true).filter (fun p => (env.canon p).isSome) ∧
    (refFound env fuel references).map (·.path) =
        (discovered env fuel references false).filter (fun p => (env.canon p).isSome) := by
  have hmap : ∀ (s : Bool) (l : List P),
      (l.filterMap (fun p => (env.canon p).map (fun c => (⟨p, c, s⟩ : FilePath P C)))).map (·.path) =
        l.filter (fun p => (env.canon p).isSome) := by
    intro s l
    induction l with
    | nil => simp
    | cons p ps ih =>
      cases hc : env.canon p with
      | none => simp [hc, ih]
      | some c => simp [hc, ih]
  refine ⟨resolve_filePaths env fuel sources references, ?_, ?_, ?_, ?_, ?_⟩
  · simp only [compileFromOptions, resolveFilesFrom]
  · intro f hf; exact (mem_findSliceFiles env fuel sources true f hf).2.2
  · intro f hf; exact (mem_findSliceFiles env fuel references false f hf).2.2
  · simp only [srcFound, findSliceFiles, createAll]; exact hmap true _
  · simp only [refFound, findSliceFiles, createAll]; exact hmap false _

/-- What de-duplication keeps (for any already-seen set and any list): a sub-list in the original order, with
    pairwise different canonical paths, covering exactly the canonical paths of the list that were not seen before,
    and each kept entry is the FIRST entry of the list with its canonical path (so the first spelling is the one
    that is compiled and every later one is the repeat). -/
theorem dedup_keeps_first (seen : List C) (l : List (FilePath P C)) :
    (keepFirst seen l).Sublist l ∧
    ((keepFirst seen l).map (·.canon)).Nodup ∧
    (∀ c, c ∈ (keepFirst seen l).map (·.canon) ↔ c ∈ l.map (·.canon) ∧ c ∉ seen) ∧
    (∀ f ∈ keepFirst seen l, ∃ pre post, l = pre ++ f :: post ∧ ∀ g ∈ pre, g.canon ≠ f.canon) ∧
    removeDuplicates l = (keepFirst [] l, (repeats [] l).map (fun f => dupWarn f.path)) :=
  ⟨keepFirst_sublist seen l, keepFirst_nodup seen l, mem_keepFirst_canon seen l, fun _ h => keepFirst_first h,
   removeDuplicates_eq l⟩

omit [DecidableEq C] in
/-- The source list is taken as listed: with a positive walk bound, the paths discovered for the sources are exactly
    the listed sources that exist, are files (not directories) and are spelled with the `slice` extension — in the
    order given, repeats included. -/
theorem sources_as_listed (env : FsEnv P C) (fuel : Nat) (sources : List P) :
    discovered env (fuel + 1) sources true =
      sources.filter (fun p => env.pathExists p && !env.isDir p && env.isFile p && env.isSlice p) := by
  unfold discovered
  induction sources with
  | nil => simp
  | cons p ps ih =>
    rw [List.flatMap_cons, ih, List.filter_cons]
    cases h1 : env.pathExists p <;> cases h2 : env.isDir p <;> cases h3 : env.isFile p <;> cases h4 : env.isSlice p <;>
      simp [findStep, walkFiles, h1, h2, h3, h4]

omit [DecidableEq C] in
/-- References are expanded recursively: a path is discovered for the reference list exactly when some listed
    reference exists, is not a file with a wrong extension, and the path is reached from it by listing fewer than
    `fuel` nested directories (zero for a reference that is itself a file) and is a non-directory file spelled with
    the `slice` extension. -/
theorem references_expanded (env : FsEnv P C) (fuel : Nat) (references : List P) (q : P) :
    q ∈ discovered env fuel references false ↔
      ∃ p ∈ references, env.pathExists p = true ∧ ¬(env.isFile p = true ∧ env.isSlice p = false) ∧
        ∃ n, n < fuel ∧ BelowDir env n p q ∧ sliceLeaf env q := by
  unfold discovered
  rw [List.mem_flatMap]
  constructor
  · rintro ⟨p, hp, hq⟩
    refine ⟨p, hp, ?_⟩
    unfold findStep at hq
    split at hq
    · simp at hq
    · rename_i h1
      split at hq
      · simp at hq
      · rename_i h2
        split at hq
        · simp at hq
        · refine ⟨by simpa using h1, ?_, (mem_walk env fuel p q).mp hq⟩
          rintro ⟨a, b⟩; simp [a, b] at h2
  · rintro ⟨p, hp, h1, h2, hw⟩
    refine ⟨p, hp, ?_⟩
    have hw' := (mem_walk env fuel p q).mpr hw
    unfold findStep
    have h2' : (env.isFile p && !env.isSlice p) = false := by
      cases hf : env.isFile p <;> cases hs : env.isSlice p <;> simp_all
    simp [h1, h2', hw']

/-- A source wins: an entry of the file list is marked as a source exactly when its canonical path was discovered
    through the source list; and every canonical path discovered through the source list is in the file list exactly
    once, as a source (whatever the references name). -/
theorem source_wins (env : FsEnv P C) (fuel : Nat) (sources references : List P) :
    (∀ f ∈ (resolveFilesFrom env fuel sources references).filePaths,
        (f.isSource = true ↔ f.canon ∈ (srcFound env fuel sources).map (·.canon))) ∧
    (∀ c ∈ (srcFound env fuel sources).map (·.canon),
        ∃ f ∈ (resolveFilesFrom env fuel sources references).filePaths, f.canon = c ∧ f.isSource = true ∧
          ∀ g ∈ (resolveFilesFrom env fuel sources references).filePaths, g.canon = c → g = f) := by
  constructor
  · intro f hf
    rcases (mem_filePaths env fuel sources references f).mp hf with h | ⟨h, hn⟩
    · have hm := keepFirst_subset h
      have := (mem_findSliceFiles env fuel sources true f hm).2.2
      exact ⟨fun _ => List.mem_map.mpr ⟨f, hm, rfl⟩, fun _ => this⟩
    · have hm := keepFirst_subset h
      have := (mem_findSliceFiles env fuel references false f hm).2.2
      constructor
      · intro ht; rw [this] at ht; cases ht
      · intro hc; exact absurd hc hn
  · intro c hc
    have hk : c ∈ (keepFirst [] (srcFound env fuel sources)).map (·.canon) :=
      (mem_keepFirst_canon _ _ _).mpr ⟨hc, by simp⟩
    obtain ⟨f, hf, hfc⟩ := List.mem_map.mp hk
    have hfp : f ∈ (resolveFilesFrom env fuel sources references).filePaths :=
      (mem_filePaths env fuel sources references f).mpr (Or.inl hf)
    refine ⟨f, hfp, hfc, (mem_findSliceFiles env fuel sources true f (keepFirst_subset hf)).2.2, ?_⟩
    intro g hg hgc
    exact eq_of_canon_eq_of_nodup (filePaths_nodup env fuel sources references) hg hfp (hgc.trans hfc.symm)

/-- DuplicateFile count: the number of `DuplicateFile` lints is the number of discovered source entries that repeat
    an earlier source entry plus the number of discovered reference entries that repeat an earlier reference entry:
    `#DuplicateFile + #kept sources + #kept references = #discovered sources + #discovered references`, the kept
    ones being one per distinct canonical path of each list.  A file in both lists adds nothing. -/
theorem dup_warning_count (env : FsEnv P C) (fuel : Nat) (sources references : List P) :
    ((resolveFilesFrom env fuel sources references).diags.filter (fun d => d.code == .duplicateFile)).length +
      (keepFirst [] (srcFound env fuel sources)).length + (keepFirst [] (refFound env fuel references)).length =
    (srcFound env fuel sources).length + (refFound env fuel references).length := by
  have hio : ∀ (l : List (FDiag P)), (∀ d ∈ l, d.code = .io) → l.filter (fun d => d.code == .duplicateFile) = [] := by
    intro l hl
    rw [List.filter_eq_nil_iff]
    intro d hd; simp [hl d hd]
  have hdup : ∀ (l : List (FilePath P C)),
      ((l.map (fun f => dupWarn f.path)).filter (fun d => d.code == .duplicateFile)).length = l.length := by
    intro l
    induction l with
    | nil => simp
    | cons x xs ih => simp [dupWarn] at ih ⊢; exact ih
  rw [resolve_diags]
  simp only [List.filter_append, List.length_append]
  have e1 := hio _ (findSliceFiles_diag_code env fuel sources true)
  have e2 := hio _ (findSliceFiles_diag_code env fuel references false)
  have e3 := hio (((resolveFilesFrom env fuel sources references).filePaths.filter (fun f => !env.readOk f.path)).map
      (fun f => ioErr f.path)) (by intro d hd; obtain ⟨_, _, rfl⟩ := List.mem_map.mp hd; rfl)
  rw [e1, e2, e3, hdup, hdup]
  have h1 := keepFirst_length (P := P) [] (srcFound env fuel sources)
  have h2 := keepFirst_length (P := P) [] (refFound env fuel references)
  simp only [List.length_nil]
  omega

/-- No warning across the lists: when neither discovered list repeats a canonical path within itself, no
    `DuplicateFile` lint is reported at all — however many files the two lists have in common. -/
theorem no_cross_list_warning (env : FsEnv P C) (fuel : Nat) (sources references : List P)
    (hs : ((srcFound env fuel sources).map (·.canon)).Nodup) (hr : ((refFound env fuel references).map (·.canon)).Nodup) :
    ∀ d ∈ (resolveFilesFrom env fuel sources references).diags, d.code = .io := by
  intro d hd
  rw [resolve_diags, (keepFirst_of_nodup [] _ (by simp) hs).2, (keepFirst_of_nodup [] _ (by simp) hr).2] at hd
  simp only [List.map_nil, List.append_nil, List.mem_append] at hd
  rcases hd with (hd | hd) | hd
  · exact findSliceFiles_diag_code env fuel sources true d hd
  · exact findSliceFiles_diag_code env fuel references false d hd
  · obtain ⟨_, _, rfl⟩ := List.mem_map.mp hd; rfl

/-- Only Slice files: every entry of the file list is spelled with the `slice` extension, answered "file" and not
    "directory" when it was discovered, exists under a listed argument, and carries the canonical path the
    environment gives for its spelling. -/
theorem only_slice_files (env : FsEnv P C) (fuel : Nat) (sources references : List P) :
    ∀ f ∈ (resolveFilesFrom env fuel sources references).filePaths,
      sliceLeaf env f.path ∧ env.canon f.path = some f.canon ∧
      ∃ p ∈ (if f.isSource then sources else references), env.pathExists p = true ∧ ∃ n, BelowDir env n p f.path := by
  have key : ∀ (paths : List P) (s : Bool) (f : FilePath P C), f ∈ (findSliceFiles env fuel paths s).1 →
      sliceLeaf env f.path ∧ env.canon f.path = some f.canon ∧
      ∃ p ∈ (if f.isSource then (if s then paths else []) else (if s then [] else paths)),
        env.pathExists p = true ∧ ∃ n, BelowDir env n p f.path := by
    intro paths s f hf
    obtain ⟨hd, hc, hs⟩ := mem_findSliceFiles env fuel paths s f hf
    unfold discovered at hd
    obtain ⟨p, hp, hq⟩ := List.mem_flatMap.mp hd
    obtain ⟨he, hw, _⟩ := mem_findStep env fuel _ p f.path hq
    obtain ⟨n, _, hb, hl⟩ := (mem_walk env fuel p f.path).mp hw
    refine ⟨hl, hc, p, ?_, he, n, hb⟩
    rw [hs]; cases s <;> simpa using hp
  intro f hf
  rcases (mem_filePaths env fuel sources references f).mp hf with h | ⟨h, _⟩
  · have hm := keepFirst_subset h
    have hs := (mem_findSliceFiles env fuel sources true f hm).2.2
    have := key sources true f hm
    simpa [hs] using this
  · have hm := keepFirst_subset h
    have hs := (mem_findSliceFiles env fuel references false f hm).2.2
    have := key references false f hm
    simpa [hs] using this

/-- I/O errors block everything: a listed path that does not exist, or is a file without the `slice` extension, or
    (in the source list) is a directory, and a file of the list that cannot be read, each produce an E001 naming that
    path; and whenever any E001 is present nothing at all is handed to the parser. -/
theorem io_error_blocks (env : FsEnv P C) (fuel : Nat) (sources references : List P) :
    (∀ p ∈ sources, (env.pathExists p = false ∨ (env.isFile p = true ∧ env.isSlice p = false) ∨ env.isDir p = true) →
        ioErr p ∈ (compileFromOptions env fuel sources references).diags) ∧
    (∀ p ∈ references, (env.pathExists p = false ∨ (env.isFile p = true ∧ env.isSlice p = false)) →
        ioErr p ∈ (compileFromOptions env fuel sources references).diags) ∧
    (∀ f ∈ (resolveFilesFrom env fuel sources references).filePaths, env.readOk f.path = false →
        ioErr f.path ∈ (compileFromOptions env fuel sources references).diags) ∧
    ((∃ d ∈ (compileFromOptions env fuel sources references).diags, d.code = .io) →
        (compileFromOptions env fuel sources references).parsed = []) := by
  have hstep : ∀ (a : Bool) (p : P),
      (env.pathExists p = false ∨ (env.isFile p = true ∧ env.isSlice p = false) ∨ (env.isDir p = true ∧ a = false)) →
      ioErr p ∈ (findStep env fuel a p).2 := by
    intro a p h
    unfold findStep
    cases h1 : env.pathExists p <;> cases h2 : env.isDir p <;> cases h3 : env.isFile p <;> cases h4 : env.isSlice p <;>
      cases a <;> simp_all
  have hdiags : (compileFromOptions env fuel sources references).diags = (resolveFilesFrom env fuel sources references).diags := rfl
  refine ⟨?_, ?_, ?_, ?_⟩
  · intro p hp h
    rw [hdiags, resolve_diags]
    simp only [List.mem_append]
    refine Or.inl (Or.inl (Or.inl (Or.inl ?_)))
    simp only [findSliceFiles, List.mem_append, List.mem_flatMap]
    refine Or.inl ⟨p, hp, hstep _ p ?_⟩
    rcases h with h | h | h
    · exact Or.inl h
    · exact Or.inr (Or.inl h)
    · exact Or.inr (Or.inr ⟨h, by simp⟩)
  · intro p hp h
    rw [hdiags, resolve_diags]
    simp only [List.mem_append]
    refine Or.inl (Or.inl (Or.inr ?_))
    simp only [findSliceFiles, List.mem_append, List.mem_flatMap]
    refine Or.inl ⟨p, hp, hstep _ p ?_⟩
    rcases h with h | h
    · exact Or.inl h
    · exact Or.inr (Or.inl h)
  · intro f hf hr
    rw [hdiags, resolve_diags]
    simp only [List.mem_append]
    refine Or.inr (List.mem_map.mpr ⟨f, List.mem_filter.mpr ⟨hf, by simp [hr]⟩, rfl⟩)
  · rintro ⟨d, hd, hc⟩
    have : (resolveFilesFrom env fuel sources references).diags.any FDiag.isError = true := by
      rw [List.any_eq_true]
      exact ⟨d, hd, by simp [FDiag.isError, hc]⟩
    simp only [compileFromOptions, this, if_true]

/-- Conversely, without an E001 every file of the list was readable and all of them are parsed, in list order. -/
theorem no_error_all_parsed (env : FsEnv P C) (fuel : Nat) (sources references : List P)
    (h : ∀ d ∈ (compileFromOptions env fuel sources references).diags, d.code ≠ .io) :
    (compileFromOptions env fuel sources references).parsed = (resolveFilesFrom env fuel sources references).filePaths := by
  have hany : (resolveFilesFrom env fuel sources references).diags.any FDiag.isError = false := by
    rw [List.any_eq_false]
    intro d hd
    have := h d hd
    simp [FDiag.isError, this]
  have hread : ∀ f ∈ (resolveFilesFrom env fuel sources references).filePaths, env.readOk f.path = true := by
    intro f hf
    cases hr : env.readOk f.path with
    | true => rfl
    | false =>
      have := (io_error_blocks env fuel sources references).2.2.1 f hf hr
      exact absurd rfl (h _ this)
  simp only [compileFromOptions, hany]
  simp only [resolveFilesFrom] at hread ⊢
  exact List.filter_eq_self.mpr hread

/-! ## non-vacuity: a three-file environment (paths are numbers; 0 and 1 are two spellings of one file,
    2 is another file, 3 does not exist, 10 is a directory listing 0 1 2) -/

example : ((compileFromOptions c17DemoEnv 5 [1, 0] [10]).files.map (fun f => (f.path, f.canon, f.isSource))) =
    [(1, 0, true), (2, 2, false)] := by decide
example : ((compileFromOptions c17DemoEnv 5 [1, 0] [10]).diags.map (fun d => (d.code, d.path))) =
    [(.duplicateFile, 0), (.duplicateFile, 1)] := by decide
example : (compileFromOptions c17DemoEnv 5 [1] [10]).parsed.length = 2 := by decide
example : ((compileFromOptions c17DemoEnv 5 [2, 3] [10]).diags.map (fun d => (d.code, d.path))) = [(.io, 3), (.duplicateFile, 1)] ∧
    (compileFromOptions c17DemoEnv 5 [2, 3] [10]).parsed = [] ∧
    (compileFromOptions c17DemoEnv 5 [2, 3] [10]).files.length = 2 := by decide
example : ((compileFromOptions c17DemoEnv 5 [10] []).diags.map (fun d => (d.code, d.path))) = [(.io, 10)] := by decide

end Slicec.C17

#print axioms Slicec.C17.once
#print axioms Slicec.C17.sources_first_in_order
#print axioms Slicec.C17.dedup_keeps_first
#print axioms Slicec.C17.sources_as_listed
#print axioms Slicec.C17.references_expanded
#print axioms Slicec.C17.source_wins
#print axioms Slicec.C17.dup_warning_count
#print axioms Slicec.C17.no_cross_list_warning
#print axioms Slicec.C17.only_slice_files
#print axioms Slicec.C17.io_error_blocks
#print axioms Slicec.C17.no_error_all_parsed
