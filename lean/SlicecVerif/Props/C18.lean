/-
  C18 — A failing generator is reported, never fatal, and never half-trusted.

  Statements over `Model/Driver.lean` for EVERY list of generators with EVERY combination of behaviours
  (`Behaviour`: spawn error, stdin write error, wait error, any exit code with any stderr/stdout bytes,
  killed by a signal with any output), every output directory and every file system (`FileSystem`:
  arbitrary contents, arbitrary set of paths on which `File::create` fails), from an arbitrary world.

  `g.failed`, `g.files`, `g.messages` are the per-generator view (`genReply`): a generator has not failed
  iff its process existed, its arguments encoded, its stdin was written, it exited with code 0 and empty
  stderr and its whole reply decoded (`decReply`, the decoder of C11).

  Outside the model (partial by nature, covered by the process-level fault enumeration only): pipe
  capacity and EPIPE timing, `wait` semantics, a generator that writes before it reads, one that never
  exits, crashes of the compiler itself (the model has no panic outcome: see C11 for the decoder).
-/
import SlicecVerif.Lemmas.Driver

namespace Slicec.C18

open Slicec Slicec.Driver

/-- the collection loop of `main` over all generators, started from world `w` -/
abbrev loop (outDir : Option Path) (payload : Bytes) (gens : List GenRun) (w : World) : World × List Diag :=
  collectAll outDir (gens.map (spawnGen payload)) w

/-- what a generator whose reply is accepted does to the world: its diagnostics' messages are printed,
    its files written one by one (compare-before-write) -/
def honour (outDir : Option Path) (w : World) (g : GenRun) : World :=
  (writeFiles outDir g.files { w with printed := w.printed ++ g.messages }).1

/-- Whatever a generator does: its reply is accepted only if its process existed, its arguments were
    written, it exited with status 0, wrote nothing to stderr and its stdout decodes completely as a
    reply. Cannot be started, stdin closed early (write error), wait error, any other exit code, killed by a
    signal, any byte on stderr, empty / truncated / undecodable stdout: each makes it a failed generator
    (which `each_failure_reported` turns into its E001). Proved over the status arms and the stderr check
    read from `collect_plugin_output`. -/
theorem accepted_iff (g : GenRun) :
    g.failed = false ↔
      ∃ stdout files ds rest, g.beh = .exited 0 [] stdout ∧ (encArguments g.gen.args).isSome = true ∧
        decReply stdout = .ok ((files, ds), rest) := by
  obtain ⟨gen, beh⟩ := g
  unfold GenRun.failed genReply
  constructor
  · intro h
    cases beh with
    | spawnError => simp at h
    | stdinError => cases he : encArguments gen.args <;> simp [he] at h
    | waitError => cases he : encArguments gen.args <;> simp [he, collect] at h
    | signalled err out =>
      cases he : encArguments gen.args
      · simp [he] at h
      · simp only [he, collect_signalled] at h
        cases hemp : err.isEmpty <;> simp [hemp] at h
    | exited code err out =>
      cases he : encArguments gen.args with
      | none => simp [he] at h
      | some a =>
        simp only [he, collect_exited] at h
        by_cases herr : err = []
        · by_cases hc : code = 0
          · subst herr; subst hc
            simp only [List.isEmpty_nil, Bool.not_true, Bool.false_eq_true, if_false, if_true] at h
            cases hd : decReply out with
            | error e => simp [hd] at h
            | ok r =>
              obtain ⟨⟨files, ds⟩, rest⟩ := r
              exact ⟨out, files, ds, rest, rfl, by simp, hd⟩
          · subst herr
            simp [hc] at h
        · have : err.isEmpty = false := by cases err <;> simp_all
          simp [this] at h
  · rintro ⟨stdout, files, ds, rest, hb, he, hd⟩
    simp only at hb he
    subst hb
    cases hea : encArguments gen.args with
    | none => simp [hea] at he
    | some a => simp [collect_exited, hd]

/-- Every failing generator is reported by exactly one E001 "run code-generator" diagnostic carrying
    exactly its own path; successful generators get none; the reports come in generator order. -/
theorem each_failure_reported (outDir : Option Path) (payload : Bytes) (gens : List GenRun) (w : World) :
    (loop outDir payload gens w).2.filter isRunGen =
      (gens.filter (·.failed)).map (fun g => Diag.io .runGenerator g.gen.path) := by
  unfold loop
  rw [collectAll_eq_fold]
  induction gens generalizing w with
  | nil => rfl
  | cons g rest ih =>
    simp only [foldGens, List.filter_append, ih]
    cases hf : g.failed
    · rw [applyGen_ok outDir w g hf, writeFiles_no_runGen]
      simp [hf]
    · rw [applyGen_failed outDir w g hf]
      simp [List.filter_cons, hf, isRunGen]

/-- Every other diagnostic of the generator block is an E001 "write generated file" for a file of a
    generator whose reply was accepted: a failed write never turns into a failure of the generator. -/
theorem other_diagnostics_are_write_errors (outDir : Option Path) (payload : Bytes) (gens : List GenRun)
    (w : World) (d : Diag) (hd : d ∈ (loop outDir payload gens w).2) (hn : isRunGen d = false) :
    ∃ g ∈ gens, g.failed = false ∧ ∃ f ∈ g.files, d = Diag.io .writeGenerated f.path := by
  unfold loop at hd
  rw [collectAll_eq_fold] at hd
  induction gens generalizing w with
  | nil => simp [foldGens] at hd
  | cons g rest ih =>
    simp only [foldGens, List.mem_append] at hd
    rcases hd with hd | hd
    · cases hf : g.failed
      · rw [applyGen_ok outDir w g hf] at hd
        obtain ⟨f, hfm, e⟩ := writeFiles_diags outDir g.files _ d hd
        exact ⟨g, by simp, hf, f, hfm, e⟩
      · rw [applyGen_failed outDir w g hf] at hd
        simp only [List.mem_singleton] at hd
        subst hd
        simp [isRunGen] at hn
    · obtain ⟨g', hg', r⟩ := ih _ hd
      exact ⟨g', List.mem_cons_of_mem _ hg', r⟩

/-- The other generators are honoured whatever the failing ones do: the world after the loop is the fold
    of `honour` over the generators that did not fail, in order. Failing generators leave no trace in the
    world (file system, write log, printed messages). -/
theorem others_honoured (outDir : Option Path) (payload : Bytes) (gens : List GenRun) (w : World) :
    (loop outDir payload gens w).1 = (gens.filter (fun g => !g.failed)).foldl (honour outDir) w := by
  unfold loop
  rw [collectAll_eq_fold]
  induction gens generalizing w with
  | nil => rfl
  | cons g rest ih =>
    simp only [foldGens, ih]
    cases hf : g.failed
    · rw [applyGen_ok outDir w g hf]
      simp [hf, honour]
    · rw [applyGen_failed outDir w g hf]
      simp [hf]

/-- Independence: two runs whose successful generators coincide (same generators, same replies, same
    order) end in the same world, however many failing generators are interleaved and whatever they do. -/
theorem independent_of_failing (outDir : Option Path) (payload payload' : Bytes) (gens gens' : List GenRun)
    (w : World) (h : gens.filter (fun g => !g.failed) = gens'.filter (fun g => !g.failed)) :
    (loop outDir payload gens w).1 = (loop outDir payload' gens' w).1 := by
  rw [others_honoured, others_honoured, h]

/-- If any generator fails the exit status is non-zero (1; or 79 if the request could not even be
    encoded) — given that the generator block is entered at all. -/
theorem exit_nonzero_if_any_failed (opts : Options) (c : List Diag) (request : Option Bytes)
    (gens : List GenRun) (fs : FileSystem) (hg : guardOpen opts c = true)
    (hf : ∃ g ∈ gens, g.failed = true) :
    (mainFlow opts c request gens fs).status ≠ 0 ∧
    (request ≠ none → (mainFlow opts c request gens fs).status = 1) := by
  cases request with
  | none => rw [mainFlow_open_none _ _ _ _ hg]; simp
  | some payload =>
    rw [mainFlow_open_some _ _ _ _ _ hg, finish_status]
    obtain ⟨g, hgm, hfail⟩ := hf
    have hmem : Diag.io .runGenerator g.gen.path ∈ (foldGens opts.outputDir gens ⟨fs, [], []⟩).2 := by
      have h1 := each_failure_reported opts.outputDir payload gens ⟨fs, [], []⟩
      unfold loop at h1
      rw [collectAll_eq_fold] at h1
      have h2 : Diag.io .runGenerator g.gen.path ∈
          (gens.filter (·.failed)).map (fun g => Diag.io .runGenerator g.gen.path) :=
        List.mem_map.2 ⟨g, List.mem_filter.2 ⟨hgm, hfail⟩, rfl⟩
      rw [← h1] at h2
      exact (List.mem_filter.1 h2).1
    have herr : hasErrors (c ++ (foldGens opts.outputDir gens ⟨fs, [], []⟩).2) = true := by
      rw [hasErrors_iff]
      exact ⟨_, List.mem_append_right _ hmem, rfl⟩
    simp [herr]

/-- All generators receive the identical request followed by their own arguments: every generator for
    which a process existed was offered, on its stdin, the shared payload followed by the encoding of its
    own `Arguments` (count, then key and value strings per pair — `encode` of C10 at type
    dictionary<string, string>); the list is in generator order and lacks only those that could not be
    spawned. (If the arguments do not encode, only the payload was written and the generator is failed.) -/
theorem same_request (opts : Options) (c : List Diag) (payload : Bytes) (gens : List GenRun)
    (fs : FileSystem) (hg : guardOpen opts c = true) :
    (mainFlow opts c (some payload) gens fs).requests =
      (gens.filter (fun g => g.beh != .spawnError)).map
        (fun g => (g.gen, payload ++ (encode (.dictH .str .str) g.gen.args).getD [])) := by
  rw [mainFlow_open_some _ _ _ _ _ hg]
  simp only [finish, requestsOf]
  induction gens with
  | nil => rfl
  | cons g rest ih =>
    obtain ⟨gen, beh⟩ := g
    simp only [List.map_cons, List.filterMap_cons, List.filter_cons, ih]
    have henc : encArguments gen.args = encode (.dictH .str .str) gen.args := rfl
    cases beh with
    | spawnError => simp [spawnGen]
    | stdinError => cases he : encArguments gen.args <;> simp [spawnGen, he, ← henc]
    | waitError => cases he : encArguments gen.args <;> simp [spawnGen, he, ← henc]
    | exited a b c => cases he : encArguments gen.args <;> simp [spawnGen, he, ← henc]
    | signalled a b => cases he : encArguments gen.args <;> simp [spawnGen, he, ← henc]

/-- in particular any two requests differ only after the shared payload -/
theorem requests_share_payload (opts : Options) (c : List Diag) (payload : Bytes) (gens : List GenRun)
    (fs : FileSystem) (hg : guardOpen opts c = true) :
    ∀ r ∈ (mainFlow opts c (some payload) gens fs).requests, ∃ suffix, r.2 = payload ++ suffix := by
  rw [same_request opts c payload gens fs hg]
  intro r hr
  obtain ⟨g, _, rfl⟩ := List.mem_map.1 hr
  exact ⟨_, rfl⟩

/-- A reply that fails to decode writes nothing: a generator that failed — in particular one that exited
    with 0 and empty stderr but whose stdout does not decode completely — leaves the world exactly as it
    was; the only effect is its E001. Decoding is complete before the first write. -/
theorem undecodable_reply_changes_nothing (outDir : Option Path) (payload : Bytes) (w : World) (g : GenRun) :
    (g.failed = true → collectOne outDir w (spawnGen payload g) = (w, [Diag.io .runGenerator g.gen.path])) ∧
    (∀ stdout e, g.beh = .exited 0 [] stdout → decReply stdout = .error e → g.failed = true) := by
  refine ⟨fun h => by rw [collectOne_spawnGen, applyGen_failed outDir w g h], ?_⟩
  intro stdout e hb hd
  obtain ⟨gen, beh⟩ := g
  simp only at hb
  subst hb
  unfold GenRun.failed genReply
  cases he : encArguments gen.args <;> simp [collect_exited, hd]

/-- Files are written only from a successfully decoded reply: every write the loop performs is a file of
    a reply that was accepted as a whole (process existed, exit 0, stderr empty, both sequences decoded),
    placed at `outDir` joined with the path the generator gave, with exactly the decoded contents. -/
theorem written_only_from_decoded_reply (outDir : Option Path) (payload : Bytes) (gens : List GenRun)
    (w : World) (pc : Path × Bytes) (h : pc ∈ (loop outDir payload gens w).1.writes) :
    pc ∈ w.writes ∨
    ∃ g ∈ gens, ∃ files ds, genReply g = .ok (files, ds) ∧
      ∃ f ∈ files, pc = (targetPath outDir f.path, f.contents) := by
  unfold loop at h
  rw [collectAll_eq_fold] at h
  rcases foldGens_writes outDir gens w pc h with h | ⟨g, hg, hok, f, hf, e⟩
  · exact Or.inl h
  · refine Or.inr ⟨g, hg, ?_⟩
    unfold GenRun.failed at hok
    unfold GenRun.files at hf
    cases hr : genReply g with
    | error x => simp [hr] at hok
    | ok r =>
      obtain ⟨files, ds⟩ := r
      simp only [hr] at hf
      exact ⟨files, ds, rfl, f, hf, e⟩

/-- A file whose content is already identical is left untouched: no create, no write, no diagnostic,
    the world is unchanged. -/
theorem identical_file_untouched (outDir : Option Path) (w : World) (f : GenFile)
    (h : w.fs.files (targetPath outDir f.path) = some f.contents) :
    writeGenerated outDir w f = (w, .untouched) ∧
    ∀ rest, writeFiles outDir (f :: rest) w = writeFiles outDir rest w := by
  have h1 : writeGenerated outDir w f = (w, .untouched) := by simp [writeGenerated, h]
  refine ⟨h1, ?_⟩
  intro rest
  simp [writeFiles, h1]

/-- …and over a whole run: a file that exists with content `c`, and at which accepted replies aim only
    content `c`, is never created or written by the loop, whatever else the generators do. -/
theorem identical_files_survive (outDir : Option Path) (payload : Bytes) (gens : List GenRun) (w : World)
    (p : Path) (c : Bytes) (hp : w.fs.files p = some c)
    (hsame : ∀ g ∈ gens, ∀ f ∈ g.files, targetPath outDir f.path = p → f.contents = c) :
    (loop outDir payload gens w).1.fs.files p = some c ∧
    ∀ pc ∈ (loop outDir payload gens w).1.writes, pc ∈ w.writes ∨ pc.1 ≠ p := by
  unfold loop
  rw [collectAll_eq_fold]
  induction gens generalizing w with
  | nil => exact ⟨hp, fun pc h => Or.inl h⟩
  | cons g rest ih =>
    simp only [foldGens]
    have step : (applyGen outDir w g).1.fs.files p = some c ∧
        ∀ pc ∈ (applyGen outDir w g).1.writes, pc ∈ w.writes ∨ pc.1 ≠ p := by
      cases hf : g.failed
      · rw [applyGen_ok outDir w g hf]
        exact writeFiles_stable outDir g.files _ p c hp (hsame g (by simp))
      · rw [applyGen_failed outDir w g hf]
        exact ⟨hp, fun pc h => Or.inl h⟩
    obtain ⟨h1, h2⟩ := step
    obtain ⟨h3, h4⟩ := ih (applyGen outDir w g).1 h1 (fun g' hg' => hsame g' (List.mem_cons_of_mem _ hg'))
    refine ⟨h3, ?_⟩
    intro pc hpc
    rcases h4 pc hpc with h | h
    · exact h2 pc h
    · exact Or.inr h

/-- every write the loop performs changes the file: content that is already there is never rewritten -/
theorem writes_change_content (outDir : Option Path) (w : World) (f : GenFile) (pc : Path × Bytes)
    (h : pc ∈ (writeGenerated outDir w f).1.writes) : pc ∈ w.writes ∨ w.fs.files pc.1 ≠ some pc.2 := by
  rcases writeGenerated_writes outDir w f pc h with h | ⟨_, h⟩
  · exact Or.inl h
  · exact Or.inr h

/-- Relative paths are placed below the output directory: the target is the directory, a separator
    unless the directory is empty or already ends with one, and the path as the generator gave it. -/
theorem relative_below_outdir (dir p : Path) (h : isAbsolute p = false) :
    ∃ sep, (sep = [] ∨ sep = [slash]) ∧ targetPath (some dir) p = dir ++ sep ++ p := by
  unfold targetPath joinPath
  simp only [h, Bool.false_eq_true, if_false]
  split
  · exact ⟨[], Or.inl rfl, by simp⟩
  · exact ⟨[slash], Or.inr rfl, rfl⟩

/-! ### non-vacuity -/

private def g0 : Generator := ⟨[0x67, 0x30], []⟩
private def g1 : Generator := ⟨[0x67, 0x31], [([0x6b], [0x76])]⟩
private def emptyFs : FileSystem := ⟨fun _ => none, fun _ => false⟩
/-- reply with one file `a` = `x` and no diagnostics -/
private def okReply : Bytes := [4, 4, 0x61, 4, 0x78, 0xFC, 0]

/-- killed by a signal, then a good generator: one E001 naming g0, g1's file is written, status 1 -/
example :
    let r := mainFlow ⟨false, some [0x6f], []⟩ [] (some [0xAA]) [⟨g0, .signalled [] okReply⟩, ⟨g1, .exited 0 [] okReply⟩] emptyFs
    r.status = 1 ∧ r.diags.map (·.1) = [.io .runGenerator [0x67, 0x30]] ∧
    r.world.writes = [([0x6f, 0x2F, 0x61], [0x78])] ∧
    r.requests.map (·.2) = [[0xAA, 0], [0xAA, 4, 4, 0x6b, 4, 0x76]] := by
  decide

/-- the reply truncated by one byte is not half-trusted: nothing is written -/
example :
    let r := mainFlow ⟨false, none, []⟩ [] (some []) [⟨g0, .exited 0 [] (okReply.take 6)⟩] emptyFs
    r.status = 1 ∧ r.world.writes = [] := by
  decide

/-- identical content: no write; different content: one write -/
example :
    let fs : FileSystem := ⟨fun p => if p = [0x61] then some [0x78] else none, fun _ => false⟩
    (mainFlow ⟨false, none, []⟩ [] (some []) [⟨g0, .exited 0 [] okReply⟩] fs).world.writes = [] ∧
    (mainFlow ⟨false, none, []⟩ [] (some []) [⟨g0, .exited 0 [] okReply⟩] emptyFs).world.writes = [([0x61], [0x78])] := by
  decide

end Slicec.C18

#print axioms Slicec.C18.accepted_iff
#print axioms Slicec.C18.each_failure_reported
#print axioms Slicec.C18.other_diagnostics_are_write_errors
#print axioms Slicec.C18.others_honoured
#print axioms Slicec.C18.independent_of_failing
#print axioms Slicec.C18.exit_nonzero_if_any_failed
#print axioms Slicec.C18.same_request
#print axioms Slicec.C18.requests_share_payload
#print axioms Slicec.C18.undecodable_reply_changes_nothing
#print axioms Slicec.C18.written_only_from_decoded_reply
#print axioms Slicec.C18.identical_file_untouched
#print axioms Slicec.C18.identical_files_survive
#print axioms Slicec.C18.writes_change_content
#print axioms Slicec.C18.relative_below_outdir
