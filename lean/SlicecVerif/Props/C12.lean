/-
  C12 — Output targets act as an append-only byte log with safe reservations.
  All statements quantify over arbitrary states / arbitrary histories (induction over the op list).
-/
import SlicecVerif.Lemmas.Buffers

namespace Slicec.C12

open Slicec

/-- invariant of the fixed-slice target over a buffer of `cap` bytes whose initial content is `init`:
    the length never changes, the cursor is in range, every issued reservation lies below the cursor,
    issued reservations are pairwise disjoint (ordered), and the bytes at and above the cursor still
    hold their initial content. -/
structure Inv (init : Bytes) (st : SliceSt) : Prop where
  len : st.tgt.buf.length = init.length
  pos : st.tgt.pos ≤ init.length
  below : ∀ r ∈ st.res, r.start ≤ r.stop ∧ r.stop ≤ st.tgt.pos
  disjoint : st.res.Pairwise (fun a b => a.stop ≤ b.start)
  tail : st.tgt.buf.drop st.tgt.pos = init.drop st.tgt.pos

/-- a history without forged reservations -/
def honest : OutOp → Prop
  | .foreign _ _ _ => False
  | _ => True

/-- failure atomicity: an operation that reports an error (or names no reservation) changes neither
    the contents nor the position nor any reservation. -/
theorem fail_unchanged (st : SliceSt) (op : OutOp) (h : ∀ a b, (st.step op).2 ≠ .okRes a b) (h' : (st.step op).2 ≠ .ok) :
    (st.step op).1 = st := by
  cases op with
  | write bs =>
    simp only [SliceSt.step] at *
    split <;> simp_all
  | reserve k =>
    simp only [SliceSt.step] at *
    split <;> simp_all
  | resv i bs =>
    simp only [SliceSt.step] at *
    split
    · rfl
    · split <;> simp_all
  | foreign a b bs =>
    simp only [SliceSt.step] at *
    split <;> simp_all

/-- frame of an append: a successful write changes exactly `buf[pos, pos+len)`; every other byte,
    below and above, is untouched, and the new bytes are the ones written. -/
theorem write_frame (s s' : SliceOut) (bs : Bytes) (hp : s.pos ≤ s.buf.length) (h : s.write bs = .ok s') :
    s'.pos = s.pos + bs.length ∧ s'.pos ≤ s.buf.length ∧ s'.buf.length = s.buf.length ∧
    (∀ j, j < s.pos ∨ s.pos + bs.length ≤ j → s'.buf[j]? = s.buf[j]?) ∧
    (∀ j, j < bs.length → s'.buf[s.pos + j]? = bs[j]?) := by
  unfold SliceOut.write SliceOut.remaining at h
  split at h
  · simp at h
  · simp at h; subst h
    have hb : s.pos + bs.length ≤ s.buf.length := by omega
    refine ⟨rfl, hb, splice_length _ _ _ hb, ?_, ?_⟩
    · intro j hj
      rcases hj with hj | hj
      · exact splice_get_before _ _ _ _ hj hb
      · exact splice_get_after _ _ _ _ hj hb
    · intro j hj; exact splice_get_inside _ _ _ _ hj hb

/-- writes into a reservation — any range, issued or forged — are in bounds or refused: a successful one
    changes exactly `buf[start, start+len)`, which lies inside the range and inside the buffer, leaves
    every other byte and the cursor alone, and shrinks the range from the front. -/
theorem reserved_write_frame (s s' : SliceOut) (r r' : Res) (bs : Bytes) (h : s.writeRes r bs = .ok (s', r')) :
    r.start + bs.length ≤ r.stop ∧ r.stop ≤ s.buf.length ∧ s'.pos = s.pos ∧
    r' = ⟨r.start + bs.length, r.stop⟩ ∧ s'.buf.length = s.buf.length ∧
    (∀ j, j < r.start ∨ r.start + bs.length ≤ j → s'.buf[j]? = s.buf[j]?) ∧
    (∀ j, j < bs.length → s'.buf[r.start + j]? = bs[j]?) := by
  unfold SliceOut.writeRes at h
  split at h
  · simp at h
  · split at h
    · simp at h
    · simp at h; obtain ⟨rfl, rfl⟩ := h
      have hb : r.start + bs.length ≤ s.buf.length := by omega
      refine ⟨by omega, by omega, rfl, rfl, splice_length _ _ _ hb, ?_, ?_⟩
      · intro j hj
        rcases hj with hj | hj
        · exact splice_get_before _ _ _ _ hj hb
        · exact splice_get_after _ _ _ _ hj hb
      · intro j hj; exact splice_get_inside _ _ _ _ hj hb

/-- the fixed-slice target never changes the length of its buffer and never moves the cursor past the end,
    for every operation including forged reservations. -/
theorem length_constant (st : SliceSt) (op : OutOp) (hp : st.tgt.pos ≤ st.tgt.buf.length) :
    (st.step op).1.tgt.buf.length = st.tgt.buf.length ∧ (st.step op).1.tgt.pos ≤ st.tgt.buf.length := by
  cases op with
  | write bs =>
    simp only [SliceSt.step]
    cases hw : st.tgt.write bs with
    | error e => exact ⟨rfl, hp⟩
    | ok t => obtain ⟨_, h2, h3, _⟩ := write_frame _ _ _ hp hw; exact ⟨h3, h2⟩
  | reserve k =>
    simp only [SliceSt.step]
    cases hw : st.tgt.reserve k with
    | error e => exact ⟨rfl, hp⟩
    | ok p =>
      obtain ⟨t, r⟩ := p
      obtain ⟨h1, rfl, rfl⟩ := reserve_ok _ _ _ _ hw
      exact ⟨rfl, by simp; omega⟩
  | resv i bs =>
    simp only [SliceSt.step]
    cases hr : st.res[i]? with
    | none => exact ⟨rfl, hp⟩
    | some r =>
      simp only
      cases hw : st.tgt.writeRes r bs with
      | error e => exact ⟨rfl, hp⟩
      | ok p =>
        obtain ⟨t, r'⟩ := p
        obtain ⟨_, _, h3, _, h5, _⟩ := reserved_write_frame _ _ _ _ _ hw
        exact ⟨h5, by simp [h3, hp]⟩
  | foreign a b bs =>
    simp only [SliceSt.step]
    cases hw : st.tgt.writeRes ⟨a, b⟩ bs with
    | error e => exact ⟨rfl, hp⟩
    | ok p =>
      obtain ⟨t, r'⟩ := p
      obtain ⟨_, _, h3, _, h5, _⟩ := reserved_write_frame _ _ _ _ _ hw
      exact ⟨h5, by simp [h3, hp]⟩

/-- one step of an honest history preserves the invariant. -/
theorem step_inv (init : Bytes) (st : SliceSt) (op : OutOp) (ho : honest op) (hi : Inv init st) :
    Inv init (st.step op).1 := by
  obtain ⟨hlen, hpos, hbelow, hdis, htail⟩ := hi
  cases op with
  | foreign a b bs => exact absurd ho (by simp [honest])
  | write bs =>
    simp only [SliceSt.step]
    cases hw : st.tgt.write bs with
    | error e => exact ⟨hlen, hpos, hbelow, hdis, htail⟩
    | ok t =>
      obtain ⟨h1, rfl⟩ := write_ok _ _ _ hw
      have hb : st.tgt.pos + bs.length ≤ st.tgt.buf.length := by omega
      refine ⟨by simp [splice_length _ _ _ hb, hlen], by simp; omega, ?_, hdis, ?_⟩
      · intro r hr; have := hbelow r hr; simp; omega
      · simp only
        rw [splice_drop_ge _ _ _ _ (Nat.le_refl _) hb]
        rw [← List.drop_drop, ← List.drop_drop, htail]
  | reserve k =>
    simp only [SliceSt.step]
    cases hw : st.tgt.reserve k with
    | error e => exact ⟨hlen, hpos, hbelow, hdis, htail⟩
    | ok p =>
      obtain ⟨t, r⟩ := p
      obtain ⟨h1, rfl, rfl⟩ := reserve_ok _ _ _ _ hw
      refine ⟨hlen, by simp; omega, ?_, ?_, ?_⟩
      · intro r hr
        simp only [List.mem_append, List.mem_singleton] at hr
        rcases hr with hr | rfl
        · have := hbelow r hr; simp; omega
        · simp
      · rw [List.pairwise_append]
        refine ⟨hdis, by simp, ?_⟩
        intro a ha b hb
        simp only [List.mem_singleton] at hb; subst hb
        exact (hbelow a ha).2
      · simp only
        rw [← List.drop_drop, ← List.drop_drop, htail]
  | resv i bs =>
    simp only [SliceSt.step]
    cases hr : st.res[i]? with
    | none => exact ⟨hlen, hpos, hbelow, hdis, htail⟩
    | some r =>
      simp only
      have hrm := List.mem_of_getElem? hr
      have hrb := hbelow r hrm
      cases hw : st.tgt.writeRes r bs with
      | error e => exact ⟨hlen, hpos, hbelow, hdis, htail⟩
      | ok p =>
        obtain ⟨t, r'⟩ := p
        obtain ⟨h1, h2, h3, h4, h5, h6, _⟩ := reserved_write_frame _ _ _ _ _ hw
        subst h4
        refine ⟨by simp [h5, hlen], by simp [h3, hpos], ?_, ?_, ?_⟩
        · intro q hq
          simp only [h3]
          rcases List.mem_or_eq_of_mem_set hq with hq | rfl
          · exact hbelow q hq
          · simp; omega
        · exact pairwise_set _ _ _ _ _ hr hdis (fun z hz => by simp at hz ⊢; omega) (fun z hz => hz)
        · simp only [h3]
          apply List.ext_getElem?
          intro j
          rw [List.getElem?_drop, h6 _ (Or.inr (by omega)), ← List.getElem?_drop, htail]

/-- the invariant holds after every honest history, from a fresh target. -/
theorem run_inv (init : Bytes) (ops : List OutOp) (ho : ∀ o ∈ ops, honest o) :
    Inv init (SliceSt.run ⟨⟨init, 0⟩, []⟩ ops) := by
  have base : Inv init ⟨⟨init, 0⟩, []⟩ := ⟨rfl, by simp, by simp, by simp, rfl⟩
  suffices ∀ st, Inv init st → Inv init (SliceSt.run st ops) from this _ base
  induction ops with
  | nil => intro st h; exact h
  | cons o ops ih =>
    intro st h
    exact ih (fun x hx => ho x (by simp [hx])) _ (step_inv init st o (ho o (by simp)) h)

/-! ### refinement to an append-only log (honest histories) -/

/-- the abstract log: the bytes below the cursor -/
def abs (st : SliceSt) : Bytes := st.tgt.buf.take st.tgt.pos

/-- the specification: appends append, a reservation claims the next `k` bytes (holding whatever the
    buffer held there initially), a reserved write overwrites the front of its range inside the log -/
def specStep (init : Bytes) (log : Bytes) (res : List Res) : OutOp → Bytes
  | .write bs => if init.length - log.length < bs.length then log else log ++ bs
  | .reserve k => if init.length - log.length < k then log else log ++ (init.drop log.length).take k
  | .resv i bs =>
    match res[i]? with
    | none => log
    | some r => if r.stop - r.start < bs.length then log else splice log r.start bs
  | .foreign _ _ _ => log

theorem step_refines (init : Bytes) (st : SliceSt) (op : OutOp) (ho : honest op) (hi : Inv init st) :
    abs (st.step op).1 = specStep init (abs st) st.res op := by
  obtain ⟨hlen, hpos, hbelow, hdis, htail⟩ := hi
  have habs : (abs st).length = st.tgt.pos := by simp [abs]; omega
  cases op with
  | foreign a b bs => exact absurd ho (by simp [honest])
  | write bs =>
    simp only [SliceSt.step, specStep, habs]
    cases hw : st.tgt.write bs with
    | error e =>
      unfold SliceOut.write SliceOut.remaining at hw
      split at hw
      · rw [if_pos (by omega)]
      · simp at hw
    | ok t =>
      obtain ⟨h1, rfl⟩ := write_ok _ _ _ hw
      have hb : st.tgt.pos + bs.length ≤ st.tgt.buf.length := by omega
      rw [if_neg (by omega)]
      simp only [abs]
      exact splice_take_end _ _ _ hb
  | reserve k =>
    simp only [SliceSt.step, specStep, habs]
    cases hw : st.tgt.reserve k with
    | error e =>
      unfold SliceOut.reserve SliceOut.remaining at hw
      split at hw
      · rw [if_pos (by omega)]
      · simp at hw
    | ok p =>
      obtain ⟨t, r⟩ := p
      obtain ⟨h1, rfl, rfl⟩ := reserve_ok _ _ _ _ hw
      rw [if_neg (by omega)]
      simp only [abs]
      rw [← htail, List.take_add]
  | resv i bs =>
    simp only [SliceSt.step, specStep]
    cases hr : st.res[i]? with
    | none => rfl
    | some r =>
      simp only
      have hrb := hbelow r (List.mem_of_getElem? hr)
      cases hw : st.tgt.writeRes r bs with
      | error e =>
        unfold SliceOut.writeRes at hw
        split at hw
        · omega
        · split at hw
          · rw [if_pos (by assumption)]
          · simp at hw
      | ok p =>
        obtain ⟨t, r'⟩ := p
        obtain ⟨h1, h2, h3, h4, h5, h6, h7⟩ := reserved_write_frame _ _ _ _ _ hw
        rw [if_neg (by omega)]
        simp only [abs, h3]
        have hb' : r.start + bs.length ≤ (st.tgt.buf.take st.tgt.pos).length := by simp; omega
        apply List.ext_getElem?
        intro j
        simp only [List.getElem?_take]
        by_cases hj : j < st.tgt.pos
        · simp only [hj, if_true]
          by_cases h1' : j < r.start
          · rw [h6 _ (Or.inl h1'), splice_get_before _ _ _ _ h1' hb']; simp [hj]
          · by_cases h2' : r.start + bs.length ≤ j
            · rw [h6 _ (Or.inr h2'), splice_get_after _ _ _ _ h2' hb']; simp [hj]
            · obtain ⟨d, rfl⟩ : ∃ d, j = r.start + d := ⟨j - r.start, by omega⟩
              rw [h7 _ (by omega), splice_get_inside _ _ _ _ (by omega) hb']
        · simp only [hj, if_false]
          have : (splice (st.tgt.buf.take st.tgt.pos) r.start bs).length = st.tgt.pos := by
            rw [splice_length _ _ _ hb']; simp; omega
          rw [List.getElem?_eq_none (by omega)]

/-! ### growable target -/

/-- appends and reservations on the growable target only ever extend the vector; a reservation is the
    `k` zero bytes just appended. -/
theorem vec_append_only (s : VecOut) (bs : Bytes) (k : Nat) :
    (s.write bs).buf = s.buf ++ bs ∧
    (s.reserve k).1.buf = s.buf ++ List.replicate k 0 ∧ (s.reserve k).2 = ⟨s.buf.length, s.buf.length + k⟩ := by
  simp [VecOut.write, VecOut.reserve]

theorem vec_reserved_write_frame (s s' : VecOut) (r r' : Res) (bs : Bytes) (h : s.writeRes r bs = .ok (s', r')) :
    r.start + bs.length ≤ r.stop ∧ r.stop ≤ s.buf.length ∧
    r' = ⟨r.start + bs.length, r.stop⟩ ∧ s'.buf.length = s.buf.length ∧
    (∀ j, j < r.start ∨ r.start + bs.length ≤ j → s'.buf[j]? = s.buf[j]?) ∧
    (∀ j, j < bs.length → s'.buf[r.start + j]? = bs[j]?) := by
  unfold VecOut.writeRes at h
  split at h
  · simp at h
  · split at h
    · simp at h
    · simp at h; obtain ⟨rfl, rfl⟩ := h
      have hb : r.start + bs.length ≤ s.buf.length := by omega
      refine ⟨by omega, by omega, rfl, splice_length _ _ _ hb, ?_, ?_⟩
      · intro j hj
        rcases hj with hj | hj
        · exact splice_get_before _ _ _ _ hj hb
        · exact splice_get_after _ _ _ _ hj hb
      · intro j hj; exact splice_get_inside _ _ _ _ hj hb

/-- the growable target never shrinks: after ANY operation — failed ones and writes through forged
    reservations included — the vector is at least as long as before. -/
theorem vec_step_length_monotone (st : VecSt) (op : OutOp) :
    st.tgt.buf.length ≤ (st.step op).1.tgt.buf.length := by
  cases op with
  | write bs => simp [VecSt.step, VecOut.write]
  | reserve k => simp [VecSt.step, VecOut.reserve]
  | resv i bs =>
    simp only [VecSt.step]
    cases hr : st.res[i]? with
    | none => simp
    | some r =>
      simp only
      cases hw : st.tgt.writeRes r bs with
      | error e => simp
      | ok p =>
        obtain ⟨t, r'⟩ := p
        have := (vec_reserved_write_frame st.tgt t r r' bs hw).2.2.2.1
        simp only
        omega
  | foreign a b bs =>
    simp only [VecSt.step]
    cases hw : st.tgt.writeRes ⟨a, b⟩ bs with
    | error e => simp
    | ok p =>
      obtain ⟨t, r'⟩ := p
      have := (vec_reserved_write_frame st.tgt t ⟨a, b⟩ r' bs hw).2.2.2.1
      simp only
      omega

/-- … hence over every history, of any length, with any mixture of operations: the log is never
    truncated. -/
theorem vec_run_length_monotone (ops : List OutOp) : ∀ st : VecSt,
    st.tgt.buf.length ≤ (st.run ops).tgt.buf.length := by
  induction ops with
  | nil => intro st; simp [VecSt.run]
  | cons o os ih =>
    intro st
    have h1 := vec_step_length_monotone st o
    have h2 := ih (st.step o).1
    simp only [VecSt.run, List.foldl_cons] at h2 ⊢
    omega

/-- non-vacuity: a history with a write, a reservation, a partial fill and a forged range -/
example : ((⟨⟨[1]⟩, []⟩ : VecSt).run [.write [2], .reserve 2, .resv 0 [9], .foreign 0 1 [7], .foreign 5 9 [7]]).tgt.buf = [7, 2, 9, 0] := by
  decide

/-! ### the write position of the fixed-slice target only moves forward -/

theorem slice_write_pos (s t : SliceOut) (bs : Bytes) (h : s.write bs = .ok t) : s.pos ≤ t.pos := by
  unfold SliceOut.write at h
  by_cases c : s.remaining < bs.length
  · simp [c] at h
  · simp only [c, if_false] at h; injection h with h; subst h; simp

theorem slice_reserve_pos (s t : SliceOut) (k : Nat) (r : Res) (h : s.reserve k = .ok (t, r)) : s.pos ≤ t.pos := by
  unfold SliceOut.reserve at h
  by_cases c : s.remaining < k
  · simp [c] at h
  · simp only [c, if_false] at h; injection h with h; injection h with h1 _; subst h1; simp

theorem slice_writeRes_pos (s t : SliceOut) (r r' : Res) (bs : Bytes) (h : s.writeRes r bs = .ok (t, r')) :
    t.pos = s.pos := by
  unfold SliceOut.writeRes at h
  by_cases c1 : r.stop < r.start ∨ s.buf.length < r.stop
  · simp [c1] at h
  · by_cases c2 : r.stop - r.start < bs.length
    · simp [c1, c2] at h
    · simp only [c1, c2, if_false] at h; injection h with h; injection h with h1 _; subst h1; rfl

/-- after ANY operation on the fixed-slice target — failed ones and forged reservations included — the
    position is at least what it was: nothing already logged can be "un-written" by moving the cursor back. -/
theorem slice_step_pos_monotone (st : SliceSt) (op : OutOp) : st.tgt.pos ≤ (st.step op).1.tgt.pos := by
  cases op with
  | write bs =>
    simp only [SliceSt.step]
    cases h : st.tgt.write bs with
    | error e => simp
    | ok t => exact slice_write_pos _ _ _ h
  | reserve k =>
    simp only [SliceSt.step]
    cases h : st.tgt.reserve k with
    | error e => simp
    | ok p => obtain ⟨t, r⟩ := p; exact slice_reserve_pos _ _ _ _ h
  | resv i bs =>
    simp only [SliceSt.step]
    cases hr : st.res[i]? with
    | none => simp
    | some r =>
      simp only
      cases h : st.tgt.writeRes r bs with
      | error e => simp
      | ok p => obtain ⟨t, r'⟩ := p; exact Nat.le_of_eq (slice_writeRes_pos _ _ _ _ _ h).symm
  | foreign a b bs =>
    simp only [SliceSt.step]
    cases h : st.tgt.writeRes ⟨a, b⟩ bs with
    | error e => simp
    | ok p => obtain ⟨t, r'⟩ := p; exact Nat.le_of_eq (slice_writeRes_pos _ _ _ _ _ h).symm

/-- … hence over every history. -/
theorem slice_run_pos_monotone (ops : List OutOp) : ∀ st : SliceSt, st.tgt.pos ≤ (st.run ops).tgt.pos := by
  induction ops with
  | nil => intro st; simp [SliceSt.run]
  | cons o os ih =>
    intro st
    have h1 := slice_step_pos_monotone st o
    have h2 := ih (st.step o).1
    simp only [SliceSt.run, List.foldl_cons] at h2 ⊢
    omega

/-! ### input source -/

/-- reads yield exactly `buf[pos, pos+k)` and advance by `k`; peeks never advance; the cursor stays in
    range; a failed read leaves the cursor (no state is returned). -/
theorem source_read (s : SliceIn) (k : Nat) (hp : s.pos ≤ s.buf.length) :
    (∀ bs, s.peek k = .ok bs → bs.length = k ∧ s.pos + k ≤ s.buf.length ∧ ∀ j, j < k → bs[j]? = s.buf[s.pos + j]?) ∧
    (∀ bs s', s.read k = .ok (bs, s') → s.peek k = .ok bs ∧ s'.pos = s.pos + k ∧ s'.buf = s.buf ∧ s'.pos ≤ s'.buf.length) := by
  constructor
  · intro bs h
    unfold SliceIn.peek SliceIn.remaining at h
    split at h
    · simp at h
    · simp at h; subst h
      refine ⟨by simp; omega, by omega, ?_⟩
      intro j hj
      simp [List.getElem?_take, hj, List.getElem?_drop]
  · intro bs s' h
    unfold SliceIn.read at h
    split at h
    · simp at h
    · rename_i b hb
      simp at h; obtain ⟨rfl, rfl⟩ := h
      refine ⟨hb, rfl, rfl, ?_⟩
      unfold SliceIn.peek SliceIn.remaining at hb
      split at hb
      · simp at hb
      · simp; omega

/-! non-vacuity: a history with a write, a reservation, a partial fill and an overflowing write -/
example :
    let st := SliceSt.run ⟨⟨[9, 9, 9, 9, 9], 0⟩, []⟩ [.write [1], .reserve 2, .write [4], .resv 0 [7], .write [5, 6], .resv 0 [8]]
    st.tgt.buf = [1, 7, 8, 4, 9] ∧ st.tgt.pos = 4 ∧ st.res = [⟨3, 3⟩] := by decide

end Slicec.C12

#print axioms Slicec.C12.fail_unchanged
#print axioms Slicec.C12.length_constant
#print axioms Slicec.C12.write_frame
#print axioms Slicec.C12.reserved_write_frame
#print axioms Slicec.C12.step_inv
#print axioms Slicec.C12.run_inv
#print axioms Slicec.C12.step_refines
#print axioms Slicec.C12.vec_append_only
#print axioms Slicec.C12.vec_reserved_write_frame
#print axioms Slicec.C12.source_read
#print axioms Slicec.C12.vec_step_length_monotone
#print axioms Slicec.C12.vec_run_length_monotone
#print axioms Slicec.C12.slice_write_pos
#print axioms Slicec.C12.slice_reserve_pos
#print axioms Slicec.C12.slice_writeRes_pos
#print axioms Slicec.C12.slice_step_pos_monotone
#print axioms Slicec.C12.slice_run_pos_monotone
