/-
  C08 — The encoded generator request is decodable and says what the AST says.

  Objects: `convert` / `encodeRequest` (Model/Request.lean) mirror slice_file_converter.rs / definition_types.rs /
  `encode_generate_code_request`; their field orders, discriminants and request shape are the tables of
  `Gen.EncoderShapes`, regenerated from the Rust source on every run. `decodeBySchema` / `decodeCall`
  (Model/SchemaCodec.lean) is a generic Slice reader driven by `Gen.CompilerSchema`, regenerated from
  slice/Compiler/*.slice by an independent mini-parser. The model's bytes are compared byte for byte with the real
  encoder's on every run (Drv/C08.lean, harness/src/proj_c08.rs, procrun/c08.py).
-/
import SlicecVerif.Lemmas.Request

namespace Slicec.C08

open Slicec

/-! ## the two sources agree on shapes (generated obligations) -/

/-- Rust `snake_case` → Slice `camelCase` -/
def camelCase (s : String) : String :=
  let rec go : List Char → Bool → List Char
    | [], _ => []
    | '_' :: cs, _ => go cs true
    | c :: cs, up => (if up then c.toUpper else c) :: go cs false
  String.ofList (go s.toList false)

def schemaFieldNames (n : String) : Option (List String) :=
  (Gen.schemaStructs.find? (fun s => s.name == n)).map fun s => s.fields.map (·.name)

/-- For every struct encoded by `implement_encode_into_for_struct!`, the macro's field list — the order in which the
    fields are written — is exactly the field order of the struct of the same name in slice/Compiler/*.slice. -/
theorem field_order_matches_schema :
    ∀ e ∈ Gen.macroEncoders, schemaFieldNames e.1 = some (e.2.map camelCase) := by decide

/-- …and the macro lists the fields in the order the Rust struct declares them, with the declared types. -/
theorem macro_order_is_declaration_order :
    ∀ e ∈ Gen.macroEncoders, (Gen.rustStructs.find? (fun s => s.name == e.1)).map (fun s => s.fields.map (·.1)) = some e.2 := by
  decide

/-- The five hand-written encoders write what the model mirrors by hand: the bit-sequence bool first, the fields in
    schema order, an optional field only when set, the tag end marker last; discriminant, payload, tag end marker for
    the two enums; size then pairs for the arguments. (Textual order of the `encoder.encode*` calls.) -/
theorem manual_encoder_shapes :
    Gen.manualEncoders =
      [("EntityInfo", ["encode:self.comment.is_some()", "encode:&self.identifier", "encode:&self.attributes", "encode:comment_value", "encode_varint:TAG_END_MARKER"]),
       ("Field", ["encode:self.tag.is_some()", "encode:&self.entity_info", "encode_varint:tag_value", "encode:&self.data_type", "encode_varint:TAG_END_MARKER"]),
       ("MessageComponent", ["encode_varint:discriminant", "encode:v", "encode:v", "encode_varint:TAG_END_MARKER"]),
       ("Arguments", ["encode_size:self.0.len()", "encode:e1", "encode:e2"]),
       ("Symbol", ["encode_varint:discriminant", "encode:v", "encode:v", "encode:v", "encode:v", "encode:v", "encode:v", "encode:v", "encode:v", "encode:v", "encode_varint:TAG_END_MARKER"])] ∧
    Gen.encoderTagEndMarker = Gen.tagEndMarker := by decide

def rustDiscriminants (n : String) : Option (List (String × Int)) :=
  (Gen.rustEnums.find? (fun e => e.name == n)).map fun e => e.variants.map fun v => (v.name, (v.disc : Int))

def schemaDiscriminants (n : String) : Option (List (String × Int)) :=
  (Gen.schemaEnums.find? (fun e => e.name == n)).map fun e => (e.variants.map (·.name)).zip (variantValues 0 e.variants)

/-- The `repr(u8)` discriminants of the two enums that travel in the request are the enumerator values of the schema
    (same names, same order, same numbers), each with exactly one payload of the schema's type name. -/
theorem discriminants_match_schema :
    ∀ n ∈ ["Symbol", "MessageComponent"], rustDiscriminants n = schemaDiscriminants n ∧ (rustDiscriminants n).isSome := by decide

/-- The request is the operation name of the schema's only operation, then its first two parameters — sources before
    references — and the generator's arguments are its third parameter. -/
theorem request_shape_matches_schema :
    Gen.schemaOps.map (fun o => (o.name, o.params.map (·.name))) = [(Gen.requestOpName, ["sourceFiles", "referenceFiles", "args"])] ∧
    Gen.requestVectors = ["sources", "references"] ∧ Gen.requestThenArguments = true := by decide

/-! ## numeric type ids -/

/-- Every numeric type id `j` emitted for symbol `i` of a transmitted file satisfies `j < i`, and symbol `j` of that file
    is a Sequence / Dictionary / Result symbol. For every program, every source/reference split, either reading of the
    parameter documentation. (Induction over the conversion, which threads the growing symbol vector.) -/
theorem numeric_ids_backward (mode : DocMode) (fs : List ReqFile) (srcs refs : List SliceFileV)
    (h : convert mode fs = some (srcs, refs)) :
    ∀ f ∈ srcs ++ refs, ∀ (i : Nat) (s : SymbolV), f.contents[i]? = some s → ∀ r ∈ s.trefs, ∀ j, r.typeId = .anon j →
      j < i ∧ ∃ s', f.contents[j]? = some s' ∧ s'.isAnon = true := by
  unfold convert at h
  split at h
  · cases h
  · rename_i vs hvs
    simp only [Option.some.injEq, Prod.mk.injEq] at h
    obtain ⟨rfl, rfl⟩ := h
    intro f hf
    have hmem : ∃ p ∈ vs, p.2 = f := by
      simp only [List.mem_append, List.mem_map, List.mem_filter] at hf
      rcases hf with ⟨p, ⟨hp, _⟩, rfl⟩ | ⟨p, ⟨hp, _⟩, rfl⟩ <;> exact ⟨p, hp, rfl⟩
    obtain ⟨p, hp, rfl⟩ := hmem
    intro i s hs r hr j hj
    exact convertAll_symsOK mode _ fs vs hvs p hp i s hs r hr j hj

/-- a numeric id is written in decimal digits only, so a reader can tell it from every keyword and scoped identifier
    (which start with a letter or `:`) -/
theorem numeric_id_is_decimal (j : Nat) : (toString j).toList.all Char.isDigit = true ∧ (toString j).toList ≠ [] := by
  have e : (toString j).toList = Nat.toDigits 10 j := Nat.toList_repr
  rw [e]
  refine ⟨?_, Nat.toDigits_ne_nil⟩
  simp only [List.all_eq_true]
  intro c hc
  exact Nat.isDigit_of_mem_toDigits (by decide) (by decide) hc

/-! ## the stream decodes, field by field according to the schema -/

/-- Generic: for EVERY schema, type, value and trailing bytes, the schema-driven reader gives back what the
    schema-driven writer wrote and leaves exactly the trailing bytes. -/
theorem schema_codec_roundtrip (S : Schema) (fuel : Nat) (ty : Gen.STy) (v : SVal) (bs rest : Bytes)
    (h : encTy S fuel ty v = some bs) : decTy S fuel ty (bs ++ rest) = .ok (v, rest) :=
  decTy_encTy S fuel ty v bs rest h

/-- leaf round trips through the schema decoder: what the Rust-order encoder of an `Attribute` writes, read as the
    schema's `Attribute`, is that attribute, with exact consumption -/
theorem attribute_roundtrip (a : AttributeV) (bs rest : Bytes) (h : encodeAttribute a = some bs) :
    decodeBySchema CS "Attribute" (bs ++ rest) = .ok (toValAttribute a, rest) := by
  rw [← mirror_Attribute schemaFuel (by decide)] at h; exact decTy_encTy _ _ _ _ _ _ h

theorem typeRef_roundtrip (r : TypeRefV) (bs rest : Bytes) (h : encodeTypeRef r = some bs) :
    decodeBySchema CS "TypeRef" (bs ++ rest) = .ok (toValTypeRef r, rest) := by
  rw [← mirror_TypeRef schemaFuel (by decide)] at h; exact decTy_encTy _ _ _ _ _ _ h

theorem docComment_roundtrip (d : DocCommentV) (bs rest : Bytes) (h : encodeDocComment d = some bs) :
    decodeBySchema CS "DocComment" (bs ++ rest) = .ok (toValDocComment d, rest) := by
  rw [← mirror_DocComment schemaFuel (by decide)] at h; exact decTy_encTy _ _ _ _ _ _ h

/-- optional field through the bit sequence: `comment` present or absent -/
theorem entityInfo_roundtrip (e : EntityInfoV) (bs rest : Bytes) (h : encodeEntityInfo e = some bs) :
    decodeBySchema CS "EntityInfo" (bs ++ rest) = .ok (toValEntityInfo e, rest) := by
  rw [← mirror_EntityInfo schemaFuel (by decide)] at h; exact decTy_encTy _ _ _ _ _ _ h

/-- optional `tag: varint32?` in the middle of the field list -/
theorem field_roundtrip (f : FieldV) (bs rest : Bytes) (h : encodeField f = some bs) :
    decodeBySchema CS "Field" (bs ++ rest) = .ok (toValField f, rest) := by
  rw [← mirror_Field schemaFuel (by decide)] at h; exact decTy_encTy _ _ _ _ _ _ h

/-- variants: varint discriminant, the payload as a struct body, tag end marker -/
theorem symbol_roundtrip (s : SymbolV) (bs rest : Bytes) (h : encodeSymbol s = some bs) :
    decodeBySchema CS "Symbol" (bs ++ rest) = .ok (toValSymbol s, rest) := by
  rw [← mirror_Symbol schemaFuel (by decide)] at h; exact decTy_encTy _ _ _ _ _ _ h

theorem sliceFile_roundtrip (f : SliceFileV) (bs rest : Bytes) (h : encodeSliceFile f = some bs) :
    decodeBySchema CS "SliceFile" (bs ++ rest) = .ok (toValSliceFile f, rest) := by
  rw [← mirror_SliceFile schemaFuel (by decide)] at h; exact decTy_encTy _ _ _ _ _ _ h

/-- The whole request: read as a call of `generateCode` — the operation name, then `sourceFiles`, then
    `referenceFiles`, each according to the schema — the stream decodes completely into the request's content and what
    is left over is exactly what was appended after it (the generator's arguments): nothing of the request is left
    before them and nothing of them is consumed. For every request value the encoder accepts. -/
theorem request_decodes (srcs refs : List SliceFileV) (bs args : Bytes) (h : encodeRequest srcs refs = some bs) :
    decodeCall CS "generateCode" 2 (bs ++ args) = .ok (toValRequest srcs refs, args) :=
  request_roundtrip srcs refs bs args h

/-! ## the decoded content is the compiled program's -/

/-- What is proved of "the decoded content equals the compiled program": for every compiled program, every
    source/reference split and every argument bytes, the stream decodes (completely, up to the arguments) into the
    untyped image of `(sources, references)`, where the two lists are — in compilation order, split by the source flag —
    the conversions of exactly the transmitted files (all files, minus those without a module declaration), and each
    converted file carries its path as given, its module's identifier and attributes, its file attributes, and in
    `contents` one named symbol per definition, same kind and identifier, in definition order (anonymous-type symbols in
    between). What each symbol says about its definition (members, flags, tags, values, type references, comments) is
    `convDefs`, tied to slice_file_converter.rs byte for byte by the correspondence — see `content_faithful_full`. -/
theorem content_faithful_partial (mode : DocMode) (fs : List ReqFile) (srcs refs : List SliceFileV) (bs args : Bytes)
    (hc : convert mode fs = some (srcs, refs)) (he : encodeRequest srcs refs = some bs) :
    decodeCall CS "generateCode" 2 (bs ++ args) = .ok (toValRequest srcs refs, args) ∧
    ∃ vs : List (Bool × SliceFileV),
      AllPairs (fun rf p => p.1 = rf.isSource ∧ Described mode (buildTable (programOf fs)) rf p.2) (transmitted fs) vs ∧
      srcs = (vs.filter (·.1)).map (·.2) ∧ refs = (vs.filter (fun x => !x.1)).map (·.2) := by
  refine ⟨request_roundtrip srcs refs bs args he, ?_⟩
  unfold convert at hc
  split at hc
  · cases hc
  · rename_i vs hvs
    simp only [Option.some.injEq, Prod.mk.injEq] at hc
    exact ⟨vs, convertAll_described mode _ fs vs hvs, hc.1.symm, hc.2.symm⟩

/-- the untyped image determines an attribute (first step of "the decoded value determines the request") -/
theorem toValAttribute_injective (a b : AttributeV) (h : toValAttribute a = toValAttribute b) : a = b := by
  obtain ⟨d1, a1⟩ := a
  obtain ⟨d2, a2⟩ := b
  simp only [toValAttribute, SVal.struct.injEq, List.cons.injEq, SVal.str.injEq, SVal.list.injEq, and_true] at h
  obtain ⟨rfl, h2⟩ := h
  have : ∀ (x y : List Bytes), x.map SVal.str = y.map SVal.str → x = y := by
    intro x
    induction x with
    | nil => intro y hy; cases y <;> simp at hy ⊢
    | cons u x ih =>
      intro y hy
      cases y with
      | nil => simp at hy
      | cons w y =>
        simp only [List.map_cons, List.cons.injEq, SVal.str.injEq] at hy
        rw [hy.1, ih y hy.2]
  rw [this a1 a2 h2]

/-- **Documentation of return values reaches the generator.** The conversion the current source implements
    (`DocMode.current`, read off `get_doc_comment_for_parameter` by the translator) is the one the property demands: parameters
    are documented by the `@param` tags, return members by the `@returns` tags (by identifier; an unnamed `@returns` documents
    the return member of an operation that has exactly one). Holds since the repair of D-08a; with the `@param`-only shape of
    the pinned tree the flag is false and this theorem does not compile. -/
theorem return_docs_as_demanded : DocMode.current = .asDemanded := by decide

/-- … hence, for every list of files, converting as implemented is converting as demanded -/
theorem content_faithful_docs (fs : List ReqFile) : convert DocMode.current fs = convert .asDemanded fs := by
  rw [return_docs_as_demanded]

/-- the two modes really differ: on `@returns`-documented operations the pre-repair conversion loses the text -/
example : paramDoc .asImplemented [] "M::I::op" (some { overview := none, params := [], returns := [(none, [.text "x"])], sees := [] }) true true "returnValue" = none
    ∧ (paramDoc .asDemanded [] "M::I::op" (some { overview := none, params := [], returns := [(none, [.text "x"])], sees := [] }) true true "returnValue").isSome = true := by
  decide

/-- FULL statement of content faithfulness (not proved as a Lean theorem; established by request_decodes +
    content_faithful_partial + content_faithful_docs + the byte-exact correspondence of `convert` with the real converter): a
    description of the program written independently of the converter equals what `fromVal` reads back from the decoded value.
    What is missing is that independent description (`describe`) for every symbol kind; the former counterexample (D-08a,
    documentation of return values) is repaired. -/
def content_faithful_full : Prop :=
  ∀ (fs : List ReqFile) (srcs refs : List SliceFileV),
    convert .asImplemented fs = some (srcs, refs) → convert .asDemanded fs = some (srcs, refs)

/-- FULL statement of `named_ids_exist` (checked on every case by the implementation-side oracle of
    harness/src/proj_c08.rs; not proved in Lean): every named type id is a primitive keyword or the scoped identifier of a
    struct / enum / custom-type symbol of some transmitted file, and every base that of an interface symbol. -/
def named_ids_exist_full : Prop :=
  ∀ (mode : DocMode) (fs : List ReqFile) (srcs refs : List SliceFileV), convert mode fs = some (srcs, refs) →
    let entity (kinds : List String) (id : Bytes) : Prop :=
      ∃ f ∈ srcs ++ refs, ∃ s ∈ f.contents, ∃ k n, s.head = some (k, n) ∧ k ∈ kinds ∧
        id = f.moduleDeclaration.identifier ++ sb "::" ++ n
    ∀ f ∈ srcs ++ refs, ∀ s ∈ f.contents,
      (∀ r ∈ s.trefs, ∀ id, r.typeId = .named id → (∃ p ∈ Prim.all, id = sb p.kw) ∨ entity ["struct", "enum", "custom"] id) ∧
      (∀ v, s = .interface v → ∀ b ∈ v.bases, entity ["interface"] b)

/-! ## non-vacuity -/

/-- a request the encoder accepts, with an anonymous type, an optional tag and a comment (strings as byte literals) -/
def demoFile : SliceFileV :=
  { path := [97], moduleDeclaration := ⟨[77], []⟩, attributes := [⟨[99, 115, 58, 58, 120], [[121]]⟩],
    contents := [.sequenceType ⟨⟨.named [98, 111, 111, 108], false, []⟩⟩,
                 .struct ⟨⟨[83], [], some ⟨[.text [100], .link [77, 58, 58, 83]], [[77, 58, 58, 83]]⟩⟩, false,
                          [⟨⟨[102], [], none⟩, some 2147483647, ⟨.named [48], true, []⟩⟩]⟩] }

example : (encSeqOf encodeSliceFile [demoFile, demoFile]).isSome = true := by decide
example : encodeAttribute ⟨[97], [[98]]⟩ = some [4, 97, 4, 4, 98, 252] := by decide
example : encodeField ⟨⟨[102], [], none⟩, some 0, ⟨.named [98, 111, 111, 108], false, []⟩⟩ =
    some [1, 0, 4, 102, 0, 252, 0, 16, 98, 111, 111, 108, 0, 0, 252, 252] := by decide
example : (match decodeBySchema CS "Attribute" [4, 97, 4, 4, 98, 252, 7] with
    | .ok (.struct [.str d, .list [.str a]], rest) => d == [97] && a == [98] && rest == [7]
    | _ => false) = true := by decide
example : camelCase "has_streamed_parameter" = "hasStreamedParameter" := by decide

end Slicec.C08

#print axioms Slicec.C08.field_order_matches_schema
#print axioms Slicec.C08.macro_order_is_declaration_order
#print axioms Slicec.C08.manual_encoder_shapes
#print axioms Slicec.C08.discriminants_match_schema
#print axioms Slicec.C08.request_shape_matches_schema
#print axioms Slicec.C08.numeric_ids_backward
#print axioms Slicec.C08.numeric_id_is_decimal
#print axioms Slicec.C08.schema_codec_roundtrip
#print axioms Slicec.C08.attribute_roundtrip
#print axioms Slicec.C08.typeRef_roundtrip
#print axioms Slicec.C08.docComment_roundtrip
#print axioms Slicec.C08.entityInfo_roundtrip
#print axioms Slicec.C08.field_roundtrip
#print axioms Slicec.C08.symbol_roundtrip
#print axioms Slicec.C08.sliceFile_roundtrip
#print axioms Slicec.C08.request_decodes
#print axioms Slicec.C08.content_faithful_partial
#print axioms Slicec.C08.return_docs_as_demanded
#print axioms Slicec.C08.content_faithful_docs
#print axioms Slicec.C08.toValAttribute_injective
