/-
  C08 — The encoded generator request is decodable and says what the AST says.

  Objects: `convert` / `encodeRequest` (Model/Request.lean) mirror slice_file_converter.rs / definition_types.rs /
  `encode_generate_code_request`; their field orders, discriminants and request shape are the tables of
  `Gen.EncoderShapes`, regenerated from the Rust source on every run. `decodeBySchema` / `decodeCall`
  (Model/SchemaCodec.lean) is a generic Slice reader driven by `Gen.CompilerSchema`, regenerated from
  slice/Compiler/*.slice by an independent mini-parser. The model's bytes are compared byte for byte with the real
  encoder's on every run (Drv/C08.lean, harness/src/proj_c08.rs, procrun/c08.py).
-/
import SlicecVerif.Lemmas.Request
import SlicecVerif.Lemmas.RequestContent
import SlicecVerif.Lemmas.RequestFromVal
import SlicecVerif.Lemmas.RequestBridge
import SlicecVerif.Lemmas.PipelineBridge

namespace Slicec.C08

open Slicec

/-! ## the two sources agree on shapes (generated obligations) -/

/-- Rust `snake_case` → Slice `camelCase` -/
def camelCase (s : String) : String :=
  let rec go : List Char → Bool → List Char
    | [], _ => []
    | '_' :: cs, _ => go cs true
    | c :: cs, up => (if up then c.toUpper else c) :: go cs false
  String.ofList (go s.toList false)

def schemaFieldNames (n : String) : Option (List String) :=
  (Gen.schemaStructs.find? (fun s => s.name == n)).map fun s => s.fields.map (·.name)

/-- For every struct encoded by `implement_encode_into_for_struct!`, the macro's field list — the order in which the
    fields are written — is exactly the field order of the struct of the same name in slice/Compiler/*.slice. -/
theorem field_order_matches_schema :
    ∀ e ∈ Gen.macroEncoders, schemaFieldNames e.1 = some (e.2.map camelCase) := by decide

/-- …and the macro lists the fields in the order the Rust struct declares them, with the declared types. -/
theorem macro_order_is_declaration_order :
    ∀ e ∈ Gen.macroEncoders, (Gen.rustStructs.find? (fun s => s.name == e.1)).map (fun s => s.fields.map (·.1)) = some e.2 := by
  decide

/-- The five hand-written encoders write what the model mirrors by hand: the bit-sequence bool first, the fields in
    schema order, an optional field only when set, the tag end marker last; discriminant, payload, tag end marker for
    the two enums; size then pairs for the arguments. (Textual order of the `encoder.encode*` calls.) -/
theorem manual_encoder_shapes :
    Gen.manualEncoders =
      [("EntityInfo", ["encode:self.comment.is_some()", "encode:&self.identifier", "encode:&self.attributes", "encode:comment_value", "encode_varint:TAG_END_MARKER"]),
       ("Field", ["encode:self.tag.is_some()", "encode:&self.entity_info", "encode_varint:tag_value", "encode:&self.data_type", "encode_varint:TAG_END_MARKER"]),
       ("MessageComponent", ["encode_varint:discriminant", "encode:v", "encode:v", "encode_varint:TAG_END_MARKER"]),
       ("Arguments", ["encode_size:self.0.len()", "encode:e1", "encode:e2"]),
       ("Symbol", ["encode_varint:discriminant", "encode:v", "encode:v", "encode:v", "encode:v", "encode:v", "encode:v", "encode:v", "encode:v", "encode:v", "encode_varint:TAG_END_MARKER"])] ∧
    Gen.encoderTagEndMarker = Gen.tagEndMarker := by decide

def rustDiscriminants (n : String) : Option (List (String × Int)) :=
  (Gen.rustEnums.find? (fun e => e.name == n)).map fun e => e.variants.map fun v => (v.name, (v.disc : Int))

def schemaDiscriminants (n : String) : Option (List (String × Int)) :=
  (Gen.schemaEnums.find? (fun e => e.name == n)).map fun e => (e.variants.map (·.name)).zip (variantValues 0 e.variants)

/-- The `repr(u8)` discriminants of the two enums that travel in the request are the enumerator values of the schema
    (same names, same order, same numbers), each with exactly one payload of the schema's type name. -/
theorem discriminants_match_schema :
    ∀ n ∈ ["Symbol", "MessageComponent"], rustDiscriminants n = schemaDiscriminants n ∧ (rustDiscriminants n).isSome := by decide

/-- The request is the operation name of the schema's only operation, then its first two parameters — sources before
    references — and the generator's arguments are its third parameter. -/
theorem request_shape_matches_schema :
    Gen.schemaOps.map (fun o => (o.name, o.params.map (·.name))) = [(Gen.requestOpName, ["sourceFiles", "referenceFiles", "args"])] ∧
    Gen.requestVectors = ["sources", "references"] ∧ Gen.requestThenArguments = true := by decide

/-! ## numeric type ids -/

/-- Every numeric type id `j` emitted for symbol `i` of a transmitted file satisfies `j < i`, and symbol `j` of that file
    is a Sequence / Dictionary / Result symbol. For every program, every source/reference split, either reading of the
    parameter documentation. (Induction over the conversion, which threads the growing symbol vector.) -/
theorem numeric_ids_backward (mode : DocMode) (fs : List ReqFile) (srcs refs : List SliceFileV)
    (h : convert mode fs = some (srcs, refs)) :
    ∀ f ∈ srcs ++ refs, ∀ (i : Nat) (s : SymbolV), f.contents[i]? = some s → ∀ r ∈ s.trefs, ∀ j, r.typeId = .anon j →
      j < i ∧ ∃ s', f.contents[j]? = some s' ∧ s'.isAnon = true := by
  unfold convert at h
  split at h
  · cases h
  · rename_i vs hvs
    simp only [Option.some.injEq, Prod.mk.injEq] at h
    obtain ⟨rfl, rfl⟩ := h
    intro f hf
    have hmem : ∃ p ∈ vs, p.2 = f := by
      simp only [List.mem_append, List.mem_map, List.mem_filter] at hf
      rcases hf with ⟨p, ⟨hp, _⟩, rfl⟩ | ⟨p, ⟨hp, _⟩, rfl⟩ <;> exact ⟨p, hp, rfl⟩
    obtain ⟨p, hp, rfl⟩ := hmem
    intro i s hs r hr j hj
    exact convertAll_symsOK mode _ fs vs hvs p hp i s hs r hr j hj

/-- a numeric id is written in decimal digits only, so a reader can tell it from every keyword and scoped identifier
    (which start with a letter or `:`) -/
theorem numeric_id_is_decimal (j : Nat) : (toString j).toList.all Char.isDigit = true ∧ (toString j).toList ≠ [] := by
  have e : (toString j).toList = Nat.toDigits 10 j := Nat.toList_repr
  rw [e]
  refine ⟨?_, Nat.toDigits_ne_nil⟩
  simp only [List.all_eq_true]
  intro c hc
  exact Nat.isDigit_of_mem_toDigits (by decide) (by decide) hc

/-! ## the stream decodes, field by field according to the schema -/

/-- Generic: for EVERY schema, type, value and trailing bytes, the schema-driven reader gives back what the
    schema-driven writer wrote and leaves exactly the trailing bytes. -/
theorem schema_codec_roundtrip (S : Schema) (fuel : Nat) (ty : Gen.STy) (v : SVal) (bs rest : Bytes)
    (h : encTy S fuel ty v = some bs) : decTy S fuel ty (bs ++ rest) = .ok (v, rest) :=
  decTy_encTy S fuel ty v bs rest h

/-- leaf round trips through the schema decoder: what the Rust-order encoder of an `Attribute` writes, read as the
    schema's `Attribute`, is that attribute, with exact consumption -/
theorem attribute_roundtrip (a : AttributeV) (bs rest : Bytes) (h : encodeAttribute a = some bs) :
    decodeBySchema CS "Attribute" (bs ++ rest) = .ok (toValAttribute a, rest) := by
  rw [← mirror_Attribute schemaFuel (by decide)] at h; exact decTy_encTy _ _ _ _ _ _ h

theorem typeRef_roundtrip (r : TypeRefV) (bs rest : Bytes) (h : encodeTypeRef r = some bs) :
    decodeBySchema CS "TypeRef" (bs ++ rest) = .ok (toValTypeRef r, rest) := by
  rw [← mirror_TypeRef schemaFuel (by decide)] at h; exact decTy_encTy _ _ _ _ _ _ h

theorem docComment_roundtrip (d : DocCommentV) (bs rest : Bytes) (h : encodeDocComment d = some bs) :
    decodeBySchema CS "DocComment" (bs ++ rest) = .ok (toValDocComment d, rest) := by
  rw [← mirror_DocComment schemaFuel (by decide)] at h; exact decTy_encTy _ _ _ _ _ _ h

/-- optional field through the bit sequence: `comment` present or absent -/
theorem entityInfo_roundtrip (e : EntityInfoV) (bs rest : Bytes) (h : encodeEntityInfo e = some bs) :
    decodeBySchema CS "EntityInfo" (bs ++ rest) = .ok (toValEntityInfo e, rest) := by
  rw [← mirror_EntityInfo schemaFuel (by decide)] at h; exact decTy_encTy _ _ _ _ _ _ h

/-- optional `tag: varint32?` in the middle of the field list -/
theorem field_roundtrip (f : FieldV) (bs rest : Bytes) (h : encodeField f = some bs) :
    decodeBySchema CS "Field" (bs ++ rest) = .ok (toValField f, rest) := by
  rw [← mirror_Field schemaFuel (by decide)] at h; exact decTy_encTy _ _ _ _ _ _ h

/-- variants: varint discriminant, the payload as a struct body, tag end marker -/
theorem symbol_roundtrip (s : SymbolV) (bs rest : Bytes) (h : encodeSymbol s = some bs) :
    decodeBySchema CS "Symbol" (bs ++ rest) = .ok (toValSymbol s, rest) := by
  rw [← mirror_Symbol schemaFuel (by decide)] at h; exact decTy_encTy _ _ _ _ _ _ h

theorem sliceFile_roundtrip (f : SliceFileV) (bs rest : Bytes) (h : encodeSliceFile f = some bs) :
    decodeBySchema CS "SliceFile" (bs ++ rest) = .ok (toValSliceFile f, rest) := by
  rw [← mirror_SliceFile schemaFuel (by decide)] at h; exact decTy_encTy _ _ _ _ _ _ h

/-- The whole request: read as a call of `generateCode` — the operation name, then `sourceFiles`, then
    `referenceFiles`, each according to the schema — the stream decodes completely into the request's content and what
    is left over is exactly what was appended after it (the generator's arguments): nothing of the request is left
    before them and nothing of them is consumed. For every request value the encoder accepts. -/
theorem request_decodes (srcs refs : List SliceFileV) (bs args : Bytes) (h : encodeRequest srcs refs = some bs) :
    decodeCall CS "generateCode" 2 (bs ++ args) = .ok (toValRequest srcs refs, args) :=
  request_roundtrip srcs refs bs args h

/-! ## the decoded content is the compiled program's -/

/-- First layer of "the decoded content equals the compiled program" (kept; superseded by `content_faithful_decoded`): for every compiled program, every
    source/reference split and every argument bytes, the stream decodes (completely, up to the arguments) into the
    untyped image of `(sources, references)`, where the two lists are — in compilation order, split by the source flag —
    the conversions of exactly the transmitted files (all files, minus those without a module declaration), and each
    converted file carries its path as given, its module's identifier and attributes, its file attributes, and in
    `contents` one named symbol per definition, same kind and identifier, in definition order (anonymous-type symbols in
    between). What each symbol says about its definition (members, flags, tags, values, type references, comments) is
    the subject of `content_read_back` / `content_faithful` below. -/
theorem content_faithful_partial (mode : DocMode) (fs : List ReqFile) (srcs refs : List SliceFileV) (bs args : Bytes)
    (hc : convert mode fs = some (srcs, refs)) (he : encodeRequest srcs refs = some bs) :
    decodeCall CS "generateCode" 2 (bs ++ args) = .ok (toValRequest srcs refs, args) ∧
    ∃ vs : List (Bool × SliceFileV),
      AllPairs (fun rf p => p.1 = rf.isSource ∧ Described mode (buildTable (programOf fs)) rf p.2) (transmitted fs) vs ∧
      srcs = (vs.filter (·.1)).map (·.2) ∧ refs = (vs.filter (fun x => !x.1)).map (·.2) := by
  refine ⟨request_roundtrip srcs refs bs args he, ?_⟩
  unfold convert at hc
  split at hc
  · cases hc
  · rename_i vs hvs
    simp only [Option.some.injEq, Prod.mk.injEq] at hc
    exact ⟨vs, convertAll_described mode _ fs vs hvs, hc.1.symm, hc.2.symm⟩

/-- the untyped image determines an attribute (first step of "the decoded value determines the request") -/
theorem toValAttribute_injective (a b : AttributeV) (h : toValAttribute a = toValAttribute b) : a = b := by
  obtain ⟨d1, a1⟩ := a
  obtain ⟨d2, a2⟩ := b
  simp only [toValAttribute, SVal.struct.injEq, List.cons.injEq, SVal.str.injEq, SVal.list.injEq, and_true] at h
  obtain ⟨rfl, h2⟩ := h
  have : ∀ (x y : List Bytes), x.map SVal.str = y.map SVal.str → x = y := by
    intro x
    induction x with
    | nil => intro y hy; cases y <;> simp at hy ⊢
    | cons u x ih =>
      intro y hy
      cases y with
      | nil => simp at hy
      | cons w y =>
        simp only [List.map_cons, List.cons.injEq, SVal.str.injEq] at hy
        rw [hy.1, ih y hy.2]
  rw [this a1 a2 h2]

/-- **Documentation of return values reaches the generator.** The conversion the current source implements
    (`DocMode.current`, read off `get_doc_comment_for_parameter` by the translator) is the one the property demands: parameters
    are documented by the `@param` tags, return members by the `@returns` tags (by identifier; an unnamed `@returns` documents
    the return member of an operation that has exactly one). Holds since the repair of D-08a; with the `@param`-only shape of
    the pinned tree the flag is false and this theorem does not compile. -/
theorem return_docs_as_demanded : DocMode.current = .asDemanded := by decide

/-- … hence, for every list of files, converting as implemented is converting as demanded -/
theorem content_faithful_docs (fs : List ReqFile) : convert DocMode.current fs = convert .asDemanded fs := by
  rw [return_docs_as_demanded]

/-- the two modes really differ: on `@returns`-documented operations the pre-repair conversion loses the text -/
example : paramDoc .asImplemented [] "M::I::op" (some { overview := none, params := [], returns := [(none, [.text "x"])], sees := [] }) true true "returnValue" = none
    ∧ (paramDoc .asDemanded [] "M::I::op" (some { overview := none, params := [], returns := [(none, [.text "x"])], sees := [] }) true true "returnValue").isSome = true := by
  decide

/-! ## the decoded content says what the abstract syntax says

`describe mode fs isSource` (Lemmas/RequestContent.lean) is the description of the request written by direct recursion on
the abstract syntax, as plain `map`s, WITHOUT the symbol vector the converter threads through `convDefs`: per transmitted
file the path, the module's identifier and attributes, the file attributes, and per definition in source order its kind,
entity information (identifier, attributes with arguments, doc comment with resolved links and see-tags) and members —
fields / operations with parameters and return members / enumerators with their values (explicit or previous + 1 from 0) —
each member with identifier, attributes, documentation, tag, and its type as a TREE (`RefShape`: names resolved, aliases
flattened with their attributes accumulated, anonymous types in place, `?`).
`readFile v` is what a generator gets from a transmitted file `v`: the named symbols in order, every numeric type id replaced
by the anonymous-type symbol it points to in `v.contents`. -/

/-- **The converted request reads back as the description of the program.** For every list of compiled files, every
    source/reference split and either reading of the parameter documentation: the source files of the request, read with
    numeric ids dereferenced, are exactly the descriptions of the files with the source flag that have a module declaration,
    in compilation order; likewise the reference files. Equality of whole descriptions: nothing is lost, added or
    reordered, every numeric id points to the anonymous type that was written at that place. No side condition. -/
theorem content_read_back (mode : DocMode) (fs : List ReqFile) (srcs refs : List SliceFileV)
    (h : convert mode fs = some (srcs, refs)) :
    srcs.map readFile = describe mode fs true ∧ refs.map readFile = describe mode fs false :=
  convert_read mode fs srcs refs h

/-- **Content faithfulness** (replaces the former `content_faithful_full`): for the conversion the current source implements,
    the byte stream decodes — as a `generateCode` call, field by field according to the schema, leaving exactly the
    generator's arguments — into the untyped image of two lists of files which, read back with numeric ids dereferenced, are
    the description of the program's source files and of its reference files; return members are documented by the
    `@returns` tags (`DocMode.asDemanded`). -/
theorem content_faithful (fs : List ReqFile) (srcs refs : List SliceFileV) (bs args : Bytes)
    (hc : convert DocMode.current fs = some (srcs, refs)) (he : encodeRequest srcs refs = some bs) :
    decodeCall CS "generateCode" 2 (bs ++ args) = .ok (toValRequest srcs refs, args) ∧
    srcs.map readFile = describe .asDemanded fs true ∧ refs.map readFile = describe .asDemanded fs false := by
  rw [return_docs_as_demanded] at hc
  exact ⟨request_roundtrip srcs refs bs args he, convert_read .asDemanded fs srcs refs hc⟩

/-- **Content faithfulness, end to end: `fromVal (decoded request) = describe P`.** `fromValFile` (Lemmas/RequestFromVal.lean)
    reads the UNTYPED value the schema-driven reader returns for one `SliceFile` — positionally, by the schema's field order
    and enumerator numbers, a type id string being numeric when it is a non-empty string of decimal digits — and
    dereferences the numeric ids; it does not use the encoders or `toVal*`. For every program whose references resolve
    (`AllResolve`, needed only so that no NAME can be mistaken for a number: a named id is then a keyword or contains `::`),
    every source/reference split and every argument bytes: the stream decodes as a `generateCode` call into two lists of
    values and exactly the argument bytes, and reading the two lists gives the description of the program's source files
    and of its reference files. -/
theorem content_faithful_decoded (fs : List ReqFile) (srcs refs : List SliceFileV) (bs args : Bytes)
    (hc : convert DocMode.current fs = some (srcs, refs)) (hg : AllResolve fs = true) (he : encodeRequest srcs refs = some bs) :
    ∃ ss rs : List SVal, decodeCall CS "generateCode" 2 (bs ++ args) = .ok ([.list ss, .list rs], args) ∧
      optMap fromValFile ss = some (describe .asDemanded fs true) ∧
      optMap fromValFile rs = some (describe .asDemanded fs false) := by
  have hr := convert_readable _ fs srcs refs hc hg
  rw [return_docs_as_demanded] at hc
  obtain ⟨h1, h2⟩ := convert_read .asDemanded fs srcs refs hc
  refine ⟨srcs.map toValSliceFile, refs.map toValSliceFile, request_roundtrip srcs refs bs args he, ?_, ?_⟩
  · rw [fromVal_Files srcs (fun v hv => hr v (List.mem_append_left _ hv)), h1]
  · rw [fromVal_Files refs (fun v hv => hr v (List.mem_append_right _ hv)), h2]

/-- the reader of the decoded value inverts the untyped image on every file whose named ids do not look numeric, and
    numeric ids are always read back as the same index -/
theorem decoded_value_determines_file (v : SliceFileV) (h : FileReadable v) : fromValSliceFile (toValSliceFile v) = some v :=
  fromVal_SliceFile v h

/-- The type of a member as a tree is the type as written: converting a written type reference (which may push
    anonymous-type symbols) and reading the result back in the resulting vector gives `shapeOfTRef` — names resolved in the
    scope they are written in, a name of an alias replaced by the alias's target, anonymous types nested in place. -/
theorem type_reference_shape (t : Table) (scope : String) (r : TRef) (syms : Syms) (h : SymsOK syms) :
    readRef (convTRef t scope elabFuel r syms).2 (convTRef t scope elabFuel r syms).1 = shapeOfTRef t scope elabFuel r :=
  convTRef_shape t scope elabFuel r syms h

/-- …its `?` is the `?` written on it, and its attributes are the attributes written on it followed by those written on
    the underlying types of the aliases its name goes through, in chain order (`C03.alias_flatten` says what `extra` is). -/
theorem type_reference_flags (t : Table) (scope : String) (r : TRef) :
    (shapeOfTRef t scope elabFuel r).opt = r.opt ∧
    (shapeOfTRef t scope elabFuel r).attrs =
      convAttrs (r.attrs ++ (match r.ty with
        | .named id => (match resolveNamed t .type id scope with | .ok (_, extra) => extra | .error _ => [])
        | _ => [])) :=
  ⟨shapeOfTRef_opt t scope r, shapeOfTRef_attrs t scope r⟩

/-! ### projections of `content_read_back`, each against an observation written directly on the syntax -/

/-- (i) **Files.** The source/reference split, the order of the files, and per file the path as given, the module's
    identifier and attributes and the file attributes: sources are exactly the files with the source flag that have a
    module declaration, in compilation order; references likewise. -/
theorem files_in_order (mode : DocMode) (fs : List ReqFile) (srcs refs : List SliceFileV)
    (h : convert mode fs = some (srcs, refs)) :
    srcs.map SliceFileV.header = obsHeaders fs true ∧ refs.map SliceFileV.header = obsHeaders fs false := by
  obtain ⟨h1, h2⟩ := convert_read mode fs srcs refs h
  have e : ∀ l : List SliceFileV, l.map SliceFileV.header = (l.map readFile).map FileD.header := by
    intro l; rw [List.map_map]; rfl
  rw [e srcs, e refs, h1, h2]
  exact ⟨describe_headers mode fs true, describe_headers mode fs false⟩

/-- (ii) **Definitions.** Per transmitted file, the named symbols are the definitions of the file: same kinds, same
    identifiers, same order (anonymous-type symbols in between do not count). -/
theorem definitions_in_order (mode : DocMode) (fs : List ReqFile) (srcs refs : List SliceFileV)
    (h : convert mode fs = some (srcs, refs)) :
    srcs.map (fun v => v.contents.filterMap SymbolV.head) = obsDefHeads fs true ∧
    refs.map (fun v => v.contents.filterMap SymbolV.head) = obsDefHeads fs false := by
  obtain ⟨h1, h2⟩ := convert_read mode fs srcs refs h
  have e : ∀ l : List SliceFileV, l.map (fun v => v.contents.filterMap SymbolV.head) =
      (l.map readFile).map (fun d => d.definitions.map DefD.head) := by
    intro l; rw [List.map_map]
    exact map_congr_mem _ _ _ (fun v _ => (readFile_heads v).symm)
  rw [e srcs, e refs, h1, h2]
  exact ⟨describe_defHeads mode fs true, describe_defHeads mode fs false⟩

/-- (iii) (iv) **Members, flags, tags, values.** Per definition, in order: a struct's `compact` flag and its fields; an
    interface's bases (scoped identifiers of the interfaces the written names resolve to) and operations with `idempotent`,
    parameters, return members (a single unnamed return value is the member `returnValue`) and the two `stream` flags; an
    enum's `unchecked` / `compact` flags, underlying type, and enumerators with their values — the written literal, else the
    previous value + 1, starting from 0 (`enumerator_values`) — as absolute value and sign, or as discriminant, with the
    enumerator's fields. Every member with its identifier, its tag (`tag_as_written`) and the `?` of its type. -/
theorem members_in_order (mode : DocMode) (fs : List ReqFile) (srcs refs : List SliceFileV)
    (h : convert mode fs = some (srcs, refs)) :
    (srcs.map readFile).map (fun d => d.definitions.map DefD.obs) = obsDefs fs true ∧
    (refs.map readFile).map (fun d => d.definitions.map DefD.obs) = obsDefs fs false := by
  obtain ⟨h1, h2⟩ := convert_read mode fs srcs refs h
  rw [h1, h2]
  exact ⟨describe_defObs mode fs true, describe_defObs mode fs false⟩

/-- (v) (vi) **Attributes and documentation of definitions.** Per definition, in order: the identifier, the attributes in
    order with their arguments (`attribute_verbatim`), and the doc comment when the definition has a well-formed one —
    the overview with every `{@link X}` replaced by the scoped identifier `X` resolves to from the definition, the `@see`
    tags likewise (`convDoc`, `convLink`). Members carry theirs the same way (`describe`: `descField`, `descParam`,
    `descOp`, `descVariant`, `descEnumerator`); parameters and return members are documented by `paramDoc`. -/
theorem definition_infos_in_order (mode : DocMode) (fs : List ReqFile) (srcs refs : List SliceFileV)
    (h : convert mode fs = some (srcs, refs)) :
    (srcs.map readFile).map (fun d => d.definitions.map DefD.info) = obsDefInfos fs true ∧
    (refs.map readFile).map (fun d => d.definitions.map DefD.info) = obsDefInfos fs false := by
  obtain ⟨h1, h2⟩ := convert_read mode fs srcs refs h
  rw [h1, h2]
  exact ⟨describe_defInfos mode fs true, describe_defInfos mode fs false⟩

/-- (vi) **Documentation of parameters and return values.** The documentation of a parameter is the text of the first
    `@param` tag with its identifier; that of a return member the text of the first `@returns` tag with its identifier — or
    without identifier when the operation has a single return value —, with the links resolved from the operation; no such
    tag, or no well-formed comment on the operation: no documentation. (`describe` uses `paramDoc` for these members.) -/
theorem parameter_documentation (t : Table) (opKey : String) (d : ReqDoc.ParsedDoc) (single : Bool) (name : String) :
    paramDoc .asDemanded t opKey (some d) false single name =
      (d.params.find? (fun p => p.1 == name)).map (fun p => { overview := convMsg t opKey p.2, seeTags := [] }) ∧
    paramDoc .asDemanded t opKey (some d) true single name =
      (d.returns.find? (fun r => r.1 == some name || (single && r.1 == none))).map
        (fun r => { overview := convMsg t opKey r.2, seeTags := [] }) ∧
    paramDoc .asDemanded t opKey none false single name = none ∧ paramDoc .asDemanded t opKey none true single name = none :=
  paramDoc_spec t opKey d single name

/-- (iv) The value of the enumerator at position `i`: its literal when it has one; otherwise 0 for the first enumerator and
    the value of the enumerator before it plus one (wrapping in `i128`, as the compiler computes it) for the others. -/
theorem enumerator_values (es : List Enumerator) (i : Nat) (e : Enumerator) (he : es[i]? = some e) :
    (enumValues none es)[i]? = some (match e.value with
      | some l => l.value
      | none => if i = 0 then 0 else wrapI128 ((enumValues none es)[i - 1]?.getD 0)) :=
  enumValues_spec es i e he

/-- …and the transmitted pair (absolute value, sign) gives the value back, for every value an enumerator of an integral
    underlying type can have (|v| < 2^64). -/
theorem enumerator_value_decodes (v : Int) (h : v.natAbs < 2 ^ 64) :
    (if decide (v < 0) then -(((v.natAbs % 2 ^ 64 : Nat) : Int)) else ((v.natAbs % 2 ^ 64 : Nat) : Int)) = v :=
  enumerator_value_read_back v h

/-- (iii) A tag in the range the compiler accepts (0 … 2^31−1) is transmitted as written. -/
theorem tag_as_written (l : IntLit) (h0 : 0 ≤ l.value) (h1 : l.value < 2 ^ 31) : tagI32 l = l.value :=
  tagI32_in_range l h0 h1

/-- (v) An attribute other than the four the compiler parses itself is transmitted verbatim: the directive and the
    arguments in order; `deprecated` keeps its message, `oneway` has no arguments, `compress` / `slicedFormat` keep which of
    `Args`, `Return` were given. -/
theorem attribute_verbatim (a : Attr) :
    (a.directive ≠ "compress" ∧ a.directive ≠ "slicedFormat" ∧ a.directive ≠ "deprecated" ∧ a.directive ≠ "oneway" →
      convAttr a = ⟨sb a.directive, a.args.map sb⟩) ∧
    (a.directive = "deprecated" → convAttr a = ⟨sb a.directive, (a.args.take 1).map sb⟩) ∧
    (a.directive = "oneway" → convAttr a = ⟨sb a.directive, []⟩) ∧
    (a.directive = "compress" ∨ a.directive = "slicedFormat" → convAttr a = ⟨sb a.directive,
      ((if a.args.contains "Args" then ["Args"] else []) ++ (if a.args.contains "Return" then ["Return"] else [])).map sb⟩) :=
  ⟨convAttr_verbatim a, (convAttr_builtin a).1, (convAttr_builtin a).2.1, (convAttr_builtin a).2.2⟩

/-! ## named type ids and bases name entities of transmitted files -/

/-- **Every named type id and every base names an entity that exists in some transmitted file.** For every conversion
    result of a program in which every written reference resolves (`AllResolve`, decidable: no definition outside a module,
    no empty module path, every written type name resolves — directly or through aliases — to a type and every base to an
    interface, within the descent bound; this is what "compiled without E033 / E017 / E019 / a missing module" gives the
    converter): every NAMED type id occurring in a symbol of a transmitted file (types of fields, parameters, return
    members, enumerator fields, the target of a type alias, the element types of the anonymous-type symbols) is a primitive
    keyword or `module ++ "::" ++ identifier` of a struct / enum / custom-type symbol of some transmitted file — never of a
    type alias: a reference naming an alias carries the id of the alias's target — and every base of an interface symbol
    is `module ++ "::" ++ identifier` of an interface symbol of some transmitted file. -/
theorem named_ids_exist (mode : DocMode) (fs : List ReqFile) (srcs refs : List SliceFileV)
    (h : convert mode fs = some (srcs, refs)) (hg : AllResolve fs = true) :
    ∀ f ∈ srcs ++ refs, ∀ s ∈ f.contents,
      (∀ r ∈ s.trefs, ∀ id, r.typeId = .named id →
        (∃ p ∈ Prim.all, id = sb p.kw) ∨ EntityIn (srcs ++ refs) ["struct", "enum", "custom"] id) ∧
      (∀ v, s = .interface v → ∀ b ∈ v.bases, EntityIn (srcs ++ refs) ["interface"] b) :=
  named_ids_exist_all mode fs srcs refs h hg

/-- **Every resolved link names an entity declared in a transmitted file.** Every link a transmitted doc comment carries
    (overview components, `@see` tags, the texts of `@param` / `@returns`) is `convLink t key id` for the written identifier
    `id` and the scoped identifier `key` of the commented entity. When `id` resolves from there to something other than a
    module, a parameter or a primitive, what is transmitted is the scoped identifier of the entity it resolves to, and that
    entity — a definition, a field, an operation, an enumerator or an enumerator's field — is declared in a file that is
    transmitted (`AllResolve`: no definition outside a module); otherwise the link is transmitted as written. -/
theorem resolved_links_exist (fs : List ReqFile) (hg : AllResolve fs = true) (selfKey id : String) :
    (∀ n, findNodeWithScope (buildTable (programOf fs)) id selfKey = some n →
      n.kind ≠ .module ∧ n.kind ≠ .parameter ∧ n.kind ≠ .primitive →
      convLink (buildTable (programOf fs)) selfKey id = sb n.key ∧
      ∃ rf ∈ transmitted fs, EntityOf rf.file n.key n.kind n.ident) ∧
    ((findNodeWithScope (buildTable (programOf fs)) id selfKey = none ∨
      ∃ n, findNodeWithScope (buildTable (programOf fs)) id selfKey = some n ∧
        (n.kind = .module ∨ n.kind = .parameter ∨ n.kind = .primitive)) →
      convLink (buildTable (programOf fs)) selfKey id = sb id) :=
  ⟨fun n hf hk => resolved_link_entity fs hg selfKey id n hf hk, unresolved_link_verbatim _ selfKey id⟩


/-! ## the guard follows from acceptance by the compiler model

`validate P` (Model/Validate.lean, C04) is the list of error codes of the whole pipeline: parse-time checks → attribute
patching → type-reference resolution (C03's `resolveNamed` on every written name, nested ones and alias targets included) →
cycle gate → redefinition scan → validating visitor; `validate P = []` = "the compiler model accepts `P`".
Three things `AllResolve` asks for are NOT consequences of `validate P = []` and stay explicit, decidable hypotheses (each is
shown to be needed by a program in `Slicec.C08Demo`, Lemmas/RequestBridge.lean):

* `ParserShaped P` — a module declaration names a module (the grammar demands it; the abstract syntax does not) and every
  interface base is written as a name (a keyword or anonymous type as base is an E017 of the PARSER, `construct_interface`,
  which `validate` does not model);
* `DescentWithin P` — **the descent bound**: on every written type reference, with aliases replaced by their targets, the
  fuel `elabFuel = 64` of the converter model is not exhausted (at most 31 nested anonymous types). `elabFuel` is a constant
  of the MODEL — the Rust converter recurses without bound and the compiler accepts deeper types
  (`C08Demo.deep_accepted_not_within`: 32 nested sequences) — so it cannot follow from acceptance. It also excludes what
  the alias gate of `detect_cycles` rejects (`typealias A = Sequence<A>`, E019): that gate is C05's `aliasGateErrors` and is not
  a phase of `validate` (`C08Demo.aliasLoop_accepted_not_within`). What acceptance DOES give, once C05's gate is added
  (`validate P = []` and `Cyc.aliasGateErrors P = []`), is that the descent is finite and linear in the program size
  (`accepted_descent_is_bounded`: `2 d + 2 n + 5` units); so `DescentWithin` follows from a purely syntactic size condition
  (`NestingSmall`, `descent_bound_from_alias_gate`), and only the constant 64 stands between acceptance and the guard. -/

/-- (c) **"module declaration is required".** In a program the compiler model accepts, a file without module declaration
    has no definitions. -/
theorem definitions_need_a_module (P : Program) (hacc : validate P = []) (f : SFile) (hf : f ∈ P) (hm : f.module = none) :
    f.defs = [] :=
  accepted_moduleRequired P hacc f hf hm

/-- (a) **Every written name of an accepted program resolves, whatever the position.** For every definition of every file:
    each named reference written in a field / parameter / return-member / enumerator-field type or in an alias target — at
    any depth inside sequences, dictionaries and results — resolves (`resolveNamed … = .ok …`) in a type position from the
    module scope of its file; and every base written as a name resolves to a node, in an interface position. -/
theorem written_names_resolve (P : Program) (hacc : validate P = []) (f : SFile) (hf : f ∈ P) (d : Def) (hd : d ∈ f.defs) :
    (∀ r ∈ (Validate.defVisitedTRefs d).flatMap Validate.subRefsT, ∀ id, r.ty = .named id →
      ∃ v, resolveNamed (buildTable P) .type id f.modPath = .ok v) ∧
    (∀ doc attrs name bases ops, d = .iface doc attrs name bases ops → ∀ b ∈ bases, ∀ id, b.ty = .named id →
      ∃ n extra, resolveNamed (buildTable P) .interface id f.modPath = .ok (.node n, extra)) := by
  refine ⟨accepted_refsOK P hacc f hf d hd, ?_⟩
  intro doc attrs name bases ops hdef b hb id hid
  subst hdef
  obtain ⟨v, hv⟩ := accepted_basesOK P hacc f hf doc attrs name bases ops hd b hb id hid
  obtain ⟨n, extra, rfl⟩ := resolveNamed_interface_node _ _ _ _ hv
  exact ⟨n, extra, hv⟩

/-- (a) **The way back through an alias.** When a name resolves — directly or through a chain of aliases — to a written
    type expression `e` with module scope `s` (what the converter then descends into), `e` is the target of an alias
    definition of a file of the program whose module scope is `s`; in an accepted program every name written inside `e`
    therefore resolves from `s` as well. -/
theorem alias_target_is_a_site (P : Program) (hacc : validate P = []) (w : Want) (id scope : String) (e : TyExpr) (s : String)
    (extra : List Attr) (h : resolveNamed (buildTable P) w id scope = .ok (.expr e s, extra)) :
    (∃ f ∈ P, ∃ doc attrs name a o, Def.alias doc attrs name (.mk a e o) ∈ f.defs ∧ s = f.modPath) ∧
    (∀ r ∈ Validate.subRefsE e, ∀ id', r.ty = .named id' → ∃ v, resolveNamed (buildTable P) .type id' s = .ok v) :=
  ⟨resolveNamed_expr_origin P w id scope e s extra h,
   alias_target_refsOK P (fun f hf d hd => accepted_refsOK P hacc f hf d hd) w id scope e s extra h⟩

/-- (a) + (b), for EVERY descent budget: in an accepted program, a written type reference of a definition on which a budget
    `fuel` is not exhausted (`trefWithin`) is converted with that budget without any fallback (`trefResolves`: every name on
    the way resolves to a node or, through aliases, to a written type that converts without fallback). The constant
    `elabFuel` plays no role here. -/
theorem accepted_reference_converts (P : Program) (hacc : validate P = []) (f : SFile) (hf : f ∈ P) (d : Def) (hd : d ∈ f.defs)
    (r : TRef) (hr : r ∈ Validate.defVisitedTRefs d) (fuel : Nat)
    (hw : trefWithin (buildTable P) f.modPath fuel r = true) : trefResolves (buildTable P) f.modPath fuel r = true := by
  have hP := fun f hf d hd => accepted_refsOK P hacc f hf d hd
  refine (resolves_of_within P hP fuel).1 f.modPath r ((hP f hf d hd).sub ?_) hw
  intro x hx
  exact List.mem_flatMap.mpr ⟨r, hr, hx⟩

/-- (b) what the descent bound means where no alias of an anonymous type is involved: a reference whose written nesting of
    sequences / dictionaries / results is at most 31 stays within `elabFuel`; more budget never hurts. -/
theorem descent_bound_is_nesting_31 (t : Table) (scope : String) (r : TRef) (hn : trefNoAliasExpr t scope r = true)
    (hd : r.nesting ≤ 31) : trefWithin t scope elabFuel r = true :=
  (within_of_nesting t scope elabFuel).1 r hn (by simp only [elabFuel]; omega)

/-- (b) **With C05's alias gate, the descent of an accepted program is bounded by its size.** If the compiler model accepts
    `P` and the alias gate of `detect_cycles` (C05's `Cyc.aliasGateErrors`: `revisits_anonymous_type` on the graph of
    anonymous types, `alias_gate_reports_iff`) reports nothing, then for EVERY written type reference `r` — wherever it
    stands, whatever it names — the converter's descent on the flattened type needs at most `2 d + 2 n + 5` units, where
    `d = r.nesting` is the written nesting of anonymous types in `r` and `n = anonCount P` the number of anonymous types
    written in the alias definitions of `P`: the descent follows a path of the graph of anonymous types, on which — the gate
    being silent — no node occurs twice. (Without the gate: `typealias A = Sequence<A>` is accepted by `validate` and no
    budget suffices.) -/
theorem accepted_descent_is_bounded (P : Program) (hacc : validate P = []) (hgate : Cyc.aliasGateErrors P = [])
    (scope : String) (r : TRef) : trefWithin (buildTable P) scope (2 * r.nesting + 2 * anonCount P + 5) r = true :=
  accepted_gate_within P hacc hgate scope r

/-- … hence the descent bound of the converter model follows from acceptance, the alias gate and a syntactic size condition:
    `2 d + 2 n + 5 ≤ elabFuel` for every written reference of a visited position (`NestingSmall`, decidable without any
    name resolution). -/
theorem descent_bound_from_alias_gate (P : Program) (hacc : validate P = []) (hgate : Cyc.aliasGateErrors P = [])
    (hsmall : NestingSmall P = true) : DescentWithin P = true :=
  descentWithin_of_gate P hacc hgate hsmall

/-- **The bridge: compiled programs resolve.** For the list of files the driver builds from a program `P` (file `i` under the
    path given for it, a source file unless `i` is among the reference files): if the compiler model accepts `P`
    (`validate P = []`), `P` is shaped as the parser shapes it and its flattened types stay within the descent bound of the
    converter model, then the guard `AllResolve` of the three theorems above holds. -/
theorem compiled_programs_resolve (pathOf : Nat → String) (refs : List Nat) (P : Program)
    (hacc : validate P = []) (hshape : ParserShaped P = true) (hdepth : DescentWithin P = true) :
    AllResolve (reqFilesOf pathOf refs P) = true := by
  apply allResolve_of_accepted <;> rw [programOf_reqFilesOf] <;> assumption

/-- the same for any list of compiled files (any paths, any source/reference split, any order) -/
theorem compiled_files_resolve (fs : List ReqFile) (hacc : validate (programOf fs) = [])
    (hshape : ParserShaped (programOf fs) = true) (hdepth : DescentWithin (programOf fs) = true) : AllResolve fs = true :=
  allResolve_of_accepted fs hacc hshape hdepth

/-- the bridge with C05's alias gate in place of the resolution-dependent descent hypothesis: accepted by `validate`, passed
    by the alias gate, shaped as the parser shapes it, and syntactically small (`NestingSmall`) ⇒ `AllResolve` -/
theorem compiled_programs_resolve_gate (pathOf : Nat → String) (refs : List Nat) (P : Program)
    (hacc : validate P = []) (hgate : Cyc.aliasGateErrors P = []) (hshape : ParserShaped P = true)
    (hsmall : NestingSmall P = true) : AllResolve (reqFilesOf pathOf refs P) = true :=
  compiled_programs_resolve pathOf refs P hacc hshape (descentWithin_of_gate P hacc hgate hsmall)

/-- `named_ids_exist` with "the program is accepted by the compiler model" in place of `AllResolve`. -/
theorem named_ids_exist_of_accepted (mode : DocMode) (fs : List ReqFile) (srcs refs : List SliceFileV)
    (h : convert mode fs = some (srcs, refs)) (hacc : validate (programOf fs) = [])
    (hshape : ParserShaped (programOf fs) = true) (hdepth : DescentWithin (programOf fs) = true) :
    ∀ f ∈ srcs ++ refs, ∀ s ∈ f.contents,
      (∀ r ∈ s.trefs, ∀ id, r.typeId = .named id →
        (∃ p ∈ Prim.all, id = sb p.kw) ∨ EntityIn (srcs ++ refs) ["struct", "enum", "custom"] id) ∧
      (∀ v, s = .interface v → ∀ b ∈ v.bases, EntityIn (srcs ++ refs) ["interface"] b) :=
  named_ids_exist mode fs srcs refs h (compiled_files_resolve fs hacc hshape hdepth)

/-- `resolved_links_exist` with acceptance in place of `AllResolve` — acceptance ALONE: of the guard only "no definition
    outside a module" is used, which is the parse-time rule `moduleRequired` of `validate`. -/
theorem resolved_links_exist_of_accepted (fs : List ReqFile) (hacc : validate (programOf fs) = []) (selfKey id : String) :
    (∀ n, findNodeWithScope (buildTable (programOf fs)) id selfKey = some n →
      n.kind ≠ .module ∧ n.kind ≠ .parameter ∧ n.kind ≠ .primitive →
      convLink (buildTable (programOf fs)) selfKey id = sb n.key ∧
      ∃ rf ∈ transmitted fs, EntityOf rf.file n.key n.kind n.ident) ∧
    ((findNodeWithScope (buildTable (programOf fs)) id selfKey = none ∨
      ∃ n, findNodeWithScope (buildTable (programOf fs)) id selfKey = some n ∧
        (n.kind = .module ∨ n.kind = .parameter ∨ n.kind = .primitive)) →
      convLink (buildTable (programOf fs)) selfKey id = sb id) :=
  ⟨fun n hf hk => resolved_link_entity_accepted fs hacc selfKey id n hf hk, unresolved_link_verbatim _ selfKey id⟩

/-- `content_faithful_decoded` (bytes → decoded value → `describe P`) with acceptance in place of `AllResolve`. -/
theorem content_faithful_decoded_of_accepted (fs : List ReqFile) (srcs refs : List SliceFileV) (bs args : Bytes)
    (hc : convert DocMode.current fs = some (srcs, refs)) (hacc : validate (programOf fs) = [])
    (hshape : ParserShaped (programOf fs) = true) (hdepth : DescentWithin (programOf fs) = true)
    (he : encodeRequest srcs refs = some bs) :
    ∃ ss rs : List SVal, decodeCall CS "generateCode" 2 (bs ++ args) = .ok ([.list ss, .list rs], args) ∧
      optMap fromValFile ss = some (describe .asDemanded fs true) ∧
      optMap fromValFile rs = some (describe .asDemanded fs false) :=
  content_faithful_decoded fs srcs refs bs args hc (compiled_files_resolve fs hacc hshape hdepth) he

/-! ### acceptance by the COMPLETE pipeline (`validateFull`, Model/Pipeline.lean)

`validate` lacks the parser's E017 for a base that is not a name and the alias gate of `detect_cycles`; that is why
`compiled_programs_resolve_gate` asks for `ParserShaped` and `Cyc.aliasGateErrors P = []`. `validateFull` has both phases
(tied to the compiler by the stream of C04), so acceptance by it gives both. What stays explicit: `ModulesNamed` (a module
declaration with an empty path — expressible in the abstract syntax only, looked at by no phase) and `NestingSmall` (the
descent constant of the converter MODEL; `C08Demo.deep_accepted_full`). -/

/-- **The bridge from the complete verdict.** If the complete pipeline accepts `P` (`validateFull P = []`: every phase of the
    front end, including the parser's shape check, the alias gate and the inheritance check), the module declarations of `P`
    are named and its written types are syntactically small, then the guard `AllResolve` holds for the file list the driver
    builds from `P`. -/
theorem compiled_programs_resolve_full (pathOf : Nat → String) (refs : List Nat) (P : Program)
    (hacc : validateFull P = []) (hmod : ModulesNamed P = true) (hsmall : NestingSmall P = true) :
    AllResolve (reqFilesOf pathOf refs P) = true := by
  apply allResolve_of_accepted_full <;> rw [programOf_reqFilesOf] <;> assumption

/-- the same for any list of compiled files (any paths, any source/reference split, any order) -/
theorem compiled_files_resolve_full (fs : List ReqFile) (hacc : validateFull (programOf fs) = [])
    (hmod : ModulesNamed (programOf fs) = true) (hsmall : NestingSmall (programOf fs) = true) : AllResolve fs = true :=
  allResolve_of_accepted_full fs hacc hmod hsmall

/-- `ParserShaped` and the alias-gate hypothesis of `compiled_programs_resolve_gate` are consequences of acceptance by the
    complete pipeline (given named modules), and so is acceptance by `validate` -/
theorem accepted_full_gives_gate_hypotheses (P : Program) (hacc : validateFull P = []) (hmod : ModulesNamed P = true) :
    validate P = [] ∧ Cyc.aliasGateErrors P = [] ∧ ParserShaped P = true := by
  obtain ⟨hv, hs, hg, _⟩ := (Validate.validateFull_nil_iff P).mp hacc
  exact ⟨hv, hg, parserShaped_of_shape P hmod hs⟩

/-- `named_ids_exist` with "the program is accepted by the complete pipeline" in place of `AllResolve`. -/
theorem named_ids_exist_of_accepted_full (mode : DocMode) (fs : List ReqFile) (srcs refs : List SliceFileV)
    (h : convert mode fs = some (srcs, refs)) (hacc : validateFull (programOf fs) = [])
    (hmod : ModulesNamed (programOf fs) = true) (hsmall : NestingSmall (programOf fs) = true) :
    ∀ f ∈ srcs ++ refs, ∀ s ∈ f.contents,
      (∀ r ∈ s.trefs, ∀ id, r.typeId = .named id →
        (∃ p ∈ Prim.all, id = sb p.kw) ∨ EntityIn (srcs ++ refs) ["struct", "enum", "custom"] id) ∧
      (∀ v, s = .interface v → ∀ b ∈ v.bases, EntityIn (srcs ++ refs) ["interface"] b) :=
  named_ids_exist mode fs srcs refs h (compiled_files_resolve_full fs hacc hmod hsmall)

/-- `resolved_links_exist` with acceptance by the complete pipeline — alone. -/
theorem resolved_links_exist_of_accepted_full (fs : List ReqFile) (hacc : validateFull (programOf fs) = []) (selfKey id : String) :
    (∀ n, findNodeWithScope (buildTable (programOf fs)) id selfKey = some n →
      n.kind ≠ .module ∧ n.kind ≠ .parameter ∧ n.kind ≠ .primitive →
      convLink (buildTable (programOf fs)) selfKey id = sb n.key ∧
      ∃ rf ∈ transmitted fs, EntityOf rf.file n.key n.kind n.ident) ∧
    ((findNodeWithScope (buildTable (programOf fs)) id selfKey = none ∨
      ∃ n, findNodeWithScope (buildTable (programOf fs)) id selfKey = some n ∧
        (n.kind = .module ∨ n.kind = .parameter ∨ n.kind = .primitive)) →
      convLink (buildTable (programOf fs)) selfKey id = sb id) :=
  resolved_links_exist_of_accepted fs ((Validate.validateFull_nil_iff _).mp hacc).1 selfKey id

/-- `content_faithful_decoded` (bytes → decoded value → `describe P`) with acceptance by the complete pipeline. -/
theorem content_faithful_decoded_of_accepted_full (fs : List ReqFile) (srcs refs : List SliceFileV) (bs args : Bytes)
    (hc : convert DocMode.current fs = some (srcs, refs)) (hacc : validateFull (programOf fs) = [])
    (hmod : ModulesNamed (programOf fs) = true) (hsmall : NestingSmall (programOf fs) = true)
    (he : encodeRequest srcs refs = some bs) :
    ∃ ss rs : List SVal, decodeCall CS "generateCode" 2 (bs ++ args) = .ok ([.list ss, .list rs], args) ∧
      optMap fromValFile ss = some (describe .asDemanded fs true) ∧
      optMap fromValFile rs = some (describe .asDemanded fs false) :=
  content_faithful_decoded fs srcs refs bs args hc (compiled_files_resolve_full fs hacc hmod hsmall) he

/-! ## non-vacuity -/

/-- a request the encoder accepts, with an anonymous type, an optional tag and a comment (strings as byte literals) -/
def demoFile : SliceFileV :=
  { path := [97], moduleDeclaration := ⟨[77], []⟩, attributes := [⟨[99, 115, 58, 58, 120], [[121]]⟩],
    contents := [.sequenceType ⟨⟨.named [98, 111, 111, 108], false, []⟩⟩,
                 .struct ⟨⟨[83], [], some ⟨[.text [100], .link [77, 58, 58, 83]], [[77, 58, 58, 83]]⟩⟩, false,
                          [⟨⟨[102], [], none⟩, some 2147483647, ⟨.named [48], true, []⟩⟩]⟩] }

example : (encSeqOf encodeSliceFile [demoFile, demoFile]).isSome = true := by decide
example : encodeAttribute ⟨[97], [[98]]⟩ = some [4, 97, 4, 4, 98, 252] := by decide
example : encodeField ⟨⟨[102], [], none⟩, some 0, ⟨.named [98, 111, 111, 108], false, []⟩⟩ =
    some [1, 0, 4, 102, 0, 252, 0, 16, 98, 111, 111, 108, 0, 0, 252, 252] := by decide
example : (match decodeBySchema CS "Attribute" [4, 97, 4, 4, 98, 252, 7] with
    | .ok (.struct [.str d, .list [.str a]], rest) => d == [97] && a == [98] && rest == [7]
    | _ => false) = true := by decide
example : camelCase "has_streamed_parameter" = "hasStreamedParameter" := by decide

/-! ### on a two-file program (Lemmas/RequestContent.lean, `C08Demo`)

`a.slice` (source): `[[cs::ns("X")]] module M  compact struct S { x: bool }  typealias A = [cs::t] Sequence<S?>`;
`b.slice` (reference): `module N`, `/// Holds {@link M::S}.` `/// @see M::S` `struct T { y: tag(3) [cs::u] M::A? }`,
`unchecked enum E { P, Q(w: M::S) = 5, R }`. -/

/-- every written reference resolves: the guard of `named_ids_exist` holds -/
example : AllResolve C08Demo.files = true := C08Demo.files_resolve

/-- the conversion: in the reference file the anonymous `Sequence<M::S?>` the alias stands for is symbol 0, and `T::y` refers
    to it by the numeric id 0 with both attributes (`cs::u` written on the field's type, `cs::t` on the alias's) -/
example : convert DocMode.current C08Demo.files = some ([C08Demo.convertedA], [C08Demo.convertedB]) := by
  rw [return_docs_as_demanded]; exact C08Demo.convert_files

/-- the description of the reference file, written from the syntax: the doc comment with its link and see-tag resolved, the
    tagged optional field whose type is the flattened alias as a tree, the variant enum with values 0, 5, 6 -/
example : describe .asDemanded C08Demo.files false = [C08Demo.describedB] := C08Demo.describe_refs

/-- …and `content_read_back` on it: the converted reference file reads back as that description -/
example : [C08Demo.convertedB].map readFile = [C08Demo.describedB] := by
  rw [← C08Demo.describe_refs]
  exact (content_read_back .asDemanded C08Demo.files _ _ C08Demo.convert_files).2

/-- …and from the untyped value a schema-driven reader gets for that file -/
example : optMap fromValFile [toValSliceFile C08Demo.convertedB] = some [C08Demo.describedB] := by
  have hr := convert_readable .asDemanded C08Demo.files _ _ C08Demo.convert_files C08Demo.files_resolve
  have h := fromVal_Files [C08Demo.convertedB] (fun v hv => hr v (by simp at hv ⊢; exact Or.inr hv))
  rw [← C08Demo.describe_refs, ← (content_read_back .asDemanded C08Demo.files _ _ C08Demo.convert_files).2]
  exact h

/-- `named_ids_exist` applies: e.g. the element type of symbol 0 of the reference file is `M::S`, a struct symbol of the
    source file -/
example : EntityIn ([C08Demo.convertedA] ++ [C08Demo.convertedB]) ["struct", "enum", "custom"] (sb "M::S") := by
  have h := named_ids_exist .asDemanded C08Demo.files _ _ C08Demo.convert_files C08Demo.files_resolve
    C08Demo.convertedB (by simp) (.sequenceType ⟨⟨.named (sb "M::S"), true, []⟩⟩) (by simp [C08Demo.convertedB])
  rcases h.1 ⟨.named (sb "M::S"), true, []⟩ (by simp [SymbolV.trefs]) (sb "M::S") rfl with ⟨p, _, hp⟩ | h
  · exfalso; revert p; simp only [C08Demo.sb_eq_data]; decide
  · exact h

/-- **the guard is needed (1).** `module M  struct S { x: Nope }`: the converter produces a request in which the type id of
    `x` is the unresolved name as written — neither a keyword nor an entity of a transmitted file. (`AllResolve` is false.) -/
example : AllResolve C08Demo.bad1 = false ∧ ∃ srcs refs, convert DocMode.current C08Demo.bad1 = some (srcs, refs) ∧
    ∃ f ∈ srcs ++ refs, ∃ s ∈ f.contents, ∃ r ∈ s.trefs, ∃ id, r.typeId = .named id ∧
      ¬ ((∃ p ∈ Prim.all, id = sb p.kw) ∨ EntityIn (srcs ++ refs) ["struct", "enum", "custom"] id) :=
  ⟨C08Demo.bad1_not_resolved, C08Demo.bad1_dangling _⟩

/-- **the guard is needed (2).** `custom C` in a file without module declaration, used by `module M  struct S { x: C }`: the
    name resolves, but the defining file is not transmitted (when module-less files are skipped), so the id `C` names nothing
    the generator can see. -/
example (hs : Gen.requestSkipsModuleless = true) :
    AllResolve C08Demo.bad2 = false ∧ ∃ srcs refs, convert DocMode.current C08Demo.bad2 = some (srcs, refs) ∧
    ∃ f ∈ srcs ++ refs, ∃ s ∈ f.contents, ∃ r ∈ s.trefs, ∃ id, r.typeId = .named id ∧
      ¬ ((∃ p ∈ Prim.all, id = sb p.kw) ∨ EntityIn (srcs ++ refs) ["struct", "enum", "custom"] id) :=
  ⟨C08Demo.bad2_not_resolved, C08Demo.bad2_dangling _ hs⟩


/-! ### acceptance by the compiler model -/

/-- the two-file program is accepted by `validate`, shaped as the parser shapes it and within the descent bound: the
    corollaries apply to it … -/
example : validate (programOf C08Demo.files) = [] ∧ ParserShaped (programOf C08Demo.files) = true ∧
    DescentWithin (programOf C08Demo.files) = true :=
  ⟨C08Demo.demo_accepted, C08Demo.demo_shaped, C08Demo.demo_within⟩

/-- … the guard follows (not evaluated: derived from acceptance) … -/
example : AllResolve C08Demo.files = true :=
  compiled_files_resolve C08Demo.files C08Demo.demo_accepted C08Demo.demo_shaped C08Demo.demo_within

/-- … also in the form of the driver's file list (file 1 a reference file) … -/
example : AllResolve (reqFilesOf (fun i => "f" ++ toString i ++ ".slice") [1] (programOf C08Demo.files)) = true :=
  compiled_programs_resolve _ [1] _ C08Demo.demo_accepted C08Demo.demo_shaped C08Demo.demo_within

/-- … and `named_ids_exist_of_accepted` gives, e.g., that the element type `M::S` of symbol 0 of the reference file is a
    struct symbol of a transmitted file -/
example : EntityIn ([C08Demo.convertedA] ++ [C08Demo.convertedB]) ["struct", "enum", "custom"] (sb "M::S") := by
  have h := named_ids_exist_of_accepted .asDemanded C08Demo.files _ _ C08Demo.convert_files C08Demo.demo_accepted
    C08Demo.demo_shaped C08Demo.demo_within
    C08Demo.convertedB (by simp) (.sequenceType ⟨⟨.named (sb "M::S"), true, []⟩⟩) (by simp [C08Demo.convertedB])
  rcases h.1 ⟨.named (sb "M::S"), true, []⟩ (by simp [SymbolV.trefs]) (sb "M::S") rfl with ⟨p, _, hp⟩ | h
  · exfalso; revert p; simp only [C08Demo.sb_eq_data]; decide
  · exact h

/-- … and its descent bound also follows from C05's alias gate and its size (`d ≤ 1`, `n = 1`: 9 units of 64) -/
example : DescentWithin (programOf C08Demo.files) = true :=
  descent_bound_from_alias_gate _ C08Demo.demo_accepted C08Demo.demo_gate C08Demo.demo_small

/-- `resolved_links_exist_of_accepted` on it: the link `{@link M::S}` in the comment of `N::T` travels as `M::S`, and the
    struct is declared in a transmitted file -/
example : convLink (buildTable (programOf C08Demo.files)) "N::T" "M::S" = sb "M::S" ∧
    ∃ rf ∈ transmitted C08Demo.files, EntityOf rf.file "M::S" .struct "S" :=
  (resolved_links_exist_of_accepted C08Demo.files C08Demo.demo_accepted "N::T" "M::S").1 C08Demo.nodeS C08Demo.find_S_in_T
    (by decide)

/-- `accepted_descent_is_bounded` on it: the field type `[cs::u] M::A?` of `T::y` (written nesting 0; one anonymous type is
    written in alias definitions) is flattened within 2·0 + 2·1 + 5 = 7 units -/
example : trefWithin (buildTable (programOf C08Demo.files)) "N" 7 (.mk [⟨"cs::u", []⟩] (.named "M::A") true) = true :=
  accepted_descent_is_bounded _ C08Demo.demo_accepted C08Demo.demo_gate "N" (.mk [⟨"cs::u", []⟩] (.named "M::A") true)

/-- **the descent bound is needed and does not follow from acceptance**: a struct whose field nests 32 sequences is accepted
    by the compiler model (and by the real compiler), yet the converter model's descent is exhausted on it; 31 fit -/
example : validate (programOf C08Demo.deep) = [] ∧ ParserShaped (programOf C08Demo.deep) = true ∧
    DescentWithin (programOf C08Demo.deep) = false ∧ AllResolve C08Demo.deep = false ∧
    trefWithin (buildTable (programOf C08Demo.deep)) "M" elabFuel (C08Demo.nestSeq 31) = true :=
  C08Demo.deep_accepted_not_within

/-- **`validate` has no alias gate**: `typealias A = Sequence<A>` passes every phase of `validate`; C05's model of the gate
    reports it (E019), the descent never ends on it -/
example : validate (programOf C08Demo.aliasLoop) = [] ∧ ParserShaped (programOf C08Demo.aliasLoop) = true ∧
    Cyc.aliasGateErrors (programOf C08Demo.aliasLoop) = ["M::A"] ∧
    DescentWithin (programOf C08Demo.aliasLoop) = false ∧ AllResolve C08Demo.aliasLoop = false :=
  C08Demo.aliasLoop_accepted_not_within

/-- **`ParserShaped` is needed**: `interface I : bool {}` and a module declaration without a name pass `validate` -/
example : (validate (programOf C08Demo.primBase) = [] ∧ DescentWithin (programOf C08Demo.primBase) = true ∧
      ParserShaped (programOf C08Demo.primBase) = false ∧ AllResolve C08Demo.primBase = false) ∧
    (validate (programOf C08Demo.noName) = [] ∧ DescentWithin (programOf C08Demo.noName) = true ∧
      ParserShaped (programOf C08Demo.noName) = false ∧ AllResolve C08Demo.noName = false) :=
  C08Demo.shape_needed

/-- implicit enumerator values: `P, Q = 5, R` are 0, 5, 6 -/
example : enumValues none [⟨[], [], "P", none, none⟩, ⟨[], [], "Q", none, some ⟨false, 10, 5, false⟩⟩, ⟨[], [], "R", none, none⟩] =
    [0, 5, 6] := by decide

/-! ### acceptance by the complete pipeline -/

/-- the two-file program is accepted by the complete pipeline, its modules are named, it is syntactically small: the guard is
    DERIVED — no shape hypothesis, no alias-gate hypothesis, no resolution-dependent hypothesis -/
example : AllResolve C08Demo.files = true :=
  compiled_files_resolve_full C08Demo.files C08Demo.demo_accepted_full C08Demo.demo_modules_named C08Demo.demo_small
example : AllResolve (reqFilesOf (fun i => "f" ++ toString i ++ ".slice") [1] (programOf C08Demo.files)) = true :=
  compiled_programs_resolve_full _ [1] _ C08Demo.demo_accepted_full C08Demo.demo_modules_named C08Demo.demo_small

/-- the two programs that `validate` accepted and the compiler rejects are rejected by the complete pipeline with the
    compiler's codes (E019, E017): they no longer need to be excluded by hand -/
example : validateFull (programOf C08Demo.aliasLoop) = [Validate.code "SelfReferentialTypeAliasNeedsConcreteType"] ∧
    validateFull (programOf C08Demo.primBase) = [Validate.code "TypeMismatch"] :=
  ⟨C08Demo.aliasLoop_rejected_full, C08Demo.primBase_rejected_full⟩

/-- **`ModulesNamed` is needed**: a module declaration without a name passes every phase — no source text can express it -/
example : validateFull (programOf C08Demo.noName) = [] ∧ ModulesNamed (programOf C08Demo.noName) = false ∧
    AllResolve C08Demo.noName = false := C08Demo.noName_accepted_full

/-- **`NestingSmall` is needed**: 32 nested sequences are accepted by the complete pipeline (and the compiler); the converter
    MODEL's descent constant is exceeded -/
example : validateFull (programOf C08Demo.deep) = [] ∧ ModulesNamed (programOf C08Demo.deep) = true ∧
    NestingSmall (programOf C08Demo.deep) = false ∧ AllResolve C08Demo.deep = false := C08Demo.deep_accepted_full

end Slicec.C08

#print axioms Slicec.C08.field_order_matches_schema
#print axioms Slicec.C08.macro_order_is_declaration_order
#print axioms Slicec.C08.manual_encoder_shapes
#print axioms Slicec.C08.discriminants_match_schema
#print axioms Slicec.C08.request_shape_matches_schema
#print axioms Slicec.C08.numeric_ids_backward
#print axioms Slicec.C08.numeric_id_is_decimal
#print axioms Slicec.C08.schema_codec_roundtrip
#print axioms Slicec.C08.attribute_roundtrip
#print axioms Slicec.C08.typeRef_roundtrip
#print axioms Slicec.C08.docComment_roundtrip
#print axioms Slicec.C08.entityInfo_roundtrip
#print axioms Slicec.C08.field_roundtrip
#print axioms Slicec.C08.symbol_roundtrip
#print axioms Slicec.C08.sliceFile_roundtrip
#print axioms Slicec.C08.request_decodes
#print axioms Slicec.C08.content_faithful_partial
#print axioms Slicec.C08.return_docs_as_demanded
#print axioms Slicec.C08.content_faithful_docs
#print axioms Slicec.C08.toValAttribute_injective
#print axioms Slicec.C08.content_read_back
#print axioms Slicec.C08.content_faithful
#print axioms Slicec.C08.content_faithful_decoded
#print axioms Slicec.C08.decoded_value_determines_file
#print axioms Slicec.C08.type_reference_shape
#print axioms Slicec.C08.type_reference_flags
#print axioms Slicec.C08.files_in_order
#print axioms Slicec.C08.definitions_in_order
#print axioms Slicec.C08.members_in_order
#print axioms Slicec.C08.definition_infos_in_order
#print axioms Slicec.C08.parameter_documentation
#print axioms Slicec.C08.enumerator_values
#print axioms Slicec.C08.enumerator_value_decodes
#print axioms Slicec.C08.tag_as_written
#print axioms Slicec.C08.attribute_verbatim
#print axioms Slicec.C08.named_ids_exist
#print axioms Slicec.C08.resolved_links_exist
#print axioms Slicec.C08.definitions_need_a_module
#print axioms Slicec.C08.written_names_resolve
#print axioms Slicec.C08.alias_target_is_a_site
#print axioms Slicec.C08.accepted_reference_converts
#print axioms Slicec.C08.descent_bound_is_nesting_31
#print axioms Slicec.C08.compiled_programs_resolve
#print axioms Slicec.C08.compiled_files_resolve
#print axioms Slicec.C08.named_ids_exist_of_accepted
#print axioms Slicec.C08.resolved_links_exist_of_accepted
#print axioms Slicec.C08.content_faithful_decoded_of_accepted
#print axioms Slicec.C08.accepted_descent_is_bounded
#print axioms Slicec.C08.descent_bound_from_alias_gate
#print axioms Slicec.C08.compiled_programs_resolve_gate
#print axioms Slicec.C08.compiled_programs_resolve_full
#print axioms Slicec.C08.compiled_files_resolve_full
#print axioms Slicec.C08.accepted_full_gives_gate_hypotheses
#print axioms Slicec.C08.named_ids_exist_of_accepted_full
#print axioms Slicec.C08.resolved_links_exist_of_accepted_full
#print axioms Slicec.C08.content_faithful_decoded_of_accepted_full
