/-
  C05 — Illegal cycles are always diagnosed; acyclic definitions never are.
  Theorems over the detector model of Model/Cycles.lean (mirror of validators/cycle_detection.rs: the containment
  search with its skip rule, the interface inheritance check, the gate order), the alias walk of Model/Resolve.lean
  (mirror of TypeRefPatcher::resolve_type_alias) and `allBases` (Interface::all_base_interfaces, `collect`).

  `detectUnpruned` (the search before dd206d7) and `allBasesSpec` (the definition before 323593c) occur only as
  specifications: `prune_preserves_reports`, `allBases_eq_spec`.
-/
import SlicecVerif.Lemmas.Cycles

namespace Slicec.C05

open Slicec Slicec.Cyc

/-! ## (a) termination: the fuel of the search suffices -/

/-- For every edge function whose targets are nodes `< n`, the detector never reaches its out-of-fuel branch:
    the stack holds distinct ids different from the root, so it is shorter than `n` = the initial fuel. -/
theorem fuel_suffices_E (E : EdgeFn) (n : Nat) (hE : ∀ a e, e ∈ E a → e.2 < n) :
    (detectE E n).exhausted = false := by
  rw [detectE_eq_detectG]
  refine detectG_induct E n _ (fun st => st.exhausted = false) rfl ?_
  intro r st hr hst
  refine dfs_induct E r _ (fun fuel stack _ => StackInv n r stack ∧ n ≤ stack.length + fuel)
    (fun st => st.exhausted = false) ?_ ?_ ?_ ?_ n [] r st ⟨⟨by simp, by simpa using hr⟩, by simp⟩ hst
  · intro fuel stack cur e ⟨hinv, hlen⟩ he hroot _ hnot
    refine ⟨hinv.push ⟨e.2, cur, e.1⟩ hroot hnot (hE cur e he), ?_⟩
    simp only [List.length_append, List.length_singleton]; omega
  · intro st h; simpa using h
  · intro _ _ _ _ st _ _ _ h; simpa using h
  · intro stack cur st ⟨hinv, hlen⟩ _
    have := hinv.length_lt
    omega

/-- The set `types_depending_on_checked_type` computed by the worklist of `detect_cycles` (at most `n + 1` pops) is
    exactly the set of struct/enum nodes from which the checked type is reachable through ≥ 1 containment edges. -/
theorem dependsOn_is_reverse_reachability (E : EdgeFn) (n : Nat) (hE : ∀ a e, e ∈ E a → e.2 < n) (root x : Nat) :
    x ∈ dependsOn E n root ↔ x < n ∧ EReach E x root :=
  mem_dependsOn E n hE root x

/-- The detector run on the containment graph of a program never runs out of fuel
    (fuel = number of struct/enum nodes − stack length). -/
theorem fuel_suffices (g : Graph) : (detectE (edges g) g.length).exhausted = false :=
  fuel_suffices_E (edges g) g.length (edges_lt g)

/-! ## (b) soundness of the reports -/

/-- Every reported chain is a real path closing on its root: each entry is a field (`container`, `field`) of the previous
    entry's type (of the root for the first entry) with `(field, target)` an edge, and the last target is the root. -/
theorem report_sound_E (E : EdgeFn) (n : Nat) : ∀ r ∈ (detectE E n).reports, SoundReport E r := by
  rw [detectE_eq_detectG]
  refine detectG_induct E n _ (fun st => ∀ r ∈ st.reports, SoundReport E r) (by intro r hr; cases hr) ?_
  intro root st _ h
  exact dfs_reports_sound E root _ n st h

/-- The same for the graph of a program; an edge of `edges g` is a field whose wrapper tree contains the target
    (`edge_is_field`). -/
theorem report_sound (g : Graph) : ∀ r ∈ detectCycles g, SoundReport (edges g) r :=
  report_sound_E (edges g) g.length

/-- `(f, t)` is an edge of node `c` exactly when field `f` of node `c` has a wrapper tree that contains `node t`
    (through optional, sequence, dictionary key or value, result success or failure). -/
theorem edge_is_field (g : Graph) (c f t : Nat) :
    (f, t) ∈ edges g c ↔
      ∃ nd fld, g[c]? = some nd ∧ nd.fields[f]? = some fld ∧ fld.ty.Contains t ∧ t < g.length :=
  mem_edges_iff g c f t

/-- `exact`, direction "acyclic definitions are never diagnosed": a graph without a containment cycle gets no report. -/
theorem no_spurious (g : Graph) (h : Acyclic g) : detectCycles g = [] := by
  cases hd : detectCycles g with
  | nil => rfl
  | cons r rs =>
    have hs := report_sound g r (by rw [hd]; exact List.mem_cons_self ..)
    exact absurd hs.reach (h r.root)

/-- Every report names a type that really contains itself (`root →⁺ root`). -/
theorem reported_root_on_cycle (g : Graph) : ∀ r ∈ detectCycles g, EReach (edges g) r.root r.root :=
  fun r hr => (report_sound g r hr).reach

/-! ## (c) the skip rule of dd206d7: same reports, polynomial on acyclic graphs -/

/-- `prune_preserves_reports`: skipping the candidates that do not (transitively) contain the checked type changes
    nothing observable — the detector reports exactly the diagnostics, in the same order, with the same roots and chains,
    as the detector that walks every simple path (`detectUnpruned`, the code before dd206d7), and ends with the same
    `reported_cycles`. Same fuel on both sides; holds for every fuel the two are given, in particular the one they run with. -/
theorem prune_preserves_reports_E (E : EdgeFn) (n : Nat) (hE : ∀ a e, e ∈ E a → e.2 < n) :
    (detectE E n).reports = (detectUnpruned E n).reports ∧ (detectE E n).seen = (detectUnpruned E n).seen :=
  ⟨(detect_sim E n hE).2, (detect_sim E n hE).1⟩

/-- The same for the containment graph of a program. -/
theorem prune_preserves_reports (g : Graph) : detectCycles g = (detectUnpruned (edges g) g.length).reports :=
  detect_reports_eq (edges g) g.length (edges_lt g)

/-- Cost on acyclic graphs, abstract form: when no node reaches itself, every candidate met from a root is skipped at
    once (it would otherwise close a cycle), so the detector makes exactly one call of `push_to_stack_and_check` per
    (field, leaf) edge. -/
theorem acyclic_steps_eq_edges_E (E : EdgeFn) (n : Nat) (hac : AcyclicE E) :
    (detectE E n).steps = ((List.range n).map fun r => (E r).length).sum :=
  detectE_steps_acyclic E n hac

/-- Cost on acyclic programs (the valid ones): the number of calls of `push_to_stack_and_check` is the number of
    struct/enum leaves in the field types of the program — linear in the size of the input. (Computing the sets
    `types_depending_on_checked_type` costs at most `n + 1` worklist pops per checked type:
    `dependsOn_is_reverse_reachability`.) This replaces the refutation `dense_steps_exponential` of D-05b. -/
theorem acyclic_steps_eq_edges (g : Graph) (hac : Acyclic g) :
    steps g = ((List.range g.length).map fun r => (edges g r).length).sum :=
  detectE_steps_acyclic (edges g) g.length hac

/-- … in particular at most `n · d` steps when no type has more than `d` struct/enum leaves in its fields. -/
theorem acyclic_steps_polynomial (g : Graph) (hac : Acyclic g) (d : Nat) (hd : ∀ r, (edges g r).length ≤ d) :
    steps g ≤ g.length * d := by
  rw [acyclic_steps_eq_edges g hac]
  have key : ∀ (rs : List Nat), (rs.map fun r => (edges g r).length).sum ≤ rs.length * d := by
    intro rs
    induction rs with
    | nil => simp
    | cons r rs ih =>
      simp only [List.map_cons, List.sum_cons, List.length_cons]
      have := hd r
      rw [Nat.succ_mul]; omega
  simpa using key (List.range g.length)

/-- What the skip rule bought (D-05b, fixed): WITHOUT it the detector makes at least `2^n - 1` calls on the acyclic dense
    family of `n + 1` structs (struct `i` has a field of every struct `j > i`) … -/
theorem unpruned_dense_steps_exponential (n : Nat) :
    2 ^ n ≤ (detectUnpruned (edges (dense (n + 1))) (dense (n + 1)).length).steps + 1 := by
  have hlen : (dense (n + 1)).length = n + 1 := by simp [dense]
  rw [hlen]
  exact dense_steps_exponential_E (edges (dense (n + 1))) n (dense_denseOn (n + 1))

/-- … WITH it, `n (n + 1) / 2`: one per field. -/
theorem dense_steps_quadratic (n : Nat) : steps (dense n) ≤ n * n := by
  have hlen : (dense n).length = n := by simp [dense]
  have hac : Acyclic (dense n) := by
    -- edges of the dense family go from smaller to larger indices
    have hup : ∀ a b, EReach (edges (dense n)) a b → a < b := by
      intro a b h
      induction h with
      | single hs =>
        obtain ⟨f, hf⟩ := hs
        rename_i a b
        by_cases ha : a < n
        · have := dense_denseOn n a ha
          have hb : b ∈ (edges (dense n) a).map (·.2) := List.mem_map.2 ⟨(f, b), hf, rfl⟩
          rw [this, List.mem_range'_1] at hb
          omega
        · have : edges (dense n) a = [] := by
            unfold edges
            rw [List.getElem?_eq_none (by rw [hlen]; omega)]
          rw [this] at hf; cases hf
      | cons hs _ ih =>
        obtain ⟨f, hf⟩ := hs
        rename_i a b c _
        by_cases ha : a < n
        · have := dense_denseOn n a ha
          have hb : b ∈ (edges (dense n) a).map (·.2) := List.mem_map.2 ⟨(f, b), hf, rfl⟩
          rw [this, List.mem_range'_1] at hb
          omega
        · have : edges (dense n) a = [] := by
            unfold edges
            rw [List.getElem?_eq_none (by rw [hlen]; omega)]
          rw [this] at hf; cases hf
    intro a h
    exact Nat.lt_irrefl _ (hup a a h)
  have := acyclic_steps_polynomial (dense n) hac n (by
    intro r
    by_cases hr : r < n
    · have := congrArg List.length (dense_denseOn n r hr)
      simp only [List.length_map, List.length_range'] at this
      omega
    · have : edges (dense n) r = [] := by
        unfold edges
        rw [List.getElem?_eq_none (by rw [hlen]; omega)]
      rw [this]; simp)
  rw [hlen] at this
  exact this

/-- D-05d (OPEN), erroneous programs: the skip rule does not help on cyclic graphs. For every edge function on `n + 2`
    nodes in which node `k` points to all nodes `j > k` (in order, possibly followed by other edges) and the last node
    points back to node `0` — `struct S(n+1) { back: S0? }` added to the dense family: every type lies on a cycle through
    `S0` — the detector makes at least `2^(n+1) - 1` calls of `push_to_stack_and_check`: every type contains `S0`, so nothing
    is skipped in the search rooted at `S0`, which walks every increasing path. (On the complete digraphs the count is
    factorial: family `known-d05b-complete`.) -/
theorem cyclic_steps_exponential (E : EdgeFn) (n : Nat) (hlt : ∀ a e, e ∈ E a → e.2 < n + 2)
    (hE : DenseBackOn E (n + 2)) (hback : EStep E (n + 1) 0) :
    2 ^ (n + 1) ≤ (detectE E (n + 2)).steps + 1 :=
  cyclic_steps_exponential_E E n hlt hE hback

/-- an instance: S0 → S1, S2, S3; S1 → S2, S3; S2 → S3; S3 → S0 (4 structs): 38 calls, against 6 without the back edge -/
example : steps [⟨"S0", false, [⟨"a", .node 1⟩, ⟨"b", .node 2⟩, ⟨"c", .node 3⟩]⟩, ⟨"S1", false, [⟨"a", .node 2⟩, ⟨"b", .node 3⟩]⟩,
    ⟨"S2", false, [⟨"a", .node 3⟩]⟩, ⟨"S3", false, [⟨"a", .opt (.node 0)⟩]⟩] = 38 := by decide

/-- the dense family is acyclic as far as the detector is concerned, and its exact cost (tests, small n) -/
example : detectCycles (dense 6) = [] := by decide
example : steps (dense 5) = 10 := by decide
example : (detectUnpruned (edges (dense 5)) 5).steps = 2 ^ 5 - 1 - 5 := by decide
/-- the complete digraph K3 (erroneous): 4 distinct vertex sets are reported; the search still walks every simple cycle -/
example : (detectCycles (complete 3)).length = 4 := by decide
example : steps (complete 3) = 30 := by decide

/-! ## D-05c: an alias that loops through an anonymous type -/

/-- If the alias name `id` resolves (in `scope`) to the anonymous type `Sequence<id>` written in the same scope — which is
    what `resolve_type_alias` answers for `typealias A = Sequence<A>`, because it stops at the already-patched anonymous
    type — then the descent through the patched structure below a reference to `id` (the validating visitor's
    `TypeRef::visit_with`, the detector's `check_field_type_for_cycles`) does not end, whatever depth is allowed.
    (The driver checks on every `alias-anon-loop` case that the hypothesis holds for the printed program.) -/
theorem anon_alias_loop_diverges (t : Table) (id scope : String) (attrs : List Attr)
    (h : resolveNamed t .type id scope = .ok (.expr (.seq (.mk [] (.named id) false)) scope, attrs)) :
    ∀ fuel, descendT t fuel scope (.mk [] (.named id) false) = none := by
  have both : ∀ fuel, descendT t fuel scope (.mk [] (.named id) false) = none ∧
      descendE t fuel scope (.seq (.mk [] (.named id) false)) = none := by
    intro fuel
    induction fuel with
    | zero => exact ⟨rfl, rfl⟩
    | succ fuel ih =>
      constructor
      · simp only [descendT, h, ih.2, Option.map_none]
      · simp only [descendE, ih.1]
  exact fun fuel => (both fuel).1

/-! ## alias walk: termination within `#aliases + 1` steps

  `walkAlias` (Model/Resolve.lean) has a dedicated out-of-fuel result `.error .fuel`; the invariant proof lives in
  Lemmas/Resolve.lean (`walkAlias_no_fuel`, shared with C03). Restated here because C05 claims it. -/

/-- The walk along an alias chain keeps a duplicate-free list of identifiers of aliases stored in the table, so with
    `chain.length + fuel > #aliases` it never ends for lack of fuel: it reaches a non-alias, a missing name, or a repeat
    (the E019 / E033 case) first. -/
theorem walkAlias_fuel_suffices (t : Table) (fuel : Nat) (chain : List String) (attrs : List Attr) (cur : NodeInfo)
    (hnd : chain.Nodup) (hsub : ∀ k ∈ chain, k ∈ aliasKeys t) (hcur : ∃ k, (k, cur) ∈ t)
    (hlen : numAliases t + 1 ≤ chain.length + fuel) :
    walkAlias t fuel chain attrs cur ≠ .error .fuel :=
  walkAlias_no_fuel t fuel chain attrs cur hnd hsub hcur hlen

/-- `resolve_type_alias` as started by `resolve_definition` (`#aliases + 1` iterations allowed, empty chain, a node found
    in the table) always ends with a verdict of its own. -/
theorem alias_walk_terminates (t : Table) (id scope : String) (n : NodeInfo)
    (hfind : findNodeWithScope t id scope = some n) :
    walkAlias t (numAliases t + 1) [] [] n ≠ .error .fuel :=
  walkAlias_no_fuel t (numAliases t + 1) [] [] n List.nodup_nil (by intro k hk; cases hk)
    (findNodeWithScope_mem t id scope n hfind) (by simp)

/-! ## (d) completeness and exactness -/

/-- Completeness for one simple cycle: if `T → w₁ → … → w_m = T` is a simple containment cycle of the graph, a single
    diagnostic's chain passes through every type of it (the search rooted at `T` walks this very path; its vertex set is
    either reported then or was reported before with the same vertex set). -/
theorem report_complete_simple (g : Graph) (T : Nat) (ws : List Nat)
    (hp : PathToRoot (edges g) T T ws) (hnd : ws.Nodup) :
    ∃ r ∈ detectCycles g, ∀ w ∈ ws, w ∈ r.ids := by
  have hlt := (pathToRoot_root_mem (edges g) g.length T (edges_lt g) ws T hp).2
  rw [prune_preserves_reports]
  exact detectU_complete_simple (edges g) g.length (edges_lt g) T hlt ws hp hnd

/-- `report_complete`: every type that contains itself — directly or through other structs and enums, through optional
    types, sequences, dictionary keys or values, result success or failure types, enumerator fields — lies on the chain of
    some reported cycle (a closed walk through the type contains a simple cycle through it; the search rooted at the type
    walks every simple path back to it — every type on such a path contains the root, so the skip rule never applies, by
    `prune_preserves_reports`; de-duplication only drops a chain whose vertex set was already reported). -/
theorem report_complete (g : Graph) (a : Nat) (h : EReach (edges g) a a) : ∃ r ∈ detectCycles g, a ∈ r.ids := by
  rw [prune_preserves_reports]
  exact detectU_complete (edges g) g.length (edges_lt g) a h

/-- `exact`: an infinite-size error is reported exactly when some type contains itself. -/
theorem exact_acyclic (g : Graph) : detectCycles g = [] ↔ Acyclic g := by
  constructor
  · intro hnil a ha
    obtain ⟨r, hr, _⟩ := report_complete g a ha
    rw [hnil] at hr; cases hr
  · exact no_spurious g

/-- OPEN (D-05d): the detector's cost is polynomial in the number of nodes on EVERY graph. Proved for acyclic graphs
    (`acyclic_steps_eq_edges`); false on cyclic ones: `cyclic_steps_exponential` gives `2^(n+1) - 1` calls on a family of
    `n + 2` structs (the formal negation of this statement from that bound — exponentials outgrow polynomials — is not
    carried out), and on the complete digraphs (erroneous programs) every simple cycle through the root is
    enumerated — `steps (complete 3) = 30` above, 192 for 4, 1300 for 5 (driver); in general about `e·(n-1)·n!` calls; the
    implementation needs 18.6 s for `n = 10` and gives no verdict within 20 s for `n = 11` (family
    `known-d05b-complete`). The enumeration is inherent in the reporting rule pinned by the test-suite (every distinct
    cycle vertex set through the root is reported). Not proved formally: the factorial lower bound. -/
def cost_polynomial_full : Prop := ∃ c d : Nat, ∀ g : Graph, steps g ≤ c * (g.length + 1) ^ d + c

/-! ## (e) interfaces: the inheritance check of the gate (0830460) and `all_base_interfaces` (323593c) -/

/-- `inheritance_loop_rejected`: for every inheritance graph, `check_interface_for_inheritance_cycles` reports
    interface `i` exactly when `i` reaches itself through ≥ 1 base references (soundness and completeness of `find_path`
    with its `seen` set: an interface is entered at most once over the whole search, and an interface that was left
    without success has all its bases entered and none equal to the target). -/
theorem inheritance_loop_rejected (ig : IGraph) (i : Nat) :
    (checkInterface ig i).isSome = true ↔ EReach (igEdges ig) i i :=
  checkInterface_isSome_iff ig i

/-- The chain reported for an interface (`A -> B -> … -> A`) starts at the interface, follows base references link by
    link and ends at the interface. -/
theorem inheritance_chain_sound (ig : IGraph) (i : Nat) (p : List Nat) (h : checkInterface ig i = some p) :
    ∃ s, s ≠ [] ∧ p = i :: s ∧ NLinked (igEdges ig) i s ∧ nlast i s = i :=
  checkInterface_sound ig i p h

/-- `find_path` never nests deeper than the number of interfaces (+1): the fuel of the model is never exhausted. -/
theorem find_path_fuel_suffices (ig : IGraph) (i : Nat) : (findPathFrom ig i).exhausted = false :=
  findPathFrom_not_exhausted ig i

/-- The interface gate as a whole: the E032 diagnostics it emits are exactly one per interface of the graph that
    inherits from itself, with the chain `find_path` found. -/
theorem iface_errors_iff (ig : IGraph) (i : Nat) :
    (∃ p, (i, p) ∈ ifaceLoopErrors ig) ↔ i < ig.length ∧ EReach (igEdges ig) i i := by
  rw [← inheritance_loop_rejected]
  constructor
  · rintro ⟨p, hp⟩
    obtain ⟨hi, hc⟩ := (mem_ifaceLoopErrors ig i p).1 hp
    exact ⟨hi, by rw [hc]; rfl⟩
  · rintro ⟨hi, hs⟩
    cases hc : checkInterface ig i with
    | none => rw [hc] at hs; cases hs
    | some p => exact ⟨p, (mem_ifaceLoopErrors ig i p).2 ⟨hi, hc⟩⟩

/-- The gate (no alias error) lets a program pass exactly when neither an interface inherits from itself nor a struct or
    enum contains itself; the interface check does not stop the containment detector. -/
theorem gate_accepts_iff (ig : IGraph) (g : Graph) :
    (cycleGate [] ig g).rejected = false ↔ AcyclicE (igEdges ig) ∧ Acyclic g := by
  have hrej : (cycleGate [] ig g).rejected = false ↔ ifaceLoopErrors ig = [] ∧ detectCycles g = [] := by
    simp [cycleGate, GateOutcome.rejected]
  rw [hrej, exact_acyclic]
  constructor
  · rintro ⟨h1, h2⟩; exact ⟨acyclic_of_no_ifaceLoopErrors ig h1, h2⟩
  · rintro ⟨h1, h2⟩
    refine ⟨?_, h2⟩
    cases he : ifaceLoopErrors ig with
    | nil => rfl
    | cons e es =>
      have : (e.1, e.2) ∈ ifaceLoopErrors ig := by rw [he]; exact List.mem_cons_self ..
      exact absurd ((iface_errors_iff ig e.1).1 ⟨e.2, this⟩).2 (h1 e.1)

/-- `allBases_total`: `all_base_interfaces` (`collect` with its `expanded` set) returns on EVERY inheritance graph —
    loops included — within `#interfaces + 1` nested frames: an interface is expanded at most once. -/
theorem allBases_total (ig : IGraph) (i : Nat) : ∃ l, allBases ig (ig.length + 1) i = some l :=
  allBases_isSome ig i

/-- The former FULL statement, now proved (and for every graph, not only those that pass the gate):
    `all_base_interfaces` returns within `#interfaces + 1` frames. (Before 323593c it was refuted by
    `interface I0 : I0 {}`: see `allBasesSpec_diverges_on_loop`.) -/
theorem inheritance_terminates_full : ∀ (ig : IGraph) (i : Nat), i < ig.length → allBases ig (ig.length + 1) i ≠ none := by
  intro ig i _ h
  obtain ⟨l, hl⟩ := allBases_total ig i
  rw [hl] at h; cases h

/-- `allBases_eq_spec`: on every graph and for every interface on which the definition before 323593c
    (`bases ++ flat_map(all_base_interfaces)`, then first occurrences) returns a list `l` within some number of frames,
    `collect` returns the same list, in the same order. -/
theorem allBases_eq_spec (ig : IGraph) (fuel i : Nat) (l : List Nat) (h : allBasesSpec ig fuel i = some l) :
    allBases ig (ig.length + 1) i = some l :=
  allBases_eq_of_spec ig fuel i l h

/-- … in particular on every acyclic inheritance graph, where the old definition returns within `#interfaces + 1`
    frames: old and new definition agree for every interface. -/
theorem allBases_eq_spec_acyclic (ig : IGraph) (hac : AcyclicE (igEdges ig)) (i : Nat) :
    ∃ l, allBasesSpec ig (ig.length + 1) i = some l ∧ allBases ig (ig.length + 1) i = some l := by
  obtain ⟨l, hl⟩ := allBasesSpec_total_of_acyclic ig hac i
  exact ⟨l, hl, allBases_eq_spec ig _ i l hl⟩

/-- … hence on every program that passes the interface gate. -/
theorem accepted_bases_agree (ig : IGraph) (h : ifaceLoopErrors ig = []) (i : Nat) :
    ∃ l, allBasesSpec ig (ig.length + 1) i = some l ∧ allBases ig (ig.length + 1) i = some l :=
  allBases_eq_spec_acyclic ig (acyclic_of_no_ifaceLoopErrors ig h) i

/-- The result of `all_base_interfaces` on an acyclic graph: exactly the interfaces reachable through ≥ 1 base
    references. -/
theorem allBases_mem_acyclic (ig : IGraph) (hac : AcyclicE (igEdges ig)) (i : Nat) (l : List Nat)
    (h : allBases ig (ig.length + 1) i = some l) (d : Nat) : d ∈ l ↔ EReach (igEdges ig) i d := by
  obtain ⟨l', h1, h2⟩ := allBases_eq_spec_acyclic ig hac i
  rw [h] at h2; cases h2
  exact allBasesSpec_mem ig _ i l h1 d

/-- Why the gate was needed (D-05a) and why the old definition is only a specification: it does not return for an
    interface that inherits from itself, whatever the stack depth allowed. -/
theorem allBasesSpec_diverges_on_loop (ig : IGraph) (i : Nat) (h : EReach (igEdges ig) i i) :
    ∀ fuel, allBasesSpec ig fuel i = none :=
  fun fuel => allBasesSpec_none_of_loop ig fuel i h

/-! ## (f) the alias gate: `revisits_anonymous_type` (f7e7e5f) -/

/-- `revisits_anonymous_type` (descent with the CURRENT PATH, `#nodes + 1` nested frames at most) answers true for an
    anonymous type exactly when an anonymous type lying on a cycle of the anonymous-type graph is that type or can be
    reached from it. A type met twice on different branches (a diamond such as `Result<Names, Names>`) is not a revisit:
    only cycles count. -/
theorem revisits_iff_reaches_cycle (ag : IGraph) (x : Nat) :
    revisits ag (ag.length + 1) x [] = true ↔ ∃ y, (y = x ∨ EReach (igEdges ag) x y) ∧ EReach (igEdges ag) y y :=
  revisits_iff ag x

/-- The alias gate reports alias `a` (E019) exactly when the anonymous type its underlying reference is bound to lies on,
    or leads to, a cycle of anonymous types; aliases of primitives, structs, … are never reported. -/
theorem alias_gate_reports_iff (ag : IGraph) (starts : List (Option Nat)) (a : Nat) :
    a ∈ aliasGate ag starts ↔
      a < starts.length ∧ ∃ x, starts.getD a none = some x ∧
        ∃ y, (y = x ∨ EReach (igEdges ag) x y) ∧ EReach (igEdges ag) y y :=
  mem_aliasGate ag starts a

/-- In particular nothing is reported when the graph of anonymous types is acyclic, however often a type is shared. -/
theorem alias_gate_silent_on_acyclic (ag : IGraph) (starts : List (Option Nat)) (hac : AcyclicE (igEdges ag)) :
    aliasGate ag starts = [] := by
  cases h : aliasGate ag starts with
  | nil => rfl
  | cons a as =>
    have : a ∈ aliasGate ag starts := by rw [h]; exact List.mem_cons_self ..
    obtain ⟨_, _, _, y, _, hyy⟩ := (alias_gate_reports_iff ag starts a).1 this
    exact absurd hyy (hac y)

/-! ## non-vacuity -/

/-- `struct S0 { f0: S1 }  struct S1 { f0: Sequence<S0?> }`: one report (rooted at S0, through both fields);
    the search from S1 finds the same vertex set and is de-duplicated. -/
example : detectCycles [⟨"S0", false, [⟨"f0", .node 1⟩]⟩, ⟨"S1", false, [⟨"f0", .seq (.opt (.node 0))⟩]⟩]
    = [⟨0, [⟨1, 0, 0⟩, ⟨0, 1, 0⟩]⟩] := by decide
/-- a dictionary key and a result failure type are followed -/
example : (detectCycles [⟨"S0", false, [⟨"f0", .dict (.node 0) .terminal⟩]⟩]).length = 1 := by decide
example : (detectCycles [⟨"S0", false, [⟨"f0", .result .terminal (.node 0)⟩]⟩]).length = 1 := by decide
/-- two different cycles with the same vertex set {S0,S1} … only the first is reported (de-duplication by vertex set) -/
example : (detectCycles [⟨"S0", false, [⟨"f0", .node 1⟩, ⟨"f1", .node 1⟩]⟩, ⟨"S1", false, [⟨"f0", .node 0⟩]⟩]).length = 1 := by decide
/-- an acyclic diamond -/
example : detectCycles [⟨"S0", false, [⟨"a", .node 1⟩, ⟨"b", .node 2⟩]⟩, ⟨"S1", false, [⟨"a", .node 2⟩]⟩, ⟨"S2", false, []⟩] = [] := by decide
/-- `all_base_interfaces` on a diamond: I3 : I1, I2; I1 : I0; I2 : I0 -/
example : allBases [[], [0], [0], [1, 2]] 5 3 = some [1, 2, 0] := by decide
example : allBasesSpec [[], [0], [0], [1, 2]] 5 3 = some [1, 2, 0] := by decide
/-- a layered DAG (3 layers of 2, each interface inherits both interfaces of the layer below): direct bases first -/
example : allBases [[], [], [0, 1], [0, 1], [2, 3], [2, 3]] 7 5 = some [2, 3, 0, 1] := by decide
example : allBasesSpec [[], [], [0, 1], [0, 1], [2, 3], [2, 3]] 7 5 = some [2, 3, 0, 1] := by decide
/-- a base list in which the order matters: I3 : I2, I1; I2 : I0; I1 : I0 -/
example : allBases [[], [0], [0], [2, 1]] 5 3 = some [2, 1, 0] := by decide
/-- loops: `interface I0 : I1 {} interface I1 : I0 {} interface I2 : I0 {}` — I0 and I1 are reported with their chains,
    I2 (which only reaches the loop) is not, but the program is rejected; `all_base_interfaces` returns all the same -/
example : ifaceLoopErrors [[1], [0], [0]] = [(0, [0, 1, 0]), (1, [1, 0, 1])] := by decide
example : checkInterface [[1], [0], [0]] 2 = none := by decide
example : allBases [[1], [0], [0]] 4 2 = some [0, 1] := by decide
example : allBasesSpec [[1], [0], [0]] 4 2 = none := by decide
example : ifaceLoopErrors [[0]] = [(0, [0, 0])] := by decide
/-- the gate order: an alias error returns alone; an interface loop does not stop the containment detector -/
example : (cycleGate ["M::A0"] [[0]] [⟨"S0", false, [⟨"f0", .node 0⟩]⟩]).ifaceErrors = [] := by decide
example : ((cycleGate [] [[0]] [⟨"S0", false, [⟨"f0", .node 0⟩]⟩]).ifaceErrors.length,
           (cycleGate [] [[0]] [⟨"S0", false, [⟨"f0", .node 0⟩]⟩]).reports.length) = (1, 1) := by decide
/-- the alias gate: `typealias Names = Sequence<string>  typealias Pair = Result<Names, Names>` — node 0 = the Result
    (children: Names twice), node 1 = the Sequence: a diamond, not a revisit; `typealias A = Result<A, int32>`: a revisit -/
example : aliasGate [[1, 1], []] [some 1, some 0] = [] := by decide
example : aliasGate [[0]] [some 0] = [0] := by decide
/-- three layers of diamonds and one alias on a loop that is used by another one: only these two are reported -/
example : aliasGate [[], [0, 0], [1, 1], [3, 0], [3, 2]] [some 0, some 1, some 2, some 3, some 4] = [3, 4] := by decide
/-- the skip rule at work: S0 → S1 → S2, S2 → S1: the search from S0 skips S1 at once (it does not contain S0) -/
example : steps [⟨"S0", false, [⟨"a", .node 1⟩]⟩, ⟨"S1", false, [⟨"a", .node 2⟩]⟩, ⟨"S2", false, [⟨"a", .node 1⟩]⟩] = 5 := by decide
/-- `types_depending_on_checked_type`: in the dense family S0 and S1 contain S2; in K3 everything contains S0, S0 included -/
example : dependsOn (edges (dense 4)) 4 2 = [1, 0] := by decide
example : (dependsOn (edges (complete 3)) 3 0).length = 3 := by decide

end Slicec.C05

#print axioms Slicec.C05.fuel_suffices_E
#print axioms Slicec.C05.dependsOn_is_reverse_reachability
#print axioms Slicec.C05.fuel_suffices
#print axioms Slicec.C05.report_sound_E
#print axioms Slicec.C05.report_sound
#print axioms Slicec.C05.edge_is_field
#print axioms Slicec.C05.no_spurious
#print axioms Slicec.C05.reported_root_on_cycle
#print axioms Slicec.C05.prune_preserves_reports_E
#print axioms Slicec.C05.prune_preserves_reports
#print axioms Slicec.C05.acyclic_steps_eq_edges_E
#print axioms Slicec.C05.acyclic_steps_eq_edges
#print axioms Slicec.C05.acyclic_steps_polynomial
#print axioms Slicec.C05.unpruned_dense_steps_exponential
#print axioms Slicec.C05.dense_steps_quadratic
#print axioms Slicec.C05.cyclic_steps_exponential
#print axioms Slicec.C05.anon_alias_loop_diverges
#print axioms Slicec.C05.walkAlias_fuel_suffices
#print axioms Slicec.C05.alias_walk_terminates
#print axioms Slicec.C05.report_complete_simple
#print axioms Slicec.C05.report_complete
#print axioms Slicec.C05.exact_acyclic
#print axioms Slicec.C05.inheritance_loop_rejected
#print axioms Slicec.C05.inheritance_chain_sound
#print axioms Slicec.C05.find_path_fuel_suffices
#print axioms Slicec.C05.iface_errors_iff
#print axioms Slicec.C05.gate_accepts_iff
#print axioms Slicec.C05.allBases_total
#print axioms Slicec.C05.inheritance_terminates_full
#print axioms Slicec.C05.allBases_eq_spec
#print axioms Slicec.C05.allBases_eq_spec_acyclic
#print axioms Slicec.C05.accepted_bases_agree
#print axioms Slicec.C05.allBases_mem_acyclic
#print axioms Slicec.C05.allBasesSpec_diverges_on_loop
#print axioms Slicec.C05.revisits_iff_reaches_cycle
#print axioms Slicec.C05.alias_gate_reports_iff
#print axioms Slicec.C05.alias_gate_silent_on_acyclic
