/-
  C05 — Illegal cycles are always diagnosed; acyclic definitions never are.
  Theorems over the detector model of Model/Cycles.lean (mirror of validators/cycle_detection.rs), the alias walk of
  Model/Resolve.lean (mirror of TypeRefPatcher::resolve_type_alias) and `allBases` (Interface::all_base_interfaces).
-/
import SlicecVerif.Lemmas.Cycles

namespace Slicec.C05

open Slicec Slicec.Cyc

/-! ## (a) termination: the fuel of the search suffices -/

/-- For every edge function whose targets are nodes `< n`, the detector never reaches its out-of-fuel branch:
    the stack holds distinct ids different from the root, so it is shorter than `n` = the initial fuel. -/
theorem fuel_suffices_E (E : EdgeFn) (n : Nat) (hE : ∀ a e, e ∈ E a → e.2 < n) :
    (detectE E n).exhausted = false := by
  refine detectE_induct E n (fun st => st.exhausted = false) rfl ?_
  intro r st hr hst
  refine dfs_induct E r (fun fuel stack _ => StackInv n r stack ∧ n ≤ stack.length + fuel)
    (fun st => st.exhausted = false) ?_ ?_ ?_ ?_ n [] r st ⟨⟨by simp, by simpa using hr⟩, by simp⟩ hst
  · intro fuel stack cur e ⟨hinv, hlen⟩ he hroot hnot
    refine ⟨hinv.push ⟨e.2, cur, e.1⟩ hroot hnot (hE cur e he), ?_⟩
    simp only [List.length_append, List.length_singleton]; omega
  · intro st h; simpa using h
  · intro _ _ _ _ st _ _ _ h; simpa using h
  · intro stack cur st ⟨hinv, hlen⟩ _
    have := hinv.length_lt
    omega

/-- The detector run on the containment graph of a program never runs out of fuel
    (fuel = number of struct/enum nodes − stack length). -/
theorem fuel_suffices (g : Graph) : (detectE (edges g) g.length).exhausted = false :=
  fuel_suffices_E (edges g) g.length (edges_lt g)

/-! ## (b) soundness of the reports -/

/-- Every reported chain is a real path closing on its root: each entry is a field (`container`, `field`) of the previous
    entry's type (of the root for the first entry) with `(field, target)` an edge, and the last target is the root. -/
theorem report_sound_E (E : EdgeFn) (n : Nat) : ∀ r ∈ (detectE E n).reports, SoundReport E r := by
  refine detectE_induct E n (fun st => ∀ r ∈ st.reports, SoundReport E r) (by intro r hr; cases hr) ?_
  intro root st _ h
  exact dfs_reports_sound E root n st h

/-- The same for the graph of a program; an edge of `edges g` is a field whose wrapper tree contains the target
    (`edge_is_field`). -/
theorem report_sound (g : Graph) : ∀ r ∈ detectCycles g, SoundReport (edges g) r :=
  report_sound_E (edges g) g.length

/-- `(f, t)` is an edge of node `c` exactly when field `f` of node `c` has a wrapper tree that contains `node t`
    (through optional, sequence, dictionary key or value, result success or failure). -/
theorem edge_is_field (g : Graph) (c f t : Nat) :
    (f, t) ∈ edges g c ↔
      ∃ nd fld, g[c]? = some nd ∧ nd.fields[f]? = some fld ∧ fld.ty.Contains t ∧ t < g.length :=
  mem_edges_iff g c f t

/-- `exact`, direction "acyclic definitions are never diagnosed": a graph without a containment cycle gets no report. -/
theorem no_spurious (g : Graph) (h : Acyclic g) : detectCycles g = [] := by
  cases hd : detectCycles g with
  | nil => rfl
  | cons r rs =>
    have hs := report_sound g r (by rw [hd]; exact List.mem_cons_self ..)
    exact absurd hs.reach (h r.root)

/-- Every report names a type that really contains itself (`root →⁺ root`). -/
theorem reported_root_on_cycle (g : Graph) : ∀ r ∈ detectCycles g, EReach (edges g) r.root r.root :=
  fun r hr => (report_sound g r hr).reach

/-! ## (c) the two refutations -/

/-- D-05a, general form: if every interface of a non-empty set `S` has a base in `S` (e.g. the interfaces on an
    inheritance loop), `all_base_interfaces` of a member of `S` does not return, whatever the stack depth allowed. -/
theorem allBases_diverges_on_closed (ig : IGraph) (S : Nat → Prop)
    (hS : ∀ i, S i → ∃ b ∈ ig.getD i [], S b) : ∀ fuel i, S i → allBases ig fuel i = none := by
  intro fuel
  induction fuel with
  | zero => intro i _; rfl
  | succ fuel ih =>
    intro i hi
    obtain ⟨b, hb, hSb⟩ := hS i hi
    simp only [allBases]
    rw [allBases_fold_none_of_mem ig fuel _ _ ⟨b, hb, ih b hSb⟩]
    rfl

/-- D-05a on the one-interface witness `interface I0 : I0 {}`: no amount of stack makes `all_base_interfaces` return. -/
theorem inheritance_self_loop_diverges : ∀ fuel, allBases [[0]] fuel 0 = none := by
  intro fuel
  refine allBases_diverges_on_closed [[0]] (fun i => i = 0) ?_ fuel 0 rfl
  intro i hi; subst hi; exact ⟨0, by simp, rfl⟩

/-- D-05a on `interface I0 : I1 {}  interface I1 : I0 {}`. -/
theorem inheritance_two_loop_diverges : ∀ fuel i, i < 2 → allBases [[1], [0]] fuel i = none := by
  intro fuel i hi
  refine allBases_diverges_on_closed [[1], [0]] (fun i => i < 2) ?_ fuel i hi
  intro j hj
  have : j = 0 ∨ j = 1 := by omega
  rcases this with rfl | rfl
  · exact ⟨1, by simp, by omega⟩
  · exact ⟨0, by simp, by omega⟩

/-- D-05b, abstract form: for every edge function in which node `k` points to exactly the nodes `k+1 … n` (a DAG), the
    detector makes at least `2^n - 1` calls of `push_to_stack_and_check` on `n + 1` nodes. -/
theorem dense_steps_exponential_abstract (E : EdgeFn) (n : Nat) (hE : DenseOn E (n + 1)) :
    2 ^ n ≤ (detectE E (n + 1)).steps + 1 :=
  dense_steps_exponential_E E n hE

/-- D-05b: on the dense DAG of `n + 1` structs (struct `i` has a field of every struct `j > i`; a program of
    O(n²) characters without any cycle) the detector's step count is at least `2^n - 1`: the refutation of
    "the cost of the cycle gate is polynomial in the size of the input". -/
theorem dense_steps_exponential (n : Nat) : 2 ^ n ≤ steps (dense (n + 1)) + 1 := by
  have hlen : (dense (n + 1)).length = n + 1 := by simp [dense]
  unfold steps
  rw [hlen]
  exact dense_steps_exponential_E (edges (dense (n + 1))) n (dense_denseOn (n + 1))

/-- the dense family really is acyclic as far as the detector is concerned, and its exact cost (tests, small n) -/
example : detectCycles (dense 6) = [] := by decide
example : steps (dense 4) = 2 ^ 4 - 1 - 4 := by decide
example : steps (dense 5) = 2 ^ 5 - 1 - 5 := by decide

/-! ## D-05c: an alias that loops through an anonymous type -/

/-- If the alias name `id` resolves (in `scope`) to the anonymous type `Sequence<id>` written in the same scope — which is
    what `resolve_type_alias` answers for `typealias A = Sequence<A>`, because it stops at the already-patched anonymous
    type — then the descent through the patched structure below a reference to `id` (the validating visitor's
    `TypeRef::visit_with`, the detector's `check_field_type_for_cycles`) does not end, whatever depth is allowed.
    (The driver checks on every `alias-anon-loop` case that the hypothesis holds for the printed program.) -/
theorem anon_alias_loop_diverges (t : Table) (id scope : String) (attrs : List Attr)
    (h : resolveNamed t .type id scope = .ok (.expr (.seq (.mk [] (.named id) false)) scope, attrs)) :
    ∀ fuel, descendT t fuel scope (.mk [] (.named id) false) = none := by
  have both : ∀ fuel, descendT t fuel scope (.mk [] (.named id) false) = none ∧
      descendE t fuel scope (.seq (.mk [] (.named id) false)) = none := by
    intro fuel
    induction fuel with
    | zero => exact ⟨rfl, rfl⟩
    | succ fuel ih =>
      constructor
      · simp only [descendT, h, ih.2, Option.map_none]
      · simp only [descendE, ih.1]
  exact fun fuel => (both fuel).1

/-! ## alias walk: termination within `#aliases + 1` steps

  `walkAlias` (Model/Resolve.lean) has a dedicated out-of-fuel result `.error .fuel`; the invariant proof lives in
  Lemmas/Resolve.lean (`walkAlias_no_fuel`, shared with C03). Restated here because C05 claims it. -/

/-- The walk along an alias chain keeps a duplicate-free list of identifiers of aliases stored in the table, so with
    `chain.length + fuel > #aliases` it never ends for lack of fuel: it reaches a non-alias, a missing name, or a repeat
    (the E019 / E033 case) first. -/
theorem walkAlias_fuel_suffices (t : Table) (fuel : Nat) (chain : List String) (attrs : List Attr) (cur : NodeInfo)
    (hnd : chain.Nodup) (hsub : ∀ k ∈ chain, k ∈ aliasKeys t) (hcur : ∃ k, (k, cur) ∈ t)
    (hlen : numAliases t + 1 ≤ chain.length + fuel) :
    walkAlias t fuel chain attrs cur ≠ .error .fuel :=
  walkAlias_no_fuel t fuel chain attrs cur hnd hsub hcur hlen

/-- `resolve_type_alias` as started by `resolve_definition` (`#aliases + 1` iterations allowed, empty chain, a node found
    in the table) always ends with a verdict of its own. -/
theorem alias_walk_terminates (t : Table) (id scope : String) (n : NodeInfo)
    (hfind : findNodeWithScope t id scope = some n) :
    walkAlias t (numAliases t + 1) [] [] n ≠ .error .fuel :=
  walkAlias_no_fuel t (numAliases t + 1) [] [] n List.nodup_nil (by intro k hk; cases hk)
    (findNodeWithScope_mem t id scope n hfind) (by simp)

/-! ## (d) completeness and exactness -/

/-- Completeness for one simple cycle: if `T → w₁ → … → w_m = T` is a simple containment cycle of the graph, a single
    diagnostic's chain passes through every type of it (the search rooted at `T` walks this very path; its vertex set is
    either reported then or was reported before with the same vertex set). -/
theorem report_complete_simple (g : Graph) (T : Nat) (ws : List Nat)
    (hp : PathToRoot (edges g) T T ws) (hnd : ws.Nodup) :
    ∃ r ∈ detectCycles g, ∀ w ∈ ws, w ∈ r.ids := by
  have hlt := (pathToRoot_root_mem (edges g) g.length T (edges_lt g) ws T hp).2
  exact detect_complete_simple (edges g) g.length (edges_lt g) T hlt ws hp hnd

/-- `report_complete`: every type that contains itself — directly or through other structs and enums, through optional
    types, sequences, dictionary keys or values, result success or failure types, enumerator fields — lies on the chain of
    some reported cycle (a closed walk through the type contains a simple cycle through it; the search rooted at the type
    walks every simple path back to it; de-duplication only drops a chain whose vertex set was already reported). -/
theorem report_complete (g : Graph) (a : Nat) (h : EReach (edges g) a a) : ∃ r ∈ detectCycles g, a ∈ r.ids :=
  detect_complete (edges g) g.length (edges_lt g) a h

/-- `exact`: an infinite-size error is reported exactly when some type contains itself. -/
theorem exact_acyclic (g : Graph) : detectCycles g = [] ↔ Acyclic g := by
  constructor
  · intro hnil a ha
    obtain ⟨r, hr, _⟩ := report_complete g a ha
    rw [hnil] at hr; cases hr
  · exact no_spurious g

/-- FULL STATEMENT (refuted by `dense_steps_exponential`): the detector's cost is polynomial in the number of nodes. -/
def cost_polynomial_full : Prop := ∃ c d : Nat, ∀ g : Graph, steps g ≤ c * (g.length + 1) ^ d + c

/-- FULL STATEMENT (refuted on the pinned tree by `allBases_diverges_on_closed`, D-05a): every program that passes the
    validators' cycle gate has an inheritance graph on which `all_base_interfaces` returns within `#interfaces + 1` frames.
    In the model the gate does not look at interfaces at all, so the statement quantifies over every inheritance graph. -/
def inheritance_terminates_full : Prop := ∀ (ig : IGraph) (i : Nat), i < ig.length → allBases ig (ig.length + 1) i ≠ none

/-- … and it is false: the self-inheriting interface is a counterexample. -/
theorem inheritance_terminates_full_refuted : ¬ inheritance_terminates_full := by
  intro h
  exact h [[0]] 0 (by simp) (inheritance_self_loop_diverges 2)

/-! ## non-vacuity -/

/-- `struct S0 { f0: S1 }  struct S1 { f0: Sequence<S0?> }`: one report (rooted at S0, through both fields);
    the search from S1 finds the same vertex set and is de-duplicated. -/
example : detectCycles [⟨"S0", false, [⟨"f0", .node 1⟩]⟩, ⟨"S1", false, [⟨"f0", .seq (.opt (.node 0))⟩]⟩]
    = [⟨0, [⟨1, 0, 0⟩, ⟨0, 1, 0⟩]⟩] := by decide
/-- a dictionary key and a result failure type are followed -/
example : (detectCycles [⟨"S0", false, [⟨"f0", .dict (.node 0) .terminal⟩]⟩]).length = 1 := by decide
example : (detectCycles [⟨"S0", false, [⟨"f0", .result .terminal (.node 0)⟩]⟩]).length = 1 := by decide
/-- two different cycles with the same vertex set {S0,S1} … only the first is reported (de-duplication by vertex set) -/
example : (detectCycles [⟨"S0", false, [⟨"f0", .node 1⟩, ⟨"f1", .node 1⟩]⟩, ⟨"S1", false, [⟨"f0", .node 0⟩]⟩]).length = 1 := by decide
/-- an acyclic diamond -/
example : detectCycles [⟨"S0", false, [⟨"a", .node 1⟩, ⟨"b", .node 2⟩]⟩, ⟨"S1", false, [⟨"a", .node 2⟩]⟩, ⟨"S2", false, []⟩] = [] := by decide
/-- `all_base_interfaces` on a diamond: I3 : I1, I2; I1 : I0; I2 : I0 -/
example : allBases [[], [0], [0], [1, 2]] 5 3 = some [1, 2, 0] := by decide

end Slicec.C05

#print axioms Slicec.C05.fuel_suffices_E
#print axioms Slicec.C05.fuel_suffices
#print axioms Slicec.C05.report_sound_E
#print axioms Slicec.C05.report_sound
#print axioms Slicec.C05.edge_is_field
#print axioms Slicec.C05.no_spurious
#print axioms Slicec.C05.reported_root_on_cycle
#print axioms Slicec.C05.allBases_diverges_on_closed
#print axioms Slicec.C05.inheritance_self_loop_diverges
#print axioms Slicec.C05.inheritance_two_loop_diverges
#print axioms Slicec.C05.walkAlias_fuel_suffices
#print axioms Slicec.C05.alias_walk_terminates
#print axioms Slicec.C05.dense_steps_exponential_abstract
#print axioms Slicec.C05.dense_steps_exponential
#print axioms Slicec.C05.inheritance_terminates_full_refuted
#print axioms Slicec.C05.report_complete_simple
#print axioms Slicec.C05.report_complete
#print axioms Slicec.C05.exact_acyclic
#print axioms Slicec.C05.anon_alias_loop_diverges
