/-
  C14 — Emitted diagnostics are complete, well-formed and match the totals.
  Statements are about the emitter model `Model/Emit.lean` (colours off) for ALL diagnostic lists,
  all strings and all source files; the model is tied to diagnostic_emitter.rs / slice_file.rs by the
  `emit` correspondence engine (byte-exact) and by the extracted format table `Gen.EmitFormat`.
-/
import SlicecVerif.Lemmas.Emit

namespace Slicec.C14

open Slicec Slicec.Emit

/-- Escaping loses nothing: for EVERY string (quotes, backslashes, all control characters, U+007F,
    U+2028, non-ASCII, astral) the JSON reader gives back exactly the string that was escaped. -/
theorem json_string_roundtrip (s : String) : readJsonString (jsonEscape s) = some s := by
  simp [readJsonString, jsonEscape, String.toList_ofList, readBody_escChars, String.ofList_toList]

/-- The escaped text never contains a raw quote, so a string literal ends where the emitter ended it:
    reading `"` + escape(s) + `"` + anything returns `s` and leaves exactly the `anything`. -/
theorem json_string_self_delimiting (s : String) (rest : List Char) :
    readStr (jsonStr s ++ rest) = some (s, rest) := by
  simp [readStr, jsonStr, readBody_escChars, String.ofList_toList]

/-- One object, one line: what is written for a diagnostic is its object followed by exactly one
    newline, and the object itself contains no newline — in fact no character below U+0020 at all
    (so no carriage return, no escape character either), whatever the messages and file names hold. -/
theorem json_one_line (d : Diag) :
    (emitJsonOne d).toList = jsonObj d ++ ['\n'] ∧ '\n' ∉ jsonObj d ∧ ∀ c ∈ jsonObj d, 32 ≤ c.toNat := by
  refine ⟨by simp [emitJsonOne, jsonLine], ?_, PR_jsonObj d⟩
  intro h
  have := PR_jsonObj d _ h
  simp at this

/-- The JSON stream has exactly as many newlines as there are diagnostics that are not allowed. -/
theorem json_line_count (ds : List Diag) :
    (emitJson ds).toList.count '\n' = (ds.filter notAllowed).length := by
  simp only [emitJson, String.toList_ofList, emitJsonChars_eq]
  induction ds.filter notAllowed with
  | nil => simp
  | cons d ds ih =>
    have h0 : (jsonObj d).count '\n' = 0 := List.count_eq_zero.mpr (json_one_line d).2.1
    simp [List.count_append, jsonLine, h0, ih]

/-- JSON format: the stream is the concatenation, in recording order, of one line per diagnostic
    that is not allowed — nothing before, between or after them. -/
theorem emit_order_once_json (ds : List Diag) :
    emitJson ds = String.join ((ds.filter notAllowed).map emitJsonOne) := by
  apply String.toList_inj.mp
  simp only [emitJson, String.toList_ofList, emitJsonChars_eq, String.toList_join]
  induction ds.filter notAllowed with
  | nil => simp
  | cons d ds ih => simp [emitJsonOne, ih]

/-- Human format: the emitter runs the block computation of every diagnostic that is not allowed,
    in recording order, one each, and nothing else. -/
theorem emit_order_once_human (files : List SrcFile) (ds : List Diag) :
    emitHumanChars files ds = seqRes ((ds.filter notAllowed).map (humanBlock files)) :=
  emitHumanChars_eq files ds

/-- Human format, when nothing crashes: the output is the concatenation of the blocks of the
    diagnostics that are not allowed, in order, one each; every block starts with the line
    `<error|warning> [<code>]: <message>`, followed by the location/snippet and the notes. -/
theorem emit_order_once_human_ok (files : List SrcFile) (ds : List Diag) (out : String)
    (h : emitHuman files ds = .ok out) :
    ∃ blocks : List (List Char),
      (ds.filter notAllowed).map (humanBlock files) = blocks.map Outcome.ok ∧
      out = String.ofList blocks.flatten := by
  unfold emitHuman at h
  cases h2 : emitHumanChars files ds with
  | ok cs =>
    rw [h2] at h; simp only at h
    rw [emitHumanChars_eq] at h2
    obtain ⟨bl, h3, h4⟩ := seqRes_ok _ _ h2
    refine ⟨bl, h3, ?_⟩
    cases h; rw [h4]
  | err e => rw [h2] at h; simp at h
  | panic s => rw [h2] at h; simp at h

/-- The block of a diagnostic, when its snippets can be drawn, is its headline with level, code and
    message, then its own location and snippet, then its notes in order. -/
theorem human_block_shape (files : List SrcFile) (d : Diag) (b : List Char) (h : humanBlock files d = .ok b) :
    ∃ sn ns, emitOptSnippet files d.span = .ok sn ∧ emitNotes files d.notes = .ok ns ∧
      b = (humanPrefix d.level).toList ++ [' ', '['] ++ d.code.toList ++ [']', ':', ' '] ++ d.message.toList ++ ['\n'] ++ sn ++ ns := by
  unfold humanBlock at h
  cases h1 : emitOptSnippet files d.span with
  | ok sn =>
    cases h2 : emitNotes files d.notes with
    | ok ns =>
      rw [h1, h2] at h; simp only [Outcome.bind] at h
      exact ⟨sn, ns, rfl, rfl, by cases h; rfl⟩
    | err e => rw [h1, h2] at h; simp [Outcome.bind] at h
    | panic s => rw [h1, h2] at h; simp [Outcome.bind] at h
  | err e => rw [h1] at h; simp [Outcome.bind] at h
  | panic s => rw [h1] at h; simp [Outcome.bind] at h

/-- The location part of a block: ` --> <file>:<row>:<col>` with the span's own file name and start
    position, then the snippet of the first file of that name, then a newline. -/
theorem snippet_location_line (files : List SrcFile) (sp : Span) (out : List Char) (h : emitSnippet files sp = .ok out) :
    ∃ f sn, files.find? (fun f => f.path == sp.file) = some f ∧ getSnippet f.text.toList sp.start sp.stop = .ok sn ∧
      out = " --> ".toList ++ sp.file.toList ++ [':'] ++ decChars sp.start.row ++ [':'] ++ decChars sp.start.col ++ ['\n'] ++ sn ++ ['\n'] := by
  unfold emitSnippet at h
  simp only at h
  split at h
  · cases h
  · next f hf =>
    obtain ⟨sn, hsn, h⟩ := Outcome.bind_ok _ _ _ h
    cases h
    exact ⟨f, sn, hf, hsn, by simp [Gen.arrow]⟩

/-- Suppressed lints leave no trace: in both formats the output (or the crash) is the same as if the
    allowed diagnostics had never been recorded; the totals are unchanged too. -/
theorem allowed_leave_no_trace (files : List SrcFile) (ds : List Diag) :
    emitJson ds = emitJson (ds.filter notAllowed) ∧
    emitHuman files ds = emitHuman files (ds.filter notAllowed) ∧
    totals ds = totals (ds.filter notAllowed) := by
  refine ⟨?_, ?_, (totals_filter ds).symm⟩
  · simp [emitJson, emitJsonChars_eq]
  · simp [emitHuman, emitHumanChars_eq]

/-- The totals are exactly the numbers of warnings and of errors among the diagnostics that are
    shown (allowed ones count for nothing), and the failure status is raised exactly when an error
    is among them. -/
theorem totals_agree (ds : List Diag) :
    (totals ds).1 = ((ds.filter notAllowed).filter fun d => d.level == .warning).length ∧
    (totals ds).2 = ((ds.filter notAllowed).filter fun d => d.level == .error).length ∧
    (totals ds).1 + (totals ds).2 = (ds.filter notAllowed).length ∧
    (exitFailure ds = true ↔ ∃ d ∈ ds, d.level = .error) := by
  have h := totals_filter ds
  rw [totals_eq] at h
  have h1 : (totals ds).1 = ((ds.filter notAllowed).filter fun d => d.level == .warning).length := by rw [← h]
  have h2 : (totals ds).2 = ((ds.filter notAllowed).filter fun d => d.level == .error).length := by rw [← h]
  refine ⟨h1, h2, ?_, ?_⟩
  · exact totals_sum ds
  · rw [exitFailure, totals_eq]
    simp only [bne_iff_ne, ne_eq, List.length_eq_zero_iff, List.filter_eq_nil_iff, beq_iff_eq]
    constructor
    · intro hne
      apply Classical.byContradiction
      intro hno
      exact hne (fun d hd hl => hno ⟨d, hd, hl⟩)
    · rintro ⟨d, hd, hl⟩ hall
      exact hall d hd hl

/-- What a consumer reads back from an emitted line is exactly the five fields `message`, `severity`,
    `span`, `notes`, `error_code` (in this order, nothing else on the line) holding the diagnostic's own
    message, level name, span, notes and code — for every diagnostic, whatever its strings contain. -/
theorem json_shape (d : Diag) :
    readDiagLine (emitJsonOne d) = some ⟨d.message, severity d.level, d.span, d.notes, d.code⟩ := by
  simp [readDiagLine, emitJsonOne, jsonLine, String.toList_ofList, readDiagChars_jsonObj]

/-- The severities read back from the JSON stream add up to the totals: the lines that say `error`
    are as many as `total_errors`, those that say `warning` as many as `total_warnings`. -/
theorem json_severities_match_totals (ds : List Diag) :
    ((ds.filter notAllowed).filter fun d => (readDiagLine (emitJsonOne d)).map (·.severity) == some "warning").length = (totals ds).1 ∧
    ((ds.filter notAllowed).filter fun d => (readDiagLine (emitJsonOne d)).map (·.severity) == some "error").length = (totals ds).2 := by
  have hw : ∀ d : Diag, ((readDiagLine (emitJsonOne d)).map (·.severity) == some "warning") = (d.level == .warning) := by
    intro d; rw [json_shape]
    cases d.level <;> simp [severity, Gen.severityError, Gen.severityWarning]
  have he : ∀ d : Diag, ((readDiagLine (emitJsonOne d)).map (·.severity) == some "error") = (d.level == .error) := by
    intro d; rw [json_shape]
    cases d.level <;> simp [severity, Gen.severityError, Gen.severityWarning]
  constructor
  · refine Eq.trans ?_ (totals_agree ds).1.symm
    simp only [hw]
  · refine Eq.trans ?_ (totals_agree ds).2.1.symm
    simp only [he]

/-- JSON format never writes a raw escape character (nor any other control character except the
    newline that ends each object): U+001B inside a message or file name is written as `\u001b`. -/
theorem no_escape_when_disabled_json (ds : List Diag) :
    '\x1b' ∉ (emitJson ds).toList ∧ ∀ c ∈ (emitJson ds).toList, 32 ≤ c.toNat ∨ c = '\n' := by
  have hall : ∀ c ∈ (emitJson ds).toList, 32 ≤ c.toNat ∨ c = '\n' := by
    intro c hc
    simp only [emitJson, String.toList_ofList, emitJsonChars_eq, List.mem_flatten, List.mem_map] at hc
    obtain ⟨l, ⟨d, _, rfl⟩, hcl⟩ := hc
    simp only [jsonLine, List.mem_append, List.mem_singleton] at hcl
    rcases hcl with h | h
    · exact Or.inl (PR_jsonObj d c h)
    · exact Or.inr h
  refine ⟨?_, hall⟩
  intro h
  rcases hall _ h with h | h
  · simp at h
  · simp at h

/-- Human format with colours off: every character written is either one of the emitter's own fixed
    characters (punctuation, digits, the words error / warning / note, spaces) or occurs in an input —
    a source text, or a diagnostic's code, message, file name or note. -/
theorem human_output_chars_from_inputs (files : List SrcFile) (ds : List Diag) (out : String)
    (h : emitHuman files ds = .ok out) :
    ∀ c ∈ out.toList, c ∈ fixedAlphabet ∨ c ∈ inputChars files ds := by
  unfold emitHuman at h
  cases h2 : emitHumanChars files ds with
  | ok cs =>
    rw [h2] at h; simp only at h
    cases h
    simp only [String.toList_ofList]
    apply From_emitHumanChars files ds (inputChars files ds) _ _ cs h2
    · intro f hf c hc
      simp only [inputChars, List.mem_append, List.mem_flatMap]
      exact Or.inl ⟨f, hf, hc⟩
    · intro d hd c hc
      simp only [inputChars, List.mem_append, List.mem_flatMap]
      exact Or.inr ⟨d, hd, hc⟩
  | err e => rw [h2] at h; simp at h
  | panic s => rw [h2] at h; simp at h

/-- With colours disabled the human output contains U+001B only if an input string does. -/
theorem no_escape_when_disabled (files : List SrcFile) (ds : List Diag) (out : String)
    (h : emitHuman files ds = .ok out) (hesc : '\x1b' ∈ out.toList) : '\x1b' ∈ inputChars files ds := by
  rcases human_output_chars_from_inputs files ds out h _ hesc with h1 | h1
  · exact absurd h1 (by decide)
  · exact h1

/-- The snippet arithmetic cannot underflow (no crash, in any build) when the span is 1-based, ordered,
    and — if it covers several lines — does not start behind the end of its first line as `lines()`
    keeps it; then a diagnostic located in a known file always gets its snippet. -/
theorem snippet_no_underflow (files : List SrcFile) (sp : Span) (f : SrcFile)
    (hf : files.find? (fun f => f.path == sp.file) = some f) (hok : SpanOk f.text.toList sp.start sp.stop) :
    ∃ out, emitSnippet files sp = .ok out := by
  obtain ⟨sn, hsn⟩ := getSnippet_ok f.text.toList sp.start sp.stop hok
  unfold emitSnippet
  simp only [hf, hsn]
  exact ⟨_, rfl⟩

/-- What the lexers hand out need not satisfy that precondition: they count the `\r` of a `\r\n` as a column,
    `lines()` strips it, so the span 2:9–3:17 of this CRLF file starts behind its first line. Since the repair of
    D-14a (`saturating_sub`) such a span is drawn too — with nothing highlighted on that line — instead of
    underflowing; the same program with LF ends is drawn as before. -/
theorem snippet_crlf_witness_drawn :
    (match getSnippet "module M\r\n/// doc\r\nunchecked enum E : string { A }\r\n".toList ⟨2, 9⟩ ⟨3, 17⟩ with
      | .ok _ => true | _ => false) = true ∧
    ∃ out, getSnippet "module M\n/// doc\nunchecked enum E : string { A }\n".toList ⟨2, 8⟩ ⟨3, 17⟩ = .ok out := by
  constructor
  · decide
  · apply getSnippet_ok
    refine ⟨by decide, by decide, by decide, by decide, ?_⟩
    intro _ line hl
    have : (lines "module M\n/// doc\nunchecked enum E : string { A }\n".toList)[1]? = some "/// doc".toList := by decide
    simp only [show (2 : Nat) - 1 = 1 from rfl] at hl
    rw [this] at hl
    cases hl
    decide

/-- Highlight geometry (shared with C09): the source line is shown after one space with every tab as
    four spaces; the underline starts exactly under the first spanned character of that expanded line
    and is exactly as wide as the expanded spanned text; an empty span is marked by `/\` whose slash
    sits in the column before that position. -/
theorem highlight_geometry (line : List Char) (hs he : Nat) (hle : hs ≤ he) (hlen : he ≤ line.length) :
    getHighlight line hs he = .ok (
      if hs = he then List.replicate (expandTabs (line.take hs)).length ' ' ++ ['/', '\\']
      else List.replicate (1 + (expandTabs (line.take hs)).length) ' ' ++
           List.replicate (expandTabs ((line.drop hs).take (he - hs))).length '-') := by
  unfold getHighlight
  simp only [expandTabs_length]
  split
  · simp; decide
  · have hlt : ¬ he < hs := by omega
    simp only [hlt, if_false]
    have hseg : ((line.drop hs).take (he - hs)).length = he - hs := by
      simp [List.length_take, List.length_drop]; omega
    rw [widthOf_eq ((line.drop hs).take (he - hs)), hseg]

/-! non-vacuity -/

example : readJsonString (jsonEscape "a\"b\\c\n\x01\x7f") = some "a\"b\\c\n\x01\x7f" := json_string_roundtrip _
example : jsonEscape "a\"\n\x1b" = "a\\\"\\n\\u001b" := by decide
example : totals [⟨"E002", "m", .error, none, []⟩, ⟨"L", "m", .allowed, none, []⟩, ⟨"L", "m", .warning, none, []⟩] = (1, 1) := by decide

end Slicec.C14

#print axioms Slicec.C14.json_string_roundtrip
#print axioms Slicec.C14.json_string_self_delimiting
#print axioms Slicec.C14.json_one_line
#print axioms Slicec.C14.json_line_count
#print axioms Slicec.C14.emit_order_once_json
#print axioms Slicec.C14.emit_order_once_human
#print axioms Slicec.C14.emit_order_once_human_ok
#print axioms Slicec.C14.human_block_shape
#print axioms Slicec.C14.snippet_location_line
#print axioms Slicec.C14.allowed_leave_no_trace
#print axioms Slicec.C14.totals_agree
#print axioms Slicec.C14.json_shape
#print axioms Slicec.C14.json_severities_match_totals
#print axioms Slicec.C14.no_escape_when_disabled_json
#print axioms Slicec.C14.human_output_chars_from_inputs
#print axioms Slicec.C14.no_escape_when_disabled
#print axioms Slicec.C14.snippet_no_underflow
#print axioms Slicec.C14.snippet_crlf_witness_drawn
#print axioms Slicec.C14.highlight_geometry
