/-
  C10 — Slice encoding round-trips and matches the wire format.
  Property theorems only; helper lemmas live in Lemmas/Codec.lean.
  `encode`/`decode` are the models of encoding.rs/decoding.rs whose variable-width arms are the
  tables of Gen/VarintArms.lean, regenerated from the Rust source on every run.
-/
import SlicecVerif.Lemmas.Codec

namespace Slicec.C10

open Slicec

/-- Round trip with exact consumption, for every value of every type at any nesting depth:
    decoding the encoder's output followed by arbitrary bytes yields the value and leaves exactly
    those bytes. (`WF`: dictionaries have distinct keys, as any map value does.) -/
theorem roundtrip (t : Ty) (v : Val t) (bs rest : Bytes) (hwf : WF t v) (h : encode t v = some bs) :
    decode t (bs ++ rest) = .ok (v, rest) :=
  decode_encode t v bs rest hwf h

/-- fixed-width numbers are little-endian: byte `i` holds bits `8i .. 8i+7`. -/
theorem fixed_little_endian (k x i : Nat) (hi : i < k) :
    (toLE k x)[i]? = some (UInt8.ofNat (x / 256 ^ i % 256)) := by
  induction k generalizing x i with
  | zero => omega
  | succ k ih =>
    cases i with
    | zero => simp [toLE]
    | succ i =>
      simp only [toLE, List.getElem?_cons_succ]
      rw [ih (x / 256) i (by omega), Nat.pow_succ, Nat.div_div_eq_div_mul, Nat.mul_comm]

/-- signed fixed-width numbers are two's complement: a negative `v` is written as `2^bits + v`. -/
theorem signed_twos_complement (w : Width) (v : Int) (hlo : -(2 ^ (8 * w.n - 1)) ≤ v) (hneg : v < 0) :
    encode (.sint w) v = some (toLE w.n (v + 2 ^ (8 * w.n)).toNat) := by
  have hp : (0 : Int) < 2 ^ (8 * w.n - 1) := Int.pow_pos (by decide)
  have h2 : (2 : Int) ^ (8 * w.n) = 2 * 2 ^ (8 * w.n - 1) := by
    have : 8 * w.n = (8 * w.n - 1) + 1 := by cases w <;> simp [Width.n]
    rw [this, Int.pow_succ]; simp; omega
  show encFixedS w.n v = _
  unfold encFixedS ofSigned
  rw [if_pos ⟨hlo, by omega⟩]
  congr 3
  rw [← Int.add_emod_right]
  exact Int.emod_eq_of_lt (by omega) (by omega)

/-- IEEE-754 values are carried as their bit patterns, so NaN payloads, infinities and
    subnormals survive unchanged (instance of `roundtrip`). -/
theorem float_bits_transparent (b : Nat) (hb : b < 2 ^ 32) (rest : Bytes) :
    decode .f32 (toLE 4 b ++ rest) = .ok (b, rest) :=
  roundtrip .f32 b _ rest trivial (by show encBits 4 b = _; simp [encBits, hb])

/-- wire format of unsigned variable-width integers: the table-driven encoder writes exactly
    `value * 4 + code` on the shortest of 1, 2, 4, 8 bytes, and refuses values ≥ 2^62. -/
theorem varuint_wire (v : BitVec 64) : encVaruint v = specVaruint v.toNat := encVaruint_eq_spec v

/-- wire format of signed variable-width integers (two's complement of `value * 4 + code`). -/
theorem varint_wire (v : BitVec 64) : encVarint v = specVarint v.toInt := encVarint_eq_spec v

/-- `specWidthU` really is the least admissible width. -/
theorem width_shortest_unsigned (v w : Nat) (h : specWidthU v = some w) :
    (w = 1 ∨ w = 2 ∨ w = 4 ∨ w = 8) ∧ v < 2 ^ (8 * w - 2) ∧
    ∀ w', (w' = 1 ∨ w' = 2 ∨ w' = 4 ∨ w' = 8) → v < 2 ^ (8 * w' - 2) → w ≤ w' := by
  unfold specWidthU at h
  split at h
  · simp at h; subst h; refine ⟨by simp, by simpa using ‹_›, ?_⟩; intro w' hw' _; omega
  · split at h
    · simp at h; subst h; refine ⟨by simp, by simpa using ‹_›, ?_⟩
      intro w' hw' hv; rcases hw' with rfl | rfl | rfl | rfl <;> simp at hv ⊢ <;> omega
    · split at h
      · simp at h; subst h; refine ⟨by simp, by simpa using ‹_›, ?_⟩
        intro w' hw' hv; rcases hw' with rfl | rfl | rfl | rfl <;> simp at hv ⊢ <;> omega
      · split at h
        · simp at h; subst h; refine ⟨by simp, by simpa using ‹_›, ?_⟩
          intro w' hw' hv; rcases hw' with rfl | rfl | rfl | rfl <;> simp at hv ⊢ <;> omega
        · simp at h

theorem width_shortest_signed (v : Int) (w : Nat) (h : specWidthS v = some w) :
    (w = 1 ∨ w = 2 ∨ w = 4 ∨ w = 8) ∧ (-(2 ^ (8 * w - 3)) ≤ v ∧ v < 2 ^ (8 * w - 3)) ∧
    ∀ w', (w' = 1 ∨ w' = 2 ∨ w' = 4 ∨ w' = 8) → (-(2 ^ (8 * w' - 3)) ≤ v ∧ v < 2 ^ (8 * w' - 3)) → w ≤ w' := by
  unfold specWidthS at h
  split at h
  · simp at h; subst h; refine ⟨by simp, by simpa using ‹_›, ?_⟩; intro w' hw' _; omega
  · split at h
    · simp at h; subst h; refine ⟨by simp, by simpa using ‹_›, ?_⟩
      intro w' hw' hv; rcases hw' with rfl | rfl | rfl | rfl <;> simp at hv ⊢ <;> omega
    · split at h
      · simp at h; subst h; refine ⟨by simp, by simpa using ‹_›, ?_⟩
        intro w' hw' hv; rcases hw' with rfl | rfl | rfl | rfl <;> simp at hv ⊢ <;> omega
      · split at h
        · simp at h; subst h; refine ⟨by simp, by simpa using ‹_›, ?_⟩
          intro w' hw' hv; rcases hw' with rfl | rfl | rfl | rfl <;> simp at hv ⊢ <;> omega
        · simp at h

/-- values outside the 62-bit range are refused, never truncated (and only those). -/
theorem varuint_refused (v : BitVec 64) : encVaruint v = none ↔ 2 ^ 62 ≤ v.toNat := by
  rw [varuint_wire]; unfold specVaruint specWidthU
  by_cases c1 : v.toNat < 2 ^ 6
  · simp only [c1, if_true, Option.map_some]; constructor <;> intro h <;> first | omega | (exfalso; omega) | cases h
  · by_cases c2 : v.toNat < 2 ^ 14
    · simp only [c1, c2, if_true, if_false, Option.map_some]; constructor <;> intro h <;> first | omega | (exfalso; omega) | cases h
    · by_cases c3 : v.toNat < 2 ^ 30
      · simp only [c1, c2, c3, if_true, if_false, Option.map_some]; constructor <;> intro h <;> first | omega | (exfalso; omega) | cases h
      · by_cases c4 : v.toNat < 2 ^ 62
        · simp only [c1, c2, c3, c4, if_true, if_false, Option.map_some]; constructor <;> intro h <;> first | omega | (exfalso; omega) | cases h
        · simp only [c1, c2, c3, c4, if_false, Option.map_none, true_iff]; omega

theorem varint_refused (v : BitVec 64) :
    encVarint v = none ↔ (v.toInt < -(2 ^ 61) ∨ 2 ^ 61 ≤ v.toInt) := by
  rw [varint_wire]; unfold specVarint specWidthS
  generalize v.toInt = x
  by_cases c1 : -(2 ^ 5) ≤ x ∧ x < 2 ^ 5
  · simp only [c1, and_self, if_true, Option.map_some]; constructor <;> intro h <;> first | omega | (exfalso; omega) | cases h
  · by_cases c2 : -(2 ^ 13) ≤ x ∧ x < 2 ^ 13
    · simp only [c1, c2, and_self, if_true, if_false, Option.map_some]; constructor <;> intro h <;> first | omega | (exfalso; omega) | cases h
    · by_cases c3 : -(2 ^ 29) ≤ x ∧ x < 2 ^ 29
      · simp only [c1, c2, c3, and_self, if_true, if_false, Option.map_some]; constructor <;> intro h <;> first | omega | (exfalso; omega) | cases h
      · by_cases c4 : -(2 ^ 61) ≤ x ∧ x < 2 ^ 61
        · simp only [c1, c2, c3, c4, and_self, if_true, if_false, Option.map_some]; constructor <;> intro h <;> first | omega | (exfalso; omega) | cases h
        · simp only [c1, c2, c3, c4, if_false, Option.map_none, true_iff]; omega

/-- the decoder's dispatch table covers every value of `byte & 0b11`
    (the `unreachable_unchecked` arm of `decode_varint`/`decode_varuint` is unreachable). -/
theorem decode_dispatch_total :
    ∀ c, c < Gen.decodeMask + 1 →
      (lookupWidth Gen.varuintDecode c).isSome ∧ (lookupWidth Gen.varintDecode c).isSome := by
  decide

/-- narrowing: a decoded `varint32`/`varuint32` is in the 32-bit range (never truncated). -/
theorem narrow_in_range (lo hi : Int) (r : Dec Int) (v : Int) (rest : Bytes)
    (h : narrow lo hi r = .ok (v, rest)) : lo ≤ v ∧ v ≤ hi := by
  unfold narrow at h
  split at h
  · simp at h
  · split at h
    · simp at h; obtain ⟨rfl, _⟩ := h; assumption
    · simp at h

/-- The encoding is injective: two (well-formed) values of one type that the encoder writes as the same
    bytes are the same value — nothing is lost or conflated on the wire, at any nesting depth. -/
theorem encode_injective (t : Ty) (v v' : Val t) (bs : Bytes) (hwf : WF t v) (hwf' : WF t v')
    (h : encode t v = some bs) (h' : encode t v' = some bs) : v = v' := by
  have e1 := roundtrip t v bs [] hwf h
  have e2 := roundtrip t v' bs [] hwf' h'
  rw [e1] at e2
  injection e2 with e2
  injection e2

/-- The encoding is a prefix code: if the encodings of two values are each followed by arbitrary bytes and
    the two byte strings are equal, the values are equal, their encodings are equal and so are the
    followers. In particular no encoding is a proper prefix of another one of the same type — a value in a
    stream is delimited by its own bytes alone (what "consumes exactly the bytes written" needs). -/
theorem encode_prefix_free (t : Ty) (v v' : Val t) (a b x y : Bytes) (hwf : WF t v) (hwf' : WF t v')
    (h : encode t v = some a) (h' : encode t v' = some b) (e : a ++ x = b ++ y) :
    v = v' ∧ a = b ∧ x = y := by
  have e1 := roundtrip t v a x hwf h
  have e2 := roundtrip t v' b y hwf' h'
  rw [e, e2] at e1
  injection e1 with e1
  injection e1 with hv hxy
  subst hv
  subst hxy
  refine ⟨rfl, ?_, rfl⟩
  rw [h] at h'
  injection h'

/-- Streams: any number of (well-formed) values of one type written one behind the other, followed by
    arbitrary bytes, are read back in order by as many decodes, which leave exactly the follower — the
    round trip composes over unbounded sequences of messages (no length prefix involved). -/
theorem roundtrip_stream (t : Ty) (vs : List (Val t)) (bs rest : Bytes) (hwf : ∀ v ∈ vs, WF t v)
    (h : encList (encode t) vs = some bs) :
    decList (decode t) vs.length (bs ++ rest) = .ok (vs, rest) :=
  encList_dec (encode t) (decode t) vs (fun x hx b r hb => roundtrip t x b r (hwf x hx) hb) bs rest h

/-! non-vacuity: concrete non-trivial values meet the hypotheses -/
example : WF (.dictH (.uint .w1) (.seq .str)) [((1 : Int), [[104, 105]]), ((2 : Int), [])] := by
  refine ⟨by decide, ?_⟩
  intro p hp; exact ⟨trivial, fun _ _ => trivial⟩
example : encode .varint62 (-33 : Int) = some [125, 255] := by decide
example : specVaruint 16384 = some [2, 0, 1, 0] := by decide
example : encVaruint (BitVec.ofNat 64 (2 ^ 62)) = none := by decide

end Slicec.C10

#print axioms Slicec.C10.roundtrip
#print axioms Slicec.C10.fixed_little_endian
#print axioms Slicec.C10.signed_twos_complement
#print axioms Slicec.C10.float_bits_transparent
#print axioms Slicec.C10.varuint_wire
#print axioms Slicec.C10.varint_wire
#print axioms Slicec.C10.width_shortest_unsigned
#print axioms Slicec.C10.width_shortest_signed
#print axioms Slicec.C10.varuint_refused
#print axioms Slicec.C10.varint_refused
#print axioms Slicec.C10.decode_dispatch_total
#print axioms Slicec.C10.narrow_in_range
#print axioms Slicec.C10.encode_injective
#print axioms Slicec.C10.encode_prefix_free
#print axioms Slicec.C10.roundtrip_stream
