/-
  C04 — Accepted programs are well-formed; every rule violation is diagnosed.

  Per-rule equivalences (for ALL member lists / values / key references), then the composition: every check of the
  model agrees with its declarative specification (`rules_ok`), reported codes belong to violated rules
  (`codes_sound`), the first failing phase decides (`gate_monotone`), and acceptance = well-formedness as enforced
  (`accept_iff_partial`). The full equivalence with the specification fails on the pinned tree exactly because
  attributes on enum underlying types / interface bases are never validated (D-04b): `accept_iff_full_refuted`.
-/
import SlicecVerif.Lemmas.Validate
import SlicecVerif.Lemmas.Pipeline

namespace Slicec.C04

open Slicec Slicec.Validate

/-! ## per-rule equivalences -/

/-- `tags_are_unique` (sort the tags, compare neighbours) reports nothing exactly when the tags of the member list
    are pairwise distinct — for every member list. -/
theorem dupTags_iff (ms : List Member) : dupTagCheck ms = [] ↔ (ms.filterMap (·.tag)).Nodup := by
  unfold dupTagCheck
  rw [windowDups_nil_iff _ (sortNat_sorted _)]
  exact (sortNat_perm _).nodup_iff

/-- `parse_tag_value` accepts exactly the tag values `0 ≤ v < 2^31` (bounds extracted from the source). -/
theorem tagRange_iff (v : Int) : tagRangeCheck v = [] ↔ 0 ≤ v ∧ v < 2 ^ 31 := by
  have h31 : (2 : Int) ^ 31 = 2147483648 := by decide
  rw [h31]
  unfold tagRangeCheck
  by_cases hc : Gen.tagBounds.1 ≤ v ∧ v ≤ Gen.tagBounds.2
  · rw [if_pos hc]
    simp only [Gen.tagBounds] at hc
    exact ⟨fun _ => (by omega), fun _ => rfl⟩
  · rw [if_neg hc]
    simp only [Gen.tagBounds] at hc
    exact ⟨fun h => (by cases h), fun h => absurd (show 0 ≤ v ∧ v ≤ 2147483647 by omega) hc⟩

/-- `tags_have_optional_types` reports nothing exactly when every tagged member is optional. -/
theorem taggedOptional_iff (ms : List Member) :
    taggedOptionalCheck ms = [] ↔ ∀ m ∈ ms, m.tag.isSome = true → m.opt = true := by
  unfold taggedOptionalCheck
  simp only [List.map_eq_nil_iff, List.filter_eq_nil_iff, List.mem_filter]
  constructor
  · intro h m hm ht
    have := h m ⟨hm, ht⟩
    simpa using this
  · intro h m ⟨hm, ht⟩
    simp [h m hm ht]

/-- the two compact-struct rules report nothing exactly when a compact struct is non-empty and has no tagged field. -/
theorem compact_rules_iff (s : StructCtx) :
    compactEmptyCheck s ++ compactTagCheck (s.compact, s.tagged) = [] ↔
      (s.compact = true → s.tagged ≠ [] ∧ ∀ b ∈ s.tagged, b = false) := by
  unfold compactEmptyCheck compactTagCheck
  cases s.compact with
  | false => simp
  | true =>
    simp only [Bool.true_and, List.append_eq_nil_iff, List.map_eq_nil_iff, List.filter_eq_nil_iff, if_true, forall_const]
    constructor
    · intro ⟨h1, h2⟩
      refine ⟨?_, fun b hb => by simpa using h2 b hb⟩
      intro e; rw [e] at h1; simp at h1
    · intro ⟨h1, h2⟩
      refine ⟨?_, fun b hb => by simp [h2 b hb]⟩
      cases h : s.tagged with
      | nil => exact absurd h h1
      | cons _ _ => simp

/-- the numeric bounds the language defines: two's-complement ranges of the fixed-width integers, the 62-bit ranges of
    the variable-width ones, none for non-integral primitives -/
def specBounds : Prim → Option (Int × Int)
  | .int8 => some (-(2 ^ 7), 2 ^ 7 - 1) | .uint8 => some (0, 2 ^ 8 - 1)
  | .int16 => some (-(2 ^ 15), 2 ^ 15 - 1) | .uint16 => some (0, 2 ^ 16 - 1)
  | .int32 => some (-(2 ^ 31), 2 ^ 31 - 1) | .uint32 => some (0, 2 ^ 32 - 1)
  | .varint32 => some (-(2 ^ 31), 2 ^ 31 - 1) | .varuint32 => some (0, 2 ^ 32 - 1)
  | .int64 => some (-(2 ^ 63), 2 ^ 63 - 1) | .uint64 => some (0, 2 ^ 64 - 1)
  | .varint62 => some (-(2 ^ 61), 2 ^ 61 - 1) | .varuint62 => some (0, 2 ^ 62 - 1)
  | .bool | .float32 | .float64 | .string => none

/-- the extracted `numeric_bounds` table is the language's table, and `is_integral` holds exactly for the primitives
    that have bounds (a changed row of Gen/Primitives.lean re-opens this proof) -/
theorem primBounds_spec (p : Prim) : primBounds p = specBounds p ∧ (primIntegral p = true ↔ (specBounds p).isSome = true) := by
  cases p <;> decide

/-- `backing_type_bounds` reports nothing exactly when every enumerator value lies within the bounds that apply:
    those of the underlying primitive (`Gen.primitives`), or `0 ..= i32::MAX` without an underlying type. -/
theorem enumRange_iff (e : EnumCtx) : enumRangeCheck e = [] ↔ EnumRangeOK e := by
  unfold enumRangeCheck EnumRangeOK
  cases h : enumBounds e with
  | none => simp
  | some b =>
    obtain ⟨lo, hi⟩ := b
    simp only [List.map_eq_nil_iff, List.filter_eq_nil_iff]
    constructor
    · intro hh v hv
      have := hh v hv
      simp only [Bool.or_eq_true, decide_eq_true_eq, not_or, Int.not_lt] at this
      exact this
    · intro hh v hv
      have := hh v hv
      simp only [Bool.or_eq_true, decide_eq_true_eq, not_or, Int.not_lt]
      exact this

/-- without an underlying type the bounds are `0 ≤ v < 2^31` -/
theorem enumRange_plain (e : EnumCtx) (h : e.underlying = none) :
    enumRangeCheck e = [] ↔ ∀ v ∈ e.values, 0 ≤ v ∧ v < 2 ^ 31 := by
  have h31 : (2 : Int) ^ 31 = 2147483648 := by decide
  rw [enumRange_iff]
  unfold EnumRangeOK enumBounds
  simp only [h, Gen.plainEnumBounds, h31]
  constructor
  · intro hh v hv; have := hh v hv; omega
  · intro hh v hv; have := hh v hv; omega

/-- with an underlying primitive the bounds are the language's (`specBounds`) -/
theorem enumRange_backed (e : EnumCtx) (o : Bool) (p : Prim) (h : e.underlying = some (o, some p)) :
    enumRangeCheck e = [] ↔ ∀ b, specBounds p = some b → ∀ v ∈ e.values, b.1 ≤ v ∧ v ≤ b.2 := by
  rw [enumRange_iff]
  unfold EnumRangeOK enumBounds
  simp only [h, (primBounds_spec p).1]
  cases specBounds p with
  | none => simp
  | some b => simp

/-- `enumerator_values_are_unique` (hash-map scan) reports nothing exactly when the values are pairwise distinct. -/
theorem enumUnique_iff (e : EnumCtx) : enumUniqueCheck e = [] ↔ e.values.Nodup := by
  unfold enumUniqueCheck
  rw [List.map_eq_nil_iff, repeats_nil_iff_nodup]

/-- the two stream checks (`split_last`-based) report nothing exactly when only the last member may be streamed. -/
theorem streamLast_iff (ss : List Bool) :
    streamLastCheck ss ++ multiStreamCheck ss = [] ↔ ∀ i, ss[i]? = some true → i + 1 = ss.length := by
  rw [stream_checks_nil_iff, dropLast_all_false_iff]

/-- `check_return_tuple` reports nothing exactly for tuples of at least two members. -/
theorem returnTuple_iff (n : Nat) : tupleCheck n = [] ↔ 2 ≤ n := by
  unfold tupleCheck
  by_cases h : n < 2
  · simp [h]
  · simp [h]; omega

/-- `check_dictionary_key_type` accepts a key exactly when the declarative rule does, at every fuel (recursion depth
    through compact structs). -/
theorem keyType_iff (env : KEnv) (n : Nat) (k : KRef) : keyCheck env n k = none ↔ legalKeyB env n k = true :=
  keyCheck_none_iff env n k

/-- termination argument: when the compact-struct graph is ranked (acyclic — guaranteed by the cycle gate) any fuel
    above the rank of the key makes the check agree with the fuel-free inductive rule `LegalKey`, to any nesting depth. -/
theorem keyType_fuel (env : KEnv) (rank : String → Nat) (hr : Ranked env rank) (k : KRef) (n : Nat)
    (hn : krank rank k < n) : keyCheck env n k = none ↔ LegalKey env k := by
  rw [keyCheck_none_iff]
  exact ⟨legalKeyB_sound env n k, fun h => legalKeyB_complete env rank hr k h n hn⟩

/-- without any assumption: a key the check accepts is legal (an exhausted fuel rejects) -/
theorem keyType_sound (env : KEnv) (n : Nat) (k : KRef) (h : keyCheck env n k = none) : LegalKey env k :=
  legalKeyB_sound env n k ((keyCheck_none_iff env n k).mp h)

/-! ## every rule: check = [] ↔ Spec, and only codes of its kinds -/

theorem mem_map_const {α} {l : List α} {c x : String} (h : x ∈ l.map (fun _ => c)) : x = c := by
  obtain ⟨_, _, rfl⟩ := List.mem_map.mp h; rfl

theorem mem_ite_then {p : Prop} [Decidable p] {c x : String} (h : c ∈ (if p then [x] else [])) : c = x := by
  split at h
  · simpa using h
  · cases h

theorem mem_ite_else {p : Prop} [Decidable p] {c x : String} (h : c ∈ (if p then [] else [x])) : c = x := by
  split at h
  · cases h
  · simpa using h

theorem attrPatch_ok : RuleOK attrPatchRule := by
  refine ⟨fun a => ?_, fun a c hc => ?_⟩
  · show patchAttrCheck a = [] ↔ AttrWellFormed a
    unfold patchAttrCheck AttrWellFormed
    cases attrRow a.directive with
    | none =>
      simp only
      by_cases h : directivePrefix a.directive = Gen.attributePrefix
      · simp [h]
      · simp [h]
    | some r =>
      simp only [List.append_eq_nil_iff, List.map_eq_nil_iff, List.filter_eq_nil_iff]
      constructor
      · intro ⟨h1, h2⟩
        refine ⟨?_, fun x hx => by simpa using h2 x hx⟩
        cases hco : countOK r a.args.length with
        | true => rfl
        | false => rw [hco] at h1; simp at h1
      · intro ⟨h1, h2⟩
        exact ⟨by simp [h1], fun x hx => by simp [h2 x hx]⟩
  · change c ∈ patchAttrCheck a at hc
    show ∃ k ∈ ["IncorrectAttributeArgumentCount", "InvalidAttributeArgument", "UnknownAttribute"], c = code k
    unfold patchAttrCheck at hc
    cases hr : attrRow a.directive with
    | none =>
      rw [hr] at hc
      simp only at hc
      split at hc
      · simp only [List.mem_singleton] at hc; exact ⟨_, by simp, hc⟩
      · cases hc
    | some r =>
      rw [hr] at hc
      simp only [List.mem_append] at hc
      rcases hc with hc | hc
      · split at hc
        · cases hc
        · simp only [List.mem_singleton] at hc; exact ⟨_, by simp, hc⟩
      · exact ⟨_, by simp, mem_map_const hc⟩

theorem siteCodes_kinds (t : Table) (s : RefSite) (c : String) (h : c ∈ Validate.siteCodes t s) :
    ∃ k ∈ ["DoesNotExist", "TypeMismatch", "SelfReferentialTypeAliasNeedsConcreteType"], c = code k := by
  unfold Validate.siteCodes at h
  split at h
  · cases h
  · rename_i e _
    cases e with
    | doesNotExist id => simp only [resErrCodes, List.mem_singleton] at h; exact ⟨_, by simp, h⟩
    | typeMismatch a b => simp only [resErrCodes, List.mem_singleton] at h; exact ⟨_, by simp, h⟩
    | aliasCycle r id =>
      cases r with
      | true =>
        simp only [resErrCodes, List.mem_cons, List.not_mem_nil, or_false] at h
        rcases h with h | h
        · exact ⟨_, by simp, h⟩
        · exact ⟨_, by simp, h⟩
      | false => simp only [resErrCodes, List.mem_singleton] at h; exact ⟨_, by simp, h⟩
    | fuel => simp [resErrCodes] at h

theorem basesCodes_kinds (t : Table) (ss : List RefSite) (c : String) (h : c ∈ basesCodes t ss) :
    ∃ k ∈ ["DoesNotExist", "TypeMismatch", "SelfReferentialTypeAliasNeedsConcreteType"], c = code k := by
  induction ss with
  | nil => simp [basesCodes] at h
  | cons s rest ih =>
    unfold basesCodes at h
    split at h
    · exact ih h
    · rename_i hne
      exact siteCodes_kinds t s c h

theorem resolve_ok : RuleOK resolveRule := by
  refine ⟨fun P => Iff.rfl, fun P c hc => ?_⟩
  change c ∈ resolveCodes P at hc
  show ∃ k ∈ ["DoesNotExist", "TypeMismatch", "SelfReferentialTypeAliasNeedsConcreteType"], c = code k
  unfold resolveCodes at hc
  simp only [List.mem_flatMap] at hc
  obtain ⟨sd, _, hc⟩ := hc
  unfold defResolveCodes at hc
  rcases List.mem_append.mp hc with hc | hc
  · obtain ⟨s, _, hs⟩ := List.mem_flatMap.mp hc
    exact siteCodes_kinds _ s c hs
  · split at hc
    · exact basesCodes_kinds _ _ c hc
    · obtain ⟨s, _, hs⟩ := List.mem_flatMap.mp hc
      exact siteCodes_kinds _ s c hs
    · cases hc

theorem cycle_ok : RuleOK cycleRule := by
  refine ⟨fun P => ?_, fun P c hc => ?_⟩
  · show (if hasCycle P then [code "InfiniteSizeCycle"] else []) = [] ↔ hasCycle P = false
    cases hasCycle P <;> simp
  · change c ∈ (if hasCycle P then [code "InfiniteSizeCycle"] else []) at hc
    split at hc
    · simp only [List.mem_singleton] at hc; exact ⟨_, List.mem_singleton.mpr rfl, hc⟩
    · cases hc

theorem names_ok : RuleOK namesRule := by
  refine ⟨fun (ns : List String × List String) => ?_, fun ns c hc => ⟨_, List.mem_singleton.mpr rfl, mem_map_const hc⟩⟩
  show (repeats ns.1 ns.2).map (fun _ => code "Redefinition") = [] ↔ ns.2.Nodup ∧ ∀ x ∈ ns.2, x ∉ ns.1
  rw [List.map_eq_nil_iff, repeats_nil_iff]

theorem placement_ok (b : Bool) : RuleOK (placementRule b) := by
  refine ⟨fun s => ?_, fun s c hc => ⟨_, List.mem_singleton.mpr rfl, mem_map_const hc⟩⟩
  show placementCheck s = [] ↔ ∀ a ∈ s.2, invalidOn a.directive s.1 = false
  unfold placementCheck
  simp only [List.map_eq_nil_iff, List.filter_eq_nil_iff]
  exact ⟨fun h a ha => by simpa using h a ha, fun h a ha => by simp [h a ha]⟩

theorem repeat_ok (b : Bool) : RuleOK (repeatRule b) := by
  refine ⟨fun s => ?_, fun s c hc => ⟨_, List.mem_singleton.mpr rfl, mem_map_const hc⟩⟩
  show repeatCheck s = [] ↔ ((s.2.filter nonRepeatable).map (·.directive)).Nodup
  unfold repeatCheck
  rw [List.map_eq_nil_iff, repeats_nil_iff_nodup]

theorem enumRange_ok : RuleOK enumRangeRule := by
  refine ⟨enumRange_iff, fun e c hc => ?_⟩
  change c ∈ enumRangeCheck e at hc
  unfold enumRangeCheck at hc
  split at hc
  · exact ⟨_, List.mem_singleton.mpr rfl, mem_map_const hc⟩
  · cases hc

theorem enumIntegral_ok : RuleOK enumIntegralRule := by
  refine ⟨fun e => ?_, fun e c hc => ?_⟩
  · show enumIntegralCheck e = [] ↔ EnumIntegralOK e
    unfold enumIntegralCheck EnumIntegralOK
    cases e.underlying with
    | none => simp
    | some u =>
      obtain ⟨o, p⟩ := u
      cases p with
      | none => simp
      | some p => cases h : primIntegral p <;> simp [h]
  · change c ∈ enumIntegralCheck e at hc
    unfold enumIntegralCheck at hc
    cases hu : e.underlying with
    | none => rw [hu] at hc; cases hc
    | some u =>
      rw [hu] at hc
      exact ⟨_, List.mem_singleton.mpr rfl, mem_ite_else hc⟩

theorem enumUnique_ok : RuleOK enumUniqueRule :=
  ⟨enumUnique_iff, fun _ _ hc => ⟨_, List.mem_singleton.mpr rfl, mem_map_const hc⟩⟩

theorem enumOptional_ok : RuleOK enumOptionalRule := by
  refine ⟨fun e => ?_, fun e c hc => ?_⟩
  · show enumOptionalCheck e = [] ↔ EnumNonOptionalOK e
    unfold enumOptionalCheck EnumNonOptionalOK
    cases e.underlying with
    | none => simp
    | some u => obtain ⟨o, p⟩ := u; cases o <;> simp
  · change c ∈ enumOptionalCheck e at hc
    unfold enumOptionalCheck at hc
    split at hc
    · simp only [List.mem_singleton] at hc; exact ⟨_, List.mem_singleton.mpr rfl, hc⟩
    · cases hc

theorem enumNonEmpty_ok : RuleOK enumNonEmptyRule := by
  refine ⟨fun e => ?_, fun e c hc => ?_⟩
  · show enumNonEmptyCheck e = [] ↔ (e.unchecked = false → e.values ≠ [])
    unfold enumNonEmptyCheck
    cases e.unchecked <;> cases e.values <;> simp
  · change c ∈ enumNonEmptyCheck e at hc
    unfold enumNonEmptyCheck at hc
    split at hc
    · simp only [List.mem_singleton] at hc; exact ⟨_, List.mem_singleton.mpr rfl, hc⟩
    · cases hc

theorem enumCompact_ok : RuleOK enumCompactRule := by
  refine ⟨fun e => ?_, fun e c hc => ?_⟩
  · show enumCompactCheck e = [] ↔ (e.compact = true → e.underlying = none ∧ e.unchecked = false)
    unfold enumCompactCheck
    cases e.compact <;> cases e.underlying <;> cases e.unchecked <;> simp
  · change c ∈ enumCompactCheck e at hc
    show ∃ k ∈ ["CannotBeCompact"], c = code k
    unfold enumCompactCheck at hc
    split at hc
    · rcases List.mem_append.mp hc with hc | hc <;> split at hc
      · simp only [List.mem_singleton] at hc; exact ⟨_, List.mem_singleton.mpr rfl, hc⟩
      · cases hc
      · simp only [List.mem_singleton] at hc; exact ⟨_, List.mem_singleton.mpr rfl, hc⟩
      · cases hc
    · cases hc

theorem compactTag_ok : RuleOK compactTagRule := by
  refine ⟨fun x => ?_, fun x c hc => ?_⟩
  · show compactTagCheck x = [] ↔ (x.1 = true → ∀ b ∈ x.2, b = false)
    unfold compactTagCheck
    cases x.1 with
    | false => simp
    | true =>
      simp only [if_true, List.map_eq_nil_iff, List.filter_eq_nil_iff, forall_const]
      exact ⟨fun h b hb => by simpa using h b hb, fun h b hb => by simp [h b hb]⟩
  · change c ∈ compactTagCheck x at hc
    unfold compactTagCheck at hc
    split at hc
    · exact ⟨_, List.mem_singleton.mpr rfl, mem_map_const hc⟩
    · cases hc

theorem enumFields_ok : RuleOK enumFieldsRule := by
  refine ⟨fun e => ?_, fun e c hc => ?_⟩
  · show enumFieldsCheck e = [] ↔ (e.underlying ≠ none → ∀ b ∈ e.hasFields, b = false)
    unfold enumFieldsCheck
    cases e.underlying with
    | none => simp
    | some u =>
      simp only [Option.isSome_some, if_true, List.map_eq_nil_iff, List.filter_eq_nil_iff, ne_eq, reduceCtorEq,
        not_false_eq_true, forall_const]
      exact ⟨fun h b hb => by simpa using h b hb, fun h b hb => by simp [h b hb]⟩
  · change c ∈ enumFieldsCheck e at hc
    unfold enumFieldsCheck at hc
    split at hc
    · exact ⟨_, List.mem_singleton.mpr rfl, mem_map_const hc⟩
    · cases hc

theorem compactEmpty_ok : RuleOK compactEmptyRule := by
  refine ⟨fun s => ?_, fun s c hc => ?_⟩
  · show compactEmptyCheck s = [] ↔ (s.compact = true → s.tagged ≠ [])
    unfold compactEmptyCheck
    cases s.compact <;> cases s.tagged <;> simp
  · change c ∈ compactEmptyCheck s at hc
    unfold compactEmptyCheck at hc
    split at hc
    · simp only [List.mem_singleton] at hc; exact ⟨_, List.mem_singleton.mpr rfl, hc⟩
    · cases hc

theorem taggedOptional_ok : RuleOK taggedOptionalRule :=
  ⟨taggedOptional_iff, fun _ _ hc => ⟨_, List.mem_singleton.mpr rfl, mem_map_const hc⟩⟩

theorem windowDups_kinds (l : List Nat) (c : String) (h : c ∈ windowDups l) : c = code "CannotHaveDuplicateTag" := by
  induction l with
  | nil => simp [windowDups] at h
  | cons a t ih =>
    cases t with
    | nil => simp [windowDups] at h
    | cons b rest =>
      unfold windowDups at h
      rcases List.mem_append.mp h with h | h
      · split at h
        · simpa using h
        · cases h
      · exact ih h

theorem dupTag_ok : RuleOK dupTagRule :=
  ⟨dupTags_iff, fun _ c hc => ⟨_, List.mem_singleton.mpr rfl, windowDups_kinds _ c hc⟩⟩

theorem stream_ok : RuleOK streamRule := by
  refine ⟨streamLast_iff, fun ss c hc => ?_⟩
  change c ∈ streamLastCheck ss ++ multiStreamCheck ss at hc
  show ∃ k ∈ ["StreamedMembersMustBeLast", "MultipleStreamedMembers"], c = code k
  rcases List.mem_append.mp hc with hc | hc
  · exact ⟨_, by simp, mem_map_const hc⟩
  · unfold multiStreamCheck at hc
    simp only at hc
    split at hc
    · exact ⟨_, by simp, mem_map_const hc⟩
    · cases hc

theorem shadow_ok : RuleOK shadowRule := by
  refine ⟨fun x => ?_, fun x c hc => ?_⟩
  · show shadowCheck x = [] ↔ ∀ o ∈ x.own, o ∉ x.inherited
    unfold shadowCheck
    simp only [List.flatMap_eq_nil_iff, List.map_eq_nil_iff, List.filter_eq_nil_iff]
    constructor
    · intro h o ho hi
      have := h o ho o hi
      simp at this
    · intro h o ho i hi
      have : o ≠ i := fun e => h o ho (e ▸ hi)
      simp [this]
  · change c ∈ shadowCheck x at hc
    unfold shadowCheck at hc
    obtain ⟨o, _, ho⟩ := List.mem_flatMap.mp hc
    exact ⟨_, List.mem_singleton.mpr rfl, mem_map_const ho⟩

theorem alias_ok : RuleOK aliasRule := by
  refine ⟨fun (o : Bool) => ?_, fun (o : Bool) c hc => ?_⟩
  · show (if o then [code "TypeAliasOfOptional"] else []) = [] ↔ o = false
    cases o <;> simp
  · change c ∈ (if o then [code "TypeAliasOfOptional"] else []) at hc
    exact ⟨_, List.mem_singleton.mpr rfl, mem_ite_then hc⟩

theorem keyCheck_kinds (env : KEnv) (n : Nat) (k : KRef) (kind : String) (h : keyCheck env n k = some kind) :
    kind ∈ ["KeyMustBeNonOptional", "StructKeyMustBeCompact", "KeyTypeNotSupported", "StructKeyContainsDisallowedType"] := by
  cases n with
  | zero => simp [keyCheck] at h; simp [← h]
  | succ n =>
    unfold keyCheck at h
    split at h
    · simp at h; simp [← h]
    · split at h
      · split at h
        · split at h
          · simp at h; simp [← h]
          · split at h
            · cases h
            · simp at h; simp [← h]
        · simp at h; simp [← h]
      · split at h
        · cases h
        · simp at h; simp [← h]
      · cases h
      · simp at h; simp [← h]
      · simp at h; simp [← h]
      · split at h
        · cases h
        · simp at h; simp [← h]

theorem key_ok : RuleOK keyRule := by
  refine ⟨fun x => ?_, fun x c hc => ?_⟩
  · show (match keyCheck x.env x.fuel x.key with | some kind => [code kind] | none => []) = [] ↔ legalKeyB x.env x.fuel x.key = true
    rw [← keyCheck_none_iff]
    cases keyCheck x.env x.fuel x.key <;> simp
  · change c ∈ (match keyCheck x.env x.fuel x.key with | some kind => [code kind] | none => []) at hc
    cases h : keyCheck x.env x.fuel x.key with
    | none => rw [h] at hc; cases hc
    | some kind =>
      rw [h] at hc
      simp only [List.mem_singleton] at hc
      exact ⟨kind, keyCheck_kinds _ _ _ _ h, hc⟩

/-- every check of the model agrees with its declarative specification for all contexts, and reports only codes of
    the rule it implements -/
theorem rules_ok (b : Bool) : ∀ r ∈ gatedRules b, RuleOK r := by
  intro r hr
  simp only [gatedRules, visitorRules, List.cons_append, List.nil_append, List.mem_cons, List.not_mem_nil, or_false] at hr
  rcases hr with rfl | rfl | rfl | rfl | rfl | rfl | rfl | rfl | rfl | rfl | rfl | rfl | rfl | rfl | rfl | rfl | rfl | rfl | rfl | rfl | rfl
  · exact attrPatch_ok
  · exact resolve_ok
  · exact cycle_ok
  · exact names_ok
  · exact placement_ok b
  · exact repeat_ok b
  · exact enumRange_ok
  · exact enumIntegral_ok
  · exact enumUnique_ok
  · exact enumOptional_ok
  · exact enumNonEmpty_ok
  · exact enumCompact_ok
  · exact compactTag_ok
  · exact enumFields_ok
  · exact compactEmpty_ok
  · exact taggedOptional_ok
  · exact dupTag_ok
  · exact stream_ok
  · exact shadow_ok
  · exact alias_ok
  · exact key_ok

/-! ## the parse phase -/

theorem literalCheck_nil (l : IntLit) : literalCheck l = [] ↔ l.mag ≤ i128Max := by
  unfold literalCheck
  by_cases h : l.mag > i128Max
  · simp [h]
  · simp [h]; omega

theorem fileActionCodes_nil (f : SFile) :
    fileActionCodes f = [] ↔
      (∀ l ∈ fileLits f, l.mag ≤ i128Max) ∧ (∀ l ∈ f.defs.flatMap defTagLits, 0 ≤ litValue l ∧ litValue l < 2 ^ 31) ∧
      (∀ n ∈ f.defs.flatMap defTupleSizes, 2 ≤ n) := by
  unfold fileActionCodes
  simp only [List.append_eq_nil_iff, List.flatMap_eq_nil_iff, literalCheck_nil, tagRange_iff, returnTuple_iff, and_assoc]

theorem moduleCheck_nil (f : SFile) : moduleCheck f = [] ↔ (f.defs ≠ [] → f.module.isSome = true) := by
  unfold moduleCheck
  cases f.defs <;> cases f.module <;> simp

/-- the parse-time checks report nothing exactly when the parse-time rules hold (literals, tag range, return tuples,
    module declaration) -/
theorem parse_accept_iff (P : Program) : parseCodes P = [] ↔ ParseOK P := by
  unfold parseCodes ParseOK
  rw [List.flatMap_eq_nil_iff]
  refine forall_congr' fun f => forall_congr' fun _ => ?_
  unfold fileParseCodes
  simp only
  by_cases h : (fileActionCodes f).isEmpty = true
  · rw [if_pos h, moduleCheck_nil]
    have := (fileActionCodes_nil f).mp (List.isEmpty_iff.mp h)
    constructor
    · intro hm; exact ⟨this.1, this.2.1, this.2.2, hm⟩
    · intro hh; exact hh.2.2.2
  · rw [if_neg h]
    have hne : fileActionCodes f ≠ [] := fun e => h (List.isEmpty_iff.mpr e)
    constructor
    · intro e; exact absurd e hne
    · intro hh; exact absurd ((fileActionCodes_nil f).mpr ⟨hh.1, hh.2.1, hh.2.2.1⟩) hne

theorem parse_codes_kinds (P : Program) (c : String) (h : c ∈ parseCodes P) : ∃ k ∈ parseKinds, c = code k := by
  unfold parseCodes at h
  obtain ⟨f, _, hc⟩ := List.mem_flatMap.mp h
  unfold fileParseCodes at hc
  simp only at hc
  split at hc
  · unfold moduleCheck at hc
    split at hc
    · simp only [List.mem_singleton] at hc; exact ⟨"Syntax", by simp [parseKinds], hc⟩
    · cases hc
  · unfold fileActionCodes at hc
    simp only [List.mem_append, List.mem_flatMap] at hc
    rcases hc with (⟨l, _, hc⟩ | ⟨l, _, hc⟩) | ⟨n, _, hc⟩
    · unfold literalCheck at hc
      split at hc
      · simp only [List.mem_singleton] at hc; exact ⟨"IntegerLiteralOverflows", by simp [parseKinds], hc⟩
      · cases hc
    · unfold tagRangeCheck at hc
      split at hc
      · cases hc
      · simp only [List.mem_singleton] at hc; exact ⟨"TagValueOutOfBounds", by simp [parseKinds], hc⟩
    · unfold tupleCheck at hc
      split at hc
      · simp only [List.mem_singleton] at hc; exact ⟨"ReturnTuplesMustContainAtLeastTwoElements", by simp [parseKinds], hc⟩
      · cases hc

/-! ## composition -/

theorem visitor_codes_nil_iff (b : Bool) (P : Program) :
    (visitorRules b).flatMap (·.codes P) = [] ↔ ∀ r ∈ visitorRules b, r.Holds P := by
  rw [List.flatMap_eq_nil_iff]
  refine forall_congr' fun r => ?_
  constructor
  · intro h hr; exact (rule_codes_nil_iff (rules_ok b r (by simp [gatedRules, hr])) P).mp (h hr)
  · intro h hr; exact (rule_codes_nil_iff (rules_ok b r (by simp [gatedRules, hr])) P).mpr (h hr)

/-- **acceptance = well-formedness as enforced.** The model reports no error code exactly when the program satisfies
    every rule of the specification, where the two attribute rules (placement, repetition) range over the elements the
    validator visits. The only difference to `WellFormed` are the attributes written on enum underlying types and on
    interface bases (D-04b, see `wellFormed_iff` and `accept_iff_full_refuted`). -/
theorem accept_iff_partial (P : Program) : validate P = [] ↔ WellFormedAsEnforced P := by
  unfold validate WellFormedAsEnforced phases
  rw [firstNonEmpty_nil_iff]
  simp only [List.mem_cons, List.not_mem_nil, or_false, forall_eq_or_imp, forall_eq, gatedRules, List.cons_append,
    List.nil_append]
  rw [parse_accept_iff, rule_codes_nil_iff attrPatch_ok, rule_codes_nil_iff resolve_ok, rule_codes_nil_iff cycle_ok,
    rule_codes_nil_iff names_ok, visitor_codes_nil_iff]

/-- **acceptance = well-formedness** (both sentences of the property): a program is accepted — no error code — exactly
    when it satisfies every language rule of the specification. Holds since the repair of D-04b: the flag extracted
    from the validating visitor says that attributes on enum underlying types and interface bases are validated too. -/
theorem accept_iff (P : Program) : validate P = [] ↔ WellFormed P := by
  have h := accept_iff_partial P
  unfold WellFormedAsEnforced at h
  unfold WellFormed
  exact h

theorem attrSites_sub (P : Program) (x : Validate.Target × List Attr) (hx : x ∈ attrSites false P) : x ∈ attrSites true P := by
  unfold attrSites at hx ⊢
  obtain ⟨f, hf, hx⟩ := List.mem_flatMap.mp hx
  refine List.mem_flatMap.mpr ⟨f, hf, ?_⟩
  rcases List.mem_append.mp hx with hx | hx
  · exact List.mem_append_left _ hx
  · refine List.mem_append_right _ ?_
    obtain ⟨d, hd, hx⟩ := List.mem_flatMap.mp hx
    refine List.mem_flatMap.mpr ⟨d, hd, ?_⟩
    rcases List.mem_append.mp hx with hx | hx
    · exact List.mem_append_left _ hx
    · refine List.mem_append_right _ ?_
      obtain ⟨r, hr, hrx⟩ := List.mem_map.mp hx
      refine List.mem_map.mpr ⟨r, ?_, hrx⟩
      simp only [Bool.false_eq_true, if_false, List.append_nil] at hr
      simp only [if_true, List.flatMap_append, List.mem_append]
      exact Or.inl hr

/-- the specification is what is enforced plus the two attribute rules on the type references no validator visits -/
theorem wellFormed_iff (P : Program) :
    WellFormed P ↔ WellFormedVisitedOnly P ∧ (placementRule true).Holds P ∧ (repeatRule true).Holds P := by
  unfold WellFormed WellFormedVisitedOnly
  simp only [gatedRules, visitorRules, List.cons_append, List.nil_append, List.mem_cons, List.not_mem_nil, or_false,
    forall_eq_or_imp, forall_eq]
  have hp : (placementRule true).Holds P → (placementRule false).Holds P :=
    fun h x hx => h x (attrSites_sub P x hx)
  have hq : (repeatRule true).Holds P → (repeatRule false).Holds P :=
    fun h x hx => h x (attrSites_sub P x hx)
  constructor
  · intro ⟨h0, h1, h2, h3, h4, h5, h6, rest⟩
    exact ⟨⟨h0, h1, h2, h3, h4, hp h5, hq h6, rest⟩, h5, h6⟩
  · intro ⟨⟨h0, h1, h2, h3, h4, _, _, rest⟩, h5, h6⟩
    exact ⟨h0, h1, h2, h3, h4, h5, h6, rest⟩

/-- accepted programs satisfy every enforced rule, and a program satisfying the whole specification is accepted -/
theorem accept_of_wellFormed (P : Program) (h : WellFormed P) : validate P = [] :=
  (accept_iff P).mpr h

/-- **reported codes are sound**: every code the model reports is the diagnostic of a rule the program violates. -/
theorem codes_sound (P : Program) (c : String) (h : c ∈ validate P) : Violates c P := by
  unfold validate at h
  obtain ⟨l, hl, hc⟩ := firstNonEmpty_mem _ c h
  unfold phases at hl
  simp only [List.mem_cons, List.not_mem_nil, or_false] at hl
  unfold Violates
  rcases hl with rfl | rfl | rfl | rfl | rfl | rfl
  · left
    refine ⟨parse_codes_kinds P c hc, ?_⟩
    intro hok
    rw [(parse_accept_iff P).mpr hok] at hc; cases hc
  · right; exact ⟨_, by simp [gatedRules], rule_codes_sound attrPatch_ok P c hc⟩
  · right; exact ⟨_, by simp [gatedRules], rule_codes_sound resolve_ok P c hc⟩
  · right; exact ⟨_, by simp [gatedRules], rule_codes_sound cycle_ok P c hc⟩
  · right; exact ⟨_, by simp [gatedRules], rule_codes_sound names_ok P c hc⟩
  · right
    obtain ⟨r, hr, hcr⟩ := List.mem_flatMap.mp hc
    have hmem : r ∈ gatedRules Gen.unvisitedTypeRefAttrsValidated := by simp [gatedRules, hr]
    exact ⟨r, hmem, rule_codes_sound (rules_ok _ r hmem) P c hcr⟩

/-- **gating**: the first phase that reports an error decides the result — its errors are never lost and no later
    phase adds to them (`CompilationState::apply`, the early returns of `validate_ast`). -/
theorem gate_monotone (P : Program) (pre : List (List String)) (l : List String) (post : List (List String))
    (hsplit : phases P = pre ++ l :: post) (hpre : ∀ x ∈ pre, x = []) (hl : l ≠ []) : validate P = l := by
  unfold validate
  rw [hsplit]
  exact firstNonEmpty_eq pre l post hpre hl

/-- in particular a parse-time error is always reported -/
theorem parse_errors_reported (P : Program) (c : String) (h : c ∈ parseCodes P) : c ∈ validate P := by
  have hne : parseCodes P ≠ [] := fun e => by rw [e] at h; cases h
  rw [gate_monotone P [] (parseCodes P) _ rfl (by simp) hne]
  exact h

/-! ## the witnesses -/

/-- `enum E { A(x: bool, x: bool) }` in `module M` (the former D-04a witness) -/
def dupEnumeratorField : Program :=
  [{ fileAttrs := [], module := some ⟨[], "M"⟩,
     defs := [.enum [] [] false false "E" none
       [{ doc := [], attrs := [], name := "A", value := none,
          fields := some [{ doc := [], attrs := [], tag := none, name := "x", ty := .mk [] (.prim .bool) false },
                          { doc := [], attrs := [], tag := none, name := "x", ty := .mk [] (.prim .bool) false }] }]] }]

/-- `enum E : [deprecated] uint8 { A }` in `module M` (D-04b) -/
def attrOnUnderlying : Program :=
  [{ fileAttrs := [], module := some ⟨[], "M"⟩,
     defs := [.enum [] [] false false "E" (some (.mk [⟨"deprecated", []⟩] (.prim .uint8) false))
       [{ doc := [], attrs := [], name := "A", value := none, fields := none }]] }]

/-- the scope of an enumerator's fields is scanned: the former D-04a witness violates the name rule and is rejected
    with the redefinition code -/
theorem dupEnumeratorField_rejected :
    ¬ namesRule.Holds dupEnumeratorField ∧ validate dupEnumeratorField = [code "Redefinition"] := by
  decide

/-- `module A` + `struct B {}` next to `module A::B::C` + `struct D {}` (D-15a / D-15b): the definition `A::B` shares its fully-scoped
    name with a module that the nested declaration declares -/
def moduleNameClash : Program :=
  [{ fileAttrs := [], module := some ⟨[], "A"⟩, defs := [.struct [] [] false "B" []] },
   { fileAttrs := [], module := some ⟨[], "A::B::C"⟩, defs := [.struct [] [] false "D" []] }]

/-- … it violates the name rule and is rejected with the redefinition code, in both file orders -/
theorem moduleNameClash_rejected :
    ¬ namesRule.Holds moduleNameClash ∧ validate moduleNameClash = [code "Redefinition"] ∧
    validate moduleNameClash.reverse = [code "Redefinition"] := by
  decide

/-- **The attribute table of the source is the language's.** The model reads the built-in attributes from the table the translator
    extracts (`Gen.attributes`); this theorem pins that table to the specification: five attributes, only `allow` repeatable,
    `allow` / `compress` / `slicedFormat` take one or more arguments, `deprecated` at most one, `oneway` none; `compress` and
    `slicedFormat` accept exactly `Args` and `Return` (as a set); only `allow` takes lint names. A source change that makes the
    compiler accept another argument, another count or another attribute changes the table and re-opens this proof. -/
theorem attribute_table_as_specified :
    (Gen.attributes.map fun r => (r.directive, r.repeatable, r.minArgs, r.maxArgs, r.lintArgs)) =
      [("allow", true, 1, none, true), ("compress", false, 1, none, false), ("deprecated", false, 0, some 2, false),
       ("oneway", false, 0, some 1, false), ("slicedFormat", false, 1, none, false)] ∧
    (∀ r ∈ Gen.attributes, (r.directive = "compress" ∨ r.directive = "slicedFormat") →
      ∀ x, x ∈ r.argLiterals ↔ (x = "Args" ∨ x = "Return")) ∧
    (∀ r ∈ Gen.attributes, r.directive ≠ "compress" → r.directive ≠ "slicedFormat" → r.argLiterals = []) ∧
    Gen.attributePrefix = "" ∧
    -- the arguments `allow` accepts on an element: `All` and the four lints about source text; `DuplicateFile` (a lint about the
    -- command line) is a lint name but not an argument of the attribute
    (∀ r ∈ Gen.attributes, r.lintArgs = true → ∀ x, argOK r x = true ↔
      (x = "All" ∨ x = "Deprecated" ∨ x = "MalformedDocComment" ∨ x = "IncorrectDocComment" ∨ x = "BrokenDocLink")) := by
  refine ⟨by decide, ?_, by decide, rfl, ?_⟩
  rotate_left
  · intro r hr hl x
    simp only [Gen.attributes, List.mem_cons, List.mem_nil_iff, or_false] at hr
    rcases hr with rfl | rfl | rfl | rfl | rfl <;> simp_all [argOK, Gen.allowableLintIds, Gen.allowExcluded]
    constructor
    · rintro ⟨h1, h2⟩; rcases h1 with h | h | h | h | h | h <;> simp_all
    · rintro (h | h | h | h | h) <;> simp [h]
  intro r hr hd x
  simp only [Gen.attributes, List.mem_cons, List.mem_nil_iff, or_false] at hr
  rcases hr with rfl | rfl | rfl | rfl | rfl <;> simp_all

/-- the former D-04b witness violates the placement rule and is now rejected with the invalid-attribute code -/
theorem attrOnUnderlying_rejected :
    ¬ (placementRule true).Holds attrOnUnderlying ∧ validate attrOnUnderlying = [code "InvalidAttribute"] := by
  decide

/-! ## the complete pipeline: `validateFull` (Model/Pipeline.lean)

`validate` lacks three checks of the compiler — the parser's E017 for a base / underlying type that is not written as a name
resp. is an anonymous type, the alias gate (E019) and the interface-inheritance check (E032) of `detect_cycles`.
`validateFull` has them, each in the phase where the compiler runs it; `WellFormedFull` is `WellFormed` plus the three rules,
stated as reachability in the graphs. The theorems above are unchanged; the ones below are their analogues for the complete
verdict. -/

/-- `construct_interface` / `construct_enum` report nothing for a definition exactly when every base is written as a name
    resp. the underlying type is not written as a sequence, dictionary or result type. -/
theorem shape_iff (d : Def) : defShapeCodes d = [] ↔ DefShapeOK d := defShapeCodes_nil_iff d

/-- the complete parse phase reports nothing exactly when the parse-time rules and the shape rule hold (per file the module
    check is only reached when no parser action — the shape check included — reported anything) -/
theorem parse_full_accept_iff (P : Program) : parseCodesFull P = [] ↔ ParseOK P ∧ ShapeOK P := by
  rw [parseCodesFull_nil_iff, parse_accept_iff]

/-- the alias gate (`revisits_anonymous_type`, a descent with the current path) reports nothing exactly when no alias leads
    into a cycle of anonymous types -/
theorem alias_gate_iff (P : Program) : aliasGateCodes P = [] ↔ NoAliasLoop P := by
  rw [aliasGateCodes_nil_iff, aliasGate_nil_iff_noLoop]

/-- the inheritance check (`find_path` with its `seen` set) reports nothing exactly when no interface reaches itself through
    base references -/
theorem inheritance_gate_iff (P : Program) : inheritCodes P = [] ↔ NoInheritanceLoop P := by
  rw [inheritCodes_nil_iff, ifaceLoop_nil_iff_noLoop]

/-- **what `validateFull` adds to `validate`**: a program is accepted by the complete pipeline exactly when `validate` accepts
    it, its bases / underlying types have the shape the parser demands, the alias gate is silent and no interface is
    reported by the inheritance check. -/
theorem validateFull_nil_iff (P : Program) :
    validateFull P = [] ↔
      validate P = [] ∧ ShapeOK P ∧ Cyc.aliasGateErrors P = [] ∧ Cyc.ifaceLoopErrors (Cyc.igraphOfProgram P) = [] :=
  Validate.validateFull_nil_iff P

/-- on the programs that pass the three additional checks — everything the generator produced before the three families
    were added — the two pipelines report the same codes, not just the same verdict -/
theorem validateFull_eq_validate (P : Program) (hs : ShapeOK P) (ha : Cyc.aliasGateErrors P = [])
    (hi : Cyc.ifaceLoopErrors (Cyc.igraphOfProgram P) = []) : validateFull P = validate P :=
  Validate.validateFull_eq_validate P hs ha hi

/-- **acceptance = well-formedness, for the complete front end** (both sentences of the property): no error code in any phase
    exactly when the program satisfies every language rule — `WellFormed`, bases / underlying types of a form that can denote
    an interface / a primitive, no alias that contains itself through an anonymous type, no interface that inherits from
    itself. -/
theorem accept_iff_full (P : Program) : validateFull P = [] ↔ WellFormedFull P := by
  rw [validateFull_nil_iff, accept_iff, aliasGate_nil_iff_noLoop, ifaceLoop_nil_iff_noLoop]
  rfl

theorem accept_of_wellFormedFull (P : Program) (h : WellFormedFull P) : validateFull P = [] := (accept_iff_full P).mpr h

/-- a program the complete pipeline accepts is accepted by `validate` (the converse fails: the three witnesses below) -/
theorem accepted_full_accepted (P : Program) (h : validateFull P = []) : validate P = [] := ((validateFull_nil_iff P).mp h).1

/-- **reported codes are sound, complete pipeline**: every code `validateFull` reports is the diagnostic of a rule of
    `WellFormedFull` the program violates. -/
theorem codes_sound_full (P : Program) (c : String) (h : c ∈ validateFull P) : ViolatesFull c P := by
  unfold validateFull at h
  obtain ⟨l, hl, hc⟩ := firstNonEmpty_mem _ c h
  unfold phasesFull at hl
  simp only [List.mem_cons, List.not_mem_nil, or_false] at hl
  unfold ViolatesFull
  rcases hl with rfl | rfl | rfl | rfl | rfl | rfl | rfl
  · rcases parseCodesFull_mem P c hc with hmem | hsh
    · refine .inl (.inl ⟨parse_codes_kinds P c hmem, ?_⟩)
      intro hok
      rw [(parse_accept_iff P).mpr hok] at hmem; cases hmem
    · exact .inr (.inl hsh)
  · left; right; exact ⟨_, by simp [gatedRules], rule_codes_sound attrPatch_ok P c hc⟩
  · left; right; exact ⟨_, by simp [gatedRules], rule_codes_sound resolve_ok P c hc⟩
  · right; right; left
    refine ⟨mem_map_const hc, fun hno => ?_⟩
    rw [(alias_gate_iff P).mpr hno] at hc; cases hc
  · rcases List.mem_append.mp hc with hc | hc
    · right; right; right
      refine ⟨mem_map_const hc, fun hno => ?_⟩
      rw [(inheritance_gate_iff P).mpr hno] at hc; cases hc
    · left; right; exact ⟨_, by simp [gatedRules], rule_codes_sound cycle_ok P c hc⟩
  · left; right; exact ⟨_, by simp [gatedRules], rule_codes_sound names_ok P c hc⟩
  · left; right
    obtain ⟨r, hr, hcr⟩ := List.mem_flatMap.mp hc
    have hmem : r ∈ gatedRules Gen.unvisitedTypeRefAttrsValidated := by simp [gatedRules, hr]
    exact ⟨r, hmem, rule_codes_sound (rules_ok _ r hmem) P c hcr⟩

/-- **every rule violation is diagnosed, complete pipeline**: an ill-formed program is rejected, and with a code of a rule
    it violates. -/
theorem ill_formed_rejected_full (P : Program) (h : ¬ WellFormedFull P) : ∃ c ∈ validateFull P, ViolatesFull c P := by
  cases hv : validateFull P with
  | nil => exact absurd ((accept_iff_full P).mp hv) h
  | cons c cs =>
    have hc : c ∈ validateFull P := by rw [hv]; exact List.mem_cons_self ..
    exact ⟨c, hv ▸ hc, codes_sound_full P c hc⟩

/-- **gating, complete pipeline**: the first phase that reports an error decides the result. -/
theorem gate_monotone_full (P : Program) (pre : List (List String)) (l : List String) (post : List (List String))
    (hsplit : phasesFull P = pre ++ l :: post) (hpre : ∀ x ∈ pre, x = []) (hl : l ≠ []) : validateFull P = l := by
  unfold validateFull
  rw [hsplit]
  exact firstNonEmpty_eq pre l post hpre hl

/-- the parser's E017 is a parse-time error: it is always reported, whatever else is wrong with the program -/
theorem shape_errors_reported (P : Program) (c : String) (h : c ∈ parseCodesFull P) : c ∈ validateFull P := by
  have hne : parseCodesFull P ≠ [] := fun e => by rw [e] at h; cases h
  rw [gate_monotone_full P [] (parseCodesFull P) _ rfl (by simp) hne]
  exact h

/-- the alias gate comes after resolution: a program with a resolution error gets only the resolution errors -/
theorem resolution_error_hides_alias_gate (P : Program) (h1 : parseCodesFull P = []) (h2 : attrPatchRule.codes P = [])
    (h3 : resolveRule.codes P ≠ []) : validateFull P = resolveRule.codes P :=
  gate_monotone_full P [parseCodesFull P, attrPatchRule.codes P] _ _ rfl (by simp [h1, h2]) h3

/-- the alias gate returns before the inheritance check and the containment detector: only E019 is reported -/
theorem alias_gate_hides_cycles (P : Program) (h1 : parseCodesFull P = []) (h2 : attrPatchRule.codes P = [])
    (h3 : resolveRule.codes P = []) (h4 : aliasGateCodes P ≠ []) : validateFull P = aliasGateCodes P :=
  gate_monotone_full P [parseCodesFull P, attrPatchRule.codes P, resolveRule.codes P] _ _ rfl (by simp [h1, h2, h3]) h4

/-- the inheritance check does not return: its reports and those of the containment detector come together, and the
    redefinition scan and the visitor are not reached -/
theorem inheritance_and_containment_together (P : Program) (h1 : parseCodesFull P = []) (h2 : attrPatchRule.codes P = [])
    (h3 : resolveRule.codes P = []) (h4 : aliasGateCodes P = []) (h5 : cyclePhaseCodes P ≠ []) :
    validateFull P = inheritCodes P ++ cycleRule.codes P :=
  gate_monotone_full P [parseCodesFull P, attrPatchRule.codes P, resolveRule.codes P, aliasGateCodes P] _ _ rfl
    (by simp [h1, h2, h3, h4]) h5

/-! ### the three witnesses: accepted by `validate`, rejected by the compiler and by `validateFull` -/

def inModule (defs : List Def) : Program := [{ fileAttrs := [], module := some ⟨[], "M"⟩, defs := defs }]
def tref (e : TyExpr) : TRef := .mk [] e false
def anEnumerator : Enumerator := { doc := [], attrs := [], name := "A", fields := none, value := none }

/-- `interface I : bool {}` -/
def primitiveBase : Program := inModule [.iface [] [] "I" [tref (.prim .bool)] []]
/-- `enum E : Sequence<bool> { A }` -/
def sequenceUnderlying : Program := inModule [.enum [] [] false false "E" (some (tref (.seq (tref (.prim .bool))))) [anEnumerator]]
/-- `typealias A = Sequence<A>` -/
def aliasLoop : Program := inModule [.alias [] [] "A" (tref (.seq (tref (.named "A"))))]
/-- `interface A : B {}  interface B : A {}` -/
def inheritanceLoop : Program := inModule [.iface [] [] "A" [tref (.named "B")] [], .iface [] [] "B" [tref (.named "A")] []]

theorem primitiveBase_rejected :
    validate primitiveBase = [] ∧ ¬ ShapeOK primitiveBase ∧ validateFull primitiveBase = [code "TypeMismatch"] := by
  refine ⟨by decide +kernel, by decide, by decide +kernel⟩

theorem sequenceUnderlying_rejected :
    ¬ ShapeOK sequenceUnderlying ∧ validateFull sequenceUnderlying = [code "TypeMismatch"] := by
  refine ⟨by decide, by decide +kernel⟩

theorem aliasLoop_rejected :
    validate aliasLoop = [] ∧ ¬ NoAliasLoop aliasLoop ∧
    validateFull aliasLoop = [code "SelfReferentialTypeAliasNeedsConcreteType"] := by
  refine ⟨by decide +kernel, by decide +kernel, by decide +kernel⟩

theorem inheritanceLoop_rejected :
    validate inheritanceLoop = [] ∧ ¬ NoInheritanceLoop inheritanceLoop ∧
    validateFull inheritanceLoop = [code "InfiniteSizeCycle", code "InfiniteSizeCycle"] := by
  refine ⟨by decide +kernel, by decide +kernel, by decide +kernel⟩

/-- the phase order on concrete programs: a resolution error hides an alias loop; an alias loop hides an inheritance loop and
    a containment cycle; an inheritance loop and a containment cycle are reported together and hide a redefinition; a
    non-name base hides everything, and the file's missing module declaration as well -/
theorem phase_order_witnesses :
    validateFull (inModule [.alias [] [] "A" (tref (.seq (tref (.named "A")))),
                            .struct [] [] false "S" [{ doc := [], attrs := [], tag := none, name := "x", ty := tref (.named "Nope") }]])
      = [code "DoesNotExist"] ∧
    validateFull (inModule [.alias [] [] "A" (tref (.seq (tref (.named "A")))), .iface [] [] "I" [tref (.named "I")] [],
                            .struct [] [] false "S" [{ doc := [], attrs := [], tag := none, name := "x", ty := tref (.named "S") }]])
      = [code "SelfReferentialTypeAliasNeedsConcreteType"] ∧
    validateFull (inModule [.iface [] [] "I" [tref (.named "I")] [],
                            .struct [] [] false "S" [{ doc := [], attrs := [], tag := none, name := "x", ty := tref (.named "S") }],
                            .struct [] [] false "S" []])
      = [code "InfiniteSizeCycle", code "InfiniteSizeCycle"] ∧
    validateFull [{ fileAttrs := [], module := none,
                    defs := [.iface [] [] "I" [tref (.prim .bool), tref (.named "I"), tref (.named "Nope")] [], .struct [] [] false "I" []] }]
      = [code "TypeMismatch"] := by
  refine ⟨by decide +kernel, by decide +kernel, by decide +kernel, by decide +kernel⟩

/-! ## non-vacuity -/

example : dupTagCheck [⟨"a", some 16, true⟩, ⟨"b", none, true⟩, ⟨"c", some 16, true⟩] ≠ [] := by
  rw [Ne, dupTags_iff]; decide
example : dupTagCheck [⟨"a", some 2, true⟩, ⟨"b", some 1, true⟩] = [] := by rw [dupTags_iff]; decide
example : tagRangeCheck 2147483647 = [] := by rw [tagRange_iff]; decide
example : tagRangeCheck 2147483648 ≠ [] := by rw [Ne, tagRange_iff]; decide
example : tagRangeCheck (-1) ≠ [] := by rw [Ne, tagRange_iff]; decide
example : streamLastCheck [true, false] ++ multiStreamCheck [true, false] ≠ [] := by rw [Ne, streamLast_iff]; intro h; have := h 0 rfl; simp at this
example : streamLastCheck [false, true] ++ multiStreamCheck [false, true] = [] := by
  rw [streamLast_iff]; intro i hi
  match i, hi with
  | 0, hi => simp at hi
  | 1, _ => rfl
  | n + 2, hi => simp at hi
example : LegalKey ⟨fun _ => none, fun _ => false⟩ ⟨false, .prim .int32⟩ := LegalKey.prim _ (by decide)
example : keyCheck ⟨fun _ => none, fun _ => false⟩ 1 ⟨false, .prim .float32⟩ = some "KeyTypeNotSupported" := by decide

/-- the complete pipeline accepts: an interface with a named (optional) base, a diamond of aliases of anonymous types, an enum
    with a primitive underlying type — and the specification holds for it -/
example : validateFull (inModule [.iface [] [] "J" [] [], .iface [] [] "I" [.mk [] (.named "J") true] [],
    .alias [] [] "N" (tref (.seq (tref (.prim .string)))), .alias [] [] "P" (tref (.result (tref (.named "N")) (tref (.named "N")))),
    .enum [] [] false false "E" (some (tref (.prim .uint8))) [anEnumerator]]) = [] := by decide +kernel
example : WellFormedFull (inModule [.iface [] [] "J" [] [], .iface [] [] "I" [.mk [] (.named "J") true] []]) :=
  (accept_iff_full _).mp (by decide +kernel)
example : ¬ WellFormedFull aliasLoop := fun h => aliasLoop_rejected.2.1 h.2.2.1
example : ∃ c ∈ validateFull inheritanceLoop, ViolatesFull c inheritanceLoop :=
  ill_formed_rejected_full _ (fun h => inheritanceLoop_rejected.2.1 h.2.2.2)

end Slicec.C04

#print axioms Slicec.C04.dupTags_iff
#print axioms Slicec.C04.tagRange_iff
#print axioms Slicec.C04.taggedOptional_iff
#print axioms Slicec.C04.compact_rules_iff
#print axioms Slicec.C04.primBounds_spec
#print axioms Slicec.C04.enumRange_iff
#print axioms Slicec.C04.enumRange_plain
#print axioms Slicec.C04.enumRange_backed
#print axioms Slicec.C04.enumUnique_iff
#print axioms Slicec.C04.streamLast_iff
#print axioms Slicec.C04.returnTuple_iff
#print axioms Slicec.C04.keyType_iff
#print axioms Slicec.C04.keyType_fuel
#print axioms Slicec.C04.keyType_sound
#print axioms Slicec.C04.mem_map_const
#print axioms Slicec.C04.attrPatch_ok
#print axioms Slicec.C04.siteCodes_kinds
#print axioms Slicec.C04.basesCodes_kinds
#print axioms Slicec.C04.resolve_ok
#print axioms Slicec.C04.cycle_ok
#print axioms Slicec.C04.names_ok
#print axioms Slicec.C04.placement_ok
#print axioms Slicec.C04.repeat_ok
#print axioms Slicec.C04.enumRange_ok
#print axioms Slicec.C04.enumIntegral_ok
#print axioms Slicec.C04.enumUnique_ok
#print axioms Slicec.C04.enumOptional_ok
#print axioms Slicec.C04.enumNonEmpty_ok
#print axioms Slicec.C04.enumCompact_ok
#print axioms Slicec.C04.compactTag_ok
#print axioms Slicec.C04.enumFields_ok
#print axioms Slicec.C04.compactEmpty_ok
#print axioms Slicec.C04.taggedOptional_ok
#print axioms Slicec.C04.windowDups_kinds
#print axioms Slicec.C04.dupTag_ok
#print axioms Slicec.C04.stream_ok
#print axioms Slicec.C04.shadow_ok
#print axioms Slicec.C04.alias_ok
#print axioms Slicec.C04.keyCheck_kinds
#print axioms Slicec.C04.key_ok
#print axioms Slicec.C04.rules_ok
#print axioms Slicec.C04.literalCheck_nil
#print axioms Slicec.C04.fileActionCodes_nil
#print axioms Slicec.C04.moduleCheck_nil
#print axioms Slicec.C04.parse_accept_iff
#print axioms Slicec.C04.parse_codes_kinds
#print axioms Slicec.C04.visitor_codes_nil_iff
#print axioms Slicec.C04.accept_iff_partial
#print axioms Slicec.C04.wellFormed_iff
#print axioms Slicec.C04.accept_of_wellFormed
#print axioms Slicec.C04.codes_sound
#print axioms Slicec.C04.gate_monotone
#print axioms Slicec.C04.parse_errors_reported
#print axioms Slicec.C04.attrSites_sub
#print axioms Slicec.C04.mem_ite_then
#print axioms Slicec.C04.mem_ite_else
#print axioms Slicec.C04.dupEnumeratorField_rejected
#print axioms Slicec.C04.attrOnUnderlying_rejected
#print axioms Slicec.C04.moduleNameClash_rejected
#print axioms Slicec.C04.attribute_table_as_specified
#print axioms Slicec.C04.accept_iff
#print axioms Slicec.C04.shape_iff
#print axioms Slicec.C04.parse_full_accept_iff
#print axioms Slicec.C04.alias_gate_iff
#print axioms Slicec.C04.inheritance_gate_iff
#print axioms Slicec.C04.validateFull_nil_iff
#print axioms Slicec.C04.validateFull_eq_validate
#print axioms Slicec.C04.accept_iff_full
#print axioms Slicec.C04.accept_of_wellFormedFull
#print axioms Slicec.C04.accepted_full_accepted
#print axioms Slicec.C04.codes_sound_full
#print axioms Slicec.C04.ill_formed_rejected_full
#print axioms Slicec.C04.gate_monotone_full
#print axioms Slicec.C04.shape_errors_reported
#print axioms Slicec.C04.resolution_error_hides_alias_gate
#print axioms Slicec.C04.alias_gate_hides_cycles
#print axioms Slicec.C04.inheritance_and_containment_together
#print axioms Slicec.C04.primitiveBase_rejected
#print axioms Slicec.C04.sequenceUnderlying_rejected
#print axioms Slicec.C04.aliasLoop_rejected
#print axioms Slicec.C04.inheritanceLoop_rejected
#print axioms Slicec.C04.phase_order_witnesses
