/-
  C13 — Lint suppression silences only the named lints in scope, never errors.

  The theorems are about `intoUpdated` (Model/Lints.lean), the mirror of `Diagnostics::into_updated`, over the tables of
  Gen/Lints.lean (regenerated from the Rust source on every check), for ALL diagnostics lists and ALL configurations
  (command line list, file attributes, entity attributes reached through the scope string).
-/
import SlicecVerif.Lemmas.Lints

namespace Slicec.C13

open Slicec

/-- what `Diagnostic::new(Lint::…)` builds satisfies the hypothesis of `errors_untouched`: no lint kind of the extracted
    table has default level `Error` -/
theorem lint_wellFormed (code : String) (h : code ∈ Gen.lintKinds) (f : Option Nat) (s : Option String) :
    DiagWellFormed (Diag.lint code f s) := by
  constructor
  · intro h'; simp [Diag.lint] at h'
  · intro _; simp [Diag.lint, default_level_not_error code h]

/-- what `Diagnostic::new(Error::…)` builds satisfies the hypothesis of `errors_untouched` -/
theorem err_wellFormed (code : String) (f : Option Nat) : DiagWellFormed (Diag.err code f) := by
  constructor <;> simp [Diag.err]

/-- **errors_untouched.** Whatever the configuration (command line list, file attributes, entity attributes):
    an error comes out of `into_updated` exactly as it went in, in particular with level `Error`; no lint ever becomes an
    error; hence the number of errors, and with it the exit status, is the same for any two configurations. -/
theorem errors_untouched (env env' : AllowEnv) (ds : List Diag) (hwf : ∀ d ∈ ds, DiagWellFormed d) :
    (∀ d ∈ ds, d.isError = true → updateOne env d = d ∧ (updateOne env d).level = .error) ∧
    (∀ d ∈ ds, d.isError = false → (updateOne env d).level ≠ .error) ∧
    (totals (intoUpdated env ds)).2 = (totals ds).2 ∧
    exitFails (intoUpdated env ds) = exitFails (intoUpdated env' ds) := by
  have hcount : ∀ (e : AllowEnv), (totals (intoUpdated e ds)).2 = (totals ds).2 := by
    intro e
    simp only [totals, intoUpdated, List.filter_map, List.length_map]
    congr 1
    apply List.filter_congr
    intro d hd
    simpa [Function.comp] using updateOne_isError_level e d (hwf d hd)
  refine ⟨?_, ?_, hcount env, ?_⟩
  · intro d hd he
    have : updateOne env d = d := by simp [updateOne, he]
    exact ⟨this, by rw [this]; exact (hwf d hd).1 he⟩
  · intro d hd he h
    have := updateOne_isError_level env d (hwf d hd)
    simp [h] at this
    exact (hwf d hd).2 he this
  · simp [exitFails, hcount env, hcount env']

/-- **frame.** `into_updated` keeps the length and the order of the list, computes the entry at position `i` from the
    diagnostic at position `i` and the configuration alone, and changes nothing but the level — which either stays or
    becomes `Allowed`. (That the AST does not change at all is immediate in the code: `into_updated` takes `&Ast`;
    the correspondence family `frame` compares two whole compilations.) -/
theorem frame (env : AllowEnv) (ds : List Diag) :
    (intoUpdated env ds).length = ds.length ∧
    (∀ i : Nat, (intoUpdated env ds)[i]? = (ds[i]?).map (updateOne env)) ∧
    (∀ d, (updateOne env d).code = d.code ∧ (updateOne env d).isError = d.isError ∧
          (updateOne env d).spanFile = d.spanFile ∧ (updateOne env d).scope = d.scope ∧
          ((updateOne env d).level = d.level ∨ (updateOne env d).level = .allowed)) := by
  refine ⟨by simp [intoUpdated], fun i => by simp [intoUpdated], ?_⟩
  intro d
  unfold updateOne
  by_cases he : d.isError = true
  · simp [he]
  · simp only [he]
    exact ⟨rfl, rfl, rfl, rfl, updateLevel_cases env d⟩

/-- **allowed_only_if_named** (soundness direction of `silenced_iff`). A lint that was not `Allowed` comes out
    `Allowed` only if its code or `All` occurs (under the comparison `is_lint_allowed_by` uses — exact string equality on
    the pinned tree, `named_exact`) in the command line list, or in an `allow` attribute of the file its span lies in,
    or in an `allow` attribute of the entity its scope string names or of one of that entity's parents. -/
theorem allowed_only_if_named (env : AllowEnv) (d : Diag) (hlev : d.level ≠ .allowed)
    (h : (updateOne env d).level = .allowed) :
    d.isError = false ∧ (NamedBy env.cli d.code ∨ FileNames env d ∨ ScopeNames env d) := by
  unfold updateOne at h
  by_cases he : d.isError = true
  · simp [he] at h; exact absurd h hlev
  · simp only [he] at h
    exact ⟨by simpa using he, (updateLevel_allowed_iff env d hlev).1 h⟩

/-- on the pinned tree "occurs" means exact string equality -/
theorem named_exact (hcmp : Gen.allowCompareIgnoresCase = false) (ids : List String) (code : String) :
    NamedBy ids code ↔ ∃ id ∈ ids, id = Gen.allowAllIdentifier ∨ id = code := by
  simp [NamedBy, lintIdEq, hcmp]

/-- what the property demands, over the same configuration: named by an accepted command-line value (whatever its
    letter case), by the file, or by the element the lint concerns / its enclosing definitions (`concerns` = its key) -/
def Demanded (env : AllowEnv) (d : Diag) (concerns : Option String) : Prop :=
  namedByCli env.cli d.code = true ∨
  (∃ f, d.spanFile = some f ∧ namedByAttrs (env.fileAllows f) d.code = true) ∨
  (∃ k as, concerns = some k ∧ env.scopeAllows k = some as ∧ namedByAttrs as d.code = true)

/-- **silenced_iff_partial.** The full equivalence, for every configuration and every lint (default level `Warning`),
    under the two exclusions that keep the pinned tree's defects out:
    * `hcli`   — the `--allow` values are spelled exactly as the allowable identifiers (excludes D-13b: other letter
                 cases are accepted by clap but compared with `==`);
    * `hscope` — the scope the lint recorded is the element it concerns (excludes D-13a: `Deprecated` records the
                 enclosing container's scope);
    and for programs whose `allow` attributes passed `Allow::parse_from` (`hfile`, `hent`: arguments are allowable
    identifiers — anything else is error E027 and the compilation has failed anyway).
    Then the lint is `Allowed` exactly when the property says it is silenced, and `Warning` otherwise. -/
theorem silenced_iff_partial (env : AllowEnv) (d : Diag) (concerns : Option String)
    (hlint : d.isError = false) (hkind : d.code ∈ Gen.lintKinds) (hlev : d.level = lintDefaultLevel d.code)
    (hcli : ∀ v ∈ env.cli, v ∈ Gen.allowableLintIdentifiers)
    (hfile : ∀ f, ∀ a ∈ env.fileAllows f, ∀ v ∈ a, v ∈ Gen.allowableLintIdentifiers)
    (hent : ∀ k as, env.scopeAllows k = some as → ∀ a ∈ as, ∀ v ∈ a, v ∈ Gen.allowableLintIdentifiers)
    (hscope : d.scope = concerns) :
    ((updateOne env d).level = .allowed ↔ Demanded env d concerns) ∧
    (¬ Demanded env d concerns → (updateOne env d).level = .warning) := by
  have hw : d.level = .warning := by rw [hlev]; exact default_level_not_error d.code hkind
  have hne : d.level ≠ .allowed := by rw [hw]; decide
  have hcode := kinds_allowable d.code hkind
  have hupd : (updateOne env d).level = updateLevel env d := by simp [updateOne, hlint]
  have hiff : updateLevel env d = .allowed ↔ Demanded env d concerns := by
    rw [updateLevel_allowed_iff env d hne]
    unfold Demanded FileNames ScopeNames
    rw [namedByCli_exact env.cli d.code hcli hcode, namedBy_exact env.cli d.code hcli hcode, hscope]
    constructor
    · rintro (h | ⟨f, hf, h⟩ | ⟨s, as, hs, ha, h⟩)
      · exact Or.inl h
      · exact Or.inr (Or.inl ⟨f, hf, (namedByAttrs_exact _ _ (hfile f) hcode).1 h⟩)
      · exact Or.inr (Or.inr ⟨s, as, hs, ha, (namedByAttrs_exact _ _ (hent s as ha) hcode).1 h⟩)
    · rintro (h | ⟨f, hf, h⟩ | ⟨s, as, hs, ha, h⟩)
      · exact Or.inl h
      · exact Or.inr (Or.inl ⟨f, hf, (namedByAttrs_exact _ _ (hfile f) hcode).2 h⟩)
      · exact Or.inr (Or.inr ⟨s, as, hs, ha, (namedByAttrs_exact _ _ (hent s as ha) hcode).2 h⟩)
  refine ⟨by rw [hupd]; exact hiff, ?_⟩
  intro hnd
  rw [hupd]
  rcases updateLevel_cases env d with h | h
  · rw [h, hw]
  · exact absurd (hiff.1 h) hnd

/-- **silenced_iff (full statement, NOT provable on the pinned tree).** For every program, every command line that clap
    accepts and every lint the compiler records for the program, the level after `into_updated` is the level the
    property demands (`demandedLevel`: named on the command line in any accepted spelling, on the file, on the element
    the lint concerns or on an enclosing definition). Refuted by D-13a and D-13b below and, on the real code, by the
    correspondence families `known-d13a` / `known-d13b`. -/
def silenced_iff_full : Prop :=
  ∀ (p : Program) (cli : List String) (s : LintSite), s ∈ lintSites p → (∀ v ∈ cli, cliAccepts v = true) →
    (updateOne (envOf cli p) s.diag).level = demandedLevel cli p s

/-! ### refutation witnesses on the model -/

/-- D-13a: `[allow(Deprecated)]` on a field whose own type is deprecated does not silence the lint (the field's
    attributes are never consulted because the recorded scope is the struct), although the property demands it. -/
example : (updateOne (envOf [] d13aProgram) d13aSite.diag).level = .warning ∧ demandedLevel [] d13aProgram d13aSite = .allowed := by
  decide

/-- the same attribute on the struct is honoured (the mirror is not simply deaf) -/
example : (updateOne ⟨[], fun _ => [], fun s => if s == "M::S" then some [["Deprecated"]] else none⟩ d13aSite.diag).level = .allowed := by
  decide

/-- D-13b: `--allow deprecated` is accepted by the command line (`ignore_case`) and stored as spelled, but compared with
    `==` it names nothing: the lint stays a warning (stated for the comparison extracted from the pinned tree). -/
example : Gen.allowCompareIgnoresCase = false →
    cliAccepts "deprecated" = true ∧ cliParse ["deprecated", "ALL"] = some ["deprecated", "ALL"] ∧
    (updateOne ⟨["deprecated", "ALL"], fun _ => [], fun _ => none⟩ (Diag.lint "Deprecated" (some 0) (some "M::S"))).level = .warning ∧
    namedByCli ["deprecated"] "Deprecated" = true := by
  decide

/-- the full statement fails on the model of the pinned tree (witness D-13b: `module M  /// {@link  struct S {}` compiled with
    `--allow malformeddoccomment`, a lint whose site the kernel can compute) -/
example : Gen.allowCompareIgnoresCase = false → ¬ silenced_iff_full := by
  intro hcmp h
  have hmem : d13bSite ∈ lintSites d13bProgram := by decide
  have := h d13bProgram ["malformeddoccomment"] d13bSite hmem (by decide)
  revert this hcmp
  decide

/-! ### non-vacuity -/

/-- the three routes of suppression each fire, `All` works, a different lint's name does not, errors stay errors -/
example : (intoUpdated ⟨["All"], fun _ => [], fun _ => none⟩
            [Diag.lint "Deprecated" (some 0) (some "M::S"), Diag.err "E033" (some 0), Diag.lint "DuplicateFile" none none]).map (·.level)
          = [.allowed, .error, .allowed] := by decide
example : (updateOne ⟨[], fun f => if f == 1 then [["BrokenDocLink"]] else [], fun _ => none⟩ (Diag.lint "BrokenDocLink" (some 1) none)).level = .allowed := by decide
example : (updateOne ⟨[], fun f => if f == 1 then [["BrokenDocLink"]] else [], fun _ => none⟩ (Diag.lint "BrokenDocLink" (some 0) none)).level = .warning := by decide
example : (updateOne ⟨["BrokenDocLink"], fun _ => [["IncorrectDocComment"]], fun _ => some [["MalformedDocComment"]]⟩
            (Diag.lint "Deprecated" (some 0) (some "M::S"))).level = .warning := by decide
example : cliAccepts "Deprecate" = false ∧ cliAccepts "" = false ∧ cliAccepts "aLL" = true ∧ cliParse ["All", "x"] = none := by decide
/-- the hypotheses of `silenced_iff_partial` are satisfiable with a lint that gets silenced through its own element -/
example : (updateOne (envOf [] d13bProgram) d13bSite.diag).level = .warning ∧
          (updateOne ⟨[], fun _ => [], fun s => if s == "M::S" then some [["All"]] else none⟩ d13bSite.diag).level = .allowed := by decide

end Slicec.C13

#print axioms Slicec.C13.lint_wellFormed
#print axioms Slicec.C13.err_wellFormed
#print axioms Slicec.C13.errors_untouched
#print axioms Slicec.C13.frame
#print axioms Slicec.C13.allowed_only_if_named
#print axioms Slicec.C13.named_exact
#print axioms Slicec.C13.silenced_iff_partial
