/-
  C13 — Lint suppression silences only the named lints in scope, never errors.

  The theorems are about `intoUpdated` (Model/Lints.lean), the mirror of `Diagnostics::into_updated`, over the tables of
  Gen/Lints.lean (regenerated from the Rust source on every check), for ALL diagnostics lists and ALL configurations
  (command line list, file attributes, entity attributes reached through the scope string).
-/
import SlicecVerif.Lemmas.Lints

namespace Slicec.C13

open Slicec

/-- what `Diagnostic::new(Lint::…)` builds satisfies the hypothesis of `errors_untouched`: no lint kind of the extracted
    table has default level `Error` -/
theorem lint_wellFormed (code : String) (h : code ∈ Gen.lintKinds) (f : Option Nat) (s : Option String) :
    DiagWellFormed (Diag.lint code f s) := by
  constructor
  · intro h'; simp [Diag.lint] at h'
  · intro _; simp [Diag.lint, default_level_not_error code h]

/-- what `Diagnostic::new(Error::…)` builds satisfies the hypothesis of `errors_untouched` -/
theorem err_wellFormed (code : String) (f : Option Nat) : DiagWellFormed (Diag.err code f) := by
  constructor <;> simp [Diag.err]

/-- **errors_untouched.** Whatever the configuration (command line list, file attributes, entity attributes):
    an error comes out of `into_updated` exactly as it went in, in particular with level `Error`; no lint ever becomes an
    error; hence the number of errors, and with it the exit status, is the same for any two configurations. -/
theorem errors_untouched (env env' : AllowEnv) (ds : List Diag) (hwf : ∀ d ∈ ds, DiagWellFormed d) :
    (∀ d ∈ ds, d.isError = true → updateOne env d = d ∧ (updateOne env d).level = .error) ∧
    (∀ d ∈ ds, d.isError = false → (updateOne env d).level ≠ .error) ∧
    (totals (intoUpdated env ds)).2 = (totals ds).2 ∧
    exitFails (intoUpdated env ds) = exitFails (intoUpdated env' ds) := by
  have hcount : ∀ (e : AllowEnv), (totals (intoUpdated e ds)).2 = (totals ds).2 := by
    intro e
    simp only [totals, intoUpdated, List.filter_map, List.length_map]
    congr 1
    apply List.filter_congr
    intro d hd
    simpa [Function.comp] using updateOne_isError_level e d (hwf d hd)
  refine ⟨?_, ?_, hcount env, ?_⟩
  · intro d hd he
    have : updateOne env d = d := by simp [updateOne, he]
    exact ⟨this, by rw [this]; exact (hwf d hd).1 he⟩
  · intro d hd he h
    have := updateOne_isError_level env d (hwf d hd)
    simp [h] at this
    exact (hwf d hd).2 he this
  · simp [exitFails, hcount env, hcount env']

/-- **frame.** `into_updated` keeps the length and the order of the list, computes the entry at position `i` from the
    diagnostic at position `i` and the configuration alone, and changes nothing but the level — which either stays or
    becomes `Allowed`. (That the AST does not change at all is immediate in the code: `into_updated` takes `&Ast`;
    the correspondence family `frame` compares two whole compilations.) -/
theorem frame (env : AllowEnv) (ds : List Diag) :
    (intoUpdated env ds).length = ds.length ∧
    (∀ i : Nat, (intoUpdated env ds)[i]? = (ds[i]?).map (updateOne env)) ∧
    (∀ d, (updateOne env d).code = d.code ∧ (updateOne env d).isError = d.isError ∧
          (updateOne env d).spanFile = d.spanFile ∧ (updateOne env d).scope = d.scope ∧
          ((updateOne env d).level = d.level ∨ (updateOne env d).level = .allowed)) := by
  refine ⟨by simp [intoUpdated], fun i => by simp [intoUpdated], ?_⟩
  intro d
  unfold updateOne
  by_cases he : d.isError = true
  · simp [he]
  · simp only [he]
    exact ⟨rfl, rfl, rfl, rfl, updateLevel_cases env d⟩

/-- **allowed_only_if_named** (soundness direction of `silenced_iff`, for ANY diagnostic and configuration, also where
    the side conditions of `silenced_iff` fail). A lint that was not `Allowed` comes out `Allowed` only if its code or `All`
    occurs (under the comparison `is_lint_allowed_by` uses — equality up to ASCII letter case, `named_meaning`) in the
    command line list, or in an `allow` attribute of the file its span lies in, or in an `allow` attribute of the entity
    its scope string names or of one of that entity's parents. -/
theorem allowed_only_if_named (env : AllowEnv) (d : Diag) (hlev : d.level ≠ .allowed)
    (h : (updateOne env d).level = .allowed) :
    d.isError = false ∧ (NamedBy env.cli d.code ∨ FileNames env d ∨ ScopeNames env d) := by
  unfold updateOne at h
  by_cases he : d.isError = true
  · simp [he] at h; exact absurd h hlev
  · simp only [he] at h
    exact ⟨by simpa using he, (updateLevel_allowed_iff env d hlev).1 h⟩

/-- "occurs" means equality up to ASCII letter case (the comparison extracted from `is_lint_allowed_by`; before 61aa376
    it was `==`, and this theorem does not compile against that source) -/
theorem named_meaning (ids : List String) (code : String) :
    NamedBy ids code ↔ ∃ id ∈ ids, eqIgnoreAsciiCase id Gen.allowAllIdentifier = true ∨ eqIgnoreAsciiCase id code = true := by
  have hcmp : Gen.allowCompareIgnoresCase = true := by decide
  simp [NamedBy, lintIdEq, hcmp]

/-- what the property demands, over a bare configuration: named by an accepted command-line value (whatever its
    letter case), by the file, or by the element the lint concerns / its enclosing definitions (`concerns` = its key) -/
def Demanded (env : AllowEnv) (d : Diag) (concerns : Option String) : Prop :=
  namedByCli env.cli d.code = true ∨
  (∃ f, d.spanFile = some f ∧ namedByAttrs (env.fileAllows f) d.code = true) ∨
  (∃ k as, concerns = some k ∧ env.scopeAllows k = some as ∧ namedByAttrs as d.code = true)

/-- **silenced_iff_config** (the equivalence over a bare configuration). For every configuration whose `--allow` values
    were accepted by clap (any letter case — `is_lint_allowed_by` compares case-insensitively, extracted) and whose
    `allow` attributes passed `Allow::parse_from` (`hfile`, `hent`: arguments are allowable identifiers — anything else
    is error E027), and every lint at its default level whose recorded scope is the key of the element it concerns
    (`hscope`): the lint is `Allowed` exactly when the property says it is silenced, and `Warning` otherwise.
    `silenced_iff` below discharges `hscope` and the table lookup for the lints of actual programs. -/
theorem silenced_iff_config (env : AllowEnv) (d : Diag) (concerns : Option String)
    (hlint : d.isError = false) (hkind : d.code ∈ Gen.lintKinds) (hlev : d.level = lintDefaultLevel d.code)
    (hcli : ∀ v ∈ env.cli, cliAccepts v = true)
    (hfile : ∀ f, ∀ a ∈ env.fileAllows f, ∀ v ∈ a, v ∈ Gen.allowableLintIdentifiers)
    (hent : ∀ k as, env.scopeAllows k = some as → ∀ a ∈ as, ∀ v ∈ a, v ∈ Gen.allowableLintIdentifiers)
    (hscope : d.scope = concerns) :
    ((updateOne env d).level = .allowed ↔ Demanded env d concerns) ∧
    (¬ Demanded env d concerns → (updateOne env d).level = .warning) := by
  have hcmp : Gen.allowCompareIgnoresCase = true := by decide
  have hw : d.level = .warning := by rw [hlev]; exact default_level_not_error d.code hkind
  have hne : d.level ≠ .allowed := by rw [hw]; decide
  have hcode := kinds_allowable d.code hkind
  have hupd : (updateOne env d).level = updateLevel env d := by simp [updateOne, hlint]
  have hiff : updateLevel env d = .allowed ↔ Demanded env d concerns := by
    rw [updateLevel_allowed_iff env d hne]
    unfold Demanded FileNames ScopeNames
    rw [namedBy_cli_iff hcmp env.cli d.code hcli, hscope]
    constructor
    · rintro (h | ⟨f, hf, h⟩ | ⟨s, as, hs, ha, h⟩)
      · exact Or.inl h
      · exact Or.inr (Or.inl ⟨f, hf, (namedByAttrs_exact _ _ (hfile f) hcode).1 h⟩)
      · exact Or.inr (Or.inr ⟨s, as, hs, ha, (namedByAttrs_exact _ _ (hent s as ha) hcode).1 h⟩)
    · rintro (h | ⟨f, hf, h⟩ | ⟨s, as, hs, ha, h⟩)
      · exact Or.inl h
      · exact Or.inr (Or.inl ⟨f, hf, (namedByAttrs_exact _ _ (hfile f) hcode).2 h⟩)
      · exact Or.inr (Or.inr ⟨s, as, hs, ha, (namedByAttrs_exact _ _ (hent s as ha) hcode).2 h⟩)
  refine ⟨by rw [hupd]; exact hiff, ?_⟩
  intro hnd
  rw [hupd]
  rcases updateLevel_cases env d with h | h
  · rw [h, hw]
  · exact absurd (hiff.1 h) hnd

/-- the property's wording for a lint site of a program, spelled out: the lint is named (or `All` is given)
    * by an `--allow` value the command line accepts (clap accepts any letter case of an allowable identifier), or
    * by an `allow` attribute of the file it occurs in, or
    * by an `allow` attribute on the element it concerns or on a definition enclosing that element — `s.chain` holds
      exactly these attributes' argument lists, read off the syntax tree (no scope string, no lookup). -/
def SilencedBy (cli : List String) (p : Program) (s : LintSite) : Prop :=
  (∃ v ∈ cli, cliAccepts v = true ∧ (eqIgnoreAsciiCase v Gen.allowAllIdentifier = true ∨ eqIgnoreAsciiCase v s.kind = true)) ∨
  (∃ a ∈ fileAllowsOf p s.file, ∃ id ∈ a, id = Gen.allowAllIdentifier ∨ id = s.kind) ∨
  (∃ a ∈ s.chain, ∃ id ∈ a, id = Gen.allowAllIdentifier ∨ id = s.kind)

/-- `demandedLevel` (what the driver compares with the compiler) is `SilencedBy` as a level -/
theorem demandedLevel_iff (cli : List String) (p : Program) (s : LintSite) (hkind : s.kind ∈ Gen.lintKinds) :
    (demandedLevel cli p s = .allowed ↔ SilencedBy cli p s) ∧ (¬ SilencedBy cli p s → demandedLevel cli p s = .warning) := by
  have hw := default_level_not_error s.kind hkind
  have hb : (namedByCli cli s.kind || namedByAttrs (fileAllowsOf p s.file) s.kind || namedByAttrs s.chain s.kind) = true ↔ SilencedBy cli p s := by
    simp only [Bool.or_eq_true, namedByCli_iff, namedByAttrs_iff, SilencedBy, or_assoc]
  unfold demandedLevel
  by_cases hc : (namedByCli cli s.kind || namedByAttrs (fileAllowsOf p s.file) s.kind || namedByAttrs s.chain s.kind) = true
  · rw [if_pos hc]
    exact ⟨⟨fun _ => hb.1 hc, fun _ => rfl⟩, fun h => absurd (hb.1 hc) h⟩
  · rw [if_neg hc]
    refine ⟨⟨fun h => ?_, fun h => absurd (hb.2 h) hc⟩, fun _ => hw⟩
    rw [hw] at h
    cases h

/-- **silenced_iff (the full statement).** For every program, every command line clap accepts (`cliParse vs = some cli`:
    every value is an allowable identifier in some letter case; the values are stored as spelled) and every lint the
    compiler records for the program (`lintSites`: MalformedDocComment, Deprecated, BrokenDocLink, IncorrectDocComment,
    each with the scope string the code records for it), the level after `into_updated` is `Allowed` exactly when the
    lint is named (or `All` is given) by an accepted `--allow` value, by an `allow` attribute of the file it occurs in,
    or by an `allow` attribute on the element it concerns or on a definition enclosing that element — and `Warning`
    otherwise. Side conditions:
    * `hargs` — the `allow` attributes in play for this site passed `Allow::parse_from` (arguments are allowable
      identifiers other than `DuplicateFile`; anything else is error E027 and compilation has failed);
    * `hkey`  — the scope string the lint records is the key of ONE element of the program (`scopeKeyUnique`). This is
      the D-13c exclusion: it fails for programs that are rejected anyway (redefinitions) and for a parameter and a return
      member of one operation that share their name, where the statement is false (`silenced_iff_needs_unique_key`).
    The proof rests on two facts extracted from the source on every run: member types are parsed in the member's own
    scope (`Gen.memberTypesParsedInMemberScope`, grammar.lalrpop — the repair of D-13a) and `is_lint_allowed_by`
    compares case-insensitively (`Gen.allowCompareIgnoresCase` — the repair of D-13b); with either flag flipped this
    theorem does not compile. -/
theorem silenced_iff (p : Program) (vs cli : List String) (hcli : cliParse vs = some cli) (s : LintSite)
    (hs : s ∈ lintSites p) (hargs : siteArgsOk p s = true) (hkey : scopeKeyUnique p s = true) :
    ((updateOne (envOf cli p) s.diag).level = .allowed ↔ SilencedBy cli p s) ∧
    (¬ SilencedBy cli p s → (updateOne (envOf cli p) s.diag).level = .warning) ∧
    (updateOne (envOf cli p) s.diag).level = demandedLevel cli p s := by
  have hflag : Gen.memberTypesParsedInMemberScope = true := by decide
  have hcmp : Gen.allowCompareIgnoresCase = true := by decide
  obtain ⟨⟨k, hsk, hmem⟩, hkind⟩ := lintSites_ok hflag p s hs
  have hlook : scopeAllowsOf p k = some s.chain :=
    scopeAllowsOf_of_mem p k s.chain hmem (by simpa [scopeKeyUnique, hsk] using hkey)
  obtain ⟨hfile, hchain⟩ := siteArgsOk_mem hargs
  have hacc := (cliParse_some hcli).2
  have hcode := kinds_allowable s.kind hkind
  have hw : s.diag.level = .warning := by simp [LintSite.diag, Diag.lint, default_level_not_error s.kind hkind]
  have hne : s.diag.level ≠ .allowed := by rw [hw]; decide
  have hupd : (updateOne (envOf cli p) s.diag).level = updateLevel (envOf cli p) s.diag := by simp [updateOne, LintSite.diag, Diag.lint]
  have hiff : updateLevel (envOf cli p) s.diag = .allowed ↔ SilencedBy cli p s := by
    rw [updateLevel_allowed_iff _ _ hne]
    unfold FileNames ScopeNames SilencedBy
    simp only [LintSite.diag, Diag.lint, envOf]
    rw [namedBy_cli_iff hcmp cli s.kind hacc, namedByCli_iff]
    constructor
    · rintro (h | ⟨f, hf, h⟩ | ⟨k', as, hk', ha, h⟩)
      · exact Or.inl h
      · simp only [Option.some.injEq] at hf
        subst hf
        exact Or.inr (Or.inl ((namedByAttrs_iff _ _).1 ((namedByAttrs_exact _ _ hfile hcode).1 h)))
      · rw [hsk] at hk'
        simp only [Option.some.injEq] at hk'
        subst hk'
        rw [hlook] at ha
        simp only [Option.some.injEq] at ha
        subst ha
        exact Or.inr (Or.inr ((namedByAttrs_iff _ _).1 ((namedByAttrs_exact _ _ hchain hcode).1 h)))
    · rintro (h | h | h)
      · exact Or.inl h
      · exact Or.inr (Or.inl ⟨s.file, rfl, (namedByAttrs_exact _ _ hfile hcode).2 ((namedByAttrs_iff _ _).2 h)⟩)
      · exact Or.inr (Or.inr ⟨k, s.chain, hsk, hlook, (namedByAttrs_exact _ _ hchain hcode).2 ((namedByAttrs_iff _ _).2 h)⟩)
  have hwarn : ¬ SilencedBy cli p s → updateLevel (envOf cli p) s.diag = .warning := by
    intro hnd
    rcases updateLevel_cases (envOf cli p) s.diag with h | h
    · rw [h, hw]
    · exact absurd (hiff.1 h) hnd
  obtain ⟨hd1, hd2⟩ := demandedLevel_iff cli p s hkind
  refine ⟨by rw [hupd]; exact hiff, by rw [hupd]; exact hwarn, ?_⟩
  rw [hupd]
  by_cases hsil : SilencedBy cli p s
  · rw [hiff.2 hsil, hd1.2 hsil]
  · rw [hwarn hsil, hd2 hsil]

/-- the statement of `silenced_iff` without the D-13c exclusion `hkey` -/
def silenced_iff_without_unique_key : Prop :=
  ∀ (p : Program) (vs cli : List String), cliParse vs = some cli → ∀ s ∈ lintSites p, siteArgsOk p s = true →
    (updateOne (envOf cli p) s.diag).level = demandedLevel cli p s

/-- **silenced_iff_needs_unique_key (D-13c, open).** Without the exclusion the statement is false, in both directions:
    in `op([allow(Deprecated)] a: Dep) -> (a: Dep, b: bool)` the lint about the parameter stays a warning although the
    parameter itself carries the attribute (the scope string `M::I::op::a` resolves to the return member, inserted
    last), and in `op(a: Dep) -> ([allow(Deprecated)] a: Dep, b: bool)` the lint about the parameter is silenced although
    neither the parameter nor anything enclosing it allows it. Both sites are kernel-checked members of `lintSites`;
    the real compiler does the same (correspondence families `d13c`, `witness`; `known-d13c`). -/
theorem silenced_iff_needs_unique_key :
    ¬ silenced_iff_without_unique_key ∧
    (d13cSite ∈ lintSites d13cProgram ∧ scopeKeyUnique d13cProgram d13cSite = false ∧
      (updateOne (envOf [] d13cProgram) d13cSite.diag).level = .warning ∧ demandedLevel [] d13cProgram d13cSite = .allowed) ∧
    (d13cSite2 ∈ lintSites d13cProgram2 ∧ scopeKeyUnique d13cProgram2 d13cSite2 = false ∧
      (updateOne (envOf [] d13cProgram2) d13cSite2.diag).level = .allowed ∧ demandedLevel [] d13cProgram2 d13cSite2 = .warning) := by
  have hmem : d13cSite ∈ lintSites d13cProgram := by decide +kernel
  have hmem2 : d13cSite2 ∈ lintSites d13cProgram2 := by decide +kernel
  refine ⟨?_, ⟨hmem, by decide, by decide, by decide⟩, ⟨hmem2, by decide, by decide, by decide⟩⟩
  intro h
  have := h d13cProgram [] [] (by decide) d13cSite hmem (by decide)
  revert this
  decide

/-! ### the repaired defects, on the model -/

/-- D-13a (repaired by 7283de9): `[allow(Deprecated)]` on a field whose own type is deprecated. The lint the compiler
    records (kernel-checked: it is the only lint site of the program) now carries the field's own scope and is silenced,
    as the property demands; with the scope it carried before the repair (the struct) it stayed a warning. -/
example : lintSites d13aProgram = [d13aSite] ∧
    (updateOne (envOf [] d13aProgram) d13aSite.diag).level = .allowed ∧ demandedLevel [] d13aProgram d13aSite = .allowed ∧
    (updateOne (envOf [] d13aProgram) d13aSiteOld.diag).level = .warning := by
  refine ⟨by decide +kernel, by decide, by decide, by decide⟩

/-- the same attribute on the struct is honoured as before (the field inherits its container's attributes) -/
example : (updateOne ⟨[], fun _ => [], fun s => if s == "M::S::f" then some [[], ["Deprecated"]] else none⟩ d13aSite.diag).level = .allowed := by
  decide

/-- D-13b (repaired by 61aa376): `--allow deprecated` is accepted by the command line (`ignore_case`), stored as spelled,
    and — compared case-insensitively — names the lint. -/
example : cliAccepts "deprecated" = true ∧ cliParse ["deprecated", "ALL"] = some ["deprecated", "ALL"] ∧
    (updateOne ⟨["deprecated"], fun _ => [], fun _ => none⟩ (Diag.lint "Deprecated" (some 0) (some "M::S"))).level = .allowed ∧
    (updateOne ⟨["aLL"], fun _ => [], fun _ => none⟩ (Diag.lint "Deprecated" (some 0) (some "M::S"))).level = .allowed ∧
    namedByCli ["deprecated"] "Deprecated" = true := by
  decide

/-- the former D-13b witness (`module M  /// {@link  struct S {}` with `--allow malformeddoccomment`) now satisfies the statement -/
example : d13bSite ∈ lintSites d13bProgram ∧
    (updateOne (envOf ["malformeddoccomment"] d13bProgram) d13bSite.diag).level = .allowed ∧
    demandedLevel ["malformeddoccomment"] d13bProgram d13bSite = .allowed := by
  refine ⟨by decide +kernel, by decide, by decide⟩

/-! ### non-vacuity -/

/-- the hypotheses of `silenced_iff` are satisfiable, with a lint that is silenced through its own element and one that is not -/
example : cliParse [] = some [] ∧ d13aSite ∈ lintSites d13aProgram ∧ siteArgsOk d13aProgram d13aSite = true ∧
    scopeKeyUnique d13aProgram d13aSite = true ∧ SilencedBy [] d13aProgram d13aSite := by
  refine ⟨by decide, by decide +kernel, by decide, by decide, Or.inr (Or.inr ⟨["Deprecated"], by decide, "Deprecated", by decide, Or.inr (by decide)⟩)⟩
example : d13bSite ∈ lintSites d13bProgram ∧ siteArgsOk d13bProgram d13bSite = true ∧ scopeKeyUnique d13bProgram d13bSite = true ∧
    (updateOne (envOf [] d13bProgram) d13bSite.diag).level = .warning ∧ demandedLevel [] d13bProgram d13bSite = .warning := by
  refine ⟨by decide +kernel, by decide, by decide, by decide, by decide⟩
/-- the three routes of suppression each fire, `All` works, a different lint's name does not, errors stay errors -/
example : (intoUpdated ⟨["All"], fun _ => [], fun _ => none⟩
            [Diag.lint "Deprecated" (some 0) (some "M::S"), Diag.err "E033" (some 0), Diag.lint "DuplicateFile" none none]).map (·.level)
          = [.allowed, .error, .allowed] := by decide
example : (updateOne ⟨[], fun f => if f == 1 then [["BrokenDocLink"]] else [], fun _ => none⟩ (Diag.lint "BrokenDocLink" (some 1) none)).level = .allowed := by decide
example : (updateOne ⟨[], fun f => if f == 1 then [["BrokenDocLink"]] else [], fun _ => none⟩ (Diag.lint "BrokenDocLink" (some 0) none)).level = .warning := by decide
example : (updateOne ⟨["BrokenDocLink"], fun _ => [["IncorrectDocComment"]], fun _ => some [["MalformedDocComment"]]⟩
            (Diag.lint "Deprecated" (some 0) (some "M::S"))).level = .warning := by decide
example : cliAccepts "Deprecate" = false ∧ cliAccepts "" = false ∧ cliAccepts "aLL" = true ∧ cliParse ["All", "x"] = none := by decide
/-- the hypotheses of `silenced_iff_config` are satisfiable with a lint that gets silenced through its own element -/
example : (updateOne (envOf [] d13bProgram) d13bSite.diag).level = .warning ∧
          (updateOne ⟨[], fun _ => [], fun s => if s == "M::S" then some [["All"]] else none⟩ d13bSite.diag).level = .allowed := by decide

end Slicec.C13

#print axioms Slicec.C13.lint_wellFormed
#print axioms Slicec.C13.err_wellFormed
#print axioms Slicec.C13.errors_untouched
#print axioms Slicec.C13.frame
#print axioms Slicec.C13.allowed_only_if_named
#print axioms Slicec.C13.named_meaning
#print axioms Slicec.C13.silenced_iff_config
#print axioms Slicec.C13.demandedLevel_iff
#print axioms Slicec.C13.silenced_iff
#print axioms Slicec.C13.silenced_iff_needs_unique_key
