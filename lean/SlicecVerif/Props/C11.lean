/-
  C11 — Decoding untrusted bytes fails cleanly: no crash, no over-read.
  The model's `decode` returns `Except DErr _` by type: there is no panic outcome because, after the
  `fix:` commits (duplicate key, Display arms), no reachable panic site is left in the decoder
  (`Gen.CodecPanics` lists what the translator finds in the source; obligation `no_panic_sites`).
-/
import SlicecVerif.Lemmas.Decode
import SlicecVerif.Lemmas.DecodeFrame
import SlicecVerif.Model.Reply
import SlicecVerif.Gen.CodecPanics

namespace Slicec.C11

open Slicec

/-- a successful decode consumed a non-empty prefix of the input and nothing else: the unread part
    is a suffix of the input (never reads outside the buffer, always makes progress). -/
theorem decode_consumes_prefix (t : Ty) (bs : Bytes) (v : Val t) (rest : Bytes)
    (h : decode t bs = .ok (v, rest)) : ∃ pre, pre ≠ [] ∧ bs = pre ++ rest :=
  decode_spfx t bs v rest h

/-- bool strictness: only the bytes 0 and 1 are accepted. -/
theorem bool_strict (bs : Bytes) (v : Bool) (rest : Bytes) (h : decode .bool bs = .ok (v, rest)) :
    ∃ b, bs = b :: rest ∧ ((b = 0 ∧ v = false) ∨ (b = 1 ∧ v = true)) := by
  change decBool bs = _ at h
  unfold decBool at h
  split at h
  · simp at h
  · rename_i b r
    split at h
    · simp at h; obtain ⟨rfl, rfl⟩ := h; exact ⟨b, rfl, Or.inl ⟨‹_›, rfl⟩⟩
    · split at h
      · simp at h; obtain ⟨rfl, rfl⟩ := h; exact ⟨b, rfl, Or.inr ⟨‹_›, rfl⟩⟩
      · simp at h

/-- decoded strings are valid UTF-8. -/
theorem string_valid_utf8 (bs : Bytes) (s : Bytes) (rest : Bytes) (h : decode .str bs = .ok (s, rest)) :
    validUTF8 s = true := by
  change decStr bs = _ at h
  unfold decStr at h
  split at h
  · simp at h
  · split at h
    · simp at h
    · split at h
      · simp at h; obtain ⟨rfl, _⟩ := h; assumption
      · simp at h

/-- narrowed variable-width integers are in range (never truncated). -/
theorem varint32_in_range (bs : Bytes) (v : Int) (rest : Bytes) (h : decode .varint32 bs = .ok (v, rest)) :
    -(2 ^ 31) ≤ v ∧ v ≤ 2 ^ 31 - 1 := (narrow_ok _ _ _ _ _ h).2

theorem varuint32_in_range (bs : Bytes) (v : Int) (rest : Bytes) (h : decode .varuint32 bs = .ok (v, rest)) :
    0 ≤ v ∧ v ≤ 2 ^ 32 - 1 := (narrow_ok _ _ _ _ _ h).2

/-- a decoded dictionary has distinct keys (a duplicate is an error), for both map types. -/
theorem dict_keys_distinct (k v : Ty) (bs : Bytes) (es : List (Val k × Val v)) (rest : Bytes)
    (h : decode (.dictH k v) bs = .ok (es, rest) ∨ decode (.dictB k v) bs = .ok (es, rest)) :
    (es.map Prod.fst).Nodup := by
  rcases h with h | h <;>
  · simp only [decode] at h
    split at h
    · simp at h
    · exact (decEntries_pfx _ _ _ _ _ _ _ (decode_spfx k) (decode_spfx v) h).2.2.1

/-- memory for elements is paid for by input: a decoded sequence has at most as many elements as
    bytes were consumed. -/
theorem seq_count_bounded (t : Ty) (bs : Bytes) (vs : List (Val t)) (rest : Bytes)
    (h : decode (.seq t) bs = .ok (vs, rest)) : vs.length ≤ bs.length - rest.length := by
  simp only [decode] at h
  split at h
  · simp at h
  · rename_i n r hn
    have h1 := (decVaruintRaw_spfx _ _ _ hn).length_lt
    have h2 := (decList_pfx _ _ _ _ _ (decode_spfx t) h).2.2
    omega

/-- time is governed by the input, not by the announced length: whatever element count `n` the input
    announces, the element loop runs at most `length + 1` times (it stops at the first failure and every
    success consumes at least one byte). -/
theorem loop_calls_bounded (t : Ty) (n : Nat) (bs : Bytes) :
    decListCalls (decode t) n bs ≤ bs.length + 1 :=
  decListCalls_le (decode t) (decode_spfx t) n bs

/-- the amount pre-allocated (and initialised) for a `HashMap` is bounded by the unread input. -/
theorem hash_reservation_bounded (announced : Nat) (rest : Bytes) :
    Gen.hashMapReserve announced rest.length ≤ rest.length := by
  unfold Gen.hashMapReserve; omega

/-- … and the same for sequences (elements pre-allocated) and strings (bytes allocated): never more than the unread bytes,
    whatever length the input announces (D-11d: `02 00 00 40` used to make both reserve 2^28 elements / bytes). -/
theorem vec_reservation_bounded (announced : Nat) (rest : Bytes) :
    Gen.vecReserve announced rest.length ≤ rest.length := by
  unfold Gen.vecReserve; omega

theorem string_reservation_bounded (announced : Nat) (rest : Bytes) :
    Gen.stringReserve announced rest.length ≤ rest.length := by
  unfold Gen.stringReserve; split <;> omega

/-- `skip_tagged_fields` needs no more fuel than the model gives it (the loop terminates). -/
theorem skip_fuel_sufficient (fuel : Nat) (bs : Bytes) (h : bs.length < fuel) :
    skipTagged fuel bs = skipTaggedFields bs :=
  skipTagged_fuel fuel (bs.length + 1) bs h (by omega)

/-- no `todo!`/`unimplemented!`/`panic!`/`unwrap`/`expect` is left in non-test code of slice-codec:
    every error value can be rendered and no decoding path can reach a panic macro. -/
theorem no_panic_sites : Gen.codecPanicSites = [] := rfl

/-- Framing — "no over-read" in the strong sense. A successful decode depends only on the bytes it
    consumed: with ANY bytes appended behind the input, the same value is decoded and exactly the appended
    bytes are additionally left unread. So the decoder not only stays inside the buffer
    (`decode_consumes_prefix`), it does not even look at the unread part of it — what follows a value in a
    buffer (the next field, another message, attacker-chosen padding) cannot influence how the value is
    read. For every type incl. nested sequences and dictionaries, every input. -/
theorem decode_framed (t : Ty) (bs : Bytes) (v : Val t) (rest ex : Bytes)
    (h : decode t bs = .ok (v, rest)) : decode t (bs ++ ex) = .ok (v, rest ++ ex) :=
  Slicec.decode_framed t bs v rest ex h

/-- consequence: two values written one behind the other are read back one after the other — decoding
    the first from the concatenation leaves exactly the input of the second. -/
theorem decode_sequential (t u : Ty) (a b : Bytes) (x : Val t) (y : Val u) (rest : Bytes)
    (ha : decode t a = .ok (x, [])) (hb : decode u b = .ok (y, rest)) :
    decode t (a ++ b) = .ok (x, b) ∧ decode u b = .ok (y, rest) := by
  have := decode_framed t a x [] b ha
  simp only [List.nil_append] at this
  exact ⟨this, hb⟩

/-- framing for a run of `n` consecutive decodes (a stream of values without a length prefix): appended
    bytes change neither the values read nor what is consumed. -/
theorem decode_stream_framed (t : Ty) (n : Nat) (bs : Bytes) (vs : List (Val t)) (rest ex : Bytes)
    (h : decList (decode t) n bs = .ok (vs, rest)) :
    decList (decode t) n (bs ++ ex) = .ok (vs, rest ++ ex) :=
  decList_framed (decode t) (Slicec.decode_framed t) n bs vs rest ex h

/-! non-vacuity -/
example : decode (.seq (.uint .w1)) [8, 7, 9] = .ok (([7, 9] : List Int), []) := by rfl
example : decode (.seq (.uint .w1)) ([8, 7, 9] ++ [0xff, 0xff]) = .ok (([7, 9] : List Int), [0xff, 0xff]) := by rfl
example : decode (.dictH (.uint .w1) .bool) [8, 1, 1, 1, 0] = .error .dupKey := by rfl
example : decode .bool [2] = .error (.illegalBool 2) := by rfl
example : decode (.seq (.uint .w8)) [0x02, 0x00, 0x00, 0x40] = .error (.eob 8 0) := by rfl
example : skipTaggedFields [4, 8, 1, 2, 0xfc, 9] = .ok ((), [9]) := by rfl

end Slicec.C11

#print axioms Slicec.C11.decode_consumes_prefix
#print axioms Slicec.C11.bool_strict
#print axioms Slicec.C11.string_valid_utf8
#print axioms Slicec.C11.varint32_in_range
#print axioms Slicec.C11.varuint32_in_range
#print axioms Slicec.C11.dict_keys_distinct
#print axioms Slicec.C11.seq_count_bounded
#print axioms Slicec.C11.loop_calls_bounded
#print axioms Slicec.C11.hash_reservation_bounded
#print axioms Slicec.C11.vec_reservation_bounded
#print axioms Slicec.C11.string_reservation_bounded
#print axioms Slicec.C11.skip_fuel_sufficient
#print axioms Slicec.C11.no_panic_sites
#print axioms Slicec.C11.decode_framed
#print axioms Slicec.C11.decode_sequential
#print axioms Slicec.C11.decode_stream_framed
