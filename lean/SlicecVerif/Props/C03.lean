/-
  C03 — Type references bind to the entity the scoping rules designate.

  The model (Model/Resolve.lean, Model/Bind.lean) mirrors `Ast::find_node_with_scope`, the lookup table
  built by the parser, and `TypeRefPatcher::{resolve_definition, resolve_type_alias}` on the *strings* the
  compiler uses as keys. The theorems below relate that model to a specification on segment lists and state
  the alias / kind / error discipline for all tables, scopes and references.

  Vocabulary (Lemmas/Resolve.lean):
  * `SegOK s`      — `s` is non-empty and contains no `':'` (an identifier);
  * `PathOK l`     — `l` is a non-empty list of such segments (a scoped identifier);
  * `joinSegs`     — `l.join("::")`; `spell id global` — the reference as written (`::` in front when global);
  * `SegTable`     — a table keyed by segment lists, `SegTable.toTable` the string-keyed table the compiler holds
                     (same entries, same order, last writer wins in both);
  * `specLookup`   — first hit among `[m₁…mₙ·id, m₁…mₙ₋₁·id, …, m₁·id, id]`, for `::id` among `[id]` only;
  * `AliasPath t a links tgt` — `links` are the underlying type references of the aliases walked from alias `a`,
                     each looked up in the module scope of the alias it is written in, `tgt` what the last designates;
  * `EntityOf f key kind ident` — `f` declares a definition / field / operation / enumerator / enumerator field
                     with that parser-scoped identifier.
-/
import SlicecVerif.Lemmas.Resolve

namespace Slicec.C03

open Slicec

/-- **Scoping rule.** For every table whose keys are well-formed scoped identifiers, every module path (possibly
    empty) and every well-formed reference, the string-level lookup of the compiler (`strip_prefix("::")`,
    `split("::")`, join-and-pop loop, final global lookup) returns exactly the first hit of the specification:
    innermost module scope first, then each enclosing scope, finally the global scope; a name written with a
    leading `::` is looked up globally only. -/
theorem lookup_eq_spec (st : SegTable) (hst : ∀ e ∈ st, PathOK e.1)
    (modulePath : List String) (hm : ∀ s ∈ modulePath, SegOK s)
    (id : List String) (hid : PathOK id) (global : Bool) :
    findNodeWithScope st.toTable (spell id global) (joinSegs modulePath) = specLookup st modulePath id global := by
  unfold findNodeWithScope spell specLookup specCandidates
  cases global with
  | true =>
    simp only [if_true, stripGlobal_global, firstSome]
    rw [SegTable.find_toTable st hst id hid]
    cases SegTable.find st id <;> rfl
  | false =>
    simp only [Bool.false_eq_true, if_false, stripGlobal_path id hid]
    cases modulePath with
    | nil =>
      -- scope "" splits into [""]: the candidate "::id" names nothing
      have e1 : scopeLoop st.toTable (joinSegs id) [] = none := by rw [scopeLoop]
      have e2 : scopeLoop st.toTable (joinSegs id) [""] = none := by
        have : joinSegs [""] ++ "::" ++ joinSegs id = "::" ++ joinSegs id := by simp [joinSegs]
        rw [scopeLoop, this, SegTable.find_global_none st hst]
        simpa using e1
      have h0 : scopeLoop st.toTable (joinSegs id) (splitSegs (joinSegs [])) = scopeLoop st.toTable (joinSegs id) [] := by
        simp only [joinSegs, splitSegs_empty]
        rw [e1, e2]
      rw [h0]
      exact scopeLoop_spec st hst id hid [] hm
    | cons a m =>
      rw [splitSegs_join (a :: m) (by simp) (fun s hs => (hm s hs).2)]
      exact scopeLoop_spec st hst id hid (a :: m) hm

/-- the key under which the parser stores `name` declared in module / container `m` is the joined segment list
    (so the tables built by `buildTable` from identifiers are of the form `SegTable.toTable`) -/
theorem key_is_joined (m : List String) (name : String) (hm : ∀ s ∈ m, SegOK s) :
    scopedId name (joinSegs m) = joinSegs (m ++ [name]) :=
  scopedId_join m name hm

/-- **Retrieval.** When the scoped identifiers stored in the table are pairwise distinct, every definition, field,
    operation, enumerator and enumerator field of every file is what the table returns for its fully scoped
    identifier (kind, identifier and file of the stored node are the entity's). -/
theorem retrievable (p : Program) (hnd : ((buildTable p).map (·.1)).Nodup)
    (f : SFile) (i : Nat) (hf : (f, i) ∈ p.zipIdx) (key : String) (kind : NodeKind) (ident : String)
    (h : EntityOf f key kind ident) :
    ∃ n, (buildTable p).find key = some n ∧ StoredAs n key kind ident i := by
  obtain ⟨n, hmem, hs⟩ := entity_mem p f i hf key kind ident h
  exact ⟨n, Table.find_of_nodup _ hnd key n hmem, hs⟩

/-- **Alias flattening.** Whenever a named reference resolves, the result is not an alias; if the name designates
    a non-alias node the result is that node with no extra attributes; if it designates an alias the result is the
    end of the alias chain starting there (each link looked up in the scope of the alias it is written in) and the
    attributes carried along are the concatenation, in chain order, of the attributes written on each link's type. -/
theorem alias_flatten (t : Table) (w : Want) (id scope : String) (tgt : Target) (attrs : List Attr)
    (h : resolveNamed t w id scope = .ok (tgt, attrs)) :
    ∃ n, findNodeWithScope t id scope = some n ∧ tgt.NonAlias ∧
      ((n.isAlias = false ∧ tgt = .node n ∧ attrs = []) ∨
       (n.isAlias = true ∧ ∃ links, AliasPath t n links tgt ∧ attrs = links.flatMap TRef.attrs)) := by
  unfold resolveNamed at h
  cases hf : findNodeWithScope t id scope with
  | none => rw [hf] at h; simp at h
  | some n =>
    rw [hf] at h
    simp only at h
    refine ⟨n, rfl, ?_⟩
    by_cases hn : n.isAlias = true
    · simp only [hn, if_true] at h
      cases hw : walkAlias t (numAliases t + 1) [] [] n with
      | error e => rw [hw] at h; simp at h
      | ok v =>
        obtain ⟨tgt', out⟩ := v
        obtain ⟨links, hp, hout⟩ := walkAlias_path t _ _ _ _ _ _ hw hn
        rw [hw] at h
        have htgt : tgt = tgt' ∧ attrs = out := by
          cases tgt' with
          | node m =>
            simp only at h
            by_cases ha : acceptable w m.kind = true
            · simp [ha] at h; exact ⟨h.1.symm, h.2.symm⟩
            · simp [ha] at h
          | expr e s =>
            simp only at h
            by_cases ha : acceptableExpr w e = true
            · simp [ha] at h; exact ⟨h.1.symm, h.2.symm⟩
            · simp [ha] at h
        obtain ⟨h1, h2⟩ := htgt
        subst h1; subst h2
        exact ⟨hp.nonAlias, .inr ⟨hn, links, hp, by simpa using hout⟩⟩
    · have hn' : n.isAlias = false := by simpa using hn
      simp only [hn] at h
      by_cases ha : acceptable w n.kind = true
      · simp [ha] at h
        obtain ⟨h1, h2⟩ := h
        subst h1; subst h2
        exact ⟨hn', .inl ⟨hn', rfl, rfl⟩⟩
      · simp [ha] at h

/-- what a position accepts: `dyn Type` (struct, enum, custom type, primitive, anonymous type) for fields, parameters,
    alias targets and element types; `Interface` for bases; `Primitive` for underlying types -/
def TargetAcceptable (w : Want) : Target → Prop
  | .node m => acceptable w m.kind = true
  | .expr e _ => acceptableExpr w e = true

/-- **Kind check, no silent binding.** For a reference written as a name in a position that wants `w`:
    if resolution succeeds, the target is of a kind acceptable for `w` and the reference is bound to exactly that
    target with exactly the inherited attributes and no error; if resolution fails, at least one error code is
    recorded and the reference stays unpatched (it still holds the identifier, carries no inherited attributes).
    There is no third outcome. -/
theorem kind_checked (t : Table) (w : Want) (scope : String) (written : List Attr) (id : String) (opt : Bool) :
    (∀ tgt extra, resolveNamed t w id scope = .ok (tgt, extra) →
        TargetAcceptable w tgt ∧ bindRef t w scope (.mk written (.named id) opt) = ⟨boundOfTarget tgt, extra, []⟩) ∧
    (∀ e, resolveNamed t w id scope = .error e →
        errCodes e ≠ [] ∧ bindRef t w scope (.mk written (.named id) opt) = ⟨.unpatched id, [], errCodes e⟩) := by
  constructor
  · intro tgt extra h
    refine ⟨?_, by simp [bindRef, TRef.ty, h]⟩
    unfold resolveNamed at h
    cases hf : findNodeWithScope t id scope with
    | none => rw [hf] at h; simp at h
    | some n =>
      rw [hf] at h
      simp only at h
      by_cases hn : n.isAlias = true
      · simp only [hn, if_true] at h
        cases hw : walkAlias t (numAliases t + 1) [] [] n with
        | error e => rw [hw] at h; simp at h
        | ok v =>
          obtain ⟨tgt', out⟩ := v
          rw [hw] at h
          cases tgt' with
          | node m =>
            simp only at h
            by_cases ha : acceptable w m.kind = true
            · simp [ha] at h; rw [← h.1]; exact ha
            · simp [ha] at h
          | expr e s =>
            simp only at h
            by_cases ha : acceptableExpr w e = true
            · simp [ha] at h; rw [← h.1]; exact ha
            · simp [ha] at h
      · simp only [hn] at h
        by_cases ha : acceptable w n.kind = true
        · simp [ha] at h; rw [← h.1]; exact ha
        · simp [ha] at h
  · intro e h
    exact ⟨errCodes_ne_nil e, by simp [bindRef, TRef.ty, h]⟩

/-- **Wrong kind is an error.** A name that designates a non-alias node of a kind the position does not accept
    resolves to a type-mismatch error (E017), whatever else is in scope further out. -/
theorem wrong_kind_is_error (t : Table) (w : Want) (id scope : String) (n : NodeInfo)
    (hf : findNodeWithScope t id scope = some n) (hn : n.isAlias = false) (hk : acceptable w n.kind = false) :
    resolveNamed t w id scope = .error (.typeMismatch (wantName w) n.kind.str) := by
  unfold resolveNamed
  rw [hf]
  simp [hn, hk]

/-- **Designates nothing is an error.** A name for which no candidate of the scoping rule is a key of the table
    resolves to the does-not-exist error (E033). -/
theorem missing_is_error (t : Table) (w : Want) (id scope : String) (hf : findNodeWithScope t id scope = none) :
    resolveNamed t w id scope = .error (.doesNotExist id) := by
  unfold resolveNamed
  rw [hf]

/-- **All bound after an error-free run.** If the patcher records no error for a program, every written type
    reference, base interface and underlying type of every file is bound (none is left unpatched). -/
theorem all_bound_if_no_error (p : Program) (h : progCodes p = []) :
    ∀ l ∈ progLines p, l.res.bound.isBound = true := by
  intro l hl
  unfold progLines at hl
  unfold progCodes at h
  obtain ⟨f, hf, hl⟩ := List.mem_flatMap.mp hl
  obtain ⟨s, hs, hl⟩ := List.mem_flatMap.mp hl
  have h1 := List.flatMap_eq_nil_iff.mp h f hf
  have h2 := List.flatMap_eq_nil_iff.mp h1 s hs
  exact site_bound_of_no_codes _ s h2 l hl

/-- **Conversely**, a reference that is left unpatched has recorded an error. -/
theorem unpatched_has_error (t : Table) (w : Want) (scope : String) (r : TRef)
    (h : (bindRef t w scope r).bound.isBound = false) : (bindRef t w scope r).codes ≠ [] := by
  intro hc
  have := (bindRef_bound_iff t w scope r).mpr hc
  rw [this] at h
  cases h

/-- **The recursion bound of the alias walk is never reached.** Invariant: the chain of aliases seen so far has no
    repeats and consists of identifiers of aliases stored in the table, hence is at most `numAliases t` long; with
    `chain.length + fuel > numAliases t` the walk ends by reaching a non-alias, a missing name or a repeat. -/
theorem walkAlias_fuel (t : Table) (fuel : Nat) (chain : List String) (attrs : List Attr) (cur : NodeInfo)
    (hnd : chain.Nodup) (hsub : ∀ k ∈ chain, k ∈ aliasKeys t) (hcur : ∃ k, (k, cur) ∈ t)
    (hlen : numAliases t + 1 ≤ chain.length + fuel) :
    walkAlias t fuel chain attrs cur ≠ .error .fuel :=
  walkAlias_no_fuel t fuel chain attrs cur hnd hsub hcur hlen

/-- with the fuel `resolveNamed` passes (`numAliases t + 1`), resolution never fails for lack of fuel -/
theorem resolve_never_out_of_fuel (t : Table) (w : Want) (id scope : String) :
    resolveNamed t w id scope ≠ .error .fuel := by
  unfold resolveNamed
  cases hf : findNodeWithScope t id scope with
  | none => simp
  | some n =>
    simp only
    by_cases hn : n.isAlias = true
    · simp only [hn, if_true]
      have := walkAlias_fuel t (numAliases t + 1) [] [] n (by simp) (by simp) (findNodeWithScope_mem t id scope n hf) (by simp)
      cases hw : walkAlias t (numAliases t + 1) [] [] n with
      | error e =>
        simp only
        intro h
        rw [hw] at this
        exact this h
      | ok v =>
        obtain ⟨tgt, out⟩ := v
        cases tgt with
        | node m => simp only; split <;> simp
        | expr e s => simp only; split <;> simp
    · rw [if_neg hn]
      split <;> simp

/-- **Tie to the source tables** (Gen/ResolveKinds.lean is regenerated from the Rust text on every run). With the rows
    as extracted: a position that wants a type accepts exactly structs, enums, custom types, (aliases,) primitives and
    the three anonymous types; the model's primitive keys are the ones `Ast::create` installs, in the same order;
    fields, parameters, alias targets, sequence / dictionary / result members require `dyn Type`, bases `Interface`,
    underlying types `Primitive`; the three resolution errors carry the codes E033, E017, E019. -/
theorem source_tables_as_modelled :
    (∀ k : NodeKind, acceptable .type k = (k == .struct || k == .enum || k == .custom || k == .alias || k == .primitive)) ∧
    (∀ e : TyExpr, (∀ id, e ≠ .named id) → acceptableExpr .type e = true) ∧
    Prim.all.map Prim.kw = Gen.astPrimitiveKeys ∧
    Gen.patchWants = [("BaseInterfaces", "Interface"), ("FieldType", "dyn Type"), ("ParameterType", "dyn Type"),
                      ("EnumUnderlyingType", "Primitive"), ("TypeAliasUnderlyingType", "dyn Type"), ("ResultTypes", "dyn Type"),
                      ("SequenceType", "dyn Type"), ("DictionaryTypes", "dyn Type")] ∧
    (Gen.codeDoesNotExist, Gen.codeTypeMismatch, Gen.codeSelfReferentialAlias) = ("E033", "E017", "E019") := by
  refine ⟨?_, ?_, by decide, by decide, by decide⟩
  · intro k; cases k <;> decide
  · intro e he
    cases e with
    | named id => exact absurd rfl (he id)
    | prim p => show Gen.typeNodeVariants.contains "Primitive" = true; decide
    | seq e => show Gen.typeNodeVariants.contains "Sequence" = true; decide
    | dict k v => show Gen.typeNodeVariants.contains "Dictionary" = true; decide
    | result s f => show Gen.typeNodeVariants.contains "ResultType" = true; decide

/-! ### non-vacuity -/

example : PathOK ["A", "B", "X"] := ⟨by simp, by intro s hs; simp at hs; rcases hs with h | h | h <;> subst h <;> exact ⟨by decide, by decide⟩⟩

/-- shadowing: from module `A::B`, bare `X` designates `A::B::X`, not `A::X`; `::A::X` and `A::X` designate the outer one -/
example :
    let n1 : NodeInfo := { kind := .struct, key := "A::X", modScope := "A", ident := "X" }
    let n2 : NodeInfo := { kind := .enum, key := "A::B::X", modScope := "A::B", ident := "X" }
    let st : SegTable := [(["A", "X"], n1), (["A", "B", "X"], n2)]
    (specLookup st ["A", "B"] ["X"] false).map (·.key) = some "A::B::X" ∧
    (specLookup st ["A", "B"] ["X"] true).map (·.key) = none ∧
    (specLookup st ["A", "B"] ["A", "X"] false).map (·.key) = some "A::X" ∧
    (specLookup st ["A"] ["X"] false).map (·.key) = some "A::X" := by
  simp [specLookup, specCandidates, scopesOutward, firstSome, SegTable.find]

end Slicec.C03

#print axioms Slicec.C03.lookup_eq_spec
#print axioms Slicec.C03.key_is_joined
#print axioms Slicec.C03.retrievable
#print axioms Slicec.C03.alias_flatten
#print axioms Slicec.C03.kind_checked
#print axioms Slicec.C03.wrong_kind_is_error
#print axioms Slicec.C03.missing_is_error
#print axioms Slicec.C03.all_bound_if_no_error
#print axioms Slicec.C03.unpatched_has_error
#print axioms Slicec.C03.walkAlias_fuel
#print axioms Slicec.C03.resolve_never_out_of_fuel
#print axioms Slicec.C03.source_tables_as_modelled
