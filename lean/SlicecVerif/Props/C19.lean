/-
  C19 — Generator specifications parse back to the path and arguments that were written.

  `pluginParser` is the model of `fn plugin_parser` (Model/PluginSpec.lean; its lexical table is
  regenerated from the source). All statements quantify over arbitrary character lists, i.e. every
  sequence of Unicode scalar values. That the parser gives a verdict (value or usage error) on every
  string and cannot crash is the totality of `pluginParser : List Char → Except PErr _`.
-/
import SlicecVerif.Lemmas.PluginSpec
import SlicecVerif.Lemmas.PluginSpecNormal

namespace Slicec.C19

open Slicec Slicec.PluginSpec

deriving instance DecidableEq for Except

/-- the empty specification is rejected (with the "missing plugin path" usage error), neither accepted
    nor a crash. -/
theorem rejects_empty : pluginParser [] = .error .missingPath := by
  simp [pluginParser, scan, finish, PSt.fin, trim, trimEnd, trimStart]

/-- Round trip. Writing any path and any arguments as `PATH,KEY=VALUE,…` (backslash before every `,` and
    `=` of a component; an empty value written `KEY=`) and parsing the result yields exactly the trimmed
    path and the trimmed pairs, in order — provided the trimmed path and every trimmed key are non-empty
    (otherwise the specification is rejected, see `rejects_iff`) and no component *other than the very
    last one* ends in a backslash (a final backslash followed by a separator would read as an escape;
    the syntax cannot express such a component — see the examples below). -/
theorem parse_render (path : List Char) (args : List Arg)
    (hp : trim path ≠ []) (hk : ∀ a ∈ args, trim a.1 ≠ [])
    (hb : ∀ c ∈ (components path args).dropLast, endsBs c = false) :
    pluginParser (render path args) = .ok (trim path, args.map trimArg) := by
  have := parse_render_gen false false path args hp hk (compsOk_of_dropLast _ hb)
  simpa [render] using this

/-- The same with one trailing comma appended: it is ignored. Here the last component must not end in a
    backslash either (it would escape the comma). -/
theorem parse_render_comma (path : List Char) (args : List Arg)
    (hp : trim path ≠ []) (hk : ∀ a ∈ args, trim a.1 ≠ [])
    (hb : ∀ c ∈ components path args, endsBs c = false) :
    pluginParser (render path args ++ [',']) = .ok (trim path, args.map trimArg) := by
  have := parse_render_gen false true path args hp hk (compsOk_of_all _ _ hb)
  simpa [render] using this

/-- A key without `=` has an empty value: the round trip also holds when every argument whose value is
    empty is written as the bare `KEY`. -/
theorem parse_render_bare (path : List Char) (args : List Arg)
    (hp : trim path ≠ []) (hk : ∀ a ∈ args, trim a.1 ≠ [])
    (hb : ∀ c ∈ (components path args).dropLast, endsBs c = false) :
    pluginParser (renderBare path args) = .ok (trim path, args.map trimArg) := by
  have := parse_render_gen true false path args hp hk (compsOk_of_dropLast _ hb)
  simpa [renderBare] using this

/-- bare keys and one trailing comma -/
theorem parse_render_bare_comma (path : List Char) (args : List Arg)
    (hp : trim path ≠ []) (hk : ∀ a ∈ args, trim a.1 ≠ [])
    (hb : ∀ c ∈ components path args, endsBs c = false) :
    pluginParser (renderBare path args ++ [',']) = .ok (trim path, args.map trimArg) := by
  have := parse_render_gen true true path args hp hk (compsOk_of_all _ _ hb)
  simpa [renderBare] using this

/-- `PATH,KEY` : the key gets the empty value (instance of `parse_render_bare`; a key that is the last
    thing written could even end in a backslash, which this corollary does not cover) -/
theorem key_without_eq (path key : List Char) (hp : trim path ≠ []) (hk : trim key ≠ [])
    (hb : endsBs path = false ∧ endsBs key = false) :
    pluginParser (escape path ++ ',' :: escape key) = .ok (trim path, [(trim key, [])]) := by
  have := parse_render_bare path [(key, [])] hp (by simpa using hk) (by simpa [components] using hb)
  simpa [renderBare, renderArgs, renderArg, trimArg, trim_nil] using this

/-- the single-pass parser with look-ahead and mutable state computes, on EVERY string, exactly what the
    independent multi-pass reference does: un-escape, ignore one trailing comma, split at the unescaped
    commas, split each argument at its first unescaped `=`, reject a second one, trim, reject an empty
    path or key — same value, same error kind. -/
theorem parser_eq_spec (s : List Char) : pluginParser s = specParser s := by
  rw [pluginParser_eq_scanU]
  unfold specParser
  have h := scanU_path (dropTrailingComma (tokenize s)) []
  cases hs : scanU (.path []) (dropTrailingComma (tokenize s)) with
  | error e =>
    rw [hs] at h
    cases ha : specArgs (splitCommas (dropTrailingComma (tokenize s))).2 with
    | error e' => rw [ha] at h; simp [Except.map] at h; simp [h, ha]
    | ok as => rw [ha] at h; simp [Except.map] at h
  | ok st =>
    rw [hs] at h
    cases ha : specArgs (splitCommas (dropTrailingComma (tokenize s))).2 with
    | error e' => rw [ha] at h; simp [Except.map] at h
    | ok as =>
      rw [ha] at h
      simp only [Except.map, List.nil_append] at h
      have h' : st.fin = ((splitCommas (dropTrailingComma (tokenize s))).1.map Tok.char, as) := by
        injection h
      simp only [finish_eq, h', ha]

/-- Rejection, characterised for EVERY string. With the un-escaped text cut at its unescaped commas (one
    trailing comma ignored) into a path piece and argument pieces, the parser rejects exactly when some
    argument piece has a second unescaped `=`, or the trimmed path is empty, or the trimmed key (the text
    before the first unescaped `=`) of some argument piece is empty. Everything else is accepted. -/
theorem rejects_iff (s : List Char) :
    (∃ e, pluginParser s = .error e) ↔
      ((∃ seg ∈ (splitCommas (dropTrailingComma (tokenize s))).2, 2 ≤ seg.count .eq) ∨
       trim ((splitCommas (dropTrailingComma (tokenize s))).1.map Tok.char) = [] ∨
       (∃ seg ∈ (splitCommas (dropTrailingComma (tokenize s))).2, trim (segKey seg) = [])) := by
  rw [parser_eq_spec]
  unfold specParser
  dsimp only
  cases ha : specArgs (splitCommas (dropTrailingComma (tokenize s))).2 with
  | error e =>
    have := specArgs_error _ _ ha
    exact ⟨fun _ => Or.inl this.2, fun _ => ⟨e, rfl⟩⟩
  | ok as =>
    obtain ⟨hno, has⟩ := specArgs_ok _ _ ha
    have hkeys : (∃ a ∈ as.map trimArg, a.1 = []) ↔
        ∃ seg ∈ (splitCommas (dropTrailingComma (tokenize s))).2, trim (segKey seg) = [] := by
      subst has
      constructor
      · rintro ⟨a, hm, h⟩
        obtain ⟨b, hb, rfl⟩ := List.mem_map.1 hm
        obtain ⟨seg, hs, rfl⟩ := List.mem_map.1 hb
        exact ⟨seg, hs, h⟩
      · rintro ⟨seg, hs, h⟩
        exact ⟨trimArg (segKey seg, segVal seg), List.mem_map.2 ⟨_, List.mem_map.2 ⟨seg, hs, rfl⟩, rfl⟩, h⟩
    dsimp only
    by_cases h1 : trim ((splitCommas (dropTrailingComma (tokenize s))).1.map Tok.char) = []
    · rw [if_pos h1]; exact ⟨fun _ => Or.inr (Or.inl h1), fun _ => ⟨_, rfl⟩⟩
    · rw [if_neg h1]
      by_cases h2 : ∃ a ∈ as.map trimArg, a.1 = []
      · rw [if_pos h2]; exact ⟨fun _ => Or.inr (Or.inr (hkeys.1 h2)), fun _ => ⟨_, rfl⟩⟩
      · rw [if_neg h2]
        constructor
        · rintro ⟨e, he⟩; cases he
        · rintro (⟨seg, hm, hc⟩ | h | h)
          · exact absurd hc (hno seg hm)
          · exact absurd h h1
          · exact absurd (hkeys.2 h) h2

/-! ## non-vacuity and the excluded cases (character lists written out: `decide` evaluates the model) -/

/-- the example of the option's help text: `/p/gen,arg1=value1,arg2 = value2,arg3,` -/
example : pluginParser ['/', 'p', '/', 'g', 'e', 'n', ',', 'a', 'r', 'g', '1', '=', 'v', 'a', 'l', 'u', 'e', '1', ',', 'a', 'r', 'g', '2', ' ', '=', ' ', 'v', 'a', 'l', 'u', 'e', '2', ',', 'a', 'r', 'g', '3', ','] =
    .ok (['/', 'p', '/', 'g', 'e', 'n'], [(['a', 'r', 'g', '1'], ['v', 'a', 'l', 'u', 'e', '1']), (['a', 'r', 'g', '2'], ['v', 'a', 'l', 'u', 'e', '2']), (['a', 'r', 'g', '3'], [])]) := by decide

/-- a round trip with separators, backslashes and Unicode whitespace inside and around components:
    path `␠a,b=\c<U+00A0>`, arguments `<U+3000>k=` ↦ `\,v␠` and `x\y` ↦ empty -/
example : pluginParser (render [' ', 'a', ',', 'b', '=', '\\', 'c', '\u00A0'] [(['\u3000', 'k', '='], ['\\', ',', 'v', ' ']), (['x', '\\', 'y'], [])]) =
    .ok (['a', ',', 'b', '=', '\\', 'c'], [(['k', '='], ['\\', ',', 'v']), (['x', '\\', 'y'], [])]) := by decide

/-- the hypotheses of `parse_render` are satisfiable with every kind of character involved -/
example : trim [' ', 'a', ',', 'b', '=', '\\', 'c', '\u00A0'] ≠ [] ∧
    (∀ c ∈ (components ['p', '\\', 'q'] [(['k', ','], ['=', 'v', '\\'])]).dropLast, endsBs c = false) := by
  decide

/-- a last component ending in a backslash does round-trip … -/
example : pluginParser (render ['p'] [(['k'], ['v', '\\'])]) = .ok (['p'], [(['k'], ['v', '\\'])]) := by decide

/-- … but not with a trailing comma (the backslash is consumed as the escape of that comma), -/
example : pluginParser (render ['p'] [(['k'], ['v', '\\'])] ++ [',']) = .ok (['p'], [(['k'], ['v', ','])]) := by decide

/-- and neither a path, a key nor a non-final value ending in a backslash is read back: the side
    condition of `parse_render` excludes exactly the components the syntax cannot express. -/
example : pluginParser (render ['p', '\\'] [(['k'], ['v'])]) = .ok (['p', ',', 'k', '=', 'v'], []) := by decide
example : pluginParser (render ['p'] [(['k', '\\'], ['v'])]) = .ok (['p'], [(['k', '=', 'v'], [])]) := by decide
example : pluginParser (render ['p'] [(['k'], ['v', '\\']), (['l'], ['w'])]) = .error .secondEq := by decide

/-- the three rejections, and the escaped `=` that is not one -/
example : pluginParser [' ', '\t', ',', 'k', '=', 'v'] = .error .missingPath := by decide
example : pluginParser ['p', ',', ' ', '=', 'v'] = .error .missingKey := by decide
example : pluginParser ['p', ',', 'k', '=', 'v', '=', 'w'] = .error .secondEq := by decide
example : pluginParser ['p', ',', 'k', '=', 'v', '\\', '=', 'w'] = .ok (['p'], [(['k'], ['v', '=', 'w'])]) := by decide

/-- `=` is an ordinary character of the path; only the *last* character is an ignorable comma -/
example : pluginParser ['a', '=', 'b', ',', ','] = .error .missingKey := by decide
example : pluginParser ['a', '=', 'b', ','] = .ok (['a', '=', 'b'], []) := by decide

/-- `rejects_iff` is not vacuous on either side -/
example : (∃ e, pluginParser ['p', ',', '='] = .error e) ∧ ¬ (∃ e, pluginParser ['p', ',', 'k', '='] = .error e) := by
  constructor
  · exact ⟨.missingKey, by decide⟩
  · rintro ⟨e, he⟩; revert he; cases e <;> decide

/-! ## what an accepted specification looks like, and the writer seen from the parser's side -/

/-- Whatever string is accepted, the value handed on is in normal form: the path is non-empty and has no
    surrounding white space, every key is non-empty, and keys and values have no surrounding white space
    (`Normal`, Lemmas/PluginSpecNormal.lean). For EVERY string — the converse reading of the rejection
    clause: no string at all makes the parser hand on an empty path or an empty key. -/
theorem accepted_is_normal (s : List Char) (r : List Char × List Arg) (h : pluginParser s = .ok r) :
    Normal r := pluginParser_ok_normal s r h

/-- the rejection clause stated on the result: an accepted specification never carries an empty path or an
    empty key -/
theorem never_accepts_empty_path_or_key (s : List Char) (r : List Char × List Arg) (h : pluginParser s = .ok r) :
    r.1 ≠ [] ∧ ∀ a ∈ r.2, a.1 ≠ [] :=
  ⟨(accepted_is_normal s r h).1, fun a ha => ((accepted_is_normal s r h).2.2 a ha).1⟩

/-- Writing back what was read is a fixed point: if ANY string `s` is accepted with path `p` and arguments
    `as`, then rendering `p`, `as` and parsing again yields exactly `p`, `as` — nothing is trimmed or
    re-split a second time — provided no component other than the last ends in a backslash (the one
    thing the syntax cannot write, see above). -/
theorem reparse_fixed_point (s : List Char) (p : List Char) (as : List Arg)
    (h : pluginParser s = .ok (p, as))
    (hb : ∀ c ∈ (components p as).dropLast, endsBs c = false) :
    pluginParser (render p as) = .ok (p, as) := by
  obtain ⟨hne, htp, hargs⟩ := accepted_is_normal s (p, as) h
  have := parse_render p as (by rw [htp]; exact hne) (trim_key_of_normal as hargs) hb
  rw [this]
  simp only at htp
  rw [htp, map_trimArg_of_normal as hargs]

/-- The writer is injective on normal forms: two different (path, arguments) values in normal form are
    never written as the same specification string (under the backslash side condition on both). -/
theorem render_injective (p p' : List Char) (as as' : List Arg)
    (hn : Normal (p, as)) (hn' : Normal (p', as'))
    (hb : ∀ c ∈ (components p as).dropLast, endsBs c = false)
    (hb' : ∀ c ∈ (components p' as').dropLast, endsBs c = false)
    (h : render p as = render p' as') : p = p' ∧ as = as' := by
  obtain ⟨hne, htp, hargs⟩ := hn
  obtain ⟨hne', htp', hargs'⟩ := hn'
  simp only at htp htp' hne hne' hargs hargs'
  have e1 := parse_render p as (by rw [htp]; exact hne) (trim_key_of_normal as hargs) hb
  have e2 := parse_render p' as' (by rw [htp']; exact hne') (trim_key_of_normal as' hargs') hb'
  rw [h, e2, htp, htp', map_trimArg_of_normal as hargs, map_trimArg_of_normal as' hargs'] at e1
  injection e1 with e1
  injection e1 with e3 e4
  exact ⟨e3.symm, e4.symm⟩

/-- `str::trim` applied twice is `str::trim` (used above; stated here because the property's "trimmed of
    surrounding whitespace" is about it) -/
theorem trim_idempotent (l : List Char) : trim (trim l) = trim l := trim_idem l

/-- non-vacuity: an accepted string whose result meets the side condition, re-rendered and re-parsed -/
example : pluginParser [' ', 'p', ' ', ',', ' ', 'k', '\\', '=', ' ', '=', ' ', 'v', '\\', ',', 'w', ' ', ',', 'x', ','] =
    .ok (['p'], [(['k', '='], ['v', ',', 'w']), (['x'], [])]) := by decide
example : pluginParser (render ['p'] [(['k', '='], ['v', ',', 'w']), (['x'], [])]) =
    .ok (['p'], [(['k', '='], ['v', ',', 'w']), (['x'], [])]) := by decide
/-- without normal form the writer is NOT injective on what is read back (surrounding blanks are lost) -/
example : pluginParser (render [' ', 'p'] []) = pluginParser (render ['p'] []) := by decide

/-- One trailing comma is ignored — for EVERY string, not only rendered ones. If the appended comma is read
    as a separator (it is not swallowed as `\,` by a dangling backslash at the end of `s`: first hypothesis,
    on the un-escaped text) and `s` does not itself end in an unescaped comma (second hypothesis: only ONE
    trailing comma is ignored), then `s,` parses to exactly what `s` parses to — value or error. -/
theorem trailing_comma_ignored (s : List Char)
    (h1 : tokenize (s ++ [',']) = tokenize s ++ [.comma])
    (h2 : (tokenize s).getLast? ≠ some .comma) :
    pluginParser (s ++ [',']) = pluginParser s := by
  rw [pluginParser_eq_scanU, pluginParser_eq_scanU, h1]
  have e1 : dropTrailingComma (tokenize s ++ [.comma]) = tokenize s := by
    simp [dropTrailingComma]
  have e2 : dropTrailingComma (tokenize s) = tokenize s := by
    simp [dropTrailingComma, h2]
  rw [e1, e2]

/-- both hypotheses are needed: a dangling backslash swallows the comma, and a second trailing comma is an
    (empty) argument -/
example : tokenize (['p', ',', 'k'] ++ [',']) = tokenize ['p', ',', 'k'] ++ [.comma] ∧
    (tokenize ['p', ',', 'k']).getLast? ≠ some .comma := by decide
example : pluginParser (['p', '\\'] ++ [',']) ≠ pluginParser ['p', '\\'] := by decide
example : pluginParser (['p', ','] ++ [',']) ≠ pluginParser ['p', ','] := by decide

/-- the same with the first hypothesis replaced by a condition on the text as written: `s` does not end in a
    backslash (then the appended comma cannot be an escaped one — `tokenize_snoc_comma`, for every string). -/
theorem trailing_comma_ignored_of_no_final_backslash (s : List Char)
    (h1 : endsBs s = false) (h2 : (tokenize s).getLast? ≠ some .comma) :
    pluginParser (s ++ [',']) = pluginParser s :=
  trailing_comma_ignored s (tokenize_snoc_comma s h1) h2

end Slicec.C19

#print axioms Slicec.C19.rejects_empty
#print axioms Slicec.C19.parse_render
#print axioms Slicec.C19.parse_render_comma
#print axioms Slicec.C19.parse_render_bare
#print axioms Slicec.C19.parse_render_bare_comma
#print axioms Slicec.C19.key_without_eq
#print axioms Slicec.C19.parser_eq_spec
#print axioms Slicec.C19.rejects_iff
#print axioms Slicec.C19.accepted_is_normal
#print axioms Slicec.C19.never_accepts_empty_path_or_key
#print axioms Slicec.C19.reparse_fixed_point
#print axioms Slicec.C19.render_injective
#print axioms Slicec.C19.trim_idempotent
#print axioms Slicec.C19.trailing_comma_ignored
#print axioms Slicec.C19.trailing_comma_ignored_of_no_final_backslash
