/-
  C15 — Results are reproducible and do not depend on the order of the inputs.
  Route: every use of a hash container in the compiler is order-free (extracted list, obligation
  `hash_uses_order_free`), so the only way the order of the input files can reach a result is the order in
  which they are folded into the name table (and into the list of definitions the validators walk).

  Part 1 (`table_perm` … `resolution_order_independent`): for indexed files whose scoped names are pairwise
  distinct the table is a finite map: permuting the files permutes the table, and every lookup, scope search,
  alias walk and reference resolution is invariant.

  Part 2 (`name_table_order_independent` … `lint_sites_order_independent`): the whole checking pipeline — the model
  `validate` of C04 with its phases and gates, and the lint sites of C13 — composed with part 1. Side condition
  `UniqueKeys P`: different files never declare the same scoped name, except that they may re-open the same module
  (within one file anything goes: a parameter and a return member of the same name, duplicate fields, …). Under it
  the multiset of error codes, hence the verdict, the set of codes and the `codes` projection the harness compares,
  and the multiset of located lint sites (with the level each is emitted with) are the same for every order of the
  files. `unique_keys_needed_*` show what happens without it.

  Part 3 (`accepted_programs_have_unique_keys`, `verdict_order_independent_of_identifiers`): when every declared name is
  an identifier — true of everything a source text can produce — the side condition follows from acceptance (a key shared
  by two files is a redefinition or a definition named like a module, both rejected in every order), so the verdict is
  order independent with no side condition at all; the error *set* of a rejected program is not
  (`unique_keys_needed_for_error_set`).
-/
import SlicecVerif.Lemmas.Perm
import SlicecVerif.Lemmas.PermValidate
import SlicecVerif.Lemmas.PermLints
import SlicecVerif.Lemmas.PermIdent
import SlicecVerif.Lemmas.PermElab
import SlicecVerif.Lemmas.PermPipeline
import SlicecVerif.Props.C04
import SlicecVerif.Gen.HashUses

namespace Slicec.C15

open Slicec Slicec.Validate

/-- methods whose result cannot depend on the iteration order of a hash container -/
def orderFree : List String :=
  ["insert", "get", "get_mut", "contains", "contains_key", "entry", "remove", "clone", "is_empty", "len", "extend", "retain",
   -- capacity management and whole-container operations: no element order can be observed through them
   "reserve", "try_reserve", "shrink_to_fit", "shrink_to", "capacity", "clear",
   -- keyed access / set predicates whose result is a function of the *set* of elements
   "get_key_value", "remove_entry", "take", "replace", "get_or_insert_with", "is_subset", "is_superset", "is_disjoint"]

/-- every method the compiler calls on a HashMap / HashSet (list regenerated from slicec/src on every run)
    is order-free: no iteration, no `keys`/`values`/`drain`/`for … in map` can leak a hash order into a result. -/
theorem hash_uses_order_free : ∀ u ∈ Gen.hashUses, orderFree.contains u.2.2 = true := by decide

/-- the name table built from indexed files (each file keeps its identity when the list is permuted) -/
def buildTableIdx (fs : List (SFile × Nat)) : Table := primTable ++ fs.flatMap fun (f, i) => fileEntries i f

theorem buildTable_eq (p : Program) : buildTable p = buildTableIdx p.zipIdx := rfl

/-- listing the files in a different order permutes the table and nothing else. -/
theorem table_perm (fs1 fs2 : List (SFile × Nat)) (h : fs1.Perm fs2) : (buildTableIdx fs1).Perm (buildTableIdx fs2) :=
  List.Perm.append_left _ (h.flatMap_right _)

/-- with pairwise distinct scoped names, a lookup does not depend on the order of the files. -/
theorem lookup_order_independent (fs1 fs2 : List (SFile × Nat)) (h : fs1.Perm fs2)
    (hnd : (buildTableIdx fs1).keys.Nodup) (k : String) :
    (buildTableIdx fs1).find k = (buildTableIdx fs2).find k :=
  Table.find_perm _ _ (table_perm fs1 fs2 h) hnd k

/-- … nor does the outward scope search … -/
theorem scope_search_order_independent (fs1 fs2 : List (SFile × Nat)) (h : fs1.Perm fs2)
    (hnd : (buildTableIdx fs1).keys.Nodup) (id scope : String) :
    findNodeWithScope (buildTableIdx fs1) id scope = findNodeWithScope (buildTableIdx fs2) id scope :=
  findNodeWithScope_perm _ _ (table_perm fs1 fs2 h) hnd id scope

/-- … nor the resolution of any type reference, base or underlying type, through alias chains of any
    length (the bound definition, the accumulated attributes, and the error if there is one). -/
theorem resolution_order_independent (fs1 fs2 : List (SFile × Nat)) (h : fs1.Perm fs2)
    (hnd : (buildTableIdx fs1).keys.Nodup) (w : Want) (id scope : String) :
    resolveNamed (buildTableIdx fs1) w id scope = resolveNamed (buildTableIdx fs2) w id scope :=
  resolveNamed_perm _ _ (table_perm fs1 fs2 h) hnd w id scope


/-! ## Part 2: the checking pipeline and the lints under a permutation of the files

`P.Perm P'`: the same files in another order. `UniqueKeys P` (Lemmas/PermTable.lean, decidable): for any two different
files of `P`, a scoped name declared by a definition of one of them (the definition itself or one of its fields,
operations, parameters, return members, enumerators) is declared nowhere in the other — neither by a definition nor as
its module. Two files may declare the same module, with different attributes. -/

/-- the side condition does not depend on the order either -/
theorem uniqueKeys_perm (P P' : Program) (hp : P.Perm P') : UniqueKeys P ↔ UniqueKeys P' :=
  ⟨UniqueKeys.perm hp, UniqueKeys.perm hp.symm⟩

/-- **the name table.** The tables built from the files in the two orders answer every lookup with the same node — same
    kind, key, module scope, identifier, alias target, primitive and attributes (`NodeInfo.norm` forgets only the index of
    the declaring file, which the permutation changes, and the attributes of a module declaration, which no consumer
    reads) — and hold the same number of aliases. Unlike `lookup_order_independent` this is about `buildTable` itself
    (files re-indexed by position) and needs no globally distinct keys: shared modules and clashes inside one file are
    allowed. -/
theorem name_table_order_independent (P P' : Program) (hp : P.Perm P') (hu : UniqueKeys P) :
    (∀ k, ((buildTable P).find k).map NodeInfo.norm = ((buildTable P').find k).map NodeInfo.norm) ∧
    numAliases (buildTable P) = numAliases (buildTable P') :=
  buildTable_sim P P' hp hu

/-- **resolution.** Every reference (type position, base interface, underlying type), written in any scope, resolves in the
    two orders to the same thing: the same error, or the same node (up to `norm`) / written type expression with the same
    attributes accumulated along the alias chain. -/
theorem resolution_order_independent_files (P P' : Program) (hp : P.Perm P') (hu : UniqueKeys P) (w : Want) (id scope : String) :
    (resolveNamed (buildTable P) w id scope).map normR = (resolveNamed (buildTable P') w id scope).map normR :=
  resolveNamed_sim _ _ (buildTable_sim P P' hp hu) w id scope

/-- **definitions by key.** The definition a scoped name denotes for the validators (last writer wins) is the same. -/
theorem definition_lookup_order_independent (P P' : Program) (hp : P.Perm P') (hu : UniqueKeys P) (key : String) :
    findDef P key = findDef P' key :=
  findDef_perm P P' hp hu key

/-- **the cycle gate** gives the same answer in both orders (same dependency edges, same reachability). -/
theorem cycle_gate_order_independent (P P' : Program) (hp : P.Perm P') (hu : UniqueKeys P) : hasCycle P = hasCycle P' :=
  hasCycle_perm P P' hp hu

/-- **the redefinition scan** reports the same multiset of codes in both orders — without any side condition (the hash-map
    scan reports one code per repeated name whatever the order in which the names are met). -/
theorem redefinition_scan_order_independent (P P' : Program) (hp : P.Perm P') : (namesRule.codes P).Perm (namesRule.codes P') :=
  names_codes_perm P P' hp

/-- **the visitor rules.** For every rule of the validating visitor, the contexts it is applied to in the permuted program
    are a permutation of the contexts in the original — including everything in a context that was computed through the
    name table or the definitions: resolved underlying types of enums, attributes inherited through aliases, the inherited
    operations of an interface (transitive bases), the key-type environment of the dictionary-key rule. -/
theorem rule_contexts_order_independent (b : Bool) (P P' : Program) (hp : P.Perm P') (hu : UniqueKeys P) :
    ∀ r ∈ visitorRules b, (r.ctxs P).Perm (r.ctxs P') :=
  visitor_ctxs_perm b P P' hp hu

/-- **the error codes.** The codes reported for the permuted program are a permutation of the codes reported for the
    original: the same phase is the first to report (parse-time checks, attributes, resolution, cycle gate, redefinitions,
    visitor) and it reports the same codes the same number of times. -/
theorem error_codes_order_independent (P P' : Program) (hp : P.Perm P') (hu : UniqueKeys P) : (validate P).Perm (validate P') :=
  validate_perm P P' hp hu

/-- **the verdict does not depend on the order of the files**: the program is accepted in one order exactly when it is
    accepted in the other. -/
theorem verdict_order_independent (P P' : Program) (hp : P.Perm P') (hu : UniqueKeys P) : validate P = [] ↔ validate P' = [] := by
  have h := validate_perm P P' hp hu
  constructor
  · intro e; rw [e] at h; exact (List.Perm.nil_eq h).symm
  · intro e; rw [e] at h; exact h.eq_nil

/-- **the set of error codes does not depend on the order of the files** (for a rejected program: which codes it is
    rejected with). -/
theorem error_set_order_independent (P P' : Program) (hp : P.Perm P') (hu : UniqueKeys P) (c : String) :
    c ∈ validate P ↔ c ∈ validate P' :=
  (validate_perm P P' hp hu).mem_iff

/-- … and so the `codes` projection the `compile` engine compares (sorted set of codes, `-` when empty) is the same string. -/
theorem codes_projection_order_independent (P P' : Program) (hp : P.Perm P') (hu : UniqueKeys P) :
    codesProjection (validate P) = codesProjection (validate P') :=
  codesProjection_perm_eq (validate_perm P P' hp hu)

/-- the same on the specification side (C04 `accept_iff`): well-formedness — every language rule of the property — does not
    depend on the order of the files. -/
theorem wellFormed_order_independent (P P' : Program) (hp : P.Perm P') (hu : UniqueKeys P) : WellFormed P ↔ WellFormed P' := by
  rw [← C04.accept_iff, ← C04.accept_iff]
  exact verdict_order_independent P P' hp hu

/-- **the compiled content.** The canonical dump of a file (C02's `fileS`: every element with its attributes, tags, enumerator
    values, and every type reference, base and underlying type with the definition it was bound to and the attributes
    collected through aliases) is the same string whatever the order of the files; the dump of the permuted program consists
    of the same per-file dumps, permuted. -/
theorem compiled_content_order_independent (P P' : Program) (hp : P.Perm P') (hu : UniqueKeys P) :
    (∀ f, fileS (buildTable P) f = fileS (buildTable P') f) ∧
    (P.map (fileS (buildTable P))).Perm (P'.map (fileS (buildTable P'))) :=
  fileS_perm P P' hp hu

/-- **the warnings.** A lint site records the *position* of its file in the input list, which the permutation changes;
    `LintSite.located` replaces the position by the file itself. The located lint sites of the permuted program — which lint,
    in which file, about which element, with which recorded scope, `allow` chain and place in the file — are a permutation of
    those of the original: the multiset of lints the compiler records does not depend on the order of the files. -/
theorem lint_sites_order_independent (P P' : Program) (hp : P.Perm P') (hu : UniqueKeys P) :
    ((lintSites P).map (LintSite.located P)).Perm ((lintSites P').map (LintSite.located P')) :=
  lintSites_located_perm P P' hp hu

/-- **the emitted warnings.** … and each of them is emitted with the same level (`warning` or `allowed`) in both orders, once
    `into_updated` has applied the `--allow` values of the command line (`cli`, any), the `allow` attributes of the file the
    lint lies in, and the `allow` attributes of the element the recorded scope string names (looked up in the name table,
    last writer wins): the multiset of (file, lint, level) does not depend on the order of the files. -/
theorem emitted_warnings_order_independent (cli : List String) (P P' : Program) (hp : P.Perm P') (hu : UniqueKeys P) :
    ((lintSites P).map fun s => (s.located P, emittedLevel cli P s)).Perm
      ((lintSites P').map fun s => (s.located P', emittedLevel cli P' s)) :=
  lintLevels_perm cli P P' hp hu

/-- in particular the number of lints of each kind is the same -/
theorem lint_kinds_order_independent (P P' : Program) (hp : P.Perm P') (hu : UniqueKeys P) :
    ((lintSites P).map (·.kind)).Perm ((lintSites P').map (·.kind)) := by
  have h := (lintSites_located_perm P P' hp hu).map (fun x => x.2.kind)
  simpa [List.map_map, Function.comp_def, LintSite.located, LintSite.setFile] using h

/-! ## Part 3: the verdict without the side condition

`IdentNames P` (Lemmas/PermIdent.lean, decidable): every name a definition declares (its own, its members', their
members') is a non-empty string without `:`; every module path is a `::`-separated non-empty list of such strings. The
lexer produces nothing else. -/

/-- the side condition in terms of definitions only. `DistinctDefinitions P`: every file with definitions has a module
    declaration, no two definitions share a fully-scoped name, and no definition shares its fully-scoped name with a module
    the program declares or encloses (`module A::B::C` declares `A`, `A::B`, `A::B::C`) — the three things the parse-time
    module check and the redefinition scan of the global scope enforce. -/
def DistinctDefinitions (P : Program) : Prop :=
  (∀ f ∈ P, f.defs ≠ [] → f.module.isSome = true) ∧ ((allDefs P).map defKey).Nodup ∧
  ∀ x ∈ (allDefs P).map defKey, x ∉ modulePrefixes P

instance (P : Program) : Decidable (DistinctDefinitions P) := by unfold DistinctDefinitions; infer_instance

/-- **with identifiers as names, distinct definitions give unique keys**: the keys of members (`M::S::x`) live below the key
    of their definition, so two files can only share a key when they share a definition key or when the module path of one
    runs through a definition key of the other. -/
theorem uniqueKeys_of_distinct_definitions (P : Program) (hid : IdentNames P) (h : DistinctDefinitions P) : UniqueKeys P :=
  uniqueKeys_of_names P hid h.1 h.2.1 h.2.2

/-- … so for such programs — accepted or rejected for any other reason — the multiset of error codes does not depend on the
    order of the files. -/
theorem error_codes_order_independent_of_distinct_definitions (P P' : Program) (hp : P.Perm P') (hid : IdentNames P)
    (h : DistinctDefinitions P) : (validate P).Perm (validate P') :=
  validate_perm P P' hp (uniqueKeys_of_distinct_definitions P hid h)

/-- **an accepted program has unique keys** (names being identifiers): if two different files declare the same scoped name,
    then either both define it (same module path, same definition name) or a definition of one file has the scoped name of
    a module the other declares or encloses — the redefinition rule rejects both. More precisely the parse-time rules
    (a file with definitions has a module declaration) and the redefinition rule suffice. -/
theorem accepted_programs_have_unique_keys (P : Program) (hid : IdentNames P) (h : validate P = []) : UniqueKeys P := by
  have hw := (C04.accept_iff P).mp h
  exact uniqueKeys_of_rules P hid hw.1 (hw.2 namesRule (by simp [gatedRules]))

/-- **the verdict does not depend on the order of the files — no side condition**: for every program whose names are
    identifiers, and every order of its files, the program is accepted in one order exactly when it is in the other. -/
theorem verdict_order_independent_of_identifiers (P P' : Program) (hp : P.Perm P') (hid : IdentNames P) :
    validate P = [] ↔ validate P' = [] := by
  constructor
  · intro h
    exact (verdict_order_independent P P' hp (accepted_programs_have_unique_keys P hid h)).mp h
  · intro h
    exact (verdict_order_independent P' P hp.symm (accepted_programs_have_unique_keys P' (hid.perm hp) h)).mp h

/-- for an accepted program nothing else depends on the order either: the lints and the levels they are emitted with -/
theorem accepted_warnings_order_independent (cli : List String) (P P' : Program) (hp : P.Perm P') (hid : IdentNames P)
    (h : validate P = []) :
    validate P' = [] ∧
    ((lintSites P).map fun s => (s.located P, emittedLevel cli P s)).Perm
      ((lintSites P').map fun s => (s.located P', emittedLevel cli P' s)) :=
  ⟨(verdict_order_independent_of_identifiers P P' hp hid).mp h,
   lintLevels_perm cli P P' hp (accepted_programs_have_unique_keys P hid h)⟩

/-- **the second sentence of the property, on the model, without side condition.** For every program whose names are
    identifiers, every order `P'` of its files and every list `cli` of `--allow` values: listing the files in a different
    order does not change whether the program is accepted, and for an accepted program changes neither any file's
    compiled content nor the multiset of warnings (each with the file it lies in and the level it is emitted with). -/
theorem input_order_independent (cli : List String) (P P' : Program) (hp : P.Perm P') (hid : IdentNames P) :
    (validate P = [] ↔ validate P' = []) ∧
    (validate P = [] →
      (∀ f, fileS (buildTable P) f = fileS (buildTable P') f) ∧
      ((lintSites P).map fun s => (s.located P, emittedLevel cli P s)).Perm
        ((lintSites P').map fun s => (s.located P', emittedLevel cli P' s))) :=
  ⟨verdict_order_independent_of_identifiers P P' hp hid,
   fun h => ⟨(fileS_perm P P' hp (accepted_programs_have_unique_keys P hid h)).1,
             lintLevels_perm cli P P' hp (accepted_programs_have_unique_keys P hid h)⟩⟩

/-- a program rejected by the parse-time checks (literals, tags, return tuples, missing module declaration) or by attribute
    patching is rejected with the same codes in every order, without any side condition: these phases never consult the
    name table. (The redefinition scan is order independent as well, `redefinition_scan_order_independent`; what can depend
    on the order for a program with a cross-file key clash are the two phases in between, resolution and the cycle gate —
    `unique_keys_needed_for_error_set`.) -/
theorem early_rejection_order_independent (P P' : Program) (hp : P.Perm P') (h : parseCodes P ≠ [] ∨ attrPatchRule.codes P ≠ []) :
    (validate P).Perm (validate P') :=
  validate_perm_early P P' hp h

/-! ## Part 4: the COMPLETE verdict (`validateFull`, Model/Pipeline.lean)

`validate` is not the compiler's complete verdict: the parser's E017 for bases / underlying types that are not names, the alias
gate (E019) and the interface-inheritance check (E032) of `detect_cycles` are phases of `validateFull` only. Their models (C05)
number aliases, anonymous types and interfaces by POSITION in AST order, which a permutation of the files changes; the
theorems below show that their verdicts do not. -/

/-- the shape check is per file: its codes — with the other parse-time codes — are permuted with the files (no side condition) -/
theorem parse_phase_full_order_independent (P P' : Program) (hp : P.Perm P') : (parseCodesFull P).Perm (parseCodesFull P') :=
  parseCodesFull_perm hp

/-- **the inheritance check, position-free.** With pairwise distinct definition keys, the inheritance graph on positions
    (`Cyc.igraphOfProgram`, what `check_interface_for_inheritance_cycles` is modelled on) has a loop exactly when the graph
    on KEYS has one — `b` is a step from `a` when `b` is the scoped name of an interface a base of the interface named `a`
    denotes (`Validate.directBases`, the by-name graph the shadowing rule walks). -/
theorem inheritance_loop_iff_key_loop (P : Program) (hnd : ((allDefs P).map defKey).Nodup) :
    (∃ i, Cyc.EReach (Cyc.igEdges (Cyc.igraphOfProgram P)) i i) ↔ ∃ a, KReach (BaseStep P) a a :=
  igraph_loop_iff_key_loop P hnd

/-- … and the graph on keys is the same relation for every order of the files: the inheritance check reports nothing in one
    order exactly when it reports nothing in the other. -/
theorem inheritance_check_order_independent (P P' : Program) (hp : P.Perm P') (hu : UniqueKeys P)
    (hnd : ((allDefs P).map defKey).Nodup) :
    Cyc.ifaceLoopErrors (Cyc.igraphOfProgram P) = [] ↔ Cyc.ifaceLoopErrors (Cyc.igraphOfProgram P') = [] :=
  ifaceLoop_nil_perm P P' hp hu hnd

/-- **the alias gate, position-free.** In a program `validate` accepts, `revisits_anonymous_type` reports no alias exactly
    when the flattening descent into the underlying type of every alias definition ends (`trefWithin`: through the written
    anonymous types and, where a name resolves through aliases to a written type, on into that type — a function of the
    name table only, no positions). "Silent ⇒ the descent is bounded" is C08's `accepted_descent_is_bounded`; the converse —
    a reachable cycle of anonymous types carries walks of every length, and the descent follows every walk — is new. -/
theorem alias_gate_iff_descent_ends (P : Program) (hacc : validate P = []) :
    Cyc.aliasGateErrors P = [] ↔ ∀ a ∈ Cyc.aliasDefs P, ∃ F, trefWithin (buildTable P) a.2.1 F a.2.2 = true :=
  gate_silent_iff_bounded P hacc

/-- … and the descent is the same function on the tables of both orders: the alias gate is silent in one order exactly when it
    is silent in the other (programs `validate` accepts — in one order, hence in both). -/
theorem alias_gate_order_independent (P P' : Program) (hp : P.Perm P') (hu : UniqueKeys P) (hacc : validate P = []) :
    Cyc.aliasGateErrors P = [] ↔ Cyc.aliasGateErrors P' = [] :=
  aliasGate_nil_perm P P' hp hu hacc ((verdict_order_independent P P' hp hu).mp hacc)

/-- **the complete verdict does not depend on the order of the files**, under the side condition `UniqueKeys`. -/
theorem verdict_full_order_independent (P P' : Program) (hp : P.Perm P') (hu : UniqueKeys P) :
    validateFull P = [] ↔ validateFull P' = [] :=
  ⟨validateFull_nil_perm P P' hp hu, validateFull_nil_perm P' P hp.symm (hu.perm hp)⟩

/-- **the complete verdict does not depend on the order of the files — no side condition**: for every program whose names are
    identifiers (everything a source text can denote) and every order of its files, the complete front end — parser checks
    incl. the shape of bases and underlying types, attribute patching, resolution, alias gate, inheritance and containment
    cycles, redefinitions, validating visitor — accepts in one order exactly when it accepts in the other. -/
theorem verdict_full_order_independent_of_identifiers (P P' : Program) (hp : P.Perm P') (hid : IdentNames P) :
    validateFull P = [] ↔ validateFull P' = [] := by
  constructor
  · intro h
    exact validateFull_nil_perm P P' hp (accepted_programs_have_unique_keys P hid (C04.accepted_full_accepted P h)) h
  · intro h
    exact validateFull_nil_perm P' P hp.symm
      (accepted_programs_have_unique_keys P' (hid.perm hp) (C04.accepted_full_accepted P' h)) h

/-- the same on the specification side (C04 `accept_iff_full`) -/
theorem wellFormedFull_order_independent (P P' : Program) (hp : P.Perm P') (hid : IdentNames P) :
    WellFormedFull P ↔ WellFormedFull P' := by
  rw [← C04.accept_iff_full, ← C04.accept_iff_full]
  exact verdict_full_order_independent_of_identifiers P P' hp hid

/-- **the second sentence of the property for the complete front end.** For every program whose names are identifiers, every
    order `P'` of its files and every list `cli` of `--allow` values: the complete verdict is the same, and for an accepted
    program every file's compiled content and the multiset of warnings (each with its file and emitted level) are. -/
theorem input_order_independent_full (cli : List String) (P P' : Program) (hp : P.Perm P') (hid : IdentNames P) :
    (validateFull P = [] ↔ validateFull P' = []) ∧
    (validateFull P = [] →
      (∀ f, fileS (buildTable P) f = fileS (buildTable P') f) ∧
      ((lintSites P).map fun s => (s.located P, emittedLevel cli P s)).Perm
        ((lintSites P').map fun s => (s.located P', emittedLevel cli P' s))) :=
  ⟨verdict_full_order_independent_of_identifiers P P' hp hid,
   fun h => ((input_order_independent cli P P' hp hid).2 (C04.accepted_full_accepted P h))⟩

/-- **what the alias gate reports, alias by alias, position-free.** In a program whose alias keys are pairwise distinct and
    whose references resolve — accepted or not —, the number of E019 diagnostics of the alias gate is the number of alias
    definitions into whose underlying type the flattening descent does not end. -/
theorem alias_gate_count_position_free (P : Program) (hnd : ((allDefs P).map defKey).Nodup) (hr : resolveCodes P = []) :
    (Cyc.aliasGateErrors P).length =
      (Cyc.aliasDefs P).countP fun al =>
        @decide (¬ ∃ F, trefWithin (buildTable P) al.2.1 F al.2.2 = true) (Classical.propDecidable _) := by
  rw [aliasGateErrors_length_k P (aliasKeys_nodup_of_defKeys P hnd) (refsOK_of_resolveCodes P hr)]
  apply List.countP_congr
  intro al _
  simp only [decide_eq_true_eq]

/-- … so the alias gate reports the same NUMBER of aliases in every order of the files (it is only reached when the
    references resolve, which then holds in both orders). -/
theorem alias_gate_count_order_independent (P P' : Program) (hp : P.Perm P') (hu : UniqueKeys P)
    (hnd : ((allDefs P).map defKey).Nodup) (hr : resolveCodes P = []) :
    (Cyc.aliasGateErrors P).length = (Cyc.aliasGateErrors P').length :=
  aliasGateErrors_length_perm P P' hp hu hnd hr (by
    have h := resolveCodes_perm P P' hp hu
    rw [hr] at h
    exact (List.Perm.nil_eq h).symm)

/-- the inheritance check reports the same NUMBER of interfaces in every order: the interface definitions whose key lies on a
    loop of the graph on keys -/
theorem inheritance_count_order_independent (P P' : Program) (hp : P.Perm P') (hu : UniqueKeys P)
    (hnd : ((allDefs P).map defKey).Nodup) :
    (Cyc.ifaceLoopErrors (Cyc.igraphOfProgram P)).length = (Cyc.ifaceLoopErrors (Cyc.igraphOfProgram P')).length :=
  ifaceLoopErrors_length_perm P P' hp hu hnd

/-- the multiset of codes of the complete pipeline under `UniqueKeys` ALONE — FULL STATEMENT, not proved. `UniqueKeys` allows
    two definitions of ONE file to share their key (`typealias A = …` twice in a file); C05's models of the alias gate and
    of the inheritance check identify definitions by position AND by key (`idxOf`: the first definition with the key), and
    for such programs the position-free characterisations used below are not available ("programs whose type names are
    unique" is the stated domain of C05). The property does not speak of the codes of a rejected program. -/
def error_codes_full_order_independent : Prop :=
  ∀ P P' : Program, P.Perm P' → UniqueKeys P → (validateFull P).Perm (validateFull P')

/-- **the error codes of the complete pipeline** — what is proved of the statement above: with, in addition, pairwise
    distinct definition keys (`((allDefs P).map defKey).Nodup`, decidable; part of `DistinctDefinitions`), the codes reported for
    the permuted program are a permutation of the codes reported for the original: the same phase is the first to report —
    parser checks incl. the shape of bases / underlying types, attributes, resolution, alias gate, inheritance + containment
    cycles, redefinitions, visitor — and it reports the same codes the same number of times. -/
theorem error_codes_full_order_independent_partial (P P' : Program) (hp : P.Perm P') (hu : UniqueKeys P)
    (hnd : ((allDefs P).map defKey).Nodup) : (validateFull P).Perm (validateFull P') :=
  validateFull_perm P P' hp hu hnd

/-- … in particular for programs whose names are identifiers and whose definitions are distinct (`DistinctDefinitions`) -/
theorem error_codes_full_order_independent_of_distinct_definitions (P P' : Program) (hp : P.Perm P') (hid : IdentNames P)
    (h : DistinctDefinitions P) : (validateFull P).Perm (validateFull P') :=
  validateFull_perm P P' hp (uniqueKeys_of_distinct_definitions P hid h) h.2.1

/-- … hence the same set of codes and the same `codes` projection string the `compile` engine compares -/
theorem codes_projection_full_order_independent (P P' : Program) (hp : P.Perm P') (hu : UniqueKeys P)
    (hnd : ((allDefs P).map defKey).Nodup) :
    (∀ c, c ∈ validateFull P ↔ c ∈ validateFull P') ∧ codesProjection (validateFull P) = codesProjection (validateFull P') :=
  ⟨fun _ => (validateFull_perm P P' hp hu hnd).mem_iff, codesProjection_perm_eq (validateFull_perm P P' hp hu hnd)⟩

/-! ## what happens without `UniqueKeys` -/

def mkFile (m : String) (defs : List Def) : SFile := { fileAttrs := [], module := some ⟨[], m⟩, defs := defs }
def fld (n : String) (t : TyExpr) : Field := { doc := [], attrs := [], tag := none, name := n, ty := .mk [] t false }
def prm (n : String) (t : TyExpr) : Param := { attrs := [], tag := none, name := n, stream := false, ty := .mk [] t false }

/-- `module M  struct S {}` / `module M  interface S {}` / `module M  struct U { f: S }` -/
def clashFiles : List SFile :=
  [mkFile "M" [.struct [] [] false "S" []], mkFile "M" [.iface [] [] "S" [] []], mkFile "M" [.struct [] [] false "U" [fld "f" (.named "S")]]]

/-- **`UniqueKeys` cannot be dropped from `error_set_order_independent`.** Two files define `M::S`, once as a struct and
    once as an interface; a third uses `S` as a field type. The program is rejected in every order (the redefinition rule
    sees the clash in any order — this is what the repairs of D-15a/b achieved for the verdict), but *with which code*
    depends on the last writer of the key: if the interface is parsed last the reference fails to resolve as a type
    (E017, and the compilation stops before the redefinition scan); if the struct is parsed last it resolves and the
    redefinition scan reports E010. -/
theorem unique_keys_needed_for_error_set :
    IdentNames clashFiles ∧ ¬ UniqueKeys clashFiles ∧
    validate [clashFiles[0]!, clashFiles[1]!, clashFiles[2]!] = [code "TypeMismatch"] ∧
    validate [clashFiles[1]!, clashFiles[0]!, clashFiles[2]!] = [code "Redefinition"] := by
  refine ⟨by decide, by decide, by decide +kernel, by decide +kernel⟩

/-- `struct S { t: T }` / `struct S {}` / `struct T { s: S }` / `struct T {}`, all in `module M` -/
def cycleClashFiles : List SFile :=
  [mkFile "M" [.struct [] [] false "S" [fld "t" (.named "T")]], mkFile "M" [.struct [] [] false "S" []],
   mkFile "M" [.struct [] [] false "T" [fld "s" (.named "S")]], mkFile "M" [.struct [] [] false "T" []]]

/-- the cycle gate, too, sees the last writer of a duplicated key: with both empty variants parsed last no cycle is found
    and the redefinitions are reported; with the variants that refer to each other parsed last the cycle is reported and the
    redefinition scan is never reached. Rejected either way. -/
theorem unique_keys_needed_for_error_set_cycle :
    IdentNames cycleClashFiles ∧ ¬ UniqueKeys cycleClashFiles ∧
    validate [cycleClashFiles[0]!, cycleClashFiles[1]!, cycleClashFiles[2]!, cycleClashFiles[3]!] = [code "Redefinition", code "Redefinition"] ∧
    validate [cycleClashFiles[1]!, cycleClashFiles[0]!, cycleClashFiles[3]!, cycleClashFiles[2]!] = [code "InfiniteSizeCycle"] := by
  refine ⟨by decide, by decide, by decide +kernel, by decide +kernel⟩

/-- a "definition" named `S::x` (expressible in the abstract syntax only: the grammar admits no `::` in the name of a
    definition) next to a struct `S` with a field `x`, and a user of `S::x` -/
def oddFiles : List SFile :=
  [mkFile "M" [.struct [] [] false "S::x" []], mkFile "M" [.struct [] [] false "S" [fld "x" (.prim .bool)]],
   mkFile "M" [.struct [] [] false "U" [fld "f" (.named "S::x")]]]

/-- **… nor from `verdict_order_independent`, on the model.** The redefinition rule compares definitions with definitions
    and with modules; it does not compare a *member's* scoped name with a definition's. The only way to make those two
    collide without also tripping the redefinition rule is a definition whose name contains `::` — which no source text
    can produce. On such an abstract program the verdict does depend on the order: the key `M::S::x` is the struct in one
    order and the field (not a type) in the other. For programs that can be written, every key clash between different
    files implies a redefinition or a definition named like a module, which is rejected in every order. -/
theorem unique_keys_needed_for_verdict_on_abstract_syntax :
    ¬ IdentNames oddFiles ∧ ¬ UniqueKeys oddFiles ∧
    validate [oddFiles[1]!, oddFiles[0]!, oddFiles[2]!] = [] ∧
    validate [oddFiles[0]!, oddFiles[1]!, oddFiles[2]!] = [code "TypeMismatch"] := by
  refine ⟨by decide, by decide, by decide +kernel, by decide +kernel⟩

/-- the excluded case of part 1 is real (D-15a): `module A::B` in one file and `struct B` in `module A` of another share
    the key `A::B`; whichever file comes last wins the table, so a reference to `B` resolves to the struct in
    one order and to the module (a type mismatch) in the other. -/
theorem key_clash_is_order_dependent :
    let f1 : SFile := { fileAttrs := [], module := some ⟨[], "A::B"⟩, defs := [.struct [] [] false "X" []] }
    let f2 : SFile := { fileAttrs := [], module := some ⟨[], "A"⟩, defs := [.struct [] [] false "B" []] }
    ((buildTable [f1, f2]).find "A::B").map (·.kind) = some .struct ∧
    ((buildTable [f2, f1]).find "A::B").map (·.kind) = some .module := by
  decide

/-! ## non-vacuity -/

/-- part 1: two files with distinct names -/
example :
    let f1 : SFile := { fileAttrs := [], module := some ⟨[], "M"⟩, defs := [.struct [] [] false "S" []] }
    let f2 : SFile := { fileAttrs := [], module := some ⟨[], "N"⟩, defs := [.custom [] [] "C"] }
    (buildTableIdx [(f1, 0), (f2, 1)]).keys.Nodup := by decide

/-- `module A  struct X { y: B::Y }` — refers to the second file -/
def g1 : SFile := mkFile "A" [.struct [] [] false "X" [fld "y" (.named "B::Y")]]
/-- `module A::B  struct Y { w: ::C::W }  typealias T = X` — refers to the third file, and (outward scope search) to the first -/
def g2 : SFile := mkFile "A::B" [.struct [] [] false "Y" [fld "w" (.named "::C::W")], .alias [] [] "T" (.mk [] (.named "X") false)]
/-- `module C  enum W : uint8 { P }  interface I { op(x: A::B::T) }` — refers to the second file through an alias of the first -/
def g3 : SFile := mkFile "C"
  [.enum [] [] false false "W" (some (.mk [] (.prim .uint8) false)) [{ doc := [], attrs := [], name := "P", fields := none, value := none }],
   .iface [] [] "I" [] [{ doc := [], attrs := [], idempotent := false, name := "op", params := [prm "x" (.named "A::B::T")], ret := .none }]]

/-- a three-file program with references across the files satisfies the side conditions and is accepted in all six orders … -/
example : UniqueKeys [g1, g2, g3] ∧ IdentNames [g1, g2, g3] := by refine ⟨by decide, by decide⟩
example : validate [g1, g2, g3] = [] ∧ validate [g1, g3, g2] = [] ∧ validate [g2, g1, g3] = [] ∧
          validate [g2, g3, g1] = [] ∧ validate [g3, g1, g2] = [] ∧ validate [g3, g2, g1] = [] := by
  refine ⟨by decide +kernel, by decide +kernel, by decide +kernel, by decide +kernel, by decide +kernel, by decide +kernel⟩
/-- … one order follows from another by the theorem -/
example : validate [g2, g1, g3] = [] :=
  (verdict_order_independent [g1, g2, g3] [g2, g1, g3] (List.Perm.swap _ _ _) (by decide)).mp (by decide +kernel)
/-- … without checking the side condition `UniqueKeys`: the names are identifiers -/
example : validate [g3, g1, g2] = [] :=
  (verdict_order_independent_of_identifiers [g1, g2, g3] [g3, g1, g2]
    (List.perm_append_comm (l₁ := [g1, g2]) (l₂ := [g3])) (by decide)).mp (by decide +kernel)
/-- … and it is rejected, whatever the order, without the file the others depend on -/
example : validate [g1, g3] ≠ [] ∧ validate [g3, g1] ≠ [] := by
  refine ⟨by decide +kernel, by decide +kernel⟩

/-- a rejected program with distinct definitions (a reference to a type that does not exist): the side conditions hold, and
    the codes agree in both orders as `error_codes_order_independent_of_distinct_definitions` says -/
example :
    let f1 := mkFile "M" [.struct [] [] false "S" [fld "a" (.named "Nope")]]
    let f2 := mkFile "N" [.custom [] [] "C"]
    IdentNames [f1, f2] ∧ DistinctDefinitions [f1, f2] ∧ validate [f1, f2] = [code "DoesNotExist"] ∧ validate [f2, f1] = [code "DoesNotExist"] := by
  refine ⟨by decide, by decide, by decide +kernel, by decide +kernel⟩

/-- a rejected program under the side condition: a containment cycle through two files, same code in both orders -/
example :
    let f1 := mkFile "M" [.struct [] [] false "S" [fld "a" (.named "T")]]
    let f2 := mkFile "M" [.struct [] [] false "T" [fld "b" (.named "S")]]
    UniqueKeys [f1, f2] ∧ validate [f1, f2] = [code "InfiniteSizeCycle"] ∧ validate [f2, f1] = [code "InfiniteSizeCycle"] := by
  refine ⟨by decide, by decide +kernel, by decide +kernel⟩

/-- the side condition is weaker than "all keys of the table distinct": two files re-open module `M` (here with different
    attributes), and an operation has a parameter and a return member of the same name (accepted by the compiler; two
    entries under the key `M::I::op::a`) -/
def opSameNames : Def :=
  .iface [] [] "I" [] [{ doc := [], attrs := [], idempotent := false, name := "op", params := [prm "a" (.prim .bool)],
                         ret := .tuple [prm "a" (.prim .bool), prm "b" (.prim .bool)] }]
example :
    let f1 : SFile := { fileAttrs := [], module := some ⟨[⟨"cs::x", []⟩], "M"⟩, defs := [opSameNames] }
    let f2 := mkFile "M" [.struct [] [] false "S" []]
    UniqueKeys [f1, f2] ∧ ¬ (buildTable [f1, f2]).keys.Nodup := by
  refine ⟨by decide, by decide⟩
example :
    let f1 := mkFile "M" [opSameNames]
    let f2 := mkFile "M" [.struct [] [] false "S" []]
    UniqueKeys [f1, f2] ∧ ¬ (buildTable [f1, f2]).keys.Nodup ∧ validate [f1, f2] = [] ∧ validate [f2, f1] = [] := by
  refine ⟨by decide, by decide, by decide +kernel, by decide +kernel⟩

/-- lints: a deprecated struct of one file used in two others, one lint per use, located in the using file, in both orders -/
example :
    let f1 := mkFile "M" [.struct [] [⟨"deprecated", []⟩] false "Old" []]
    let f2 := mkFile "M" [.struct [] [] false "A" [fld "x" (.named "Old")]]
    let f3 := mkFile "N" [.struct [] [] false "B" [fld "y" (.named "M::Old")]]
    UniqueKeys [f1, f2, f3] ∧
    (lintSites [f1, f2, f3]).map (fun s => (s.kind, s.file, s.scope)) = [("Deprecated", 1, some "M::A::x"), ("Deprecated", 2, some "N::B::y")] ∧
    (lintSites [f3, f1, f2]).map (fun s => (s.kind, s.file, s.scope)) = [("Deprecated", 0, some "N::B::y"), ("Deprecated", 2, some "M::A::x")] := by
  refine ⟨by decide, by decide +kernel, by decide +kernel⟩

/-! ### the complete verdict -/

/-- `module M  interface A : B {}` / `module M  interface B : A {}`: an inheritance loop across two files -/
def loopFiles : List SFile :=
  [mkFile "M" [.iface [] [] "A" [.mk [] (.named "B") false] []], mkFile "M" [.iface [] [] "B" [.mk [] (.named "A") false] []]]
/-- `module M  typealias A = Sequence<N::B>` / `module N  typealias B = Dictionary<int32, M::A>`: an alias loop across two files -/
def aliasLoopFiles : List SFile :=
  [mkFile "M" [.alias [] [] "A" (.mk [] (.seq (.mk [] (.named "N::B") false)) false)],
   mkFile "N" [.alias [] [] "B" (.mk [] (.dict (.mk [] (.prim .int32) false) (.mk [] (.named "M::A") false)) false)]]

/-- both are accepted by `validate` and rejected by the complete pipeline, in both orders, with the same codes -/
example : validate loopFiles = [] ∧ validateFull loopFiles = [code "InfiniteSizeCycle", code "InfiniteSizeCycle"] ∧
    validateFull loopFiles.reverse = [code "InfiniteSizeCycle", code "InfiniteSizeCycle"] := by
  refine ⟨by decide +kernel, by decide +kernel, by decide +kernel⟩
example : validate aliasLoopFiles = [] ∧
    validateFull aliasLoopFiles = [code "SelfReferentialTypeAliasNeedsConcreteType", code "SelfReferentialTypeAliasNeedsConcreteType"] ∧
    validateFull aliasLoopFiles.reverse = [code "SelfReferentialTypeAliasNeedsConcreteType", code "SelfReferentialTypeAliasNeedsConcreteType"] := by
  refine ⟨by decide +kernel, by decide +kernel, by decide +kernel⟩
/-- the three-file program above is accepted by the complete pipeline in one order, hence — by the theorem — in another -/
example : validateFull [g3, g1, g2] = [] :=
  (verdict_full_order_independent_of_identifiers [g1, g2, g3] [g3, g1, g2]
    (List.perm_append_comm (l₁ := [g1, g2]) (l₂ := [g3])) (by decide)).mp (by decide +kernel)
/-- the multiset theorem applied: the codes of the two loops agree in both orders without evaluating the second order -/
example : (validateFull loopFiles).Perm (validateFull loopFiles.reverse) :=
  error_codes_full_order_independent_partial _ _ (List.reverse_perm _).symm (by decide) (by decide +kernel)
example : (validateFull aliasLoopFiles).Perm (validateFull aliasLoopFiles.reverse) :=
  error_codes_full_order_independent_of_distinct_definitions _ _ (List.reverse_perm _).symm (by decide) (by decide +kernel)
/-- the key-level inheritance graph of the loop: `M::A → M::B → M::A` -/
example : KReach (BaseStep loopFiles) "M::A" "M::A" :=
  .cons (b := "M::B") (by unfold BaseStep; decide +kernel) (.single (by unfold BaseStep; decide +kernel))

end Slicec.C15

#print axioms Slicec.C15.hash_uses_order_free
#print axioms Slicec.C15.buildTable_eq
#print axioms Slicec.C15.table_perm
#print axioms Slicec.C15.lookup_order_independent
#print axioms Slicec.C15.scope_search_order_independent
#print axioms Slicec.C15.resolution_order_independent
#print axioms Slicec.C15.key_clash_is_order_dependent
#print axioms Slicec.C15.uniqueKeys_perm
#print axioms Slicec.C15.name_table_order_independent
#print axioms Slicec.C15.resolution_order_independent_files
#print axioms Slicec.C15.definition_lookup_order_independent
#print axioms Slicec.C15.cycle_gate_order_independent
#print axioms Slicec.C15.redefinition_scan_order_independent
#print axioms Slicec.C15.rule_contexts_order_independent
#print axioms Slicec.C15.error_codes_order_independent
#print axioms Slicec.C15.verdict_order_independent
#print axioms Slicec.C15.error_set_order_independent
#print axioms Slicec.C15.codes_projection_order_independent
#print axioms Slicec.C15.wellFormed_order_independent
#print axioms Slicec.C15.compiled_content_order_independent
#print axioms Slicec.C15.lint_sites_order_independent
#print axioms Slicec.C15.lint_kinds_order_independent
#print axioms Slicec.C15.emitted_warnings_order_independent
#print axioms Slicec.C15.uniqueKeys_of_distinct_definitions
#print axioms Slicec.C15.error_codes_order_independent_of_distinct_definitions
#print axioms Slicec.C15.accepted_programs_have_unique_keys
#print axioms Slicec.C15.verdict_order_independent_of_identifiers
#print axioms Slicec.C15.accepted_warnings_order_independent
#print axioms Slicec.C15.input_order_independent
#print axioms Slicec.C15.early_rejection_order_independent
#print axioms Slicec.C15.unique_keys_needed_for_error_set
#print axioms Slicec.C15.unique_keys_needed_for_error_set_cycle
#print axioms Slicec.C15.unique_keys_needed_for_verdict_on_abstract_syntax
#print axioms Slicec.C15.parse_phase_full_order_independent
#print axioms Slicec.C15.inheritance_loop_iff_key_loop
#print axioms Slicec.C15.inheritance_check_order_independent
#print axioms Slicec.C15.alias_gate_iff_descent_ends
#print axioms Slicec.C15.alias_gate_order_independent
#print axioms Slicec.C15.verdict_full_order_independent
#print axioms Slicec.C15.verdict_full_order_independent_of_identifiers
#print axioms Slicec.C15.wellFormedFull_order_independent
#print axioms Slicec.C15.input_order_independent_full
#print axioms Slicec.C15.alias_gate_count_position_free
#print axioms Slicec.C15.alias_gate_count_order_independent
#print axioms Slicec.C15.inheritance_count_order_independent
#print axioms Slicec.C15.error_codes_full_order_independent_partial
#print axioms Slicec.C15.error_codes_full_order_independent_of_distinct_definitions
#print axioms Slicec.C15.codes_projection_full_order_independent
