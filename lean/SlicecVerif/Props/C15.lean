/-
  C15 — Results are reproducible and do not depend on the order of the inputs.
  Route: every use of a hash container in the compiler is order-free (extracted list, obligation
  `hash_uses_order_free`), so the only way the order of the input files can reach a result is the order in
  which they are folded into the name table. For programs whose scoped names are pairwise distinct — which
  every accepted program satisfies for definitions, see the redefinition scan — the table is a finite map:
  permuting the files permutes the table, and every lookup, scope search, alias walk and reference
  resolution is invariant under that permutation. The key clash between a module `A::B` and a definition
  `B` of module `A` (modules are not checked by the redefinition scan) is the excluded case, refuted below.
-/
import SlicecVerif.Lemmas.Perm
import SlicecVerif.Gen.HashUses

namespace Slicec.C15

open Slicec

/-- methods whose result cannot depend on the iteration order of a hash container -/
def orderFree : List String :=
  ["insert", "get", "get_mut", "contains", "contains_key", "entry", "remove", "clone", "is_empty", "len", "extend", "retain",
   -- capacity management and whole-container operations: no element order can be observed through them
   "reserve", "try_reserve", "shrink_to_fit", "shrink_to", "capacity", "clear",
   -- keyed access / set predicates whose result is a function of the *set* of elements
   "get_key_value", "remove_entry", "take", "replace", "get_or_insert_with", "is_subset", "is_superset", "is_disjoint"]

/-- every method the compiler calls on a HashMap / HashSet (list regenerated from slicec/src on every run)
    is order-free: no iteration, no `keys`/`values`/`drain`/`for … in map` can leak a hash order into a result. -/
theorem hash_uses_order_free : ∀ u ∈ Gen.hashUses, orderFree.contains u.2.2 = true := by decide

/-- the name table built from indexed files (each file keeps its identity when the list is permuted) -/
def buildTableIdx (fs : List (SFile × Nat)) : Table := primTable ++ fs.flatMap fun (f, i) => fileEntries i f

theorem buildTable_eq (p : Program) : buildTable p = buildTableIdx p.zipIdx := rfl

/-- listing the files in a different order permutes the table and nothing else. -/
theorem table_perm (fs1 fs2 : List (SFile × Nat)) (h : fs1.Perm fs2) : (buildTableIdx fs1).Perm (buildTableIdx fs2) :=
  List.Perm.append_left _ (h.flatMap_right _)

/-- with pairwise distinct scoped names, a lookup does not depend on the order of the files. -/
theorem lookup_order_independent (fs1 fs2 : List (SFile × Nat)) (h : fs1.Perm fs2)
    (hnd : (buildTableIdx fs1).keys.Nodup) (k : String) :
    (buildTableIdx fs1).find k = (buildTableIdx fs2).find k :=
  Table.find_perm _ _ (table_perm fs1 fs2 h) hnd k

/-- … nor does the outward scope search … -/
theorem scope_search_order_independent (fs1 fs2 : List (SFile × Nat)) (h : fs1.Perm fs2)
    (hnd : (buildTableIdx fs1).keys.Nodup) (id scope : String) :
    findNodeWithScope (buildTableIdx fs1) id scope = findNodeWithScope (buildTableIdx fs2) id scope :=
  findNodeWithScope_perm _ _ (table_perm fs1 fs2 h) hnd id scope

/-- … nor the resolution of any type reference, base or underlying type, through alias chains of any
    length (the bound definition, the accumulated attributes, and the error if there is one). -/
theorem resolution_order_independent (fs1 fs2 : List (SFile × Nat)) (h : fs1.Perm fs2)
    (hnd : (buildTableIdx fs1).keys.Nodup) (w : Want) (id scope : String) :
    resolveNamed (buildTableIdx fs1) w id scope = resolveNamed (buildTableIdx fs2) w id scope :=
  resolveNamed_perm _ _ (table_perm fs1 fs2 h) hnd w id scope

/-! The full statement — for every permutation of the files, acceptance, each file's compiled content and the set of
    warnings are equal — additionally needs the validators (C04) composed with the theorems above; it is not proved
    here. The correspondence checks it directly on the implementation: every generated program is compiled in all
    permutations of its files (and twice in the same order) and the verdicts, per-file dumps, warnings and encoded
    requests are compared. -/

/-- the excluded case is real (D-15a): `module A::B` in one file and `struct B` in `module A` of another share
    the key `A::B`; whichever file comes last wins the table, so a reference to `B` resolves to the struct in
    one order and to the module (a type mismatch) in the other. -/
theorem key_clash_is_order_dependent :
    let f1 : SFile := { fileAttrs := [], module := some ⟨[], "A::B"⟩, defs := [.struct [] [] false "X" []] }
    let f2 : SFile := { fileAttrs := [], module := some ⟨[], "A"⟩, defs := [.struct [] [] false "B" []] }
    ((buildTable [f1, f2]).find "A::B").map (·.kind) = some .struct ∧
    ((buildTable [f2, f1]).find "A::B").map (·.kind) = some .module := by
  decide

/-! non-vacuity: two files with distinct names -/
example :
    let f1 : SFile := { fileAttrs := [], module := some ⟨[], "M"⟩, defs := [.struct [] [] false "S" []] }
    let f2 : SFile := { fileAttrs := [], module := some ⟨[], "N"⟩, defs := [.custom [] [] "C"] }
    (buildTableIdx [(f1, 0), (f2, 1)]).keys.Nodup := by decide

end Slicec.C15

#print axioms Slicec.C15.hash_uses_order_free
#print axioms Slicec.C15.buildTable_eq
#print axioms Slicec.C15.table_perm
#print axioms Slicec.C15.lookup_order_independent
#print axioms Slicec.C15.scope_search_order_independent
#print axioms Slicec.C15.resolution_order_independent
#print axioms Slicec.C15.key_clash_is_order_dependent
