/-
  C07 — Code generation happens only after an error-free compilation.

  Statements over `Model/Driver.lean`: `compilePhases` (lib.rs / compilation_state.rs / patchers / validators
  gating) and `mainFlow` (main.rs). `runDriver opts o request gens fs` is the whole program for arbitrary
  per-phase outcomes `o`, an arbitrary result of the request encoder, arbitrary generators with arbitrary
  behaviours and an arbitrary file system.
-/
import SlicecVerif.Lemmas.Driver

namespace Slicec.C07

open Slicec Slicec.Driver

/-- The diagnostics of a compilation are exactly those of the phases that ran, in phase order, and the
    phases that ran are an initial segment of resolve → parse → attributes → type refs → links → cycles →
    redefinitions → visitor (characterised by `ranFrom`: a phase is followed by the next one iff it
    reported no error). -/
theorem phases_run (o : PhaseOutcomes) :
    (compilePhases o).ran = ranFrom o allPhases ∧
    (compilePhases o).diags = (compilePhases o).ran.flatMap o.out := by
  rw [compilePhases_spec]
  exact ⟨rfl, rfl⟩

/-- Gating: if a phase that ran reported an error, no later phase ran, and `has_errors` holds at the guard
    of the generator block, which is therefore closed whatever the options are. -/
theorem gating (o : PhaseOutcomes) (p : Phase) (hp : p ∈ (compilePhases o).ran)
    (he : hasErrors (o.out p) = true) :
    (∀ q ∈ (compilePhases o).ran, q.idx ≤ p.idx) ∧
    hasErrors (compilePhases o).diags = true ∧
    ∀ opts : Options, guardOpen opts (compilePhases o).diags = false := by
  rw [compilePhases_spec] at hp ⊢
  simp only at hp ⊢
  have herr : hasErrors ((ranFrom o allPhases).flatMap o.out) = true := by
    rw [hasErrors_flatMap, List.any_eq_true]
    exact ⟨p, hp, he⟩
  refine ⟨ranFrom_gating o allPhases allPhases_sorted p hp he, herr, ?_⟩
  intro opts
  exact guardOpen_false_of_errors opts _ herr

/-- Gating, seen from the later phase: a phase runs only if every earlier phase ran without an error. -/
theorem later_phase_only_if_earlier_clean (o : PhaseOutcomes) (q : Phase) (hq : q ∈ (compilePhases o).ran)
    (p : Phase) (hlt : p.idx < q.idx) : hasErrors (o.out p) = false := by
  rw [compilePhases_spec] at hq
  exact ranFrom_earlier_clean o allPhases allPhases_sorted q hq p (mem_allPhases p) hlt

/-- If the guard of the generator block is closed nothing is spawned, nothing is written and the file
    system is the one the compiler found. -/
theorem nothing_happens_when_blocked (opts : Options) (c : List Diag) (request : Option Bytes)
    (gens : List GenRun) (fs : FileSystem) (h : guardOpen opts c = false) :
    (mainFlow opts c request gens fs).attempted = [] ∧
    (mainFlow opts c request gens fs).requests = [] ∧
    (mainFlow opts c request gens fs).world.writes = [] ∧
    (mainFlow opts c request gens fs).world.fs = fs := by
  rw [mainFlow_closed opts c request gens fs h]
  simp [finish]

/-- A generator is started (a spawn is attempted, let alone a process receives a request) only if every
    input file was read, parsed, patched and validated without a single error — no phase reported an error
    and all eight phases ran — and `--dry-run` was not given. -/
theorem generators_only_if_clean (opts : Options) (o : PhaseOutcomes) (request : Option Bytes)
    (gens : List GenRun) (fs : FileSystem)
    (h : (runDriver opts o request gens fs).attempted ≠ [] ∨ (runDriver opts o request gens fs).requests ≠ []) :
    (∀ p : Phase, hasErrors (o.out p) = false) ∧ (compilePhases o).ran = allPhases ∧ opts.dryRun = false := by
  unfold runDriver at h
  cases hg : guardOpen opts (compilePhases o).diags
  · obtain ⟨h1, h2, _, _⟩ := nothing_happens_when_blocked opts _ request gens fs hg
    rcases h with h | h
    · exact absurd h1 h
    · exact absurd h2 h
  · obtain ⟨hclean, hdry⟩ := (guardOpen_iff opts _).1 hg
    rw [compilePhases_spec] at hclean ⊢
    obtain ⟨hran, hall⟩ := ranFrom_clean o allPhases hclean
    exact ⟨fun p => hall p (mem_allPhases p), hran, hdry⟩

/-- Files are written only from generators that were started: every write that happened stems from a
    file of a generator that was spawned, received the request, and whose reply was accepted — and (by
    `generators_only_if_clean`) only after an error-free compilation without `--dry-run`. -/
theorem files_only_if_started (opts : Options) (o : PhaseOutcomes) (request : Option Bytes)
    (gens : List GenRun) (fs : FileSystem) (pc : Path × Bytes)
    (h : pc ∈ (runDriver opts o request gens fs).world.writes) :
    ∃ g ∈ gens, g.failed = false ∧ g.gen ∈ (runDriver opts o request gens fs).attempted ∧
      (∃ stdin, (g.gen, stdin) ∈ (runDriver opts o request gens fs).requests) ∧
      ∃ f ∈ g.files, pc = (targetPath opts.outputDir f.path, f.contents) := by
  unfold runDriver at h ⊢
  cases hg : guardOpen opts (compilePhases o).diags
  · obtain ⟨_, _, h3, _⟩ := nothing_happens_when_blocked opts _ request gens fs hg
    rw [h3] at h
    simp at h
  · cases request with
    | none => rw [mainFlow_open_none _ _ _ _ hg] at h; simp at h
    | some payload =>
      rw [mainFlow_open_some _ _ _ _ _ hg] at h ⊢
      simp only [finish] at h ⊢
      rcases foldGens_writes opts.outputDir gens ⟨fs, [], []⟩ pc h with h | ⟨g, hg', hok, f, hf, e⟩
      · simp at h
      · obtain ⟨a, _, hstdin, hgen⟩ := spawnGen_of_ok payload g hok
        refine ⟨g, hg', hok, List.mem_map.2 ⟨g, hg', rfl⟩, ⟨payload ++ a, ?_⟩, f, hf, e⟩
        simp only [requestsOf, List.mem_filterMap, List.mem_map]
        exact ⟨spawnGen payload g, ⟨g, hg', rfl⟩, by simp [hstdin, hgen]⟩

/-- Warnings alone never prevent generation: when no phase reports an error (whatever lints are emitted,
    whatever `-A` says) and `--dry-run` is absent, a spawn is attempted for every generator, in order; if
    moreover no generator fails and no file write fails, the exit status is 0. -/
theorem warnings_do_not_block (opts : Options) (o : PhaseOutcomes) (payload : Bytes)
    (gens : List GenRun) (fs : FileSystem)
    (hclean : ∀ p : Phase, hasErrors (o.out p) = false) (hdry : opts.dryRun = false) :
    (runDriver opts o (some payload) gens fs).attempted = gens.map (·.gen) ∧
    ((∀ d ∈ (runDriver opts o (some payload) gens fs).diags, d.1.isError = false) →
      (runDriver opts o (some payload) gens fs).status = 0) := by
  have hc : hasErrors (compilePhases o).diags = false := by
    rw [compilePhases_spec]
    simp only
    rw [hasErrors_flatMap, List.any_eq_false]
    intro p _
    simp [hclean p]
  have hg : guardOpen opts (compilePhases o).diags = true := (guardOpen_iff opts _).2 ⟨hc, hdry⟩
  unfold runDriver
  rw [mainFlow_open_some _ _ _ _ _ hg]
  refine ⟨rfl, ?_⟩
  intro hall
  rw [finish_status]
  simp only [finish, List.mem_map, forall_exists_index, and_imp] at hall
  have : hasErrors ((compilePhases o).diags ++ (foldGens opts.outputDir gens ⟨fs, [], []⟩).2) = false := by
    rw [hasErrors_false_iff]
    intro d hd
    exact hall (d, d.level opts.allowedLints) d hd rfl
  simp [this]

/-- a lint never has the level Error, whatever the command line and the attributes say -/
theorem lints_are_never_errors (allowed : List String) (code : String) (attr : Bool) :
    (Diag.lint code attr).level allowed ≠ .error := by
  simp only [Diag.level]
  split <;> simp

/-- The exit status is non-zero exactly when at least one Error diagnostic was emitted — by a compilation
    phase or by the generator block (E001 "run code-generator" / "write generated file"); the status is then
    1. The level Error is carried by exactly the diagnostics of kind Error (never downgraded by `-A` or
    attributes). The only other status is 79, when the request encoder fails (`exit_79_iff`). -/
theorem exit_iff_error (opts : Options) (c : List Diag) (request : Option Bytes) (gens : List GenRun)
    (fs : FileSystem) (h79 : guardOpen opts c = true → request ≠ none) :
    ((mainFlow opts c request gens fs).status ≠ 0 ↔ ∃ d ∈ (mainFlow opts c request gens fs).diags, d.2 = .error) ∧
    ((mainFlow opts c request gens fs).status = 0 ∨ (mainFlow opts c request gens fs).status = 1) ∧
    (∀ d ∈ (mainFlow opts c request gens fs).diags, d.2 = .error ↔ d.1.isError = true) := by
  have key : ∀ (ds : List Diag) (a : List Generator) (r : List (Generator × Bytes)) (w : World),
      ((finish opts ds a r w).status ≠ 0 ↔ ∃ d ∈ (finish opts ds a r w).diags, d.2 = .error) ∧
      ((finish opts ds a r w).status = 0 ∨ (finish opts ds a r w).status = 1) ∧
      (∀ d ∈ (finish opts ds a r w).diags, d.2 = .error ↔ d.1.isError = true) := by
    intro ds a r w
    rw [finish_status]
    refine ⟨?_, ?_, ?_⟩
    · simp only [finish, List.mem_map]
      cases h : hasErrors ds
      · simp only [Bool.false_eq_true, if_false, ne_eq, not_true, false_iff]
        rintro ⟨d, ⟨d0, hd0, rfl⟩, hl⟩
        have := (hasErrors_false_iff ds).1 h d0 hd0
        rw [(level_error_iff opts.allowedLints d0).1 hl] at this
        exact Bool.noConfusion this
      · simp only [if_true, ne_eq, Nat.succ_ne_zero, not_false_iff, true_iff]
        obtain ⟨d0, hd0, he⟩ := (hasErrors_iff ds).1 h
        exact ⟨(d0, d0.level opts.allowedLints), ⟨d0, hd0, rfl⟩, (level_error_iff _ d0).2 he⟩
    · cases hasErrors ds <;> simp
    · intro d hd
      simp only [finish, List.mem_map] at hd
      obtain ⟨d0, _, rfl⟩ := hd
      exact level_error_iff opts.allowedLints d0
  cases hg : guardOpen opts c
  · rw [mainFlow_closed opts c request gens fs hg]
    exact key _ _ _ _
  · cases request with
    | none => exact absurd rfl (h79 hg)
    | some payload =>
      rw [mainFlow_open_some _ _ _ _ _ hg]
      exact key _ _ _ _

/-- the diagnostics handed to the emitter are those of the compilation followed by those of the generator
    block, in that order (nothing is dropped, nothing is added) -/
theorem emitted_diagnostics (opts : Options) (c : List Diag) (payload : Bytes) (gens : List GenRun)
    (fs : FileSystem) :
    (mainFlow opts c (some payload) gens fs).diags.map (·.1) =
      c ++ (if guardOpen opts c then (collectAll opts.outputDir (gens.map (spawnGen payload)) ⟨fs, [], []⟩).2 else []) := by
  cases hg : guardOpen opts c
  · rw [mainFlow_closed opts c _ gens fs hg]
    simp [finish, Function.comp_def]
  · rw [mainFlow_open_some _ _ _ _ _ hg, collectAll_eq_fold]
    simp [finish, Function.comp_def]

/-- status 79 is the request encoder failing in front of an open guard, and nothing else -/
theorem exit_79_iff (opts : Options) (c : List Diag) (request : Option Bytes) (gens : List GenRun)
    (fs : FileSystem) :
    (mainFlow opts c request gens fs).status = 79 ↔ (guardOpen opts c = true ∧ request = none) := by
  cases hg : guardOpen opts c
  · rw [mainFlow_closed opts c request gens fs hg, finish_status]
    cases hasErrors c <;> simp
  · cases request with
    | none => rw [mainFlow_open_none _ _ _ _ hg]; simp
    | some payload =>
      rw [mainFlow_open_some _ _ _ _ _ hg, finish_status]
      split <;> simp

/-! ### non-vacuity -/

/-- a syntax error in the parse phase: three phases never run, the guard is closed, the status is 1 -/
example :
    let o : PhaseOutcomes := ⟨[], [[.error "E002"]], [], [.lint "Deprecated" false], [], [], [], [.error "E018"]⟩
    (compilePhases o).ran = [.resolve, .parse] ∧ (compilePhases o).diags = [.error "E002"] ∧
    (runDriver ⟨false, none, []⟩ o (some []) [⟨⟨[], []⟩, .spawnError⟩] ⟨fun _ => none, fun _ => false⟩).status = 1 := by
  decide

/-- warnings only: all phases run, the generator is attempted, its failure alone sets the status -/
example :
    let o : PhaseOutcomes := ⟨[], [[]], [], [.lint "Deprecated" false], [.lint "BrokenDocLink" true], [], [], []⟩
    let r := runDriver ⟨false, none, ["Deprecated"]⟩ o (some [])
      [⟨⟨[0x67], []⟩, .exited 3 [] []⟩] ⟨fun _ => none, fun _ => false⟩
    (compilePhases o).ran = allPhases ∧ r.attempted = [⟨[0x67], []⟩] ∧ r.status = 1 ∧
    r.diags.map (·.2) = [.allowed, .allowed, .error] := by
  decide

/-- `--dry-run` closes the guard of an error-free compilation -/
example : guardOpen ⟨true, none, []⟩ [] = false ∧ guardOpen ⟨false, none, []⟩ [.lint "Deprecated" false] = true := by
  decide

end Slicec.C07

#print axioms Slicec.C07.phases_run
#print axioms Slicec.C07.gating
#print axioms Slicec.C07.later_phase_only_if_earlier_clean
#print axioms Slicec.C07.nothing_happens_when_blocked
#print axioms Slicec.C07.generators_only_if_clean
#print axioms Slicec.C07.files_only_if_started
#print axioms Slicec.C07.warnings_do_not_block
#print axioms Slicec.C07.lints_are_never_errors
#print axioms Slicec.C07.exit_iff_error
#print axioms Slicec.C07.emitted_diagnostics
#print axioms Slicec.C07.exit_79_iff
