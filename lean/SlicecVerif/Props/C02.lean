/-
  C02 — Source-to-AST fidelity: the AST says exactly what the source says.
  The unbounded part of the property is carried by two things: (1) the correspondence compares, for every
  generated program and every token-level layout, the real AST with `astDump` — a direct structural
  function of the abstract program (Model/Elab.lean), so "exactly what was declared, in order, nothing else"
  and "independent of layout" are checked against the program itself, not against a second parser;
  (2) the theorems below settle, for ALL values, the places where the compiler transforms what was written:
  string-literal escaping, enumerator numbering, tag storage, keyword escaping by the printer.
  Integer-literal and lexer round trips are in Props/C02Lex.lean when present.
-/
import SlicecVerif.Model.Literals
import SlicecVerif.Model.Elab
import SlicecVerif.Gen.Keywords

namespace Slicec.C02

open Slicec

/-- un-escaping inverts the printer's escaping for every argument string (quotes and backslashes incl.). -/
theorem unescape_escape (s : List Char) : unescapeLit (escapeChars s) false = s := by
  induction s with
  | nil => rfl
  | cons c cs ih =>
    simp only [escapeChars, escChar]
    by_cases hq : c = '"'
    · subst hq
      simp only [show (('"' == '"') || ('"' == '\\')) = true by decide, if_true, List.cons_append, List.nil_append]
      simp [unescapeLit, ih]
    · by_cases hb : c = '\\'
      · subst hb
        simp only [show (('\\' == '"') || ('\\' == '\\')) = true by decide, if_true, List.cons_append, List.nil_append]
        simp [unescapeLit, ih]
      · have h1 : (c == '"' || c == '\\') = false := by simp [hq, hb]
        have h2 : (c == '\\') = false := by simp [hb]
        simp only [h1, Bool.false_eq_true, if_false, List.cons_append, List.nil_append]
        simp [unescapeLit, h2, ih]

/-- the lexer's string scanning returns exactly the escaped text the printer wrote, and stops at the
    closing quote, for every argument string without a line break (which the syntax cannot express). -/
theorem scan_escape (s rest : List Char) (h : '\n' ∉ s) :
    scanString (escapeChars s ++ '"' :: rest) = some (escapeChars s, rest) := by
  induction s with
  | nil => simp [escapeChars, scanString]
  | cons c cs ih =>
    have hc : c ≠ '\n' := fun e => h (by simp [e])
    have hcs : '\n' ∉ cs := fun e => h (by simp [e])
    have ih := ih hcs
    simp only [escapeChars, escChar]
    by_cases hq : c = '"'
    · subst hq
      simp only [show (('"' == '"') || ('"' == '\\')) = true by decide, if_true, List.cons_append, List.nil_append]
      rw [scanString]
      simp [ih]
    · by_cases hb : c = '\\'
      · subst hb
        simp only [show (('\\' == '"') || ('\\' == '\\')) = true by decide, if_true, List.cons_append, List.nil_append]
        rw [scanString]
        simp [ih]
      · have h1 : (c == '"' || c == '\\') = false := by simp [hq, hb]
        simp only [h1, Bool.false_eq_true, if_false, List.cons_append, List.nil_append]
        rw [scanString]
        · simp [ih]
        · exact hq
        · exact hc
        · intro c' r hc' _; exact hb hc'

/-- composition: what the attribute argument `"…"` yields after lexing and un-escaping is the string
    that was written. -/
theorem string_argument_roundtrip (s rest : List Char) (h : '\n' ∉ s) :
    (scanString (escapeChars s ++ '"' :: rest)).map (fun p => (unescapeLit p.1 false, p.2)) = some (s, rest) := by
  rw [scan_escape s rest h]; simp [unescape_escape]

/-- enumerator numbering: a written literal is taken as is; otherwise the value is the previous value + 1
    (wrapping in i128), starting from 0. -/
theorem enumerator_values (es : List Enumerator) (prev : Option Int) :
    (enumValues prev es).length = es.length ∧
    ∀ i (h : i < es.length), ∀ v, (enumValues prev es)[i]? = some v →
      (∀ l, es[i].value = some l → v = l.value) ∧
      (es[i].value = none →
        v = match (if i = 0 then prev else (enumValues prev es)[i - 1]?) with
            | some p => wrapI128 p
            | none => 0) := by
  induction es generalizing prev with
  | nil => simp [enumValues]
  | cons e es ih =>
    simp only [enumValues, List.length_cons]
    refine ⟨by simp [(ih _).1], ?_⟩
    intro i hi v hv
    cases i with
    | zero =>
      simp only [List.getElem?_cons_zero, Option.some.injEq] at hv
      subst hv
      constructor
      · intro l hl
        have hl' : e.value = some l := by simpa using hl
        simp [hl']
      · intro hn
        have hn' : e.value = none := by simpa using hn
        simp only [hn']
        cases prev <;> rfl
    | succ i =>
      simp only [List.getElem?_cons_succ] at hv
      have := (ih _).2 i (by simpa using hi) v hv
      simp only [List.getElem_cons_succ]
      refine ⟨this.1, ?_⟩
      intro hn
      have h2 := this.2 hn
      cases i with
      | zero => simpa using h2
      | succ j => simpa using h2

/-- a tag inside the legal range is stored unchanged by the `as u32` cast. -/
theorem tag_stored (l : IntLit) (h0 : 0 ≤ l.value) (h1 : l.value < 2 ^ 31) :
    tagS (some l) = toString l.value.toNat := by
  have : l.value % 2 ^ 32 = l.value := Int.emod_eq_of_lt h0 (by omega)
  simp only [tagS, this]

/-- the printer escapes every word the compiler's lexer treats as a keyword (table extracted from
    `check_if_keyword` on every run), so a generated identifier can never be read as a keyword. -/
theorem printer_escapes_every_keyword : ∀ k ∈ Gen.sliceKeywords, keywords.contains k.1 = true := by decide

/-! non-vacuity -/
example : unescapeLit "a\\\"b\\\\c".toList false = "a\"b\\c".toList := by decide
example : enumValues none [⟨[], [], "A", none, none⟩, ⟨[], [], "B", none, some ⟨true, 16, 5, false⟩⟩, ⟨[], [], "C", none, none⟩] = [0, -5, -4] := by decide

end Slicec.C02

#print axioms Slicec.C02.unescape_escape
#print axioms Slicec.C02.scan_escape
#print axioms Slicec.C02.string_argument_roundtrip
#print axioms Slicec.C02.enumerator_values
#print axioms Slicec.C02.tag_stored
#print axioms Slicec.C02.printer_escapes_every_keyword
