/-
  C02 — Source-to-AST fidelity: the AST says exactly what the source says.
  The unbounded part of the property is carried by two things: (1) the correspondence compares, for every
  generated program and every token-level layout, the real AST with `astDump` — a direct structural
  function of the abstract program (Model/Elab.lean), so "exactly what was declared, in order, nothing else"
  and "independent of layout" are checked against the program itself, not against a second parser;
  (2) the theorems below settle, for ALL values, the places where the compiler transforms what was written:
  string-literal escaping, enumerator numbering, tag storage, keyword escaping by the printer;
  (3) the LEXICAL half of "the result does not depend on layout" is proved below for ALL files and ALL layouts
  (`layout_independence` and the theorems leading to it) over `Model/SliceLexer.lean`, a character-level model of
  parsers/slice/lexer.rs that is itself tied to the real lexer by the correspondence stream `C02lex` (engine `slicelex`):
  whitespace, line breaks, `//` and `/* */` comments, optional commas and backslash-escaped identifiers never change the
  token sequence the parser receives (optional commas — layout in the printer model — show up as extra `Comma` tokens
  exactly where they were written, nothing else);
  (4) the GRAMMAR half is proved below too: `Model/SliceParser.lean` is an executable recursive-descent model of
  parsers/slice/grammar.lalrpop and of the actions of grammar.rs (one function per nonterminal; its production list is proved
  equal to the list extracted from grammar.lalrpop: `grammar_table_matches`; tied to the real LALRPOP parser by the
  correspondence stream `C02parse`: accept / reject (E002) and the AST, on rendered programs, token soups in valid
  contexts and single-token mutations), its fuel is never exhausted (`parser_fuel_never_exhausted`), and it inverts the
  printer: `parse_print` (the token sequence of every well-formed file, with optional commas written anywhere the layout
  may write them, parses back to exactly that file) and, composed with `layout_independence`, `parse_print_full`: for ALL
  files, ALL layouts and ALL seeds, lexing and parsing the rendered text gives back the abstract file.
-/
import SlicecVerif.Model.Literals
import SlicecVerif.Model.Elab
import SlicecVerif.Gen.Keywords
import SlicecVerif.Lemmas.SliceLexerLayout
import SlicecVerif.Lemmas.SliceLexerItems
import SlicecVerif.Lemmas.SliceLexerNames
import SlicecVerif.Lemmas.SliceParserItems
import SlicecVerif.Lemmas.SliceParserFuel
import SlicecVerif.Lemmas.SliceParserLeaves
import SlicecVerif.Gen.SliceGrammar

namespace Slicec.C02

open Slicec

/-- un-escaping inverts the printer's escaping for every argument string (quotes and backslashes incl.). -/
theorem unescape_escape (s : List Char) : unescapeLit (escapeChars s) false = s := by
  induction s with
  | nil => rfl
  | cons c cs ih =>
    simp only [escapeChars, escChar]
    by_cases hq : c = '"'
    · subst hq
      simp only [show (('"' == '"') || ('"' == '\\')) = true by decide, if_true, List.cons_append, List.nil_append]
      simp [unescapeLit, ih]
    · by_cases hb : c = '\\'
      · subst hb
        simp only [show (('\\' == '"') || ('\\' == '\\')) = true by decide, if_true, List.cons_append, List.nil_append]
        simp [unescapeLit, ih]
      · have h1 : (c == '"' || c == '\\') = false := by simp [hq, hb]
        have h2 : (c == '\\') = false := by simp [hb]
        simp only [h1, Bool.false_eq_true, if_false, List.cons_append, List.nil_append]
        simp [unescapeLit, h2, ih]

/-- the lexer's string scanning returns exactly the escaped text the printer wrote, and stops at the
    closing quote, for every argument string without a line break (which the syntax cannot express). -/
theorem scan_escape (s rest : List Char) (h : '\n' ∉ s) :
    scanString (escapeChars s ++ '"' :: rest) = some (escapeChars s, rest) := by
  induction s with
  | nil => simp [escapeChars, scanString]
  | cons c cs ih =>
    have hc : c ≠ '\n' := fun e => h (by simp [e])
    have hcs : '\n' ∉ cs := fun e => h (by simp [e])
    have ih := ih hcs
    simp only [escapeChars, escChar]
    by_cases hq : c = '"'
    · subst hq
      simp only [show (('"' == '"') || ('"' == '\\')) = true by decide, if_true, List.cons_append, List.nil_append]
      rw [scanString]
      simp [ih]
    · by_cases hb : c = '\\'
      · subst hb
        simp only [show (('\\' == '"') || ('\\' == '\\')) = true by decide, if_true, List.cons_append, List.nil_append]
        rw [scanString]
        simp [ih]
      · have h1 : (c == '"' || c == '\\') = false := by simp [hq, hb]
        simp only [h1, Bool.false_eq_true, if_false, List.cons_append, List.nil_append]
        rw [scanString]
        · simp [ih]
        · exact hq
        · exact hc
        · intro c' r hc' _; exact hb hc'

/-- composition: what the attribute argument `"…"` yields after lexing and un-escaping is the string
    that was written. -/
theorem string_argument_roundtrip (s rest : List Char) (h : '\n' ∉ s) :
    (scanString (escapeChars s ++ '"' :: rest)).map (fun p => (unescapeLit p.1 false, p.2)) = some (s, rest) := by
  rw [scan_escape s rest h]; simp [unescape_escape]

/-- enumerator numbering: a written literal is taken as is; otherwise the value is the previous value + 1
    (wrapping in i128), starting from 0. -/
theorem enumerator_values (es : List Enumerator) (prev : Option Int) :
    (enumValues prev es).length = es.length ∧
    ∀ i (h : i < es.length), ∀ v, (enumValues prev es)[i]? = some v →
      (∀ l, es[i].value = some l → v = l.value) ∧
      (es[i].value = none →
        v = match (if i = 0 then prev else (enumValues prev es)[i - 1]?) with
            | some p => wrapI128 p
            | none => 0) := by
  induction es generalizing prev with
  | nil => simp [enumValues]
  | cons e es ih =>
    simp only [enumValues, List.length_cons]
    refine ⟨by simp [(ih _).1], ?_⟩
    intro i hi v hv
    cases i with
    | zero =>
      simp only [List.getElem?_cons_zero, Option.some.injEq] at hv
      subst hv
      constructor
      · intro l hl
        have hl' : e.value = some l := by simpa using hl
        simp [hl']
      · intro hn
        have hn' : e.value = none := by simpa using hn
        simp only [hn']
        cases prev <;> rfl
    | succ i =>
      simp only [List.getElem?_cons_succ] at hv
      have := (ih _).2 i (by simpa using hi) v hv
      simp only [List.getElem_cons_succ]
      refine ⟨this.1, ?_⟩
      intro hn
      have h2 := this.2 hn
      cases i with
      | zero => simpa using h2
      | succ j => simpa using h2

/-- a tag inside the legal range is stored unchanged by the `as u32` cast. -/
theorem tag_stored (l : IntLit) (h0 : 0 ≤ l.value) (h1 : l.value < 2 ^ 31) :
    tagS (some l) = toString l.value.toNat := by
  have : l.value % 2 ^ 32 = l.value := Int.emod_eq_of_lt h0 (by omega)
  simp only [tagS, this]

/-- the printer escapes every word the compiler's lexer treats as a keyword (table extracted from
    `check_if_keyword` on every run), so a generated identifier can never be read as a keyword. -/
theorem printer_escapes_every_keyword : ∀ k ∈ Gen.sliceKeywords, keywords.contains k.1 = true := by decide

/-! ## the lexical half of layout independence (model: Model/SliceLexer.lean, tied to lexer.rs by stream `C02lex`) -/

open Slicec.SLex

/-- **Separation lemma (general form): reading is local.** For every text `s`, every continuation `r` and either
    attribute mode: if the way `s` ends cannot be affected by how `r` starts (`compat`: after a word no word character,
    after a single `[` no `[`, after `]` no `]`, after `:` no `:`, after `-` no `>`, after an open `//` comment only a
    line break, after whitespace / a closed comment / any self-delimiting token anything), then the lexer's output on
    `s ++ r` is its output on `s` followed by its output on `r` started in the attribute mode reached at the end of `s`.
    Two adjacent spellings never merge into one token or split differently unless `compat` says so. -/
theorem lex_is_local (a : Bool) (s r : List Char) (h : compat (lexRun a s).last r = true) :
    (lexRun a (s ++ r)).items = (lexRun a s).items ++ (lexRun (lexRun a s).attr r).items ∧
    (lexRun a (s ++ r)).attr = (lexRun (lexRun a s).attr r).attr := by
  rw [lexRun_append a s r h]; exact ⟨rfl, rfl⟩

/-- every separator of the printer's catalogue (blanks, tabs, LF, CR LF, `//` comments running over lone carriage
    returns up to the line break, `/* */` comments with line breaks, stars, slashes and non-ASCII text inside) reads as
    no token at all, leaves `attribute_mode` alone, is not empty, and may follow anything but an open line comment. -/
theorem gaps_read_as_nothing : ∀ g ∈ gapCatalogue,
    (∀ a, lexRun a g.toList = ⟨[], a, .closed⟩) ∧ gapHeadOk g.toList = true ∧ g.toList ≠ [] := gapCatalogue_ok

/-- any run of Unicode `White_Space` characters reads as nothing. -/
theorem whitespace_reads_as_nothing (a : Bool) (g : List Char) (h : g.all isWs = true) :
    lexRun a g = ⟨[], a, .closed⟩ := lexRun_ws a g h

/-- beyond the catalogue: a `//` comment with ANY body (no line break in it; not starting with a third slash, which
    would make it a doc comment) followed by its line break reads as nothing — a carriage return does not end it. -/
theorem line_comment_reads_as_nothing (a : Bool) (t : List Char) (h1 : t.all (· != '\n') = true)
    (h2 : t.head? ≠ some '/') : lexRun a ('/' :: '/' :: (t ++ ['\n'])) = ⟨[], a, .closed⟩ :=
  lexRun_lineComment_nl a t h1 h2

/-- a `/* */` comment with ANY body that does not contain `*/` (line breaks, `/*`, `//`, stars, quotes included)
    reads as nothing: block comments do not nest and hide everything up to the first `*/`. -/
theorem block_comment_reads_as_nothing (a : Bool) (body : List Char) (h : noClose body = true) :
    lexRun a ('/' :: '*' :: (body ++ ['*', '/'])) = ⟨[], a, .closed⟩ := lexRun_blockComment a body h

/-- a backslash-escaped identifier is the same `Identifier` token as the plain spelling — for every identifier text,
    in and outside attributes — and the plain spelling is that token too unless the word is in the keyword table
    (outside attributes); inside attributes the keyword table is not consulted at all. -/
theorem escaped_identifier_same_token (a : Bool) (w : List Char) (h : isIdentText w = true) :
    (lexRun a ('\\' :: w)).items = [.tok (.ident w)] ∧
    (lexRun true w).items = [.tok (.ident w)] ∧
    (Gen.sliceKeywords.lookup (String.ofList w) = none → (lexRun a w).items = [.tok (.ident w)]) := by
  refine ⟨by rw [lexRun_escaped a w h], by rw [lexRun_word true w h]; rfl, fun hk => ?_⟩
  rw [lexRun_word a w h]
  cases a
  · simp [checkKeyword, hk]
  · rfl

/-- the extracted keyword table, row by row: the plain spelling is the keyword token outside attributes, an
    identifier inside `[…]` / `[[…]]`, and an identifier when escaped. -/
theorem keyword_rows : ∀ p ∈ Gen.sliceKeywords,
    lexSlice p.1.toList = .ok [.kw p.2] ∧ (lexRun true p.1.toList).items = [.tok (.ident p.1.toList)] ∧
    lexSlice ('\\' :: p.1.toList) = .ok [.ident p.1.toList] := by decide

/-- `attribute_mode` is set by `[` and `[[`, cleared by `]` and `]]`, and by nothing else: separators, line breaks and
    comments between the bracket, the directive and the arguments leave it alone (see `gaps_read_as_nothing`), and so
    does every other token. -/
theorem attribute_mode_brackets_only (a : Bool) (c : Char) (cs : List Char) :
    (lexNext a c cs).attr = (if c = '[' then true else if c = ']' then false else a) := by
  unfold lexNext
  split
  · rename_i t ht
    have h1 : c ≠ '[' := by intro e; subst e; simp [simpleTok] at ht
    have h2 : c ≠ ']' := by intro e; subst e; simp [simpleTok] at ht
    simp [h1, h2]
  · by_cases h1 : c = '['
    · subst h1; simp [lexPair]; split <;> (try split) <;> rfl
    · by_cases h2 : c = ']'
      · subst h2; simp [lexPair]; split <;> (try split) <;> rfl
      · simp only [beq_iff_eq, h1, h2, if_false]
        repeat' split
        all_goals first
          | rfl
          | (simp only [lexPair]; split <;> (try split) <;> rfl)
          | (simp only [lexString]; split <;> rfl)
          | (simp only [lexSlash, lexLineComment]; repeat' split
             all_goals rfl)
          | (simp only [lexBackslash]; split <;> (try split) <;> rfl)

/-- **The printer respects the separation rule.** For every file whose leaves are well-formed (`fileOk`: names are
    identifiers, attribute directives and scoped names print as identifier/`::` sequences, string arguments and doc
    lines contain no line break, integer literals are in base 2/10/16 — nothing about the *shape* of the file), the item
    list passes the separation check `itemsOk`: wherever a layout may write two spellings without a separator (`glue`
    gaps, absent optional commas) they cannot merge; every spelling lexes cleanly on its own; a doc line is followed
    by a line break. No pair of adjacent items of `fileItems` is glued wrongly by the compact layout. -/
theorem printer_respects_separation (f : SFile) (h : fileOk f = true) : itemsOk (fileItems f) = true :=
  itemsOk_fileItems f h

/-- a syntactic criterion for the name condition of `fileOk`: a scoped name whose `::`-separated segments (as the
    printer splits them) are identifiers `[A-Za-z][A-Za-z0-9_]*` — the first may be empty: global scope — prints, with
    the printer's escaping of keyword segments, as text that reads as identifiers separated by `::`. -/
theorem names_with_identifier_segments (id : String) (h : nameSegsOk (id.splitOn "::") = true) :
    nameTextOk false (escapeScoped id).toList = true := nameTextOk_of_segments id h

/-- the same for attribute directives `a::b::c`: any identifiers will do, keyword spellings included, because the
    keyword table is off in attribute mode. -/
theorem directives_with_identifier_segments (segs : List String) (hne : segs ≠ [])
    (h : ∀ s ∈ segs, isIdentText s.toList = true) : nameTextOk true ("::".intercalate segs).toList = true :=
  nameTextOk_directive segs hne h

/-- **Layout independence for item lists.** For every item list that passes the separation check, every layout and
    every seed: the rendered text lexes without error to the tokens the items denote, with a `Comma` token exactly at
    the optional commas the layout chose to write (`cs`), none in the canonical layout. -/
theorem layout_independence_items (layout seed : Nat) (items : List Item) (h : itemsOk items = true) :
    ∃ cs : List Bool, (layout = 0 → cs = []) ∧
      lexSlice (render layout seed items).1.toList = .ok (tokensWith false cs items) :=
  lex_render layout seed items h

/-- **Layout independence (lexical half of C02), for ALL files and ALL layouts.** For every well-formed file, every
    layout style and every seed of the layout generator (arbitrary whitespace, LF / CR LF, tabs, `//` and `/* */`
    comments in every gap, optional commas written or not, identifiers written with or without a backslash), the real
    lexer's model reads the rendered text without error as `tokensOf (fileItems f)` — a function of the abstract file
    alone — plus `Comma` tokens exactly where an optional comma was written. -/
theorem layout_independence (f : SFile) (hf : fileOk f = true) (layout seed : Nat) :
    ∃ cs : List Bool, (layout = 0 → cs = []) ∧
      lexSlice (render layout seed (fileItems f)).1.toList = .ok (tokensWith false cs (fileItems f)) ∧
      CommaExt (tokensOf (fileItems f)) (tokensWith false cs (fileItems f)) := by
  obtain ⟨cs, hcs, hlex⟩ := lex_render layout seed (fileItems f) (itemsOk_fileItems f hf)
  exact ⟨cs, hcs, hlex, commaExt_tokensWith _ _ _⟩

/-- the canonical text of a file lexes to exactly `tokensOf`. -/
theorem canonical_tokens (f : SFile) (hf : fileOk f = true) :
    lexSlice (printFile f).toList = .ok (tokensOf (fileItems f)) := by
  obtain ⟨cs, hcs, hlex⟩ := lex_render 0 0 (fileItems f) (itemsOk_fileItems f hf)
  rw [hcs rfl] at hlex
  exact hlex

/-- any two layouts of one file give token sequences that differ in `Comma` tokens only. -/
theorem two_layouts_same_tokens (f : SFile) (hf : fileOk f = true) (l1 s1 l2 s2 : Nat) :
    ∃ t1 t2, lexSlice (render l1 s1 (fileItems f)).1.toList = .ok t1 ∧
      lexSlice (render l2 s2 (fileItems f)).1.toList = .ok t2 ∧ dropCommas t1 = dropCommas t2 := by
  obtain ⟨c1, _, h1, e1⟩ := layout_independence f hf l1 s1
  obtain ⟨c2, _, h2, e2⟩ := layout_independence f hf l2 s2
  exact ⟨_, _, h1, h2, by rw [dropCommas_of_commaExt e1, dropCommas_of_commaExt e2]⟩

/-! ## the grammar half (model: Model/SliceParser.lean, tied to the LALRPOP parser by stream `C02parse`) -/

open Slicec.SPar

/-- **The parser model implements the productions of grammar.lalrpop.** The production list the model documents (one
    entry per nonterminal, with the function that implements it: Model/SliceParser.lean `productions`) equals the list
    the translator extracts from grammar.lalrpop on every run — nonterminals in source order, every alternative with its
    symbols (bindings and location markers removed, `?` `*` `+`, groups and macro applications kept) and the helper its
    action calls; the token kinds the model distinguishes are the declared terminals, and every keyword kind the lexer
    can produce is one of them.  A production that is added, removed, reordered or re-shaped re-opens this proof. -/
theorem grammar_table_matches :
    productions = Gen.sliceGrammar ∧ tokenKinds = Gen.sliceTerminals.map (·.2) ∧
    ∀ k ∈ Gen.sliceKeywords, k.2 ∈ tokenKinds := by decide

/-- **The fuel of the parser model is never exhausted.** Lists (`X*`, `UndelimitedList`, `NonEmptyCommaList`) and nested
    type references recurse on a counter; every list element and every type reference consumes at least one token, so
    for every token list any counter above its length gives the same result as the `length + 1` the entry points supply:
    no input is rejected (or accepted differently) because a counter ran out. -/
theorem parser_fuel_never_exhausted (n : Nat) (ts : Toks) (hn : ts.length < n) :
    manyF localAttrStep n ts = many localAttrStep ts ∧ manyF fileAttrStep n ts = many fileAttrStep ts ∧
    manyF preludeStep n ts = many preludeStep ts ∧ manyF fieldStep n ts = many fieldStep ts ∧
    manyF paramStep n ts = many paramStep ts ∧ manyF opStep n ts = many opStep ts ∧
    manyF enumeratorStep n ts = many enumeratorStep ts ∧ manyF baseStep n ts = many baseStep ts ∧
    manyF defStep n ts = many defStep ts ∧ parseTypeRefF n ts = parseTypeRef ts :=
  fuel_never_exhausted n ts hn

/-- every parser of the model returns a suffix no longer than its input, and the parser of a type reference a strictly
    shorter one (the facts behind `parser_fuel_never_exhausted`). -/
theorem parsers_consume : Shrinks parseTypeRef ∧ Shrinks parseAttribute ∧ ShrinksLe parsePrelude ∧
    StepShrinks fieldStep ∧ StepShrinks paramStep ∧ StepShrinks opStep ∧ StepShrinks enumeratorStep ∧ StepShrinks defStep :=
  ⟨parseTypeRef_lt, parseAttribute_lt, parsePrelude_le, fieldStep_shrinks, paramStep_shrinks, opStep_shrinks,
   enumeratorStep_shrinks, defStep_shrinks⟩

/-- **Stage 1: what the printer writes.** For every well-formed file and every choice of the optional commas, the token
    sequence the items denote has the file's *shape* (`FileSh`, Lemmas/SliceParserDefs.lean): file attributes, module
    declaration, definitions — each element its doc lines, attributes, keywords, name, members in order, with an optional
    comma exactly where the grammar has `","?` (after the members of `{…}` blocks, between parameters / tuple elements /
    enumerator fields), nothing else. -/
theorem printed_tokens_have_shape (f : SFile) (hf : fileOk f = true) (hrt : fileRT f = true) (cs : List Bool) :
    FileSh f (tokensWith false cs (fileItems f)) := fileSh_tokensWith f hf hrt cs

/-- **Stage 2: the parser inverts the shape.** Every token sequence of the shape of a file (whatever optional commas
    it contains) is accepted by the parser model, no action reports a syntax error, and the result is exactly that
    file: every declared element, in order, with its modifiers, tags, types, attributes, doc lines — nothing else. -/
theorem parser_inverts_shape (f : SFile) (hrt : fileRT f = true) (T : Toks) (hT : FileSh f T) : parseFile T = some f :=
  parseFile_shape f hrt T hT

/-- **parse ∘ print = id on tokens, with optional commas.** For every file `f` of the abstract syntax whose leaves are
    well-formed (`fileOk`: the hypothesis of `layout_independence`) and read back as themselves (`fileRT`: scoped names,
    module paths and directives as printed are one `RelativeIdentifier` / `GlobalIdentifier` whose `::`-join is the name;
    integer literals are the digits of their value in their base, `underscores` says whether any were written; doc lines
    do not start with a fourth `/` and do not end in CR — decidable, each necessary (examples below), evaluated on every
    generated file by the `C02parse` driver) and for EVERY choice list `cs` of the optional commas: the parser model,
    applied to the token sequence of `f` with those commas written, returns `f`. -/
theorem parse_print (f : SFile) (hf : fileOk f = true) (hrt : fileRT f = true) (cs : List Bool) :
    parseFile (tokensWith false cs (fileItems f)) = some f :=
  parseFile_shape f hrt _ (fileSh_tokensWith f hf hrt cs)

/-- the canonical token sequence (no optional comma written) parses back to the file. -/
theorem parse_print_canonical (f : SFile) (hf : fileOk f = true) (hrt : fileRT f = true) :
    parseFile (tokensOf (fileItems f)) = some f := parse_print f hf hrt []

/-- **Source-to-AST fidelity, end to end on the models, for ALL files, ALL layouts, ALL seeds.** Lexing (model of
    lexer.rs) and parsing (model of grammar.lalrpop + grammar.rs) the text that `render` writes for `f` — in the canonical
    layout or any pseudo-random one: arbitrary whitespace, LF / CR LF, tabs, `//` and `/* */` comments in every gap,
    optional commas written or not, identifiers written with or without a backslash — gives back exactly `f`.
    (`layout_independence` ∘ `parse_print`.) -/
theorem parse_print_full (f : SFile) (hf : fileOk f = true) (hrt : fileRT f = true) (layout seed : Nat) :
    parseText (render layout seed (fileItems f)).1.toList = some f := by
  obtain ⟨cs, _, hlex, _⟩ := layout_independence f hf layout seed
  simp only [parseText, hlex, parse_print f hf hrt cs]

/-- any two layouts of a file denote the same file, hence the same AST dump. -/
theorem layouts_same_file (f : SFile) (hf : fileOk f = true) (hrt : fileRT f = true) (l1 s1 l2 s2 : Nat) :
    parseText (render l1 s1 (fileItems f)).1.toList = parseText (render l2 s2 (fileItems f)).1.toList := by
  rw [parse_print_full f hf hrt l1 s1, parse_print_full f hf hrt l2 s2]

/-- **The token sequence determines the file** (the model-level form of "the AST says exactly what the source says"):
    two well-formed files whose token sequences agree — under any choices of the optional commas — are the same file,
    and so have the same AST dump. -/
theorem tokens_determine_file (f g : SFile) (hf : fileOk f = true) (hg : fileOk g = true) (hrf : fileRT f = true)
    (hrg : fileRT g = true) (cs cs' : List Bool)
    (h : tokensWith false cs (fileItems f) = tokensWith false cs' (fileItems g)) : f = g ∧ astDump [f] = astDump [g] := by
  have e1 := parse_print f hf hrf cs
  have e2 := parse_print g hg hrg cs'
  rw [h, e2] at e1
  have : g = f := Option.some.inj e1
  subst this
  exact ⟨rfl, rfl⟩

/-- syntactic criterion for the integer condition of `fileRT`: a literal in base 2, 10 or 16 whose value fits the 200 digits
    the printer writes and whose `underscores` flag is set only where an underscore is actually written (three digits or
    more) reads back as itself: `try_parse_integer` (underscores removed, base from the prefix, `from_str_radix`) returns
    the value, the base and the flag. -/
theorem integer_literals_read_back (l : IntLit) (h : intCanon l = true) : intRT l = true := intRT_of_canon l h

/-- syntactic criterion for the directive condition of `fileRT`: identifiers joined by `::` — keyword spellings included —
    read back, inside `[ ]`, as the `RelativeIdentifier` whose `::`-join is the directive. -/
theorem directives_read_back (segs : List String) (hne : segs ≠ []) (h : ∀ s ∈ segs, isIdentText s.toList = true) :
    dirRT ("::".intercalate segs) = true := dirRT_of_segments segs hne h

/-- syntactic criterion for the name conditions of `fileRT`, up to one fact about `String.splitOn` that core does not
    provide (joining the segments gives the string back — stated as a hypothesis): a scoped name whose `::`-separated
    segments are identifiers (the first may be empty: global scope; keywords are escaped by the printer) reads back as
    itself, as a type name and — without empty segment — as a module path. -/
theorem names_read_back (id : String) (h : nameSegsOk (id.splitOn "::") = true)
    (hjoin : "::".intercalate (id.splitOn "::") = id) :
    nameRT id = true ∧ ((id.splitOn "::").all (fun s => isIdentText s.toList) = true → pathRT id = true) :=
  nameRT_of_segments id h hjoin

/-- a file the parser accepts is reported as a syntax error all the same when it has definitions but no module
    declaration (`parse_file`, after the parser): the condition under which a printed file is free of E002. -/
theorem printed_file_syntax_verdict (f : SFile) (hf : fileOk f = true) (hrt : fileRT f = true) (layout seed : Nat) :
    syntaxError (render layout seed (fileItems f)).1.toList = moduleRequired f := by
  obtain ⟨cs, _, hlex, _⟩ := layout_independence f hf layout seed
  simp only [syntaxError, hlex, parse_print f hf hrt cs]

/-! non-vacuity -/
example : unescapeLit "a\\\"b\\\\c".toList false = "a\"b\\c".toList := by decide
example : enumValues none [⟨[], [], "A", none, none⟩, ⟨[], [], "B", none, some ⟨true, 16, 5, false⟩⟩, ⟨[], [], "C", none, none⟩] = [0, -5, -4] := by decide


/-- a file with every leaf kind satisfies the hypothesis of `layout_independence` -/
def exFile : SFile := ⟨[⟨"cs::attr", ["a b", "x"]⟩], none,
  [.struct [" doc"] [⟨"deprecated", []⟩] true "struct"
     [⟨[], [], some ⟨true, 16, 255, true⟩, "x", .mk [] (.seq (.mk [] (.prim .string) true)) false⟩],
   .enum [] [] false true "E" none [⟨[], [], "A", none, some ⟨false, 10, 7, false⟩⟩, ⟨[], [], "B", none, none⟩]]⟩
example : fileOk exFile = true := by decide
example : tokensOf [.tok "module", .sp, .tok "M", .nl 0, .tok "[", .glue, .tok "custom", .glue, .tok "]", .nl 0,
      .tok "custom", .sp, .ident "struct", .glue, .optComma] =
    [.kw "ModuleKeyword", .ident ['M'], .lbracket, .ident "custom".toList, .rbracket, .kw "CustomKeyword",
     .ident "struct".toList] := by decide
/-- where `compat` fails the spellings do merge: the separation rule is not vacuous -/
example : lexSlice ("a".toList ++ "b".toList) = .ok [.ident ['a', 'b']] := by decide
example : lexSlice ("[".toList ++ "[".toList) = .ok [.dlbracket] := by decide
example : lexSlice (":".toList ++ ":".toList) = .ok [.dcolon] := by decide
example : lexSlice ("-".toList ++ ">".toList) = .ok [.arrow] := by decide
example : lexSlice ("1".toList ++ "x".toList) = .ok [.intLit ['1', 'x']] := by decide
example : lexSlice ("///d".toList ++ "x".toList) = .ok [.doc ['d', 'x']] := by decide
example : lexSlice "// a\r x: bool\ny".toList = .ok [.ident ['y']] := by decide
/-- with CR LF line ends the CR is not part of a doc line (since the repair of D-16c; before, `/// d\r\n` carried `" d\r"`);
    a CR in the middle of the line stays -/
example : lexSlice "/// d\r\nx".toList = .ok [.doc [' ', 'd'], .ident ['x']] := by decide
example : lexSlice "/// d\re\r\nx".toList = .ok [.doc [' ', 'd', '\r', 'e'], .ident ['x']] := by decide
example : (lexRun false "[a\n// ]\n struct]struct".toList).items =
    [.tok .lbracket, .tok (.ident ['a']), .tok (.ident "struct".toList), .tok .rbracket, .tok (.kw "StructKeyword")] := by decide


/-! ### the parser half: non-vacuity and necessity of the side conditions -/

/-- two definitions and an interface: file attribute with a quoted and a bare argument, doc comments, a compact struct with a
    tagged optional field carrying attributes (also on the nested type), an unchecked enum with an underlying type,
    explicit (negative, hexadecimal) and implicit values and an enumerator with fields, an idempotent operation with a
    tagged streamed parameter and a tuple return, an operation returning a tagged streamed optional -/
def exFile2 : SFile := ⟨[⟨"cs::attr", ["a b", "x"]⟩], none,
  [.struct [" doc"] [⟨"deprecated", []⟩] true "S"
     [⟨[], [⟨"a", ["b"]⟩], some ⟨false, 10, 3, false⟩, "x", .mk [] (.seq (.mk [⟨"t", []⟩] (.prim .string) true)) true⟩,
      ⟨[" f"], [], none, "y", .mk [] (.dict (.mk [] (.prim .int32) false) (.mk [] (.prim .bool) false)) false⟩],
   .enum [] [] false true "E" (some (.mk [] (.prim .uint8) false))
     [⟨[], [], "A", none, some ⟨true, 16, 255, false⟩⟩,
      ⟨[" d"], [], "B", some [⟨[], [], none, "v", .mk [] (.prim .bool) false⟩], none⟩, ⟨[], [], "C", none, none⟩],
   .iface [] [] "I" []
     [⟨[" op"], [⟨"oneway", []⟩], true, "op",
        [⟨[], none, "a", false, .mk [] (.prim .int32) false⟩, ⟨[], some ⟨false, 10, 1, false⟩, "b", true, .mk [] (.prim .uint8) true⟩],
        .tuple [⟨[], none, "r", false, .mk [] (.prim .bool) false⟩, ⟨[], none, "s", false, .mk [] (.prim .string) false⟩]⟩,
      ⟨[], [], false, "op2", [], .single (some ⟨false, 16, 1000, true⟩) true (.mk [] (.prim .string) true)⟩]]⟩
example : fileOk exFile2 = true := by decide
example : fileRT exFile2 = true := by decide
/-- the hypotheses of `parse_print` hold for it, so the theorem applies: with every optional comma written, with none -/
example : parseFile (tokensWith false (List.replicate 20 true) (fileItems exFile2)) = some exFile2 :=
  parse_print exFile2 (by decide) (by decide) _
example : parseFile (tokensOf (fileItems exFile2)) = some exFile2 := parse_print_canonical exFile2 (by decide) (by decide)
example (layout seed : Nat) : parseText (render layout seed (fileItems exFile2)).1.toList = some exFile2 :=
  parse_print_full exFile2 (by decide) (by decide) layout seed
set_option maxRecDepth 8000 in
/-- the commas really are there: seven optional commas (2 fields, 3 enumerators, between the 2 parameters, between the 2
    return elements) make the sequence seven tokens longer -/
example : (tokensWith false (List.replicate 20 true) (fileItems exFile2)).length = (tokensOf (fileItems exFile2)).length + 7 := by decide
/-- the parser is not the constant function: a token sequence that is not a file is rejected, one with definitions but no
    module is accepted by the grammar and reported by `parse_file` -/
example : parseFile [.kw "StructKeyword", .ident ['S'], .lbrace] = none := by decide
set_option maxRecDepth 8000 in
example : syntaxError "struct S {}".toList = true ∧ syntaxError "module M struct S {}".toList = false := by decide
set_option maxRecDepth 8000 in
example : syntaxError "module M struct S {a:bool,,}".toList = true ∧ syntaxError "module M struct S {a:bool,}".toList = false := by decide
set_option maxRecDepth 8000 in
example : syntaxError "module M interface I{op(///d\na:bool)}".toList = true ∧ syntaxError "///d\nmodule M".toList = true ∧
    syntaxError "module M interface I{op(a:bool)}".toList = false := by decide
/-- necessity of `docLineRT`: a doc line starting with `/` is written `////…`, which is a plain comment — the doc line is not in the
    token sequence at all; a doc line ending in CR loses the CR (it belongs to the line ending) -/
example : tokensOf (fileItems ⟨[], none, [.custom ["/x"] [] "C"]⟩) = [.kw "CustomKeyword", .ident ['C']] := by decide
example : tokensOf (fileItems ⟨[], none, [.custom ["x\r"] [] "C"]⟩) = [.doc ['x'], .kw "CustomKeyword", .ident ['C']] := by decide
/-- necessity of `intRT`: `underscores` on a literal of fewer than three digits writes no underscore and reads back as `false` -/
example : intOfText (IntLit.magText ⟨false, 10, 5, true⟩).toList = ⟨false, 10, 5, false⟩ := by decide
example : intRT ⟨false, 10, 5, true⟩ = false ∧ intRT ⟨true, 16, 4096, true⟩ = true ∧ intRT ⟨false, 2, 0, false⟩ = true := by decide
/-- necessity of `dirRT`: these directives satisfy `attrOk` (they print as identifier / `::` tokens) but do not read back:
    `a::::b` is not a `RelativeIdentifier` at all, `\a` reads back as `a` -/
example : attrOk ⟨"a::::b", []⟩ = true ∧ dirRT "a::::b" = false ∧ attrOk ⟨"\\a", []⟩ = true ∧ dirRT "\\a" = false ∧
    dirRT "cs::attr" = true := by decide
/-- an attribute argument that looks like an identifier is printed bare, any other quoted; both read back as the argument -/
example : argTok "x" = .ident ['x'] ∧ argTok "a b" = .strLit ['a', ' ', 'b'] ∧ argTok "struct" = .strLit "struct".toList ∧
    argOf (argTok "a\"b\\") = some "a\"b\\" := by decide


/-- the keywords of the Slice language (specification; alphabetical) -/
def specKeywords : List String := ["Dictionary", "Result", "Sequence", "bool", "compact", "custom", "enum", "float32", "float64", "idempotent", "int16", "int32", "int64", "int8", "interface", "module", "stream", "string", "struct", "tag", "typealias", "uint16", "uint32", "uint64", "uint8", "unchecked", "varint32", "varint62", "varuint32", "varuint62"]

/-- **The keyword table of the lexer is the language's**, as a set (the order of the arms of `check_if_keyword` is free): the model
    and the printer take the keywords from the table the translator extracts; this pins the table, so that a keyword dropped from or
    added to the lexer re-opens this proof instead of being followed silently by the model. -/
theorem keyword_table_as_specified :
    (Gen.sliceKeywords.map (·.1)).all specKeywords.contains = true ∧
    specKeywords.all (Gen.sliceKeywords.map (·.1)).contains = true ∧ (Gen.sliceKeywords.map (·.1)).Nodup := by
  decide

end Slicec.C02

#print axioms Slicec.C02.unescape_escape
#print axioms Slicec.C02.scan_escape
#print axioms Slicec.C02.string_argument_roundtrip
#print axioms Slicec.C02.enumerator_values
#print axioms Slicec.C02.tag_stored
#print axioms Slicec.C02.printer_escapes_every_keyword
#print axioms Slicec.C02.lex_is_local
#print axioms Slicec.C02.gaps_read_as_nothing
#print axioms Slicec.C02.whitespace_reads_as_nothing
#print axioms Slicec.C02.line_comment_reads_as_nothing
#print axioms Slicec.C02.block_comment_reads_as_nothing
#print axioms Slicec.C02.escaped_identifier_same_token
#print axioms Slicec.C02.keyword_rows
#print axioms Slicec.C02.attribute_mode_brackets_only
#print axioms Slicec.C02.printer_respects_separation
#print axioms Slicec.C02.names_with_identifier_segments
#print axioms Slicec.C02.directives_with_identifier_segments
#print axioms Slicec.C02.layout_independence_items
#print axioms Slicec.C02.layout_independence
#print axioms Slicec.C02.canonical_tokens
#print axioms Slicec.C02.two_layouts_same_tokens
#print axioms Slicec.C02.grammar_table_matches
#print axioms Slicec.C02.parser_fuel_never_exhausted
#print axioms Slicec.C02.parsers_consume
#print axioms Slicec.C02.printed_tokens_have_shape
#print axioms Slicec.C02.parser_inverts_shape
#print axioms Slicec.C02.parse_print
#print axioms Slicec.C02.parse_print_canonical
#print axioms Slicec.C02.parse_print_full
#print axioms Slicec.C02.layouts_same_file
#print axioms Slicec.C02.tokens_determine_file
#print axioms Slicec.C02.printed_file_syntax_verdict
#print axioms Slicec.C02.integer_literals_read_back
#print axioms Slicec.C02.directives_read_back
#print axioms Slicec.C02.names_read_back
#print axioms Slicec.C02.keyword_table_as_specified
