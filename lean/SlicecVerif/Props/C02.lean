/-
  C02 — Source-to-AST fidelity: the AST says exactly what the source says.
  The unbounded part of the property is carried by two things: (1) the correspondence compares, for every
  generated program and every token-level layout, the real AST with `astDump` — a direct structural
  function of the abstract program (Model/Elab.lean), so "exactly what was declared, in order, nothing else"
  and "independent of layout" are checked against the program itself, not against a second parser;
  (2) the theorems below settle, for ALL values, the places where the compiler transforms what was written:
  string-literal escaping, enumerator numbering, tag storage, keyword escaping by the printer;
  (3) the LEXICAL half of "the result does not depend on layout" is proved below for ALL files and ALL layouts
  (`layout_independence` and the theorems leading to it) over `Model/SliceLexer.lean`, a character-level model of
  parsers/slice/lexer.rs that is itself tied to the real lexer by the correspondence stream `C02lex` (engine `slicelex`):
  whitespace, line breaks, `//` and `/* */` comments, optional commas and backslash-escaped identifiers never change the
  token sequence the parser receives (optional commas — layout in the printer model — show up as extra `Comma` tokens
  exactly where they were written, nothing else).  The grammar half (tokens → AST) stays with the correspondence
  (`parse_print_full` states it).
-/
import SlicecVerif.Model.Literals
import SlicecVerif.Model.Elab
import SlicecVerif.Gen.Keywords
import SlicecVerif.Lemmas.SliceLexerLayout
import SlicecVerif.Lemmas.SliceLexerItems
import SlicecVerif.Lemmas.SliceLexerNames

namespace Slicec.C02

open Slicec

/-- un-escaping inverts the printer's escaping for every argument string (quotes and backslashes incl.). -/
theorem unescape_escape (s : List Char) : unescapeLit (escapeChars s) false = s := by
  induction s with
  | nil => rfl
  | cons c cs ih =>
    simp only [escapeChars, escChar]
    by_cases hq : c = '"'
    · subst hq
      simp only [show (('"' == '"') || ('"' == '\\')) = true by decide, if_true, List.cons_append, List.nil_append]
      simp [unescapeLit, ih]
    · by_cases hb : c = '\\'
      · subst hb
        simp only [show (('\\' == '"') || ('\\' == '\\')) = true by decide, if_true, List.cons_append, List.nil_append]
        simp [unescapeLit, ih]
      · have h1 : (c == '"' || c == '\\') = false := by simp [hq, hb]
        have h2 : (c == '\\') = false := by simp [hb]
        simp only [h1, Bool.false_eq_true, if_false, List.cons_append, List.nil_append]
        simp [unescapeLit, h2, ih]

/-- the lexer's string scanning returns exactly the escaped text the printer wrote, and stops at the
    closing quote, for every argument string without a line break (which the syntax cannot express). -/
theorem scan_escape (s rest : List Char) (h : '\n' ∉ s) :
    scanString (escapeChars s ++ '"' :: rest) = some (escapeChars s, rest) := by
  induction s with
  | nil => simp [escapeChars, scanString]
  | cons c cs ih =>
    have hc : c ≠ '\n' := fun e => h (by simp [e])
    have hcs : '\n' ∉ cs := fun e => h (by simp [e])
    have ih := ih hcs
    simp only [escapeChars, escChar]
    by_cases hq : c = '"'
    · subst hq
      simp only [show (('"' == '"') || ('"' == '\\')) = true by decide, if_true, List.cons_append, List.nil_append]
      rw [scanString]
      simp [ih]
    · by_cases hb : c = '\\'
      · subst hb
        simp only [show (('\\' == '"') || ('\\' == '\\')) = true by decide, if_true, List.cons_append, List.nil_append]
        rw [scanString]
        simp [ih]
      · have h1 : (c == '"' || c == '\\') = false := by simp [hq, hb]
        simp only [h1, Bool.false_eq_true, if_false, List.cons_append, List.nil_append]
        rw [scanString]
        · simp [ih]
        · exact hq
        · exact hc
        · intro c' r hc' _; exact hb hc'

/-- composition: what the attribute argument `"…"` yields after lexing and un-escaping is the string
    that was written. -/
theorem string_argument_roundtrip (s rest : List Char) (h : '\n' ∉ s) :
    (scanString (escapeChars s ++ '"' :: rest)).map (fun p => (unescapeLit p.1 false, p.2)) = some (s, rest) := by
  rw [scan_escape s rest h]; simp [unescape_escape]

/-- enumerator numbering: a written literal is taken as is; otherwise the value is the previous value + 1
    (wrapping in i128), starting from 0. -/
theorem enumerator_values (es : List Enumerator) (prev : Option Int) :
    (enumValues prev es).length = es.length ∧
    ∀ i (h : i < es.length), ∀ v, (enumValues prev es)[i]? = some v →
      (∀ l, es[i].value = some l → v = l.value) ∧
      (es[i].value = none →
        v = match (if i = 0 then prev else (enumValues prev es)[i - 1]?) with
            | some p => wrapI128 p
            | none => 0) := by
  induction es generalizing prev with
  | nil => simp [enumValues]
  | cons e es ih =>
    simp only [enumValues, List.length_cons]
    refine ⟨by simp [(ih _).1], ?_⟩
    intro i hi v hv
    cases i with
    | zero =>
      simp only [List.getElem?_cons_zero, Option.some.injEq] at hv
      subst hv
      constructor
      · intro l hl
        have hl' : e.value = some l := by simpa using hl
        simp [hl']
      · intro hn
        have hn' : e.value = none := by simpa using hn
        simp only [hn']
        cases prev <;> rfl
    | succ i =>
      simp only [List.getElem?_cons_succ] at hv
      have := (ih _).2 i (by simpa using hi) v hv
      simp only [List.getElem_cons_succ]
      refine ⟨this.1, ?_⟩
      intro hn
      have h2 := this.2 hn
      cases i with
      | zero => simpa using h2
      | succ j => simpa using h2

/-- a tag inside the legal range is stored unchanged by the `as u32` cast. -/
theorem tag_stored (l : IntLit) (h0 : 0 ≤ l.value) (h1 : l.value < 2 ^ 31) :
    tagS (some l) = toString l.value.toNat := by
  have : l.value % 2 ^ 32 = l.value := Int.emod_eq_of_lt h0 (by omega)
  simp only [tagS, this]

/-- the printer escapes every word the compiler's lexer treats as a keyword (table extracted from
    `check_if_keyword` on every run), so a generated identifier can never be read as a keyword. -/
theorem printer_escapes_every_keyword : ∀ k ∈ Gen.sliceKeywords, keywords.contains k.1 = true := by decide

/-! ## the lexical half of layout independence (model: Model/SliceLexer.lean, tied to lexer.rs by stream `C02lex`) -/

open Slicec.SLex

/-- **Separation lemma (general form): reading is local.** For every text `s`, every continuation `r` and either
    attribute mode: if the way `s` ends cannot be affected by how `r` starts (`compat`: after a word no word character,
    after a single `[` no `[`, after `]` no `]`, after `:` no `:`, after `-` no `>`, after an open `//` comment only a
    line break, after whitespace / a closed comment / any self-delimiting token anything), then the lexer's output on
    `s ++ r` is its output on `s` followed by its output on `r` started in the attribute mode reached at the end of `s`.
    Two adjacent spellings never merge into one token or split differently unless `compat` says so. -/
theorem lex_is_local (a : Bool) (s r : List Char) (h : compat (lexRun a s).last r = true) :
    (lexRun a (s ++ r)).items = (lexRun a s).items ++ (lexRun (lexRun a s).attr r).items ∧
    (lexRun a (s ++ r)).attr = (lexRun (lexRun a s).attr r).attr := by
  rw [lexRun_append a s r h]; exact ⟨rfl, rfl⟩

/-- every separator of the printer's catalogue (blanks, tabs, LF, CR LF, `//` comments running over lone carriage
    returns up to the line break, `/* */` comments with line breaks, stars, slashes and non-ASCII text inside) reads as
    no token at all, leaves `attribute_mode` alone, is not empty, and may follow anything but an open line comment. -/
theorem gaps_read_as_nothing : ∀ g ∈ gapCatalogue,
    (∀ a, lexRun a g.toList = ⟨[], a, .closed⟩) ∧ gapHeadOk g.toList = true ∧ g.toList ≠ [] := gapCatalogue_ok

/-- any run of Unicode `White_Space` characters reads as nothing. -/
theorem whitespace_reads_as_nothing (a : Bool) (g : List Char) (h : g.all isWs = true) :
    lexRun a g = ⟨[], a, .closed⟩ := lexRun_ws a g h

/-- beyond the catalogue: a `//` comment with ANY body (no line break in it; not starting with a third slash, which
    would make it a doc comment) followed by its line break reads as nothing — a carriage return does not end it. -/
theorem line_comment_reads_as_nothing (a : Bool) (t : List Char) (h1 : t.all (· != '\n') = true)
    (h2 : t.head? ≠ some '/') : lexRun a ('/' :: '/' :: (t ++ ['\n'])) = ⟨[], a, .closed⟩ :=
  lexRun_lineComment_nl a t h1 h2

/-- a `/* */` comment with ANY body that does not contain `*/` (line breaks, `/*`, `//`, stars, quotes included)
    reads as nothing: block comments do not nest and hide everything up to the first `*/`. -/
theorem block_comment_reads_as_nothing (a : Bool) (body : List Char) (h : noClose body = true) :
    lexRun a ('/' :: '*' :: (body ++ ['*', '/'])) = ⟨[], a, .closed⟩ := lexRun_blockComment a body h

/-- a backslash-escaped identifier is the same `Identifier` token as the plain spelling — for every identifier text,
    in and outside attributes — and the plain spelling is that token too unless the word is in the keyword table
    (outside attributes); inside attributes the keyword table is not consulted at all. -/
theorem escaped_identifier_same_token (a : Bool) (w : List Char) (h : isIdentText w = true) :
    (lexRun a ('\\' :: w)).items = [.tok (.ident w)] ∧
    (lexRun true w).items = [.tok (.ident w)] ∧
    (Gen.sliceKeywords.lookup (String.ofList w) = none → (lexRun a w).items = [.tok (.ident w)]) := by
  refine ⟨by rw [lexRun_escaped a w h], by rw [lexRun_word true w h]; rfl, fun hk => ?_⟩
  rw [lexRun_word a w h]
  cases a
  · simp [checkKeyword, hk]
  · rfl

/-- the extracted keyword table, row by row: the plain spelling is the keyword token outside attributes, an
    identifier inside `[…]` / `[[…]]`, and an identifier when escaped. -/
theorem keyword_rows : ∀ p ∈ Gen.sliceKeywords,
    lexSlice p.1.toList = .ok [.kw p.2] ∧ (lexRun true p.1.toList).items = [.tok (.ident p.1.toList)] ∧
    lexSlice ('\\' :: p.1.toList) = .ok [.ident p.1.toList] := by decide

/-- `attribute_mode` is set by `[` and `[[`, cleared by `]` and `]]`, and by nothing else: separators, line breaks and
    comments between the bracket, the directive and the arguments leave it alone (see `gaps_read_as_nothing`), and so
    does every other token. -/
theorem attribute_mode_brackets_only (a : Bool) (c : Char) (cs : List Char) :
    (lexNext a c cs).attr = (if c = '[' then true else if c = ']' then false else a) := by
  unfold lexNext
  split
  · rename_i t ht
    have h1 : c ≠ '[' := by intro e; subst e; simp [simpleTok] at ht
    have h2 : c ≠ ']' := by intro e; subst e; simp [simpleTok] at ht
    simp [h1, h2]
  · by_cases h1 : c = '['
    · subst h1; simp [lexPair]; split <;> (try split) <;> rfl
    · by_cases h2 : c = ']'
      · subst h2; simp [lexPair]; split <;> (try split) <;> rfl
      · simp only [beq_iff_eq, h1, h2, if_false]
        repeat' split
        all_goals first
          | rfl
          | (simp only [lexPair]; split <;> (try split) <;> rfl)
          | (simp only [lexString]; split <;> rfl)
          | (simp only [lexSlash, lexLineComment]; repeat' split
             all_goals rfl)
          | (simp only [lexBackslash]; split <;> (try split) <;> rfl)

/-- **The printer respects the separation rule.** For every file whose leaves are well-formed (`fileOk`: names are
    identifiers, attribute directives and scoped names print as identifier/`::` sequences, string arguments and doc
    lines contain no line break, integer literals are in base 2/10/16 — nothing about the *shape* of the file), the item
    list passes the separation check `itemsOk`: wherever a layout may write two spellings without a separator (`glue`
    gaps, absent optional commas) they cannot merge; every spelling lexes cleanly on its own; a doc line is followed
    by a line break. No pair of adjacent items of `fileItems` is glued wrongly by the compact layout. -/
theorem printer_respects_separation (f : SFile) (h : fileOk f = true) : itemsOk (fileItems f) = true :=
  itemsOk_fileItems f h

/-- a syntactic criterion for the name condition of `fileOk`: a scoped name whose `::`-separated segments (as the
    printer splits them) are identifiers `[A-Za-z][A-Za-z0-9_]*` — the first may be empty: global scope — prints, with
    the printer's escaping of keyword segments, as text that reads as identifiers separated by `::`. -/
theorem names_with_identifier_segments (id : String) (h : nameSegsOk (id.splitOn "::") = true) :
    nameTextOk false (escapeScoped id).toList = true := nameTextOk_of_segments id h

/-- the same for attribute directives `a::b::c`: any identifiers will do, keyword spellings included, because the
    keyword table is off in attribute mode. -/
theorem directives_with_identifier_segments (segs : List String) (hne : segs ≠ [])
    (h : ∀ s ∈ segs, isIdentText s.toList = true) : nameTextOk true ("::".intercalate segs).toList = true :=
  nameTextOk_directive segs hne h

/-- **Layout independence for item lists.** For every item list that passes the separation check, every layout and
    every seed: the rendered text lexes without error to the tokens the items denote, with a `Comma` token exactly at
    the optional commas the layout chose to write (`cs`), none in the canonical layout. -/
theorem layout_independence_items (layout seed : Nat) (items : List Item) (h : itemsOk items = true) :
    ∃ cs : List Bool, (layout = 0 → cs = []) ∧
      lexSlice (render layout seed items).1.toList = .ok (tokensWith false cs items) :=
  lex_render layout seed items h

/-- **Layout independence (lexical half of C02), for ALL files and ALL layouts.** For every well-formed file, every
    layout style and every seed of the layout generator (arbitrary whitespace, LF / CR LF, tabs, `//` and `/* */`
    comments in every gap, optional commas written or not, identifiers written with or without a backslash), the real
    lexer's model reads the rendered text without error as `tokensOf (fileItems f)` — a function of the abstract file
    alone — plus `Comma` tokens exactly where an optional comma was written. -/
theorem layout_independence (f : SFile) (hf : fileOk f = true) (layout seed : Nat) :
    ∃ cs : List Bool, (layout = 0 → cs = []) ∧
      lexSlice (render layout seed (fileItems f)).1.toList = .ok (tokensWith false cs (fileItems f)) ∧
      CommaExt (tokensOf (fileItems f)) (tokensWith false cs (fileItems f)) := by
  obtain ⟨cs, hcs, hlex⟩ := lex_render layout seed (fileItems f) (itemsOk_fileItems f hf)
  exact ⟨cs, hcs, hlex, commaExt_tokensWith _ _ _⟩

/-- the canonical text of a file lexes to exactly `tokensOf`. -/
theorem canonical_tokens (f : SFile) (hf : fileOk f = true) :
    lexSlice (printFile f).toList = .ok (tokensOf (fileItems f)) := by
  obtain ⟨cs, hcs, hlex⟩ := lex_render 0 0 (fileItems f) (itemsOk_fileItems f hf)
  rw [hcs rfl] at hlex
  exact hlex

/-- any two layouts of one file give token sequences that differ in `Comma` tokens only. -/
theorem two_layouts_same_tokens (f : SFile) (hf : fileOk f = true) (l1 s1 l2 s2 : Nat) :
    ∃ t1 t2, lexSlice (render l1 s1 (fileItems f)).1.toList = .ok t1 ∧
      lexSlice (render l2 s2 (fileItems f)).1.toList = .ok t2 ∧ dropCommas t1 = dropCommas t2 := by
  obtain ⟨c1, _, h1, e1⟩ := layout_independence f hf l1 s1
  obtain ⟨c2, _, h2, e2⟩ := layout_independence f hf l2 s2
  exact ⟨_, _, h1, h2, by rw [dropCommas_of_commaExt e1, dropCommas_of_commaExt e2]⟩

/-- The grammar half, NOT proved here (no Lean model of the LALRPOP grammar; checked by the `compile` correspondence
    against `astDump`): the token sequence of a well-formed file determines its AST dump, i.e. a parser that inverts
    `tokensOf ∘ fileItems` exists and is what the real parser computes. Stated in its model-level form. -/
def parse_print_full : Prop :=
  ∀ f g : SFile, fileOk f = true → fileOk g = true →
    dropCommas (tokensOf (fileItems f)) = dropCommas (tokensOf (fileItems g)) → astDump [f] = astDump [g]

/-! non-vacuity -/
example : unescapeLit "a\\\"b\\\\c".toList false = "a\"b\\c".toList := by decide
example : enumValues none [⟨[], [], "A", none, none⟩, ⟨[], [], "B", none, some ⟨true, 16, 5, false⟩⟩, ⟨[], [], "C", none, none⟩] = [0, -5, -4] := by decide


/-- a file with every leaf kind satisfies the hypothesis of `layout_independence` -/
def exFile : SFile := ⟨[⟨"cs::attr", ["a b", "x"]⟩], none,
  [.struct [" doc"] [⟨"deprecated", []⟩] true "struct"
     [⟨[], [], some ⟨true, 16, 255, true⟩, "x", .mk [] (.seq (.mk [] (.prim .string) true)) false⟩],
   .enum [] [] false true "E" none [⟨[], [], "A", none, some ⟨false, 10, 7, false⟩⟩, ⟨[], [], "B", none, none⟩]]⟩
example : fileOk exFile = true := by decide
example : tokensOf [.tok "module", .sp, .tok "M", .nl 0, .tok "[", .glue, .tok "custom", .glue, .tok "]", .nl 0,
      .tok "custom", .sp, .ident "struct", .glue, .optComma] =
    [.kw "ModuleKeyword", .ident ['M'], .lbracket, .ident "custom".toList, .rbracket, .kw "CustomKeyword",
     .ident "struct".toList] := by decide
/-- where `compat` fails the spellings do merge: the separation rule is not vacuous -/
example : lexSlice ("a".toList ++ "b".toList) = .ok [.ident ['a', 'b']] := by decide
example : lexSlice ("[".toList ++ "[".toList) = .ok [.dlbracket] := by decide
example : lexSlice (":".toList ++ ":".toList) = .ok [.dcolon] := by decide
example : lexSlice ("-".toList ++ ">".toList) = .ok [.arrow] := by decide
example : lexSlice ("1".toList ++ "x".toList) = .ok [.intLit ['1', 'x']] := by decide
example : lexSlice ("///d".toList ++ "x".toList) = .ok [.doc ['d', 'x']] := by decide
example : lexSlice "// a\r x: bool\ny".toList = .ok [.ident ['y']] := by decide
/-- with CR LF line ends the CR is not part of a doc line (since the repair of D-16c; before, `/// d\r\n` carried `" d\r"`);
    a CR in the middle of the line stays -/
example : lexSlice "/// d\r\nx".toList = .ok [.doc [' ', 'd'], .ident ['x']] := by decide
example : lexSlice "/// d\re\r\nx".toList = .ok [.doc [' ', 'd', '\r', 'e'], .ident ['x']] := by decide
example : (lexRun false "[a\n// ]\n struct]struct".toList).items =
    [.tok .lbracket, .tok (.ident ['a']), .tok (.ident "struct".toList), .tok .rbracket, .tok (.kw "StructKeyword")] := by decide

end Slicec.C02

#print axioms Slicec.C02.unescape_escape
#print axioms Slicec.C02.scan_escape
#print axioms Slicec.C02.string_argument_roundtrip
#print axioms Slicec.C02.enumerator_values
#print axioms Slicec.C02.tag_stored
#print axioms Slicec.C02.printer_escapes_every_keyword
#print axioms Slicec.C02.lex_is_local
#print axioms Slicec.C02.gaps_read_as_nothing
#print axioms Slicec.C02.whitespace_reads_as_nothing
#print axioms Slicec.C02.line_comment_reads_as_nothing
#print axioms Slicec.C02.block_comment_reads_as_nothing
#print axioms Slicec.C02.escaped_identifier_same_token
#print axioms Slicec.C02.keyword_rows
#print axioms Slicec.C02.attribute_mode_brackets_only
#print axioms Slicec.C02.printer_respects_separation
#print axioms Slicec.C02.names_with_identifier_segments
#print axioms Slicec.C02.directives_with_identifier_segments
#print axioms Slicec.C02.layout_independence_items
#print axioms Slicec.C02.layout_independence
#print axioms Slicec.C02.canonical_tokens
#print axioms Slicec.C02.two_layouts_same_tokens
