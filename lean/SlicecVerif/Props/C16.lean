/-
  C16 — Doc comments keep their text, tags and links.

  The theorems are about the executable model of the comment lexer / grammar / helper functions
  (`Model/Comment.lean`, mirrors `parsers/comments/*`) and of link binding and tag validation in whole
  programs (`Model/CommentDocs.lean`). The model is tied to the code by the `comments` and `compile`
  engines (Drv/C16.lean). Two parts of the property are *refuted* for the pinned tree (D-16a, D-16b):
  the refutations are `example`s below and known findings of the correspondence run.
-/
import SlicecVerif.Lemmas.Comment
import SlicecVerif.Model.CommentDocs

namespace Slicec.C16

open Slicec

/-! ### indentation -/

/-- **Common indentation.** For lines whose first component is a text made of `k` ASCII spaces followed by a
    non-blank character (empty lines allowed anywhere), `sanitize_message_lines` succeeds and
    * removes exactly `m` columns from every non-empty line, where `m` is the minimum indentation over the
      non-empty lines (`m ≤ k` for each of them, and some line has `k = m`),
    * keeps everything else: the rest of the first text, all further components, one `"\n"` text after every
      line, an empty line becoming just `"\n"` (line breaks preserved). -/
theorem sanitize_common_indent (ls : List ILine) (h : ∀ l ∈ ls, WellFormedI l) :
    let m := (minIndent none ls).getD 0
    sanitizeMessageLines (ls.map ILine.toMLine) = .ok (ls.flatMap (ILine.stripped m)) ∧
    (∀ k body rest, some (k, body, rest) ∈ ls → m ≤ k) ∧
    ((∃ k body rest, some (k, body, rest) ∈ ls) → ∃ k body rest, some (k, body, rest) ∈ ls ∧ k = m) := by
  intro m
  have hle : ∀ k body rest, some (k, body, rest) ∈ ls → m ≤ k := by
    intro k body rest hm
    obtain ⟨m', hm', hle⟩ := minIndent_le_mem ls none k body rest hm
    simp [m, hm', hle]
  refine ⟨?_, hle, ?_⟩
  · unfold sanitizeMessageLines
    rw [commonWs_eq_minIndent ls h none, stripLines_spaces ls m hle]
  · rintro ⟨k, body, rest, hm⟩
    obtain ⟨m', hm', _⟩ := minIndent_le_mem ls none k body rest hm
    rcases minIndent_attained ls none m' hm' with h0 | ⟨k', b, r, hk, rfl⟩
    · simp at h0
    · exact ⟨k', b, r, hk, by simp [m, hm']⟩

/-- **No panic, exact condition.** `sanitize_message_lines` never reports an error; it returns normally if and only if the
    common byte index it computed (`commonWs`) is a character boundary of the first text of *every* non-empty line
    that starts with a text — otherwise `replace_range` panics. This is the weakest condition: it is an equivalence. -/
theorem sanitize_no_panic (ls : List MLine) :
    (∃ m, sanitizeMessageLines ls = .ok m) ↔
      ∀ t rest, some (Comp.text t, rest) ∈ ls → OnBoundary t ((commonWs none ls).getD 0) := by
  unfold sanitizeMessageLines
  have key := stripLines_isSome_iff ((commonWs none ls).getD 0) ls
  constructor
  · rintro ⟨m, hm⟩ t rest hmem
    cases hs : stripLines ((commonWs none ls).getD 0) ls with
    | none => simp [hs] at hm
    | some x =>
      have := key.mp (by simp [hs]) t rest hmem
      exact (dropBytes_isSome_iff t _).mp this
  · intro h
    have : (stripLines ((commonWs none ls).getD 0) ls).isSome :=
      key.mpr (fun t rest hmem => (dropBytes_isSome_iff t _).mpr (h t rest hmem))
    obtain ⟨x, hx⟩ := Option.isSome_iff_exists.mp this
    exact ⟨x, by simp [hx]⟩

/-- the only other outcome is the panic in `replace_range` (never an error value) -/
theorem sanitize_ok_or_panic (ls : List MLine) :
    (∃ m, sanitizeMessageLines ls = .ok m) ∨ sanitizeMessageLines ls = .panic "replace_range" := by
  unfold sanitizeMessageLines
  cases stripLines ((commonWs none ls).getD 0) ls with
  | none => right; rfl
  | some x => left; exact ⟨x, rfl⟩

/-- ASCII-space indentation never panics (corollary of `sanitize_common_indent`). -/
theorem sanitize_no_panic_ascii (ls : List ILine) (h : ∀ l ∈ ls, WellFormedI l) :
    ∃ m, sanitizeMessageLines (ls.map ILine.toMLine) = .ok m :=
  ⟨_, (sanitize_common_indent ls h).1⟩

/-- **D-16a, refutation of "no panic" for mixed-width indentation**: one line indented with a space (1 byte), the next
    with U+3000 (3 bytes): the common byte index 1 is inside the second line's first character. -/
example : sanitizeMessageLines [some (.text [' ', 'x'], []), some (.text ['\u3000', 'y'], [])] = .panic "replace_range" := by
  decide

/-- the same through the whole comment parser: `/// x` / `///　y` panics instead of yielding a comment or a lint -/
example : parseComment [[' ', 'x'], ['\u3000', 'y']] = .panic "replace_range" := by decide

/-- **D-16a, second face**: when the byte index happens to be a boundary the amount removed is counted in bytes, not in
    characters: one U+00A0 (2 bytes) on the first line makes *two* spaces disappear from the second. -/
example : sanitizeMessageLines [some (.text ['\u00A0', 'x'], []), some (.text [' ', ' ', 'y'], [])]
    = .ok [.text ['x'], nl, .text ['y'], nl] := by decide

/-- **D-16b, refutation of "common indentation removed"**: a line that starts with an inline link after its indentation
    has an all-whitespace first text, whose index is 0 (`unwrap_or_default`): nothing is stripped from any line. -/
example : parseComment [[' ', ' ', 'a'], [' ', ' ', '{', '@', 'l', 'i', 'n', 'k', ' ', 'S', '}']]
    = .ok { overview := some [.text [' ', ' ', 'a'], nl, .text [' ', ' '], .link ['S'], nl], params := [], returns := [], see := [] } := by
  decide

/-- non-vacuity of `sanitize_common_indent`: two lines indented by 3 and 1, with an empty line between them -/
example : sanitizeMessageLines ([some (3, ['a'], []), none, some (1, ['b'], [.link ['S']])].map ILine.toMLine)
    = .ok [.text [' ', ' ', 'a'], nl, nl, .text ['b'], .link ['S'], nl] := by decide

/-! ### tags -/

/-- **Tags in order.** Whenever a comment parses (with the code's sanitizer or any other), its `@param`, `@returns` and
    `@see` tags are exactly the block tags written in the token stream — `writtenParams/Returns/See` scan the stream for
    the block keywords, which the lexer only emits for a tag at the start of a line — in the order written and with
    the identifiers written (for `@returns`, also whether an identifier was written at all). -/
theorem tags_in_order (san : Sanitizer) (lines : List Str) (c : DocC) (h : parseCommentG san lines = .ok c) :
    c.params.map (·.1) = writtenParams (lexComment lines).toks ∧
    c.returns.map (·.1) = writtenReturns (lexComment lines).toks ∧
    c.see = writtenSee (lexComment lines).toks := by
  unfold parseCommentG at h
  split at h
  · simp at h
  · simp only at h
    split at h
    · simp at h
    · rename_i ls rest hl
      obtain ⟨ov, _, h2⟩ := Outcome.bind_eq_ok _ _ _ h
      have hc := parseLines_consumed _ _ _ _ hl
      obtain ⟨i1, i2, i3⟩ := parseBlocksG_tags _ _ _ _ _ _ h2
      refine ⟨?_, ?_, ?_⟩
      · simpa [writtenParams, scan_consumed hdParam hdParam_nb _ _ hc] using i1
      · simpa [writtenReturns, scan_consumed hdReturns hdReturns_nb _ _ hc] using i2
      · simpa [writtenSee, scan_consumed hdSee hdSee_nb _ _ hc] using i3

/-- non-vacuity: interleaved tags come out grouped by kind, each group in the order written -/
example : (parseComment ["@see A::B".toList, "@param x: m".toList, "@returns".toList, "@param y".toList, "@see ::C".toList]).bind
    (fun c => .ok (c.params.map (·.1), c.returns.map (·.1), c.see))
    = .ok ([['x'], ['y']], [none], [['A', ':', ':', 'B'], [':', ':', 'C']]) := by decide

/-! ### malformed comments -/

/-- a lexer error anywhere in the comment means the comment does not parse (the pending error blocks every accepting path) -/
theorem lexer_error_is_failure (san : Sanitizer) (lines : List Str) (e : CLexErr) (c : DocC)
    (he : (lexComment lines).err = some e) : parseCommentG san lines ≠ .ok c := by
  intro h
  unfold parseCommentG at h
  split at h
  · simp at h
  · simp only at h
    split at h
    · simp at h
    · obtain ⟨ov, _, h2⟩ := Outcome.bind_eq_ok _ _ _ h
      rw [he] at h2
      exact parseBlocksG_pend_not_ok _ _ _ _ _ _ h2

/-- **Malformed is a warning.** Every failure of the lexer or the grammar (`parseCommentG … = .err _`) reaches the Slice
    parser as: no comment, and exactly one diagnostic, the lint `MalformedDocComment`, whose level is Warning.
    Conversely the only ways `parse_doc_comment` attaches something are: no lines → nothing, no lint; success → the
    comment, no lint; failure → nothing and that one lint. (A panic is not a value of this function: see D-16a.)
    The element itself and its siblings cannot be affected: `attachG` is a function of the element's own raw lines
    only and its result has no other component than these two (`siblings_preserved` states what that means for the
    name table and the element list). -/
theorem malformed_is_warning (san : Sanitizer) (raw : List Str) :
    (∀ e, parseCommentG san raw = .err e →
        attachG san raw = .ok ⟨none, [.malformedDocComment]⟩ ∧ lintLevel .malformedDocComment = "W") ∧
    (∀ a, attachG san raw = .ok a →
        (raw = [] ∧ a = ⟨none, []⟩) ∨
        (∃ c, parseCommentG san raw = .ok c ∧ a = ⟨some c, []⟩) ∨
        (∃ e, parseCommentG san raw = .err e ∧ a = ⟨none, [.malformedDocComment]⟩)) := by
  constructor
  · intro e he
    cases raw with
    | nil => simp [parseCommentG] at he
    | cons l ls => simp [attachG, he, lintLevel]
  · intro a ha
    cases raw with
    | nil => left; simp [attachG] at ha; exact ⟨rfl, ha.symm⟩
    | cons l ls =>
      right
      simp only [attachG] at ha
      cases hp : parseCommentG san (l :: ls) with
      | ok c => left; simp [hp] at ha; exact ⟨c, rfl, ha.symm⟩
      | err e => right; simp [hp] at ha; exact ⟨e, rfl, ha.symm⟩
      | panic s => simp [hp] at ha

/-- non-vacuity: the catalogue's failure kinds (unknown tag, missing `}`, inline `@param`, `@` alone, stray symbol) -/
example :
    attach ["@foo".toList] = .ok ⟨none, [.malformedDocComment]⟩ ∧
    attach [" ok".toList, "{@link X".toList] = .ok ⟨none, [.malformedDocComment]⟩ ∧
    attach ["{@param x}".toList] = .ok ⟨none, [.malformedDocComment]⟩ ∧
    attach ["@".toList] = .ok ⟨none, [.malformedDocComment]⟩ ∧
    attach ["@param (x)".toList] = .ok ⟨none, [.malformedDocComment]⟩ := by decide

/-- **Siblings preserved** (what "never cost the documented element or its siblings" means in the model).
    Whatever doc lines a definition or a field carries — well-formed, malformed, or none —
    (1) the name-table entries of the definition and of its members are the same, so every type reference and every
        link in the program binds as before;
    (2) the list of commentable elements (paths and scoped identifiers) is the same, and the member elements, with their
        own doc lines, are untouched;
    and by `malformed_is_warning` the only trace of a malformed comment is `comment = none` plus one warning. -/
theorem siblings_preserved (i : Nat) (path m s : String) (d : Def) (doc : List String) (g : Field → List String) (fs : List Field) :
    defEntries i m (d.withDoc doc) = defEntries i m d ∧
    fieldEntries i m s (reDocFields g fs) = fieldEntries i m s fs ∧
    (defElems path m (d.withDoc doc)).map (fun e => (e.path, e.key)) = (defElems path m d).map (fun e => (e.path, e.key)) ∧
    (defElems path m (d.withDoc doc)).tail = (defElems path m d).tail := by
  refine ⟨?_, ?_, ?_, ?_⟩
  · cases d <;> rfl
  · simp [fieldEntries, reDocFields, List.map_map, Function.comp_def]
  · cases d <;> simp [Def.withDoc, defElems]
  · cases d <;> simp [Def.withDoc, defElems]

/-! ### links -/

/-- **Link binding = type binding's search.** A `{@link id}` / `@see id` on an element is looked up by
    `findNodeWithScope` (the function `resolveNamed` of C03 starts with), the scope being the documented element's *own*
    parser-scoped identifier (so the element's members and the element itself are found first); the result is kept
    unless it is a module, a parameter / return member or a primitive. -/
theorem link_binding_eq_C03 (t : Table) (elemKey id : String) :
    resolveLink t elemKey id = (findNodeWithScope t id elemKey).filter (fun n => linkable n.kind) := by
  unfold resolveLink
  cases findNodeWithScope t id elemKey with
  | none => rfl
  | some n => cases h : linkable n.kind <;> simp [Option.filter, h]

/-- a resolved link is a node the scoped search finds, and type binding finds the *same* node for the same identifier
    written in a type position whose scope is the element's identifier -/
theorem link_target_is_search_result (t : Table) (elemKey id : String) (n : NodeInfo)
    (h : resolveLink t elemKey id = some n) : findNodeWithScope t id elemKey = some n ∧ linkable n.kind = true := by
  unfold resolveLink at h
  split at h
  · rename_i m hm
    split at h
    · simp at h; subst h; exact ⟨hm, ‹_›⟩
    · simp at h
  · simp at h

/-- an unresolvable link costs one `BrokenDocLink` lint (a lint: Warning) and nothing else -/
theorem broken_link_is_warning : lintLevel .brokenDocLink = "W" ∧ lintLevel .incorrectDocComment = "W" := ⟨rfl, rfl⟩

/-! ### round trip -/

/-- what the renderer can write so that it reads back *exactly* (same text segmentation): texts are non-empty, contain no
    `{` and no line break, the first text of a line starts with a non-blank character other than `@`; a message is a
    sequence of such lines each closed by the `"\n"` text; some non-empty line of every group of lines that is stripped
    together (overview; continuation lines of a tag) has no indentation of its own; identifiers are what the lexer accepts. -/
def plainText (s : Str) : Bool := !s.isEmpty && s.all (fun c => c != '{' && c != '\n')

def lineOK : List Comp → Bool
  | [] => true
  | .text s :: r => plainText s && (match s.dropWhile (· == ' ') with | c :: _ => !isWsC c && c != '@' | [] => false) &&
      r.all (fun c => match c with | .text t => plainText t | .link _ => true) &&
      -- two texts next to each other would be read back as one
      ((Comp.text s :: r).zip r).all (fun p => match p with | (.text _, .text _) => false | _ => true)
  | .link _ :: _ => false      -- a line that starts with a link reads back unstripped (D-16b): only at indentation 0, excluded here

def idOK (s : Str) : Bool :=
  match s with
  | c :: r => c.isAlpha && r.all isIdCharC
  | [] => false

def scopedOK (s : Str) : Bool :=
  match parseScopedId ((lexLine (s.length + 2) .blockTag s).toks.dropLast) with
  | some (id, []) => id == s
  | _ => false

def linksOK (m : Msg) : Bool := m.all fun c => match c with | .link id => scopedOK id | .text _ => true

/-- the lines are properly terminated, each is writable, and their common indentation is 0 -/
def groupOK (m : Msg) : Bool :=
  (m.getLast? == some nl || m.isEmpty) && (splitLines m).all lineOK && linksOK m &&
  ((splitLines m).all List.isEmpty ||
   (splitLines m).any (fun l => match l with | .text (c :: _) :: _ => !isWsC c | _ => false))

def sectionOK (m : Msg) : Bool :=
  match splitLines m with
  | [] => m.isEmpty
  | [] :: _ => groupOK m
  | (_ :: _) :: _ => groupOK m && groupOK (m.dropWhile (· != nl) |>.drop 1)

def Renderable (c : DocC) : Bool :=
  (match c.overview with | none => true | some m => groupOK m && !m.isEmpty) &&
  c.params.all (fun x => idOK x.1 && sectionOK x.2) &&
  c.returns.all (fun x => (match x.1 with | none => true | some i => idOK i) && sectionOK x.2) &&
  c.see.all scopedOK

/-- **Round trip, full statement** (not proved in general; exercised by the correspondence families, whose comments are
    rendered from pieces and compared with the real parser): every renderable comment, written at any ASCII indentation,
    reads back as itself. -/
def comment_roundtrip_full : Prop :=
  ∀ (c : DocC) (k : Nat), Renderable c = true → (c.overview.isSome ∨ c.params ≠ [] ∨ c.returns ≠ [] ∨ c.see ≠ []) →
    parseComment (renderComment c (spaces k)) = .ok c

/-- **Round trip, proved fragment**: overview comments made of plain text lines (no links, no tags; empty lines and lines
    with additional indentation of their own allowed, some non-empty line having none), written at *any* ASCII
    indentation `k`: the parser returns exactly the comment that was rendered — the written lines minus their common
    indentation, one `"\n"` text per line. -/
theorem comment_roundtrip_partial (ls : List PLine) (k : Nat) (hne : ls ≠ []) (hwf : ∀ l ∈ ls, l.WF)
    (hzero : ∀ j b, some (j, b) ∈ ls → ∃ b0, some (0, b0) ∈ ls) :
    parseComment (renderComment (plainDoc ls) (spaces k)) = .ok (plainDoc ls) := by
  rw [render_plainDoc ls k hwf]
  unfold parseComment
  rw [parseCommentG_nonempty _ _ (by simpa using hne), lexComment_plain k ls hwf]
  simp only
  rw [parseLines_plain k ls _ (by have := length_le_toks k ls; omega)]
  simp only
  rw [reduceLines_end _ _ (by simpa using hne)]
  have hmap : (ls.map fun l => (l.iline k).toMLine) = (ls.map (PLine.iline k)).map ILine.toMLine := by simp
  have hwfI : ∀ l ∈ ls.map (PLine.iline k), WellFormedI l := by
    intro l hl
    obtain ⟨pl, hpl, rfl⟩ := List.mem_map.mp hl
    match pl, hwf pl hpl with
    | none, _ => trivial
    | some (j, b), hb => exact hb.startsNonWs
  obtain ⟨hs, hle, hatt⟩ := sanitize_common_indent (ls.map (PLine.iline k)) hwfI
  rw [hmap, hs]
  -- the common indentation is exactly `k`
  have hstrip : ∀ l ∈ ls, ILine.stripped ((minIndent none (ls.map (PLine.iline k))).getD 0) (l.iline k) = l.comps ++ [nl] := by
    intro l hl
    match l with
    | none => rfl
    | some (j, b) =>
      obtain ⟨b0, hb0⟩ := hzero j b hl
      have h1 := hle (k + 0) b0 [] (List.mem_map.mpr ⟨some (0, b0), hb0, rfl⟩)
      obtain ⟨k', b', r', hm', hk'⟩ := hatt ⟨k + j, b, [], List.mem_map.mpr ⟨some (j, b), hl, rfl⟩⟩
      obtain ⟨pl, _, hpl⟩ := List.mem_map.mp hm'
      have h2 : k ≤ k' := by
        match pl with
        | none => simp [PLine.iline] at hpl
        | some (j2, b2) => simp [PLine.iline] at hpl; omega
      have hm : (minIndent none (ls.map (PLine.iline k))).getD 0 = k := by omega
      rw [hm]
      simp [PLine.iline, ILine.stripped, PLine.comps]
  have hflat : (ls.map (PLine.iline k)).flatMap (ILine.stripped ((minIndent none (ls.map (PLine.iline k))).getD 0)) = plainMsg ls := by
    rw [List.flatMap_map]
    unfold plainMsg
    exact flatMap_congr_mem _ _ _ hstrip
  simp only [hflat, Outcome.bind]
  simp [parseBlocksG, plainDoc]

/-- non-vacuity: three lines (own indentation 0, 2 and an empty line) written at indentation 4 -/
example : parseComment (renderComment (plainDoc [some (0, "Hello, world".toList), none, some (2, "x: y".toList)]) (spaces 4))
    = .ok (plainDoc [some (0, "Hello, world".toList), none, some (2, "x: y".toList)]) := by decide

/-- the full statement is not vacuous either: a renderable comment with links and all three kinds of tags reads back -/
example :
    let c : DocC := { overview := some [.text "See ".toList, .link "A::B".toList, .text " now".toList, nl, nl, .text "  more".toList, nl],
                      params := [("x".toList, [.text "the x".toList, nl, .text "cont".toList, nl])],
                      returns := [(none, []), (some "r".toList, [nl, .text "later".toList, nl])],
                      see := ["::M::S".toList] }
    Renderable c = true ∧ parseComment (renderComment c (spaces 3)) = .ok c := by decide

end Slicec.C16

#print axioms Slicec.C16.sanitize_common_indent
#print axioms Slicec.C16.sanitize_no_panic
#print axioms Slicec.C16.sanitize_ok_or_panic
#print axioms Slicec.C16.sanitize_no_panic_ascii
#print axioms Slicec.C16.tags_in_order
#print axioms Slicec.C16.lexer_error_is_failure
#print axioms Slicec.C16.malformed_is_warning
#print axioms Slicec.C16.link_binding_eq_C03
#print axioms Slicec.C16.link_target_is_search_result
#print axioms Slicec.C16.broken_link_is_warning
#print axioms Slicec.C16.comment_roundtrip_partial
#print axioms Slicec.C16.siblings_preserved
