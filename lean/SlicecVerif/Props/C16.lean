/-
  C16 — Doc comments keep their text, tags and links.

  The theorems are about the executable model of the comment lexer / grammar / helper functions
  (`Model/Comment.lean`, mirrors `parsers/comments/*`) and of link binding and tag validation in whole
  programs (`Model/CommentDocs.lean`). The model is tied to the code by the `comments` and `compile`
  engines (Drv/C16.lean).

  The two defects this property used to have in `sanitize_message_lines` (D-16a: indentation measured and removed
  in UTF-8 bytes; D-16b: an all-whitespace first text counted as indentation 0) are repaired in /repo ("fix: measure
  and strip the common indentation of doc comments in characters"). The model mirrors the repaired loops and
  `sanitize_eq_spec` proves that they compute the property's rule for every list of lines.
  `Gen.sanitizeCountsChars` (read off grammar.rs on every run) selects the repaired reading of the model: should the
  source go back to byte offsets, `sanitize_eq_spec` and everything that rests on it stop compiling.
-/
import SlicecVerif.Lemmas.Comment
import SlicecVerif.Lemmas.CommentRoundtrip
import SlicecVerif.Model.CommentDocs

namespace Slicec.C16

open Slicec

/-! ### indentation -/

/-- **The code's loops compute the property's rule.** For *every* list of lines — empty lines, whitespace-only lines,
    lines that start with a link, whitespace followed by a link, any of the 25 whitespace code points in any mixture of
    UTF-8 widths — `sanitize_message_lines` (first loop with the skip rule and the link break, `usize::MAX` ↦ 0, second loop
    through `char_indices().nth(..)` and `replace_range`) returns normally, and its result is the declarative rule
    `sanitizeSpec`: every line loses the first `commonIndent lines` characters of its first text, keeps everything else and
    is closed by one `"\n"` text (an empty line becomes just `"\n"`). -/
theorem sanitize_eq_spec (ls : List MLine) : sanitizeMessageLines ls = .ok (sanitizeSpec ls) := by
  simp only [sanitizeMessageLines, Gen.sanitizeCountsChars, if_true, normaliseCommon_commonWs, stripLines_endIndex, sanitizeSpec]

/-- **Why `replace_range` cannot panic any more.** The end index the second loop computes
    (`char_indices().nth(n).unwrap_or(len)`) is, for every text and every count, the UTF-8 length of the text's first `n`
    characters: a character boundary within the text. The model of `replace_range(..i, "")` (`dropBytes`) returns normally
    exactly on such indices (`dropBytes_isSome_iff`), and what it leaves is the text without its first `n` characters
    (all of it gone when it has fewer). -/
theorem strip_index_is_boundary (t : Str) (n : Nat) :
    OnBoundary t (endIndex t n) ∧ endIndex t n = utf8Len (t.take n) ∧ dropBytes t (endIndex t n) = some (t.drop n) :=
  ⟨endIndex_onBoundary t n, endIndex_eq t n, dropBytes_endIndex t n⟩

/-- **No panic, no error, for all inputs** (was: an if-and-only-if condition with a counterexample, D-16a). -/
theorem sanitize_no_panic (ls : List MLine) :
    (∃ m, sanitizeMessageLines ls = .ok m) ∧ (∀ s, sanitizeMessageLines ls ≠ .panic s) ∧ (∀ e, sanitizeMessageLines ls ≠ .err e) := by
  rw [sanitize_eq_spec]
  exact ⟨⟨_, rfl⟩, fun s h => (by cases h), fun e h => (by cases h)⟩

/-- **Common indentation, all line lists.** With `m` the number of characters `sanitize_message_lines` removes:
    * the result is every line without the first `m` characters of its first text, everything else kept, one `"\n"` text per
      line (line breaks preserved);
    * `m` is at most the indentation of every line that has one (`lineIndent`: the number of leading whitespace characters
      of a line with content; 0 for a line that starts with a link; the whole length of an all-whitespace text that is
      followed by a link; none for an empty or whitespace-only line) and is the indentation of some such line; it is 0
      when no line has content;
    * only whitespace is removed: the first `m` characters of every line's first text are whitespace characters. -/
theorem sanitize_common_indent (ls : List MLine) :
    let m := commonIndent ls
    sanitizeMessageLines ls = .ok (ls.flatMap (lineWithout m)) ∧
    (∀ l ∈ ls, ∀ k, lineIndent l = some k → m ≤ k) ∧
    ((∃ l ∈ ls, (lineIndent l).isSome) → ∃ l ∈ ls, lineIndent l = some m) ∧
    ((∀ l ∈ ls, lineIndent l = none) → m = 0) ∧
    (∀ t rest, some (Comp.text t, rest) ∈ ls → (t.take m).all isWsC = true) := by
  intro m
  have hle : ∀ l ∈ ls, ∀ k, lineIndent l = some k → m ≤ k := by
    intro l hl k hk
    obtain ⟨m', hm', hle⟩ := minOpt_le (ls.map lineIndent) k (hk ▸ List.mem_map_of_mem hl)
    simp [m, commonIndent, hm', hle]
  refine ⟨sanitize_eq_spec ls, hle, ?_, ?_, ?_⟩
  · rintro ⟨l, hl, hsome⟩
    obtain ⟨k, hk⟩ := Option.isSome_iff_exists.mp hsome
    obtain ⟨m', hm', _⟩ := minOpt_le (ls.map lineIndent) k (hk ▸ List.mem_map_of_mem hl)
    obtain ⟨l', hl', hlm⟩ := List.mem_map.mp (minOpt_mem _ _ hm')
    exact ⟨l', hl', by simp [m, commonIndent, hm', hlm]⟩
  · intro hnone
    have := minOpt_none (ls.map lineIndent) (by
      intro x hx
      obtain ⟨l, hl, rfl⟩ := List.mem_map.mp hx
      exact hnone l hl)
    simp [m, commonIndent, this]
  · intro t rest hmem
    cases hall : t.all isWsC with
    | true => exact take_all_ws_of_all t m hall
    | false =>
      have hk : lineIndent (some (Comp.text t, rest)) = some (leadWs t) := by simp [lineIndent, hall]
      exact take_all_ws t m (hle _ hmem _ hk)

/-- **Common indentation, written lines.** For lines written as a run of whitespace `ws` — any of the 25 code points, any
    mixture of UTF-8 widths — followed by a body that starts with a non-blank character (and by further components; empty
    lines allowed anywhere), the number of characters removed is `m`, the minimum of `ws.length` over the non-empty lines
    (`m ≤ ws.length` for each, attained by one), every non-empty line keeps `ws.drop m ++ body` and all further
    components. -/
theorem sanitize_common_indent_written (ls : List ILine) (h : ∀ l ∈ ls, WellFormedI l) :
    let m := (minOpt (ls.map ILine.indent)).getD 0
    sanitizeMessageLines (ls.map ILine.toMLine) = .ok (ls.flatMap (ILine.stripped m)) ∧
    (∀ ws body rest, some (ws, body, rest) ∈ ls → m ≤ ws.length) ∧
    ((∃ ws body rest, some (ws, body, rest) ∈ ls) → ∃ ws body rest, some (ws, body, rest) ∈ ls ∧ ws.length = m) := by
  intro m
  have hm : commonIndent (ls.map ILine.toMLine) = m := by simp [m, commonIndent, map_lineIndent_written ls h]
  have hle : ∀ ws body rest, some (ws, body, rest) ∈ ls → m ≤ ws.length := by
    intro ws body rest hmem
    obtain ⟨m', hm', hle⟩ := minOpt_le (ls.map ILine.indent) ws.length (List.mem_map.mpr ⟨_, hmem, rfl⟩)
    simp [m, hm', hle]
  refine ⟨?_, hle, ?_⟩
  · rw [sanitize_eq_spec, sanitizeSpec, hm, List.flatMap_map]
    congr 1
    apply flatMap_congr_mem
    intro l hl
    apply lineWithout_written
    intro k hk
    match l, hk with
    | some (ws, body, rest), hk => simp [ILine.indent] at hk; subst hk; exact hle ws body rest hl
  · rintro ⟨ws, body, rest, hmem⟩
    obtain ⟨m', hm', _⟩ := minOpt_le (ls.map ILine.indent) ws.length (List.mem_map.mpr ⟨_, hmem, rfl⟩)
    obtain ⟨l, hl, hlm⟩ := List.mem_map.mp (minOpt_mem _ _ hm')
    match l, hlm with
    | some (ws', b', r'), hlm =>
      simp [ILine.indent] at hlm
      exact ⟨ws', b', r', hl, by simp [m, hm', hlm]⟩

/-- **The comment parser as it is = the comment parser with the property's stripping rule**, on every input (what the
    correspondence run compares the real parser with is therefore the property's own demand). -/
theorem parse_eq_spec (lines : List Str) : parseComment lines = parseCommentSpec lines := by
  have : sanitizeMessageLines = fun ls => .ok (sanitizeSpec ls) := funext sanitize_eq_spec
  simp [parseComment, parseCommentSpec, this]

/-- **A doc comment cannot crash the compiler.** `parse_doc_comment` returns normally for every list of raw lines: the only
    panic sites of the comment parser are `Lexer::new` on an empty comment (not called: no lines, no parser) and
    `replace_range` (`sanitize_no_panic`). -/
theorem attach_total (raw : List Str) : ∃ a, attach raw = .ok a := by
  have hs : SanTotal sanitizeMessageLines := fun ls s => (sanitize_no_panic ls).2.1 s
  cases raw with
  | nil => exact ⟨_, rfl⟩
  | cons l ls =>
    simp only [attach, attachG]
    cases hp : parseCommentG sanitizeMessageLines (l :: ls) with
    | ok c => exact ⟨_, rfl⟩
    | err e => exact ⟨_, rfl⟩
    | panic s => exact absurd hp (parseCommentG_no_panic _ hs l ls s)

/-- the former witness of D-16a (a space on one line, U+3000 on the next: byte index 1 was inside the second line's first
    character and `replace_range` panicked): one character is removed from each line -/
example : sanitizeMessageLines [some (.text [' ', 'x'], []), some (.text ['\u3000', 'y'], [])]
    = .ok [.text ['x'], nl, .text ['y'], nl] := by decide

/-- the same through the whole comment parser: `/// x` / `///　y` is a comment with overview `x⏎y⏎` -/
example : parseComment [[' ', 'x'], ['\u3000', 'y']]
    = .ok { overview := some [.text ['x'], nl, .text ['y'], nl], params := [], returns := [], see := [] } := by decide

/-- the former second face of D-16a (one U+00A0, two bytes, made *two* spaces disappear from the next line): one character
    is removed, the second space of line 2 stays -/
example : sanitizeMessageLines [some (.text ['\u00A0', 'x'], []), some (.text [' ', ' ', 'y'], [])]
    = .ok [.text ['x'], nl, .text [' ', 'y'], nl] := by decide

/-- character order and byte order of the indentations disagree (U+3000: 1 character, 3 bytes; two spaces: 2 characters,
    2 bytes): the minimum is taken over characters -/
example : sanitizeMessageLines [some (.text ['\u3000', 'x'], []), some (.text [' ', ' ', 'y'], [])]
    = .ok [.text ['x'], nl, .text [' ', 'y'], nl] := by decide

/-- the former witness of D-16b (whitespace in front of a link was measured as 0 and nothing was stripped): the two
    spaces are removed from both lines; the link line keeps an empty text in front of the link -/
example : parseComment [[' ', ' ', 'a'], [' ', ' ', '{', '@', 'l', 'i', 'n', 'k', ' ', 'S', '}']]
    = .ok { overview := some [.text ['a'], nl, .text [], .link ['S'], nl], params := [], returns := [], see := [] } := by
  decide

/-- a whitespace-only line between indented lines (an editor's trailing blank) no longer disables the stripping, whether it
    is shorter or longer than the common indentation; a message of whitespace-only lines is left as it is -/
example :
    sanitizeMessageLines [some (.text [' ', ' ', 'a'], []), some (.text [' '], []), some (.text [' ', ' ', ' ', 'b'], []),
                          some (.text [' ', '\t', ' ', ' '], [])]
      = .ok [.text ['a'], nl, .text [], nl, .text [' ', 'b'], nl, .text [' ', ' '], nl] ∧
    sanitizeMessageLines [some (.text [' ', ' '], []), none, some (.text ['\u3000'], [])]
      = .ok [.text [' ', ' '], nl, nl, .text ['\u3000'], nl] := by decide

/-- non-vacuity of `sanitize_common_indent_written`: indentations of 3 and 1 characters in mixed widths, an empty line
    between them -/
example : sanitizeMessageLines ([some ([' ', '\u00A0', '\u3000'], ['a'], []), none, some (['\u2003'], ['b'], [.link ['S']])].map ILine.toMLine)
    = .ok [.text ['\u00A0', '\u3000', 'a'], nl, nl, .text ['b'], .link ['S'], nl] := by decide

/-! ### tags -/

/-- **Tags in order.** Whenever a comment parses (with the code's sanitizer or any other), its `@param`, `@returns` and
    `@see` tags are exactly the block tags written in the token stream — `writtenParams/Returns/See` scan the stream for
    the block keywords, which the lexer only emits for a tag at the start of a line — in the order written and with
    the identifiers written (for `@returns`, also whether an identifier was written at all). -/
theorem tags_in_order (san : Sanitizer) (lines : List Str) (c : DocC) (h : parseCommentG san lines = .ok c) :
    c.params.map (·.1) = writtenParams (lexComment lines).toks ∧
    c.returns.map (·.1) = writtenReturns (lexComment lines).toks ∧
    c.see = writtenSee (lexComment lines).toks := by
  unfold parseCommentG at h
  split at h
  · simp at h
  · simp only at h
    split at h
    · simp at h
    · rename_i ls rest hl
      obtain ⟨ov, _, h2⟩ := Outcome.bind_eq_ok _ _ _ h
      have hc := parseLines_consumed _ _ _ _ hl
      obtain ⟨i1, i2, i3⟩ := parseBlocksG_tags _ _ _ _ _ _ h2
      refine ⟨?_, ?_, ?_⟩
      · simpa [writtenParams, scan_consumed hdParam hdParam_nb _ _ hc] using i1
      · simpa [writtenReturns, scan_consumed hdReturns hdReturns_nb _ _ hc] using i2
      · simpa [writtenSee, scan_consumed hdSee hdSee_nb _ _ hc] using i3

/-- non-vacuity: interleaved tags come out grouped by kind, each group in the order written -/
example : (parseComment ["@see A::B".toList, "@param x: m".toList, "@returns".toList, "@param y".toList, "@see ::C".toList]).bind
    (fun c => .ok (c.params.map (·.1), c.returns.map (·.1), c.see))
    = .ok ([['x'], ['y']], [none], [['A', ':', ':', 'B'], [':', ':', 'C']]) := by decide

/-! ### malformed comments -/

/-- a lexer error anywhere in the comment means the comment does not parse (the pending error blocks every accepting path) -/
theorem lexer_error_is_failure (san : Sanitizer) (lines : List Str) (e : CLexErr) (c : DocC)
    (he : (lexComment lines).err = some e) : parseCommentG san lines ≠ .ok c := by
  intro h
  unfold parseCommentG at h
  split at h
  · simp at h
  · simp only at h
    split at h
    · simp at h
    · obtain ⟨ov, _, h2⟩ := Outcome.bind_eq_ok _ _ _ h
      rw [he] at h2
      exact parseBlocksG_pend_not_ok _ _ _ _ _ _ h2

/-- **Malformed is a warning.** Every failure of the lexer or the grammar (`parseCommentG … = .err _`) reaches the Slice
    parser as: no comment, and exactly one diagnostic, the lint `MalformedDocComment`, whose level is Warning.
    Conversely the only ways `parse_doc_comment` attaches something are: no lines → nothing, no lint; success → the
    comment, no lint; failure → nothing and that one lint. (A panic is not a value of this function; `attach_total`:
    with the code's sanitizer there is none.)
    The element itself and its siblings cannot be affected: `attachG` is a function of the element's own raw lines
    only and its result has no other component than these two (`siblings_preserved` states what that means for the
    name table and the element list). -/
theorem malformed_is_warning (san : Sanitizer) (raw : List Str) :
    (∀ e, parseCommentG san raw = .err e →
        attachG san raw = .ok ⟨none, [.malformedDocComment]⟩ ∧ lintLevel .malformedDocComment = "W") ∧
    (∀ a, attachG san raw = .ok a →
        (raw = [] ∧ a = ⟨none, []⟩) ∨
        (∃ c, parseCommentG san raw = .ok c ∧ a = ⟨some c, []⟩) ∨
        (∃ e, parseCommentG san raw = .err e ∧ a = ⟨none, [.malformedDocComment]⟩)) := by
  constructor
  · intro e he
    cases raw with
    | nil => simp [parseCommentG] at he
    | cons l ls => simp [attachG, he, lintLevel]
  · intro a ha
    cases raw with
    | nil => left; simp [attachG] at ha; exact ⟨rfl, ha.symm⟩
    | cons l ls =>
      right
      simp only [attachG] at ha
      cases hp : parseCommentG san (l :: ls) with
      | ok c => left; simp [hp] at ha; exact ⟨c, rfl, ha.symm⟩
      | err e => right; simp [hp] at ha; exact ⟨e, rfl, ha.symm⟩
      | panic s => simp [hp] at ha

/-- non-vacuity: the catalogue's failure kinds (unknown tag, missing `}`, inline `@param`, `@` alone, stray symbol) -/
example :
    attach ["@foo".toList] = .ok ⟨none, [.malformedDocComment]⟩ ∧
    attach [" ok".toList, "{@link X".toList] = .ok ⟨none, [.malformedDocComment]⟩ ∧
    attach ["{@param x}".toList] = .ok ⟨none, [.malformedDocComment]⟩ ∧
    attach ["@".toList] = .ok ⟨none, [.malformedDocComment]⟩ ∧
    attach ["@param (x)".toList] = .ok ⟨none, [.malformedDocComment]⟩ := by decide

/-- **Siblings preserved** (what "never cost the documented element or its siblings" means in the model).
    Whatever doc lines a definition or a field carries — well-formed, malformed, or none —
    (1) the name-table entries of the definition and of its members are the same, so every type reference and every
        link in the program binds as before;
    (2) the list of commentable elements (paths and scoped identifiers) is the same, and the member elements, with their
        own doc lines, are untouched;
    and by `malformed_is_warning` the only trace of a malformed comment is `comment = none` plus one warning. -/
theorem siblings_preserved (i : Nat) (path m s : String) (d : Def) (doc : List String) (g : Field → List String) (fs : List Field) :
    defEntries i m (d.withDoc doc) = defEntries i m d ∧
    fieldEntries i m s (reDocFields g fs) = fieldEntries i m s fs ∧
    (defElems path m (d.withDoc doc)).map (fun e => (e.path, e.key)) = (defElems path m d).map (fun e => (e.path, e.key)) ∧
    (defElems path m (d.withDoc doc)).tail = (defElems path m d).tail := by
  refine ⟨?_, ?_, ?_, ?_⟩
  · cases d <;> rfl
  · simp [fieldEntries, reDocFields, List.map_map, Function.comp_def]
  · cases d <;> simp [Def.withDoc, defElems]
  · cases d <;> simp [Def.withDoc, defElems]

/-! ### links -/

/-- **Link binding = type binding's search.** A `{@link id}` / `@see id` on an element is looked up by
    `findNodeWithScope` (the function `resolveNamed` of C03 starts with), the scope being the documented element's *own*
    parser-scoped identifier (so the element's members and the element itself are found first); the result is kept
    unless it is a module, a parameter / return member or a primitive. -/
theorem link_binding_eq_C03 (t : Table) (elemKey id : String) :
    resolveLink t elemKey id = (findNodeWithScope t id elemKey).filter (fun n => linkable n.kind) := by
  unfold resolveLink
  cases findNodeWithScope t id elemKey with
  | none => rfl
  | some n => cases h : linkable n.kind <;> simp [Option.filter, h]

/-- a resolved link is a node the scoped search finds, and type binding finds the *same* node for the same identifier
    written in a type position whose scope is the element's identifier -/
theorem link_target_is_search_result (t : Table) (elemKey id : String) (n : NodeInfo)
    (h : resolveLink t elemKey id = some n) : findNodeWithScope t id elemKey = some n ∧ linkable n.kind = true := by
  unfold resolveLink at h
  split at h
  · rename_i m hm
    split at h
    · simp at h; subst h; exact ⟨hm, ‹_›⟩
    · simp at h
  · simp at h

/-- an unresolvable link costs one `BrokenDocLink` lint (a lint: Warning) and nothing else -/
theorem broken_link_is_warning : lintLevel .brokenDocLink = "W" ∧ lintLevel .incorrectDocComment = "W" := ⟨rfl, rfl⟩

/-! ### round trip

  `Renderable c` (Lemmas/CommentRoundtrip.lean, a decidable `Bool`) says what the renderer `renderComment` can write so that it
  reads back:
  * every message (overview, tag messages) is a sequence of lines, each closed by the `"\n"` text; an overview is not empty;
  * in every line a text is not empty, contains no `{` (and no line break: a `///` line cannot), and is not followed by
    another text (the two would come back as one); a link's target is a scoped identifier `::`? id (`::` id)* without blanks
    (`scopedOK`), `@param` / `@returns` identifiers are identifiers (`idOK`), `@see` targets are scoped identifiers;
  * an overview or continuation line may start with a link; if it starts with a text, that text has a first non-blank
    character and it is not `@` (own indentation made of *any* whitespace characters is allowed);
  * the first line of a tag's message — the renderer writes it on the tag's own line, right after the `:` — does not start
    with a blank and not with `:` (**added**; the two `example`s after the theorems show that each is necessary);
  * unless they are all empty, one of the overview lines (and one of the continuation lines of each tag) has no indentation
    of its own: it starts with a link or with a non-blank character.
  Compared with the definition this file had before: the two conditions on the inline line were missing (so the former
  `comment_roundtrip_full` was false as stated), lines that start with a link were excluded, own indentation had to be made
  of U+0020 only, and `scopedOK` was phrased through the lexer (same set of strings). -/

/-- **Round trip, exact form.** Every renderable comment `c` — overview lines with inline `{@link X}` components at the
    start, in the middle or at the end of a line, empty lines, lines with indentation of their own, `@param id`,
    `@returns [id]` and `@see X` tags, tag messages with an inline first line and continuation lines — written by
    `renderComment` after *any* indentation `ind` made of whitespace characters (any of the 25 code points, any mixture of
    UTF-8 widths) is accepted by the comment parser as it is (the code's lexer, grammar, `sanitize_message_lines` and
    `construct_section_message`), and the result is `c.readBack ind`: the comment `c` itself, except that an overview or
    continuation line that *starts with a link* comes back with an **empty text component in front of the link** when `ind`
    is not empty (the lexer makes the indentation a text of its own, the sanitizer strips all of it and keeps the component;
    the real parser does the same — correspondence family `ws-link` — and no character of the comment is lost or added). -/
theorem comment_roundtrip_readback (c : DocC) (ind : Str) (hind : ind.all isWsC = true) (hr : Renderable c = true)
    (hne : c.overview.isSome ∨ c.params ≠ [] ∨ c.returns ≠ [] ∨ c.see ≠ []) :
    parseComment (renderComment c ind) = .ok (c.readBack ind) :=
  parseCommentG_render sanitizeMessageLines sanitize_eq_spec c ind hind hr hne

/-- **Round trip (the full statement).** For every renderable comment `c` and every whitespace indentation `ind`, the parser
    accepts `renderComment c ind` and returns a comment `c'` such that
    * `c'` and `c` are equal **up to the segmentation of texts**: `c'.merged = c.merged`, where `DocC.merged` applies the
      canonical form `mergeMsg` (adjacent texts concatenated, empty texts dropped) to the overview and to every tag message and
      leaves identifiers, `@see` targets, links and their order alone. `mergeMsg`-equality — not literal equality — is what
      holds in general, because of the empty text in front of a link that starts an indented line (`comment_roundtrip_readback`
      gives `c'` exactly);
    * `c' = c` **literally** when nothing was written in front of a line-initial link: `ind` is empty, or no overview line and
      no continuation line starts with a link (`noLinkLedLine`; links in the middle or at the end of a line, and a link at the
      start of a tag's inline message, are unrestricted). -/
theorem comment_roundtrip (c : DocC) (ind : Str) (hind : ind.all isWsC = true) (hr : Renderable c = true)
    (hne : c.overview.isSome ∨ c.params ≠ [] ∨ c.returns ≠ [] ∨ c.see ≠ []) :
    ∃ c', parseComment (renderComment c ind) = .ok c' ∧ c'.merged = c.merged ∧
      ((ind = [] ∨ noLinkLedLine c = true) → c' = c) :=
  ⟨c.readBack ind, comment_roundtrip_readback c ind hind hr hne, readBack_merged c ind hr, readBack_eq c ind hr⟩

/-- the literal corollary: without an indented line that starts with a link, `parse (render c) = c` -/
theorem comment_roundtrip_literal (c : DocC) (ind : Str) (hind : ind.all isWsC = true) (hr : Renderable c = true)
    (hne : c.overview.isSome ∨ c.params ≠ [] ∨ c.returns ≠ [] ∨ c.see ≠ []) (h : ind = [] ∨ noLinkLedLine c = true) :
    parseComment (renderComment c ind) = .ok c := by
  rw [comment_roundtrip_readback c ind hind hr hne, readBack_eq c ind hr h]

/-- **What the lexer makes of a rendered comment**: no lexer error, and the token stream is, line by line, the one written —
    `renderToks`: per overview / continuation line the indentation joined to the first text (a text of its own in front of a
    link), `{` `link` scoped-identifier tokens `}` per link, one `Newline`; per tag line the keyword, the identifier tokens,
    and either `Newline` or `:` and the inline message. (Per kind of line: `lexOneLine_line`, `lexOneLine_param`,
    `lexOneLine_returns_none/_some`, `lexOneLine_see` in Lemmas/CommentRoundtrip.lean.) -/
theorem rendered_tokens (c : DocC) (ind : Str) (hind : ind.all isWsC = true) (hr : Renderable c = true) :
    lexComment (renderComment c ind) = ⟨renderToks c ind, none⟩ :=
  lexComment_render c ind hind hr

/-- non-vacuity: links at the start, in the middle and at the end of overview lines, an empty line, a line with indentation of
    its own, all three tag kinds, inline messages (one starting with a link, one with `@`) and continuation lines (one starting
    with a link). Written after three spaces and after a mixed-width indentation it reads back as `readBack` says — which is
    not `c` literally (two lines start with a link) but equal to it after `mergeMsg`; written without indentation it reads
    back literally. -/
example :
    let ov : Msg := [.text "See ".toList, .link "A::B".toList, .text " now".toList, nl,
                     .link "::M::S".toList, .text " starts".toList, nl, nl,
                     .text "  ends with ".toList, .link "X".toList, nl]
    let pm : Msg := [.text "the x ".toList, .link "T".toList, nl, .text "cont".toList, nl, .link "U".toList, .text " led".toList, nl]
    let c : DocC :=
      { overview := some ov, params := [("x".toList, pm)],
        returns := [(none, []), (some "r".toList, [nl, .text "later".toList, nl]), (none, [.link "V".toList, nl]),
                    (none, [.text "@x".toList, nl])],
        see := ["::M::S".toList, "K".toList] }
    Renderable c = true ∧ noLinkLedLine c = false ∧
    parseComment (renderComment c (spaces 3)) = .ok (c.readBack (spaces 3)) ∧ c.readBack (spaces 3) ≠ c ∧
    (c.readBack (spaces 3)).merged = c.merged ∧
    parseComment (renderComment c [' ', '　', '\u0085']) = .ok (c.readBack [' ', '　', '\u0085']) ∧
    parseComment (renderComment c []) = .ok c := by decide

/-- non-vacuity of the literal case: links in the middle and at the end, all three tag kinds, no line-initial link -/
example :
    let c : DocC :=
      { overview := some [.text "See ".toList, .link "A::B".toList, .text " now".toList, nl, nl, .text "  more ".toList, .link "C".toList, nl],
        params := [("x".toList, [.text "the x".toList, nl, .text "cont".toList, nl])],
        returns := [(none, []), (some "r".toList, [nl, .text "later".toList, nl])],
        see := ["::M::S".toList] }
    Renderable c = true ∧ noLinkLedLine c = true ∧ parseComment (renderComment c (spaces 3)) = .ok c ∧
      parseComment (renderComment c [' ', '　', '\u0085']) = .ok c := by decide

/-- **necessity of the first added condition**: an inline message that starts with `:` is written `@param x::y`, which the
    lexer reads as `@param x` `::` `y` — the comment is rejected -/
example :
    let c : DocC := { overview := none, params := [("x".toList, [.text ":y".toList, nl])], returns := [], see := [] }
    Renderable c = false ∧ renderComment c [] = ["@param x::y".toList] ∧
    parseComment (renderComment c []) = .err (.malformed none) := by decide

/-- **necessity of the second added condition**: an inline message that starts with a blank is written `@param x: y`, and
    `construct_section_message` trims the inline message — it reads back as `y` -/
example :
    let c : DocC := { overview := none, params := [("x".toList, [.text " y".toList, nl])], returns := [], see := [] }
    Renderable c = false ∧ renderComment c [] = ["@param x: y".toList] ∧
    parseComment (renderComment c []) = .ok { c with params := [("x".toList, [.text "y".toList, nl])] } := by decide

/-- the conditions kept from before are necessary too: two adjacent texts come back as one; a text with `{` is split; a line
    whose first non-blank character is `@` starts a block tag; without a flush line the common indentation is not `ind` -/
example :
    parseComment (renderComment { overview := some [.text ['a'], .text ['b'], nl], params := [], returns := [], see := [] } [])
      = .ok { overview := some [.text ['a', 'b'], nl], params := [], returns := [], see := [] } ∧
    parseComment (renderComment { overview := some [.text ['a', '{', 'b'], nl], params := [], returns := [], see := [] } [])
      = .ok { overview := some [.text ['a'], .text ['{', 'b'], nl], params := [], returns := [], see := [] } ∧
    parseComment (renderComment { overview := some [.text ['@', 'a'], nl], params := [], returns := [], see := [] } [])
      = .err (.malformed (some (.unknownTag ['a']))) ∧
    parseComment (renderComment { overview := some [.text [' ', 'a'], nl], params := [], returns := [], see := [] } [])
      = .ok { overview := some [.text ['a'], nl], params := [], returns := [], see := [] } := by decide

/-- **Round trip, plain lines** (the special case proved first, kept with its own structured statement; the texts may even
    contain line-break characters here): overview comments made of plain text lines (no links, no tags; empty lines and lines
    with additional indentation of their own allowed, some non-empty line having none), written after *any* indentation
    `ind` made of whitespace characters — ASCII or not, of any mixture of UTF-8 widths: the parser returns exactly the
    comment that was rendered — the written lines minus their common indentation, one `"\n"` text per line. -/
theorem comment_roundtrip_plain (ls : List PLine) (ind : Str) (hind : ind.all isWsC = true) (hne : ls ≠ []) (hwf : ∀ l ∈ ls, l.WF)
    (hzero : ∀ j b, some (j, b) ∈ ls → ∃ b0, some (0, b0) ∈ ls) :
    parseComment (renderComment (plainDoc ls) ind) = .ok (plainDoc ls) := by
  rw [render_plainDoc ls ind hwf]
  unfold parseComment
  rw [parseCommentG_nonempty _ _ (by simpa using hne), lexComment_plain ind hind ls hwf]
  simp only
  rw [parseLines_plain ind ls _ (by have := length_le_toks ind ls; omega)]
  simp only
  rw [reduceLines_end _ _ (by simpa using hne)]
  have hmap : (ls.map fun l => (l.iline ind).toMLine) = (ls.map (PLine.iline ind)).map ILine.toMLine := by simp
  have hwfI : ∀ l ∈ ls.map (PLine.iline ind), WellFormedI l := by
    intro l hl
    obtain ⟨pl, hpl, rfl⟩ := List.mem_map.mp hl
    match pl, hwf pl hpl with
    | none, _ => trivial
    | some (j, b), hb => exact ⟨all_ws_append_spaces ind hind j, hb.startsNonWs⟩
  obtain ⟨hs, hle, hatt⟩ := sanitize_common_indent_written (ls.map (PLine.iline ind)) hwfI
  rw [hmap, hs]
  -- the common indentation is exactly the length of `ind`
  have hstrip : ∀ l ∈ ls, ILine.stripped ((minOpt ((ls.map (PLine.iline ind)).map ILine.indent)).getD 0) (l.iline ind) = l.comps ++ [nl] := by
    intro l hl
    match l with
    | none => rfl
    | some (j, b) =>
      obtain ⟨b0, hb0⟩ := hzero j b hl
      have h1 := hle (ind ++ spaces 0) b0 [] (List.mem_map.mpr ⟨some (0, b0), hb0, rfl⟩)
      obtain ⟨ws', b', r', hm', hk'⟩ := hatt ⟨ind ++ spaces j, b, [], List.mem_map.mpr ⟨some (j, b), hl, rfl⟩⟩
      obtain ⟨pl, _, hpl⟩ := List.mem_map.mp hm'
      have h2 : ind.length ≤ ws'.length := by
        match pl with
        | none => simp [PLine.iline] at hpl
        | some (j2, b2) => simp [PLine.iline] at hpl; rw [← hpl.1]; simp
      have e0 : (ind ++ spaces 0).length = ind.length := by simp [spaces]
      rw [e0] at h1
      have hm : (minOpt ((ls.map (PLine.iline ind)).map ILine.indent)).getD 0 = ind.length := by omega
      rw [hm]
      simp [PLine.iline, ILine.stripped, PLine.comps]
  have hflat : (ls.map (PLine.iline ind)).flatMap (ILine.stripped ((minOpt ((ls.map (PLine.iline ind)).map ILine.indent)).getD 0)) = plainMsg ls := by
    rw [List.flatMap_map]
    unfold plainMsg
    exact flatMap_congr_mem _ _ _ hstrip
  simp only [hflat, Outcome.bind]
  simp [parseBlocksG, plainDoc]

/-- non-vacuity: three lines (own indentation 0, 2 and an empty line) written at indentation 4 -/
example : parseComment (renderComment (plainDoc [some (0, "Hello, world".toList), none, some (2, "x: y".toList)]) (spaces 4))
    = .ok (plainDoc [some (0, "Hello, world".toList), none, some (2, "x: y".toList)]) := by decide

/-- the same written after a tab, U+00A0 and U+3000 (1-, 2- and 3-byte whitespace) -/
example : parseComment (renderComment (plainDoc [some (0, "Hello, world".toList), none, some (2, "x: y".toList)]) ['\t', '\u00A0', '\u3000'])
    = .ok (plainDoc [some (0, "Hello, world".toList), none, some (2, "x: y".toList)]) := by decide

end Slicec.C16

#print axioms Slicec.C16.sanitize_eq_spec
#print axioms Slicec.C16.strip_index_is_boundary
#print axioms Slicec.C16.sanitize_no_panic
#print axioms Slicec.C16.sanitize_common_indent
#print axioms Slicec.C16.sanitize_common_indent_written
#print axioms Slicec.C16.parse_eq_spec
#print axioms Slicec.C16.attach_total
#print axioms Slicec.C16.tags_in_order
#print axioms Slicec.C16.lexer_error_is_failure
#print axioms Slicec.C16.malformed_is_warning
#print axioms Slicec.C16.link_binding_eq_C03
#print axioms Slicec.C16.link_target_is_search_result
#print axioms Slicec.C16.broken_link_is_warning
#print axioms Slicec.C16.comment_roundtrip_readback
#print axioms Slicec.C16.comment_roundtrip
#print axioms Slicec.C16.comment_roundtrip_literal
#print axioms Slicec.C16.rendered_tokens
#print axioms Slicec.C16.comment_roundtrip_plain
#print axioms Slicec.C16.siblings_preserved
