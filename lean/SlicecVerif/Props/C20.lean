/-
  C20 — Visitor traversal presents every element exactly once, in source order.

  Theorems over `Slicec.Visit.visitP` (Model/Visit.lean), the mirror of every `visit_with` in
  `/repo/slicec/src/visitor.rs`. An event is identified by its path from the file root (a list of positions);
  `visit` renders the paths in the naming of Model/Print.lean for the comparison with the real visitor.
  All statements hold for every table `t` (any program around the file, valid or not), every file index and every
  file `f` — in particular for every depth of nesting and every chain of aliases.

  Sections: order of the callbacks; owners and their types; nested types and aliases; completeness (⇒ `declared_subset`,
  ⇐ `visit_complete`, exact `presented_iff`); exactly once (`presented_count`, `once_per_use`); the compared strings
  determine the events (`pathStr_injective` … `observation_determines_walks`); the order statement at full strength
  (`visit_sorted`, `visit_is_sorted_enumeration`); non-vacuity examples.
-/
import SlicecVerif.Lemmas.Visit
import SlicecVerif.Lemmas.VisitComplete
import SlicecVerif.Lemmas.VisitOrder
import SlicecVerif.Lemmas.VisitRender
import SlicecVerif.Lemmas.VisitEvents
import SlicecVerif.Lemmas.VisitExample

namespace Slicec.C20

open Slicec Slicec.Visit

/-- **The callbacks happen in document order.** For any two callbacks of a walk, the earlier one has the smaller
    path in the lexicographic order induced by the declaration order of siblings (`Seg.lt`: `f0 < f1 < …`,
    `file < mod < d0 < …`, parameters before return members, key before value, success before failure), in which a
    container is smaller than everything it contains. -/
theorem visit_order (t : Table) (self : Nat) (f : SFile) :
    (visitP t self f).Pairwise (fun a b => Path.lt a.path b.path) :=
  flat_sorted _ _ (fileF_sorted _ _)

/-- position in the walk and document order of the paths determine each other -/
theorem visit_order_iff (t : Table) (self : Nat) (f : SFile) (i j : Nat)
    (hi : i < (visitP t self f).length) (hj : j < (visitP t self f).length) :
    i < j ↔ Path.lt (visitP t self f)[i].path (visitP t self f)[j].path := by
  have hp := List.pairwise_iff_getElem.mp (visit_order t self f)
  constructor
  · exact fun h => hp i j hi hj h
  · intro h
    rcases Nat.lt_trichotomy i j with hlt | heq | hgt
    · exact hlt
    · subst heq; exact absurd h (lex_irrefl _)
    · exact absurd (hp j i hj hi hgt) (fun h' => lex_asymm h h')

/-- **Exactly once (no repetition).** No two callbacks of a walk have the same path: nothing is presented twice. -/
theorem visit_nodup (t : Table) (self : Nat) (f : SFile) : ((visitP t self f).map PEvent.path).Nodup := by
  unfold List.Nodup
  rw [List.pairwise_map]
  refine (visit_order t self f).imp ?_
  intro a b h heq
  rw [heq] at h
  exact lex_irrefl _ h

/-- **Containers before their contents.** If the path of callback `j` lies strictly below the path of callback `i`
    (`i` is the file's definition / operation / enumerator / owner / enclosing type reference of `j`, at any distance),
    callback `i` happens first. -/
theorem container_first (t : Table) (self : Nat) (f : SFile) (i j : Nat)
    (hi : i < (visitP t self f).length) (hj : j < (visitP t self f).length) (s : Seg) (tl : Path)
    (h : (visitP t self f)[j].path = (visitP t self f)[i].path ++ s :: tl) : i < j := by
  rw [visit_order_iff t self f i j hi hj, h]
  exact lex_prefix _ _ _

/-- **Siblings in declaration order.** Two callbacks below the same container `q`, reached through children `a` and
    `b` of `q` with `a` declared before `b`, happen in that order — whatever lies below `a` comes before `b` and
    everything below `b`. With `Seg.lt (.p m) (.r n)` this says parameters (and their types) come before return members;
    with `Seg.lt .tk .tv` / `Seg.lt .ts .tf` key before value and success before failure. -/
theorem source_order (t : Table) (self : Nat) (f : SFile) (i j : Nat)
    (hi : i < (visitP t self f).length) (hj : j < (visitP t self f).length) (q : Path) (a b : Seg) (x y : Path)
    (ha : (visitP t self f)[i].path = q ++ a :: x) (hb : (visitP t self f)[j].path = q ++ b :: y)
    (hab : Seg.lt a b) : i < j := by
  rw [visit_order_iff t self f i j hi hj, ha, hb]
  exact lex_sibling q hab x y

/-- the sibling order is the declaration order -/
theorem sibling_order_facts (m n : Nat) :
    (m < n → Seg.lt (.d m) (.d n) ∧ Seg.lt (.f m) (.f n) ∧ Seg.lt (.o m) (.o n) ∧ Seg.lt (.p m) (.p n) ∧
      Seg.lt (.r m) (.r n) ∧ Seg.lt (.e m) (.e n)) ∧
    Seg.lt (.p m) (.r n) ∧ Seg.lt .tk .tv ∧ Seg.lt .ts .tf ∧ Seg.lt .file .mod ∧ Seg.lt .mod (.d n) ∧ Seg.lt .file (.d n) := by
  unfold Seg.lt; simp [Seg.cls, Seg.idx]

/-- **The type right after its owner.** The callback directly after a field, parameter, return member or alias is
    the callback for its type reference (path `owner.t`, a `TypeRef` object of this file). -/
theorem type_after_owner (t : Table) (self : Nat) (f : SFile) (i : Nat) (hi : i < (visitP t self f).length)
    (ho : isOwner (visitP t self f)[i].kind) :
    (visitP t self f)[i + 1]? = some ⟨"typeref", (visitP t self f)[i].path ++ [.t], false⟩ :=
  ownerNext_getElem _ i hi (flat_ownerNext _ _ (fileF_ownerOK _ _)) ho

/-- **Nested types, to any depth.** Below the callback of a reference at path `q` written as a sequence /
    dictionary / result, the walk is: the element reference and everything nested in it; the key reference with
    everything nested in it, *then* the value reference with everything nested in it; success, then failure.
    The equations hold at every path and for every fuel, so they describe every level of nesting. -/
theorem nested_order (t : Table) (self fuel : Nat) (sc : String) (fr : Bool) (q : Path)
    (a₁ a₂ : List Attr) (x y : TyExpr) (o₁ o₂ : Bool) :
    flat q (tyF t self fuel sc fr (.seq (.mk a₁ x o₁))) =
      ⟨"typeref", q ++ [.te], fr⟩ :: flat (q ++ [.te]) (tyF t self fuel sc fr x) ∧
    flat q (tyF t self fuel sc fr (.dict (.mk a₁ x o₁) (.mk a₂ y o₂))) =
      (⟨"typeref", q ++ [.tk], fr⟩ :: flat (q ++ [.tk]) (tyF t self fuel sc fr x)) ++
      (⟨"typeref", q ++ [.tv], fr⟩ :: flat (q ++ [.tv]) (tyF t self fuel sc fr y)) ∧
    flat q (tyF t self fuel sc fr (.result (.mk a₁ x o₁) (.mk a₂ y o₂))) =
      (⟨"typeref", q ++ [.ts], fr⟩ :: flat (q ++ [.ts]) (tyF t self fuel sc fr x)) ++
      (⟨"typeref", q ++ [.tf], fr⟩ :: flat (q ++ [.tf]) (tyF t self fuel sc fr y)) := by
  simp [tyF, flat]

/-- **Through aliases.** A reference that names an alias of an anonymous type (the patcher bound it to that type) is
    followed by exactly what follows a reference written as that type — the references written under the alias,
    resolved in the alias's module scope, with paths continuing under the using reference `q`. -/
theorem alias_flattened (t : Table) (self fuel : Nat) (sc : String) (fr : Bool) (q : Path) (id : String)
    (e : TyExpr) (s : String) (attrs : List Attr) (h : resolveNamed t .type id sc = .ok (.expr e s, attrs)) :
    flat q (tyF t self (fuel + 1) sc fr (.named id)) = flat q (tyF t self fuel s (exprFile t id sc != self) e) := by
  simp [tyF, h]

/-- **Unpatched references are not descended.** A named reference that does not resolve (it stays `Unpatched`) is
    presented, and nothing below it is; the same holds for a reference bound to a struct, enum, custom type or primitive. -/
theorem unpatched_not_descended (t : Table) (self fuel : Nat) (sc : String) (fr : Bool) (id : String) :
    (∀ err, resolveNamed t .type id sc = .error err → tyF t self fuel sc fr (.named id) = .nil) ∧
    (∀ n attrs, resolveNamed t .type id sc = .ok (.node n, attrs) → tyF t self fuel sc fr (.named id) = .nil) := by
  constructor
  · intro err h; cases fuel <;> simp [tyF, h]
  · intro n attrs h; cases fuel <;> simp [tyF, h]

/-- an owner whose reference does not resolve contributes exactly two callbacks: itself and its type -/
theorem unpatched_owner_events (c : Ctx) (q : Path) (attrs : List Attr) (id : String) (opt : Bool) (err : ResErr)
    (h : resolveNamed c.table .type id c.scope = .error err) :
    flat q (c.tref (.mk attrs (.named id) opt)) = [⟨"typeref", q ++ [.t], false⟩] := by
  have := (unpatched_not_descended c.table c.self c.fuel c.scope false id).1 err h
  simp [Ctx.tref, trefF, TRef.ty, flat, this]

/-- **Nothing declared in the file is skipped.** Every position of the file that holds an element the visitor has a
    callback for (`Declared f p`: lookup of `p` by position in the abstract syntax — file, module, definitions, fields,
    operations, parameters, return members, enumerators, enumerator fields, and every written type reference to any
    depth) is the path of a callback of the walk — whatever the rest of the program is, resolved or not. -/
theorem declared_subset (t : Table) (self : Nat) (f : SFile) (p : Path) (h : Declared f p) :
    p ∈ (visitP t self f).map PEvent.path :=
  (mem_flat_iff _ [] p).mpr ⟨p, file_has _ f p h, rfl⟩

/-- the walk without alias descent presents exactly the written type references below a reference: together with
    `declared_subset` and `alias_flattened`, what a walk presents beyond `Declared` lies below a written reference
    that names an alias of an anonymous type. -/
theorem written_types_exact (t : Table) (self : Nat) (sc : String) (fr : Bool) (ty : TyExpr) (p : Path) :
    (p = [] ∨ (tyF t self 0 sc fr ty).has p) ↔ DeclaredTy ty p := by
  constructor
  · rintro (rfl | h)
    · exact declaredTy_nil _
    · exact tyF_declared_of_has t self 0 sc fr ty rfl p h
  · exact tyF_has_of_declared t self 0 sc fr ty p

/-- **Nothing from another file.** Paths are positions in the walked file, so this is what "own file only" means
    under the path reading: every callback is located at the file, at its module (which then exists), or below the
    `j`-th definition *of this file* (`j < f.defs.length`) — no callback is located at an element owned by a
    definition of another file. (`PEvent.foreign` marks the type references whose `TypeRef` object was written under an
    alias in another file; by `type_after_owner` and `nested_order` they only occur below a `.t` of this file.) -/
theorem own_file_only (t : Table) (self : Nat) (f : SFile) (e : PEvent) (h : e ∈ visitP t self f) :
    ∃ s tl, e.path = s :: tl ∧ (s = .file ∨ (s = .mod ∧ f.module.isSome) ∨ ∃ j, j < f.defs.length ∧ s = .d j) :=
  fileF_roots _ f e h

/-! ## completeness for whole files: exactly what is presented

  Vocabulary (definitions in Lemmas/VisitComplete.lean, all by position in the abstract syntax — no traversal):
  * `refAt f q = some ty` — `q` is the position of a type reference written in file `f` (the `.t` of a field / parameter /
    return member / alias, or a reference nested in it), and `ty` is the type expression written there;
  * `InTy t fuel sc ty p` — `p` is a position at or below a reference written as `ty` in module scope `sc`, where a name
    bound to an alias of an anonymous type continues into that type (`inTy_spec` below states its three rules);
  * `BelowAlias t f p` — `p = q ++ tl`, `tl ≠ []`, `refAt f q = some (.named id)`, the name resolves
    (`resolveNamed t .type id (fileScope f) = .ok (.expr e s, _)`: alias of the anonymous type `e`, written in scope `s`)
    and `InTy t (numAliases t) s e tl`. -/

/-- **What `InTy` means.** (1) The reference itself is a position. (2) Below a reference that is not a name, the positions
    are those of the reference nested at the first step (`Sequence` → `.e`; `Dictionary` → `.k`, `.v`; `Result` → `.s`, `.f`;
    a primitive has none). (3) Below a name there are positions exactly if the name is bound to an alias of an anonymous
    type `e` (written in module scope `s`): the positions of `e`, read in scope `s`, with one unit of fuel less.
    (4) More fuel never removes a position. -/
theorem inTy_spec (t : Table) (fuel : Nat) (sc : String) :
    (∀ ty, InTy t fuel sc ty []) ∧
    (∀ ty s p, (∀ id, ty ≠ .named id) → (InTy t fuel sc ty (s :: p) ↔ ∃ c, TyExpr.child ty s = some c ∧ InTy t fuel sc c p)) ∧
    (∀ id p, p ≠ [] → (InTy t fuel sc (.named id) p ↔
        ∃ n e s attrs, fuel = n + 1 ∧ resolveNamed t .type id sc = .ok (.expr e s, attrs) ∧ InTy t n s e p)) ∧
    (∀ ty p, InTy t fuel sc ty p → InTy t (fuel + 1) sc ty p) :=
  ⟨InTy_nil t fuel sc, fun ty s p h => InTy_step t fuel sc ty s p h, fun id p hp => InTy_named t fuel sc id p hp,
   fun ty p => InTy_mono t fuel sc ty p⟩

/-- **What `refAt` means.** A written reference is a declared position; it is an owner's `.t` followed by steps
    `.e .k .v .s .f` only (so it ends in one of those six steps); and it is *exactly* the declared positions that are not
    elements (file, module, definition, field, operation, parameter, return member, enumerator). Below a written name
    nothing is declared. -/
theorem refAt_spec (f : SFile) (q : Path) :
    (∀ ty, refAt f q = some ty → Declared f q ∧ (∃ q0 a, q = q0 ++ .t :: a ∧ ∀ s ∈ a, 9 ≤ s.cls) ∧
        ∃ s, q.getLast? = some s ∧ 8 ≤ s.cls) ∧
    (Declared f q → locate f q = .elem ∨ ∃ ty, refAt f q = some ty) ∧
    (∀ id tl, refAt f q = some (.named id) → tl ≠ [] → refAt f (q ++ tl) = none ∧ ¬ Declared f (q ++ tl)) :=
  ⟨fun _ h => ⟨refAt_declared h, refAt_shape h, refAt_last h⟩, declared_cases,
   fun _ tl h htl => refAt_below_named h tl htl⟩

/-- **Exactly what is presented.** A path is the path of a callback of the walk of file `f` iff it is declared in `f`
    (`Declared`: the file, its module, and every definition, field, operation, parameter, return member, enumerator and
    written type reference, by position) or lies strictly below a written reference that names an alias of an anonymous
    type, at a position inside that type (`BelowAlias`). Holds for every table (valid program or not) and every file. -/
theorem presented_iff (t : Table) (self : Nat) (f : SFile) (p : Path) :
    p ∈ (visitP t self f).map PEvent.path ↔ Declared f p ∨ BelowAlias t f p :=
  visitP_mem_iff t self f p

/-- the two cases of `presented_iff` exclude each other: nothing below a written name is declared -/
theorem below_alias_not_declared (t : Table) (f : SFile) (p : Path) (h : BelowAlias t f p) : ¬ Declared f p := by
  obtain ⟨q, tl, id, e, s, attrs, rfl, htl, hq, _, _⟩ := h
  exact (refAt_below_named hq tl htl).2

/-- **Nothing else is presented** (the converse of `declared_subset`, as stated in the first delivery): every path the walk
    presents is declared, or is `q ++ tl` with `q` declared, not the file, `tl` non-empty, and is itself not declared.
    `presented_iff` says precisely which `q` and `tl`: `q` is a written reference naming an alias of an anonymous type and
    `tl` a position inside that type. -/
theorem visit_complete (t : Table) (self : Nat) (f : SFile) (p : Path) (h : p ∈ (visitP t self f).map PEvent.path) :
    Declared f p ∨ ∃ q tl, Declared f q ∧ q.getLast? ≠ some .file ∧ tl ≠ [] ∧ p = q ++ tl ∧ ¬ Declared f p := by
  rcases (presented_iff t self f p).mp h with h | h
  · exact Or.inl h
  · right
    have hnd := below_alias_not_declared t f p h
    obtain ⟨q, tl, id, e, s, attrs, rfl, htl, hq, _, _⟩ := h
    refine ⟨q, tl, refAt_declared hq, ?_, htl, rfl, hnd⟩
    obtain ⟨s', hs', hc⟩ := refAt_last hq
    rw [hs']
    intro h'
    cases h'
    simp [Seg.cls] at hc

/-! ## exactly once -/

/-- **Every presented path occurs exactly once, every other path never.** -/
theorem presented_count (t : Table) (self : Nat) (f : SFile) (p : Path) :
    (Declared f p ∨ BelowAlias t f p → ((visitP t self f).map PEvent.path).count p = 1) ∧
    (¬ (Declared f p ∨ BelowAlias t f p) → ((visitP t self f).map PEvent.path).count p = 0) := by
  rw [← presented_iff t self f p, (visit_nodup t self f).count]
  constructor <;> intro h <;> simp [h]

/-- every callback (kind, path, own/other file) occurs exactly once in the walk -/
theorem event_once (t : Table) (self : Nat) (f : SFile) (e : PEvent) (h : e ∈ visitP t self f) :
    (visitP t self f).count e = 1 := by
  have hn : (visitP t self f).Nodup := by
    have := visit_nodup t self f
    unfold List.Nodup at this ⊢
    rw [List.pairwise_map] at this
    exact this.imp (fun hne heq => hne (by rw [heq]))
  rw [hn.count]; simp [h]

/-- **A path lies below at most one written name**: the decomposition `q ++ tl` of `BelowAlias` is unique — the written
    reference through which an alias-flattened reference is reached is determined by the path. -/
theorem use_is_unique (f : SFile) (q q' tl tl' : Path) (id id' : String) (hq : refAt f q = some (.named id))
    (hq' : refAt f q' = some (.named id')) (htl : tl ≠ []) (htl' : tl' ≠ []) (h : q ++ tl = q' ++ tl') : q = q' ∧ tl = tl' :=
  use_unique hq hq' htl htl' h

/-- **Once per use.** Let `q` be a written reference of the file that names an alias of the anonymous type `e` (written in
    scope `s`). Below `q` the walk presents exactly the positions inside `e` (`InTy`), each exactly once, and nothing else:
    a reference written under an alias is presented once for *this* use `q` and this position `tl` of the flattened type.
    (The unit is the position, not the `TypeRef` object: with `typealias A = Sequence<bool>`, `typealias D = Result<A, A>`
    and a field `x: D`, the element reference written under `A` is one object but two positions below the one written
    reference `x.t` — `x.t.s.e` and `x.t.f.e` — and is presented at both, once each; the real visitor does the same.) -/
theorem once_per_use (t : Table) (self : Nat) (f : SFile) (q : Path) (id : String) (e : TyExpr) (s : String) (attrs : List Attr)
    (hq : refAt f q = some (.named id)) (hr : resolveNamed t .type id (fileScope f) = .ok (.expr e s, attrs))
    (tl : Path) (htl : tl ≠ []) :
    (InTy t (numAliases t) s e tl → ((visitP t self f).map PEvent.path).count (q ++ tl) = 1) ∧
    (¬ InTy t (numAliases t) s e tl → ((visitP t self f).map PEvent.path).count (q ++ tl) = 0) := by
  have key : (Declared f (q ++ tl) ∨ BelowAlias t f (q ++ tl)) ↔ InTy t (numAliases t) s e tl := by
    constructor
    · rintro (h | ⟨q', tl', id', e', s', attrs', hp, htl', hq', hr', h⟩)
      · exact absurd h (refAt_below_named hq tl htl).2
      · obtain ⟨rfl, rfl⟩ := use_unique hq hq' htl htl' hp
        rw [hq] at hq'; cases hq'
        rw [hr] at hr'; cases hr'
        exact h
    · intro h
      exact Or.inr ⟨q, tl, id, e, s, attrs, rfl, htl, hq, hr, h⟩
  rw [← key]
  exact presented_count t self f (q ++ tl)

/-- **The same reference under an alias is presented once for every use of the alias.** If two different written references
    `q₁ ≠ q₂` of the file name the same alias of an anonymous type, every position `tl` inside that type is presented
    under both — two different callbacks (`q₁ ++ tl ≠ q₂ ++ tl`) for the same reference written under the alias, each
    exactly once. This is the precise sense in which an alias-flattened `TypeRef` is presented "once per use". -/
theorem alias_node_once_per_use (t : Table) (self : Nat) (f : SFile) (q₁ q₂ : Path) (id : String) (e : TyExpr) (s : String)
    (attrs : List Attr) (h₁ : refAt f q₁ = some (.named id)) (h₂ : refAt f q₂ = some (.named id)) (hne : q₁ ≠ q₂)
    (hr : resolveNamed t .type id (fileScope f) = .ok (.expr e s, attrs)) (tl : Path) (htl : tl ≠ [])
    (hin : InTy t (numAliases t) s e tl) :
    ((visitP t self f).map PEvent.path).count (q₁ ++ tl) = 1 ∧ ((visitP t self f).map PEvent.path).count (q₂ ++ tl) = 1 ∧
    q₁ ++ tl ≠ q₂ ++ tl :=
  ⟨(once_per_use t self f q₁ id e s attrs h₁ hr tl htl).1 hin, (once_per_use t self f q₂ id e s attrs h₂ hr tl htl).1 hin,
   fun h => hne (List.append_cancel_right h)⟩

/-! ## the compared strings determine the events -/

/-- **The rendering of paths is injective**: two structured paths that render to the same string (`d0.f1.t.e` …) are equal. -/
theorem pathStr_injective (p q : Path) (h : pathStr p = pathStr q) : p = q := pathStr_inj p q h

/-- the event that travels to the harness determines the structured event -/
theorem render_injective (a b : PEvent) (h : a.render = b.render) : a = b := by
  cases a; cases b
  simp only [PEvent.render, Event.mk.injEq] at h
  obtain ⟨rfl, hp, rfl⟩ := h
  rw [pathStr_inj _ _ hp]

/-- **Equal rendered walks are equal walks**: if the event lists compared by the harness (`visit`, paths as strings) are
    equal, the structured event lists the theorems speak about are equal. -/
theorem visit_determines_visitP (t t' : Table) (i i' : Nat) (f f' : SFile) (h : visit t i f = visit t' i' f') :
    visitP t i f = visitP t' i' f' :=
  map_inj_of_inj PEvent.render render_injective _ _ h

/-- **The wire string of a walk determines the walk.** `eventsStr (visit …)` — the comma-separated `kind:path[@own|@other]`
    text that is compared with the harness's recording — is injective on walks: every callback of a walk has one of the
    twelve known kinds and only type references carry the own/other flag (`visitP_OK`), kinds and paths contain no `:`,
    `,`, `@`, so the text can be split back in exactly one way. -/
theorem wire_determines_walk (t t' : Table) (i i' : Nat) (f f' : SFile)
    (h : eventsStr (visit t i f) = eventsStr (visit t' i' f')) : visitP t i f = visitP t' i' f' :=
  eventsStr_inj _ _ (visitP_OK t i f) (visitP_OK t' i' f') h

/-- **The whole observation determines every file's walk.** If two programs have the same expected observation
    (`visitDump`: the walks of the files joined by `|`, then the fixed trailer), they have the same number of files and the
    same structured walk for every file. Equality of the compared strings is equality of the event sequences. -/
theorem observation_determines_walks (p p' : Program) (h : visitDump p = visitDump p') :
    (p.zipIdx.map fun (f, i) => visitP (buildTable p) i f) = (p'.zipIdx.map fun (f, i) => visitP (buildTable p') i f) :=
  visitDump_inj p p' h

/-- the driver's run-time check "rendered paths are pairwise distinct" (K line `render`) can never fire -/
theorem rendered_paths_nodup (t : Table) (self : Nat) (f : SFile) : ((visit t self f).map (·.path)).Nodup := by
  have := visit_nodup t self f
  unfold List.Nodup at this ⊢
  unfold visit
  rw [List.pairwise_map] at this
  rw [List.pairwise_map, List.pairwise_map]
  exact this.imp (fun hne heq => hne (pathStr_inj _ _ heq))

/-! ## the order statement at full strength -/

/-- `pathLt` (a Boolean function: compare the first differing step by class, then index; a proper prefix first) decides
    the document order, and the document order is a strict total order: irreflexive, transitive, any two different
    paths comparable. -/
theorem pathLt_strict_total :
    (∀ a b, pathLt a b = true ↔ Path.lt a b) ∧ (∀ a, pathLt a a = false) ∧
    (∀ a b c, pathLt a b = true → pathLt b c = true → pathLt a c = true) ∧
    (∀ a b, pathLt a b = true ∨ a = b ∨ pathLt b a = true) := by
  refine ⟨pathLt_iff, fun a => ?_, fun a b c h h' => ?_, fun a b => ?_⟩
  · cases h : pathLt a a
    · rfl
    · exact absurd ((pathLt_iff a a).mp h) (lex_irrefl a)
  · exact (pathLt_iff a c).mpr (lex_trans ((pathLt_iff a b).mp h) ((pathLt_iff b c).mp h'))
  · simp only [pathLt_iff]; exact lex_total a b

/-- a container precedes everything below it; below a common container the sibling order of the first differing step
    decides, whatever follows -/
theorem pathLt_facts (q : Path) (s : Seg) (tl : Path) (a b : Seg) (x y : Path) :
    pathLt q (q ++ s :: tl) = true ∧ (segLt a b = true → pathLt (q ++ a :: x) (q ++ b :: y) = true) :=
  ⟨(pathLt_iff _ _).mpr (lex_prefix q s tl), fun h => (pathLt_iff _ _).mpr (lex_sibling q ((segLt_iff a b).mp h) x y)⟩

/-- **The walk is strictly increasing in the document order** (one statement for the whole order property): in the list
    of presented paths every earlier path is `pathLt` every later one. With `pathLt_strict_total` and `pathLt_facts` this
    gives: no path twice (irreflexive), containers before contents, siblings and everything below them in declaration
    order, parameters before return members, key before value, success before failure, at every depth. -/
theorem visit_sorted (t : Table) (self : Nat) (f : SFile) :
    ((visitP t self f).map PEvent.path).Pairwise (fun a b => pathLt a b = true) := by
  rw [List.pairwise_map]
  exact (visit_order t self f).imp (fun h => (pathLt_iff _ _).mpr h)

/-- **The walk is determined by the specification**: the sequence of presented paths is *the* strictly increasing
    enumeration of the set `Declared f ∪ BelowAlias t f` — any list that is strictly increasing in `pathLt` and has exactly
    those members is the sequence of the walk. "Every element exactly once, in source order" in one statement. -/
theorem visit_is_sorted_enumeration (t : Table) (self : Nat) (f : SFile) (L : List Path)
    (hs : L.Pairwise (fun a b => pathLt a b = true)) (hm : ∀ p, p ∈ L ↔ Declared f p ∨ BelowAlias t f p) :
    L = (visitP t self f).map PEvent.path := by
  refine sorted_ext L _ (hs.imp (fun h => (pathLt_iff _ _).mp h)) ?_ (fun p => ?_)
  · rw [List.pairwise_map]; exact visit_order t self f
  · rw [hm p, presented_iff]

/-! ## kinds and own/other-file flags: the event at a position

  * `kindAt f p` — the kind of the element at position `p`: read off the last step (`file`, `mod` → "module", `f·` → "field",
    `o·` → "operation", `p·`/`r·` → "parameter", `e·` → "enumerator", `.t .e .k .v .s .f` → "typeref"), for `d j` the kind of
    the `j`-th definition of the file.
  * `flagAt t self f p` — `false` ("own file") unless `p` lies at/below the reference of an owner; there it is
    `flagTy t self fuel scope false ty r` (`flagTy_spec` gives its rules). -/

/-- **The rules of the own/other-file flag below a reference** (`fr` = the flag of the reference itself): (1) the reference
    itself keeps `fr`; (2) a step into a written nested reference keeps the flag; (3) passing through a name bound to an
    alias of an anonymous type, the flag becomes "the alias chain ends in another file" (`exprFile t id sc != self`) and
    the descent continues in the alias's type and scope; (4) hence at every written position the flag is `fr`. -/
theorem flagTy_spec (t : Table) (self fuel : Nat) (sc : String) (fr : Bool) :
    (∀ ty, flagTy t self fuel sc fr ty [] = fr) ∧
    (∀ ty c s p, (∀ id, ty ≠ .named id) → TyExpr.child ty s = some c →
        flagTy t self fuel sc fr ty (s :: p) = flagTy t self fuel sc fr c p) ∧
    (∀ id e s' attrs p, p ≠ [] → resolveNamed t .type id sc = .ok (.expr e s', attrs) →
        flagTy t self (fuel + 1) sc fr (.named id) p = flagTy t self fuel s' (exprFile t id sc != self) e p) ∧
    (∀ ty p, DeclaredTy ty p → flagTy t self fuel sc fr ty p = fr) :=
  ⟨flagTy_nil t self fuel sc fr, fun ty c s p hn hc => flagTy_step t self fuel sc fr ty c s p hn hc,
   fun id e s' attrs p hp hr => flagTy_named t self fuel sc fr id e s' attrs p hp hr,
   fun ty p h => flagTy_declared t self fuel sc fr p ty h⟩

/-- **Every callback is the event of its position**: its kind is the kind of the element at its path and its own/other
    flag is the one the position determines. Together with `presented_iff` and `visit_sorted` nothing about a walk is
    left open (`walk_is_determined`). -/
theorem event_by_position (t : Table) (self : Nat) (f : SFile) (e : PEvent) (h : e ∈ visitP t self f) :
    e = ⟨kindAt f e.path, e.path, flagAt t self f e.path⟩ :=
  event_at_position t self f e h

/-- the flag by position: declared positions are "own file"; an alias-descended position `q ++ tl` (written name `q`
    bound to the anonymous type `e` of scope `s`) carries `flagTy` started with "the alias chain of the name ends in
    another file" -/
theorem flag_by_position (t : Table) (self : Nat) (f : SFile) :
    (∀ p, Declared f p → flagAt t self f p = false) ∧
    (∀ q tl id e s attrs, refAt f q = some (.named id) → resolveNamed t .type id (fileScope f) = .ok (.expr e s, attrs) →
        tl ≠ [] → flagAt t self f (q ++ tl) = flagTy t self (numAliases t) s (exprFile t id (fileScope f) != self) e tl) :=
  ⟨flagAt_declared t self f, fun q tl id e s attrs hq hr htl => flagAt_below t self f q tl id e s attrs hq hr htl⟩

/-- **Other-file references only below aliases.** A callback flagged "written in another file" is a type reference and
    lies strictly below a written reference naming an alias of an anonymous type; everything declared in the walked file
    is presented as own. -/
theorem other_file_only_below_alias (t : Table) (self : Nat) (f : SFile) (e : PEvent) (h : e ∈ visitP t self f)
    (hf : e.foreign = true) : BelowAlias t f e.path ∧ e.kind = "typeref" := by
  have he := event_by_position t self f e h
  have hp : e.path ∈ (visitP t self f).map PEvent.path := List.mem_map.mpr ⟨e, h, rfl⟩
  have hb : BelowAlias t f e.path := by
    rcases (presented_iff t self f e.path).mp hp with hd | hb
    · have := flagAt_declared t self f e.path hd
      rw [he] at hf
      simp only at hf
      rw [this] at hf; cases hf
    · exact hb
  refine ⟨hb, ?_⟩
  obtain ⟨q, tl, id, e', s, attrs, hpq, htl, hq, _, _⟩ := hb
  have := visitP_OK t self f e h
  cases hk : decide (e.kind = "typeref") with
  | true => exact of_decide_eq_true hk
  | false => rw [this.2 (of_decide_eq_false hk)] at hf; cases hf

/-- **The walk is determined by the specification.** Let `L` be the strictly increasing (`pathLt`) list of the paths that
    are declared in the file or lie below a written alias of an anonymous type. Then the walk is exactly `L` with, at
    every path, the kind of the element there and the flag of that position: every element exactly once, in source
    order, as the right kind of callback. -/
theorem walk_is_determined (t : Table) (self : Nat) (f : SFile) (L : List Path)
    (hs : L.Pairwise (fun a b => pathLt a b = true)) (hm : ∀ p, p ∈ L ↔ Declared f p ∨ BelowAlias t f p) :
    visitP t self f = L.map (fun p => ⟨kindAt f p, p, flagAt t self f p⟩) := by
  rw [visit_is_sorted_enumeration t self f L hs hm, List.map_map]
  conv => lhs; rw [← List.map_id (visitP t self f)]
  exact List.map_congr_left (fun e he => event_by_position t self f e he)

/-! non-vacuity -/

def exFile : SFile :=
  { fileAttrs := [], module := some ⟨[], "M"⟩,
    defs := [ .alias [] [] "T" (.mk [] (.seq (.mk [] (.prim .bool) false)) false),
              .struct [] [] false "S" [⟨[], [], none, "a", .mk [] (.named "T") false⟩,
                                       ⟨[], [], none, "b", .mk [] (.dict (.mk [] (.prim .int32) false) (.mk [] (.named "T") true)) false⟩] ] }

example : (visitWritten exFile).map (fun e => (e.kind, e.path)) =
    [("file", [.file]), ("module", [.mod]), ("alias", [.d 0]), ("typeref", [.d 0, .t]), ("typeref", [.d 0, .t, .te]),
     ("struct", [.d 1]), ("field", [.d 1, .f 0]), ("typeref", [.d 1, .f 0, .t]),
     ("field", [.d 1, .f 1]), ("typeref", [.d 1, .f 1, .t]), ("typeref", [.d 1, .f 1, .t, .tk]), ("typeref", [.d 1, .f 1, .t, .tv])] := by
  simp [visitWritten, exFile, fileF, flat, idxF, defF, defKind, fieldsF, Ctx.tref, trefF, tyF, Forest.append, TRef.ty]

example : isOwner "field" ∧ isOwner "parameter" ∧ isOwner "alias" ∧ ¬ isOwner "operation" := by decide

example : Declared exFile [.d 1, .f 1, .t, .tv] ∧ ¬ Declared exFile [.d 1, .f 1, .t, .tv, .te] ∧ ¬ Declared exFile [.d 2] := by
  simp [Declared, exFile, DeclaredIn, DeclaredFields, DeclaredOwner, DeclaredTy, TRef.ty]

/-! non-vacuity of the completeness / multiplicity / rendering / order theorems: `exFile2` (Lemmas/VisitExample.lean) is
    `module M  typealias T = Sequence<bool>  typealias U = Dictionary<int32, T>  struct S { a: T, b: U, c: Sequence<T> }`
    with the table `exTab = buildTable [exFile2]` -/

/-- the walk of the example: `T`'s element reference is presented at `d0.t.e` (where it is written) and once more under
    every use of `T`: `d1.t.v.e`, `d2.f0.t.e`, `d2.f1.t.v.e` (through `U`, nested), `d2.f2.t.e.e` -/
example : (visitP exTab 0 exFile2).map (fun e => pathStr e.path) =
    ["file", "mod", "d0", "d0.t", "d0.t.e", "d1", "d1.t", "d1.t.k", "d1.t.v", "d1.t.v.e", "d2", "d2.f0", "d2.f0.t", "d2.f0.t.e",
     "d2.f1", "d2.f1.t", "d2.f1.t.k", "d2.f1.t.v", "d2.f1.t.v.e", "d2.f2", "d2.f2.t", "d2.f2.t.e", "d2.f2.t.e.e"] := by
  simp [visitP, ctxOf, visitFuel, ex_numAliases, fileScope, exFile2, fileF, flat, idxF, defF, defKind, fieldsF, Ctx.tref, trefF, tyF,
    Forest.append, TRef.ty, tr, ex_res_T, ex_res_U]
  decide

/-- the five alias-descended paths of the example are `BelowAlias` (through `T`, through `U` and then `T`, below a nested
    written reference, inside an alias definition), and not `Declared` -/
example : BelowAlias exTab exFile2 [.d 2, .f 0, .t, .te] ∧ BelowAlias exTab exFile2 [.d 2, .f 1, .t, .tv, .te] ∧
    BelowAlias exTab exFile2 [.d 2, .f 2, .t, .te, .te] ∧ BelowAlias exTab exFile2 [.d 1, .t, .tv, .te] ∧
    ¬ Declared exFile2 [.d 2, .f 0, .t, .te] :=
  ⟨⟨[.d 2, .f 0, .t], [.te], "T", _, "M", [], rfl, by simp, ex_refs.1, ex_res_T, by rw [ex_numAliases]; exact ex_inT.1⟩,
   ⟨[.d 2, .f 1, .t], [.tv, .te], "U", _, "M", [], rfl, by simp, ex_refs.2.2.1, ex_res_U, by rw [ex_numAliases]; exact ex_inU⟩,
   ⟨[.d 2, .f 2, .t, .te], [.te], "T", _, "M", [], rfl, by simp, ex_refs.2.1, ex_res_T, by rw [ex_numAliases]; exact ex_inT.1⟩,
   ⟨[.d 1, .t, .tv], [.te], "T", _, "M", [], rfl, by simp, ex_refs.2.2.2.1, ex_res_T, by rw [ex_numAliases]; exact ex_inT.1⟩,
   by simp [Declared, exFile2, DeclaredIn, DeclaredFields, DeclaredOwner, DeclaredTy, TRef.ty, tr]⟩

/-- `T` is used at `d2.f0.t` and at `d2.f2.t.e`: its element reference is presented under both, once each -/
example : ((visitP exTab 0 exFile2).map PEvent.path).count [.d 2, .f 0, .t, .te] = 1 ∧
    ((visitP exTab 0 exFile2).map PEvent.path).count [.d 2, .f 2, .t, .te, .te] = 1 := by
  have := alias_node_once_per_use exTab 0 exFile2 [.d 2, .f 0, .t] [.d 2, .f 2, .t, .te] "T" _ "M" [] ex_refs.1 ex_refs.2.1 (by decide)
    ex_res_T [.te] (by simp) (by rw [ex_numAliases]; exact ex_inT.1)
  exact ⟨this.1, this.2.1⟩

/-- … and nothing else below the use: `d2.f0.t.e.e` and `d2.f0.t.k` are never presented -/
example : ((visitP exTab 0 exFile2).map PEvent.path).count [.d 2, .f 0, .t, .te, .te] = 0 ∧
    ((visitP exTab 0 exFile2).map PEvent.path).count [.d 2, .f 0, .t, .tk] = 0 :=
  ⟨(once_per_use exTab 0 exFile2 [.d 2, .f 0, .t] "T" _ "M" [] ex_refs.1 ex_res_T [.te, .te] (by simp)).2 (by rw [ex_numAliases]; exact ex_inT.2.1),
   (once_per_use exTab 0 exFile2 [.d 2, .f 0, .t] "T" _ "M" [] ex_refs.1 ex_res_T [.tk] (by simp)).2 (by rw [ex_numAliases]; exact ex_inT.2.2)⟩

example : pathLt [.d 1, .o 0, .p 3, .t, .te] [.d 1, .o 0, .r 0] = true ∧ pathLt [.d 0, .t] [.d 0, .t, .tk] = true ∧
    pathLt [.d 0, .t, .tk, .te] [.d 0, .t, .tv] = true ∧ pathLt [.d 2] [.d 10] = true ∧ pathLt [.mod] [.file] = false := by decide

example : pathStr [.d 10, .o 2, .r 0, .t, .tv, .te] = "d10.o2.r0.t.v.e" ∧ pathStr [.d 1, .e 0, .f 1, .t, .ts] = "d1.e0.f1.t.s" := by decide

/-- two files: file 0 `module N  typealias T0 = Sequence<bool>`, file 1 `module M  struct S { a: N::T0 }`; walking file 1
    presents the element reference written in file 0 below the field's type, flagged "other file" -/
example : (visitP exTab2 1 exFileB).map (fun e => (e.kind, pathStr e.path, e.foreign)) =
    [("file", "file", false), ("module", "mod", false), ("struct", "d0", false), ("field", "d0.f0", false),
     ("typeref", "d0.f0.t", false), ("typeref", "d0.f0.t.e", true)] := by
  simp [visitP, ctxOf, visitFuel, ex2_numAliases, fileScope, exFileB, fileF, flat, idxF, defF, defKind, fieldsF, Ctx.tref, trefF, tyF,
    Forest.append, TRef.ty, tr, ex2_res, ex2_exprFile]
  decide

example : kindAt exFileB [.d 0] = "struct" ∧ kindAt exFileB [.d 0, .f 0] = "field" ∧ kindAt exFileB [.d 0, .f 0, .t, .te] = "typeref" ∧
    kindAt exFile2 [.d 1] = "alias" ∧ kindAt exFile2 [.mod] = "module" := by
  simp [kindAt, exFileB, exFile2, defKind, segKind]

/-- the flag of `d0.f0.t.e` in file 1 is "other" because the chain of `N::T0` ends in file 0 ≠ 1; walking the same text as
    file 0 of another program would give "own" -/
example : flagAt exTab2 1 exFileB [.d 0, .f 0, .t, .te] = true ∧ flagAt exTab2 1 exFileB [.d 0, .f 0, .t] = false := by
  constructor
  · have h := (flag_by_position exTab2 1 exFileB).2 [.d 0, .f 0, .t] [.te] "N::T0" _ "N" []
      (by simp [refAt, locate, exFileB, locDef, locFields, locOwner, subTy, tr, TRef.ty]) ex2_res (by simp)
    rw [show ([Seg.d 0, .f 0, .t] ++ [Seg.te]) = [.d 0, .f 0, .t, .te] from rfl] at h
    rw [h, show fileScope exFileB = "M" from rfl, ex2_exprFile]
    rw [flagTy_step _ _ _ _ _ _ (.prim .bool) .te [] (by intro id h; cases h) (by simp [TyExpr.child, tr]), flagTy_nil]
    decide
  · exact (flag_by_position exTab2 1 exFileB).1 _ (by simp [Declared, exFileB, DeclaredIn, DeclaredFields, DeclaredOwner, DeclaredTy])

example : Event.str (PEvent.render ⟨"typeref", [.d 0, .f 0, .t, .te], true⟩) = "typeref:d0.f0.t.e@other" ∧
    Event.str (PEvent.render ⟨"field", [.d 0, .f 0], false⟩) = "field:d0.f0" := by decide

end Slicec.C20

#print axioms Slicec.C20.visit_order
#print axioms Slicec.C20.visit_order_iff
#print axioms Slicec.C20.visit_nodup
#print axioms Slicec.C20.container_first
#print axioms Slicec.C20.source_order
#print axioms Slicec.C20.sibling_order_facts
#print axioms Slicec.C20.type_after_owner
#print axioms Slicec.C20.nested_order
#print axioms Slicec.C20.alias_flattened
#print axioms Slicec.C20.unpatched_not_descended
#print axioms Slicec.C20.unpatched_owner_events
#print axioms Slicec.C20.declared_subset
#print axioms Slicec.C20.written_types_exact
#print axioms Slicec.C20.own_file_only
#print axioms Slicec.C20.inTy_spec
#print axioms Slicec.C20.refAt_spec
#print axioms Slicec.C20.presented_iff
#print axioms Slicec.C20.below_alias_not_declared
#print axioms Slicec.C20.visit_complete
#print axioms Slicec.C20.presented_count
#print axioms Slicec.C20.event_once
#print axioms Slicec.C20.use_is_unique
#print axioms Slicec.C20.once_per_use
#print axioms Slicec.C20.alias_node_once_per_use
#print axioms Slicec.C20.pathStr_injective
#print axioms Slicec.C20.render_injective
#print axioms Slicec.C20.visit_determines_visitP
#print axioms Slicec.C20.wire_determines_walk
#print axioms Slicec.C20.observation_determines_walks
#print axioms Slicec.C20.rendered_paths_nodup
#print axioms Slicec.C20.pathLt_strict_total
#print axioms Slicec.C20.pathLt_facts
#print axioms Slicec.C20.visit_sorted
#print axioms Slicec.C20.visit_is_sorted_enumeration
#print axioms Slicec.C20.flagTy_spec
#print axioms Slicec.C20.event_by_position
#print axioms Slicec.C20.flag_by_position
#print axioms Slicec.C20.other_file_only_below_alias
#print axioms Slicec.C20.walk_is_determined
