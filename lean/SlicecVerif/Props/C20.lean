/-
  C20 — Visitor traversal presents every element exactly once, in source order.

  Theorems over `Slicec.Visit.visitP` (Model/Visit.lean), the mirror of every `visit_with` in
  `/repo/slicec/src/visitor.rs`. An event is identified by its path from the file root (a list of positions);
  `visit` renders the paths in the naming of Model/Print.lean for the comparison with the real visitor.
  All statements hold for every table `t` (any program around the file, valid or not), every file index and every
  file `f` — in particular for every depth of nesting and every chain of aliases.
-/
import SlicecVerif.Lemmas.Visit

namespace Slicec.C20

open Slicec Slicec.Visit

/-- **The callbacks happen in document order.** For any two callbacks of a walk, the earlier one has the smaller
    path in the lexicographic order induced by the declaration order of siblings (`Seg.lt`: `f0 < f1 < …`,
    `file < mod < d0 < …`, parameters before return members, key before value, success before failure), in which a
    container is smaller than everything it contains. -/
theorem visit_order (t : Table) (self : Nat) (f : SFile) :
    (visitP t self f).Pairwise (fun a b => Path.lt a.path b.path) :=
  flat_sorted _ _ (fileF_sorted _ _)

/-- position in the walk and document order of the paths determine each other -/
theorem visit_order_iff (t : Table) (self : Nat) (f : SFile) (i j : Nat)
    (hi : i < (visitP t self f).length) (hj : j < (visitP t self f).length) :
    i < j ↔ Path.lt (visitP t self f)[i].path (visitP t self f)[j].path := by
  have hp := List.pairwise_iff_getElem.mp (visit_order t self f)
  constructor
  · exact fun h => hp i j hi hj h
  · intro h
    rcases Nat.lt_trichotomy i j with hlt | heq | hgt
    · exact hlt
    · subst heq; exact absurd h (lex_irrefl _)
    · exact absurd (hp j i hj hi hgt) (fun h' => lex_asymm h h')

/-- **Exactly once (no repetition).** No two callbacks of a walk have the same path: nothing is presented twice. -/
theorem visit_nodup (t : Table) (self : Nat) (f : SFile) : ((visitP t self f).map PEvent.path).Nodup := by
  unfold List.Nodup
  rw [List.pairwise_map]
  refine (visit_order t self f).imp ?_
  intro a b h heq
  rw [heq] at h
  exact lex_irrefl _ h

/-- **Containers before their contents.** If the path of callback `j` lies strictly below the path of callback `i`
    (`i` is the file's definition / operation / enumerator / owner / enclosing type reference of `j`, at any distance),
    callback `i` happens first. -/
theorem container_first (t : Table) (self : Nat) (f : SFile) (i j : Nat)
    (hi : i < (visitP t self f).length) (hj : j < (visitP t self f).length) (s : Seg) (tl : Path)
    (h : (visitP t self f)[j].path = (visitP t self f)[i].path ++ s :: tl) : i < j := by
  rw [visit_order_iff t self f i j hi hj, h]
  exact lex_prefix _ _ _

/-- **Siblings in declaration order.** Two callbacks below the same container `q`, reached through children `a` and
    `b` of `q` with `a` declared before `b`, happen in that order — whatever lies below `a` comes before `b` and
    everything below `b`. With `Seg.lt (.p m) (.r n)` this says parameters (and their types) come before return members;
    with `Seg.lt .tk .tv` / `Seg.lt .ts .tf` key before value and success before failure. -/
theorem source_order (t : Table) (self : Nat) (f : SFile) (i j : Nat)
    (hi : i < (visitP t self f).length) (hj : j < (visitP t self f).length) (q : Path) (a b : Seg) (x y : Path)
    (ha : (visitP t self f)[i].path = q ++ a :: x) (hb : (visitP t self f)[j].path = q ++ b :: y)
    (hab : Seg.lt a b) : i < j := by
  rw [visit_order_iff t self f i j hi hj, ha, hb]
  exact lex_sibling q hab x y

/-- the sibling order is the declaration order -/
theorem sibling_order_facts (m n : Nat) :
    (m < n → Seg.lt (.d m) (.d n) ∧ Seg.lt (.f m) (.f n) ∧ Seg.lt (.o m) (.o n) ∧ Seg.lt (.p m) (.p n) ∧
      Seg.lt (.r m) (.r n) ∧ Seg.lt (.e m) (.e n)) ∧
    Seg.lt (.p m) (.r n) ∧ Seg.lt .tk .tv ∧ Seg.lt .ts .tf ∧ Seg.lt .file .mod ∧ Seg.lt .mod (.d n) ∧ Seg.lt .file (.d n) := by
  unfold Seg.lt; simp [Seg.cls, Seg.idx]

/-- **The type right after its owner.** The callback directly after a field, parameter, return member or alias is
    the callback for its type reference (path `owner.t`, a `TypeRef` object of this file). -/
theorem type_after_owner (t : Table) (self : Nat) (f : SFile) (i : Nat) (hi : i < (visitP t self f).length)
    (ho : isOwner (visitP t self f)[i].kind) :
    (visitP t self f)[i + 1]? = some ⟨"typeref", (visitP t self f)[i].path ++ [.t], false⟩ :=
  ownerNext_getElem _ i hi (flat_ownerNext _ _ (fileF_ownerOK _ _)) ho

/-- **Nested types, to any depth.** Below the callback of a reference at path `q` written as a sequence /
    dictionary / result, the walk is: the element reference and everything nested in it; the key reference with
    everything nested in it, *then* the value reference with everything nested in it; success, then failure.
    The equations hold at every path and for every fuel, so they describe every level of nesting. -/
theorem nested_order (t : Table) (self fuel : Nat) (sc : String) (fr : Bool) (q : Path)
    (a₁ a₂ : List Attr) (x y : TyExpr) (o₁ o₂ : Bool) :
    flat q (tyF t self fuel sc fr (.seq (.mk a₁ x o₁))) =
      ⟨"typeref", q ++ [.te], fr⟩ :: flat (q ++ [.te]) (tyF t self fuel sc fr x) ∧
    flat q (tyF t self fuel sc fr (.dict (.mk a₁ x o₁) (.mk a₂ y o₂))) =
      (⟨"typeref", q ++ [.tk], fr⟩ :: flat (q ++ [.tk]) (tyF t self fuel sc fr x)) ++
      (⟨"typeref", q ++ [.tv], fr⟩ :: flat (q ++ [.tv]) (tyF t self fuel sc fr y)) ∧
    flat q (tyF t self fuel sc fr (.result (.mk a₁ x o₁) (.mk a₂ y o₂))) =
      (⟨"typeref", q ++ [.ts], fr⟩ :: flat (q ++ [.ts]) (tyF t self fuel sc fr x)) ++
      (⟨"typeref", q ++ [.tf], fr⟩ :: flat (q ++ [.tf]) (tyF t self fuel sc fr y)) := by
  simp [tyF, flat]

/-- **Through aliases.** A reference that names an alias of an anonymous type (the patcher bound it to that type) is
    followed by exactly what follows a reference written as that type — the references written under the alias,
    resolved in the alias's module scope, with paths continuing under the using reference `q`. -/
theorem alias_flattened (t : Table) (self fuel : Nat) (sc : String) (fr : Bool) (q : Path) (id : String)
    (e : TyExpr) (s : String) (attrs : List Attr) (h : resolveNamed t .type id sc = .ok (.expr e s, attrs)) :
    flat q (tyF t self (fuel + 1) sc fr (.named id)) = flat q (tyF t self fuel s (exprFile t id sc != self) e) := by
  simp [tyF, h]

/-- **Unpatched references are not descended.** A named reference that does not resolve (it stays `Unpatched`) is
    presented, and nothing below it is; the same holds for a reference bound to a struct, enum, custom type or primitive. -/
theorem unpatched_not_descended (t : Table) (self fuel : Nat) (sc : String) (fr : Bool) (id : String) :
    (∀ err, resolveNamed t .type id sc = .error err → tyF t self fuel sc fr (.named id) = .nil) ∧
    (∀ n attrs, resolveNamed t .type id sc = .ok (.node n, attrs) → tyF t self fuel sc fr (.named id) = .nil) := by
  constructor
  · intro err h; cases fuel <;> simp [tyF, h]
  · intro n attrs h; cases fuel <;> simp [tyF, h]

/-- an owner whose reference does not resolve contributes exactly two callbacks: itself and its type -/
theorem unpatched_owner_events (c : Ctx) (q : Path) (attrs : List Attr) (id : String) (opt : Bool) (err : ResErr)
    (h : resolveNamed c.table .type id c.scope = .error err) :
    flat q (c.tref (.mk attrs (.named id) opt)) = [⟨"typeref", q ++ [.t], false⟩] := by
  have := (unpatched_not_descended c.table c.self c.fuel c.scope false id).1 err h
  simp [Ctx.tref, trefF, TRef.ty, flat, this]

/-- **Nothing declared in the file is skipped.** Every position of the file that holds an element the visitor has a
    callback for (`Declared f p`: lookup of `p` by position in the abstract syntax — file, module, definitions, fields,
    operations, parameters, return members, enumerators, enumerator fields, and every written type reference to any
    depth) is the path of a callback of the walk — whatever the rest of the program is, resolved or not. -/
theorem declared_subset (t : Table) (self : Nat) (f : SFile) (p : Path) (h : Declared f p) :
    p ∈ (visitP t self f).map PEvent.path :=
  (mem_flat_iff _ [] p).mpr ⟨p, file_has _ f p h, rfl⟩

/-- the walk without alias descent presents exactly the written type references below a reference: together with
    `declared_subset` and `alias_flattened`, what a walk presents beyond `Declared` lies below a written reference
    that names an alias of an anonymous type. -/
theorem written_types_exact (t : Table) (self : Nat) (sc : String) (fr : Bool) (ty : TyExpr) (p : Path) :
    (p = [] ∨ (tyF t self 0 sc fr ty).has p) ↔ DeclaredTy ty p := by
  constructor
  · rintro (rfl | h)
    · exact declaredTy_nil _
    · exact tyF_declared_of_has t self 0 sc fr ty rfl p h
  · exact tyF_has_of_declared t self 0 sc fr ty p

/-- **Nothing from another file.** Paths are positions in the walked file, so this is what "own file only" means
    under the path reading: every callback is located at the file, at its module (which then exists), or below the
    `j`-th definition *of this file* (`j < f.defs.length`) — no callback is located at an element owned by a
    definition of another file. (`PEvent.foreign` marks the type references whose `TypeRef` object was written under an
    alias in another file; by `type_after_owner` and `nested_order` they only occur below a `.t` of this file.) -/
theorem own_file_only (t : Table) (self : Nat) (f : SFile) (e : PEvent) (h : e ∈ visitP t self f) :
    ∃ s tl, e.path = s :: tl ∧ (s = .file ∨ (s = .mod ∧ f.module.isSome) ∨ ∃ j, j < f.defs.length ∧ s = .d j) :=
  fileF_roots _ f e h

/-- the full statement of completeness: a path is presented iff it is declared in the file or lies below a declared
    reference naming an alias of an anonymous type, inside that type. Proved: `declared_subset` (⇐ for declared
    paths), `written_types_exact`, `alias_flattened`; the converse for whole files is not proved. -/
def visit_complete_full : Prop :=
  ∀ (t : Table) (self : Nat) (f : SFile) (p : Path), p ∈ (visitP t self f).map PEvent.path →
    Declared f p ∨ ∃ q tl, Declared f q ∧ q.getLast? ≠ some .file ∧ tl ≠ [] ∧ p = q ++ tl ∧ ¬ Declared f p

/-! non-vacuity -/

def exFile : SFile :=
  { fileAttrs := [], module := some ⟨[], "M"⟩,
    defs := [ .alias [] [] "T" (.mk [] (.seq (.mk [] (.prim .bool) false)) false),
              .struct [] [] false "S" [⟨[], [], none, "a", .mk [] (.named "T") false⟩,
                                       ⟨[], [], none, "b", .mk [] (.dict (.mk [] (.prim .int32) false) (.mk [] (.named "T") true)) false⟩] ] }

example : (visitWritten exFile).map (fun e => (e.kind, e.path)) =
    [("file", [.file]), ("module", [.mod]), ("alias", [.d 0]), ("typeref", [.d 0, .t]), ("typeref", [.d 0, .t, .te]),
     ("struct", [.d 1]), ("field", [.d 1, .f 0]), ("typeref", [.d 1, .f 0, .t]),
     ("field", [.d 1, .f 1]), ("typeref", [.d 1, .f 1, .t]), ("typeref", [.d 1, .f 1, .t, .tk]), ("typeref", [.d 1, .f 1, .t, .tv])] := by
  simp [visitWritten, exFile, fileF, flat, idxF, defF, defKind, fieldsF, Ctx.tref, trefF, tyF, Forest.append, TRef.ty]

example : isOwner "field" ∧ isOwner "parameter" ∧ isOwner "alias" ∧ ¬ isOwner "operation" := by decide

example : Declared exFile [.d 1, .f 1, .t, .tv] ∧ ¬ Declared exFile [.d 1, .f 1, .t, .tv, .te] ∧ ¬ Declared exFile [.d 2] := by
  simp [Declared, exFile, DeclaredIn, DeclaredFields, DeclaredOwner, DeclaredTy, TRef.ty]

end Slicec.C20

#print axioms Slicec.C20.visit_order
#print axioms Slicec.C20.visit_order_iff
#print axioms Slicec.C20.visit_nodup
#print axioms Slicec.C20.container_first
#print axioms Slicec.C20.source_order
#print axioms Slicec.C20.sibling_order_facts
#print axioms Slicec.C20.type_after_owner
#print axioms Slicec.C20.nested_order
#print axioms Slicec.C20.alias_flattened
#print axioms Slicec.C20.unpatched_not_descended
#print axioms Slicec.C20.unpatched_owner_events
#print axioms Slicec.C20.declared_subset
#print axioms Slicec.C20.written_types_exact
#print axioms Slicec.C20.own_file_only
