/-
  C06 — Conditional compilation selects exactly the right lines, in place.
  Model: `Model/Preproc.lean` (character-level mirror of the preprocessor lexer, the LALRPOP grammar as a
  recursive-descent parser, `process_nodes`); SPEC: the line-by-line stack machine `specRun` / `cspecFile`.
  Every statement quantifies over all files / token streams / trees / symbol sets.
  The refinement (d) and the rejection criterion (e) are proved at the token level AND at the character level
  (`refines_stack_machine_full`, `rejects_iff_malformed_full`): lexer = line-by-line reading (`lexer_reads_lines`),
  parser = stack machine (`rejects_iff_malformed_tokens`), SPEC over raw lines = stack machine over abstract lines
  (`spec_reads_lines`).
-/
import SlicecVerif.Lemmas.Preproc
import SlicecVerif.Lemmas.PreprocSpec
import SlicecVerif.Lemmas.PreprocErrors
import SlicecVerif.Lemmas.PreprocErrSim

namespace Slicec.C06

open Slicec Slicec.Pp

/-! ## (a) expressions: the grammar fixes one tree per spelling -/

/-- what the grammar's `Expression` prints as -/
def printExpr (e : PExpr) : List PTok := e.toks

/-- the expression parser run on a complete token list -/
def parseExprAll (toks : List PTok) : Option PExpr :=
  match parseExpr (parseFuel toks) toks with
  | some (e, []) => some e
  | _ => none

/-- Printing any expression tree of the grammar (`Term | "!" Term | Expression "&&" Term | Expression "||" Term`,
    `Term = identifier | "(" Expression ")"`) and parsing the tokens gives the same tree back: `&&` and `||` have equal
    precedence and associate to the left, `!` applies to the first term only, parentheses are kept as nodes. -/
theorem expr_parse_print (e : PExpr) : parseExprAll (printExpr e) = some e := by
  unfold parseExprAll printExpr
  have h := parseExpr_print e (parseFuel e.toks) [] (by
    have := PExpr.size_le_toks e
    unfold parseFuel; omega) trivial
  rw [List.append_nil] at h
  rw [h]

/-- The same inside a directive: whatever follows the expression (a `DirectiveEnd`, a `)`, …, anything but `&&`/`||`)
    is left untouched, for every fuel the model can call the parser with. -/
theorem expr_parse_print_in_context (e : PExpr) (n : Nat) (r : List PTok) (hn : 2 * e.size + 1 ≤ n) (hr : noOp r) :
    parseExpr n (e.toks ++ r) = some (e, r) :=
  parseExpr_print e n r hn hr

/-- Conversely the parser only accepts printed expressions: what it consumed is the printed form of the tree it returns. -/
theorem expr_parse_sound (n : Nat) (toks : List PTok) (e : PExpr) (r : List PTok) (h : parseExpr n toks = some (e, r)) :
    toks = printExpr e ++ r :=
  (parseExpr_sound n).2.1 toks e r h

/-- The Boolean semantics of the tree (`Expression::evaluate`, `Term::evaluate`): a symbol is true iff it is defined. -/
theorem expr_eval (D : Syms) :
    (∀ s, (PTerm.sym s).eval D = D.contains s) ∧
    (∀ e, (PTerm.paren e).eval D = e.eval D) ∧
    (∀ t, (PExpr.term t).eval D = t.eval D) ∧
    (∀ t, (PExpr.not t).eval D = !t.eval D) ∧
    (∀ e t, (PExpr.and e t).eval D = (e.eval D && t.eval D)) ∧
    (∀ e t, (PExpr.or e t).eval D = (e.eval D || t.eval D)) := by
  refine ⟨?_, ?_, ?_, ?_, ?_, ?_⟩ <;> intros <;> simp [PExpr.eval, PTerm.eval]

/-! ## (b) in place -/

/-- Removing directives and unselected lines never shifts anything.  For every file `f`, every symbol set and every
    block `b` the preprocessor returns: `b.content` is the text of `f` at offsets `[b.off, b.off + |b|)`, and for every
    offset `i` into the block, advancing the block's start location over the first `i` characters of the block gives
    exactly the location that offset `b.off + i` has in the ORIGINAL file — every surviving character keeps its row and
    column.  Moreover the blocks come in file order and do not overlap. -/
theorem in_place (f : List Char) (D : Syms) (bs : List Block) (D' : Syms) (h : preprocess f D = .ok (bs, D')) :
    (∀ b ∈ bs, b.content = (f.drop b.off).take b.content.length ∧ b.off + b.content.length ≤ f.length ∧
      ∀ i, i ≤ b.content.length → (b.content.take i).foldl advance b.start = locAt f (b.off + i)) ∧
    bs.Pairwise (fun a b => a.off + a.content.length ≤ b.off) := by
  have hc := preprocess_chain f D bs D' h
  refine ⟨?_, chain_pairwise hc⟩
  intro b hb
  have hok := chain_mem hc b hb
  exact ⟨hok.2.2.2, hok.2.1, fun i hi => block_in_place f 0 f.length b hok i hi⟩

/-- The fold lemma everything above rests on: advancing over `a` and then over `b` is advancing over `a ++ b`. -/
theorem advance_fold (l : Loc) (a b : List Char) : b.foldl advance (a.foldl advance l) = (a ++ b).foldl advance l :=
  foldl_advance_append l a b

/-! ## (c) files are preprocessed independently -/

/-- `parse_files` gives every file a fresh clone of the command-line symbols: the result for a list of files is the
    list of the results of the files taken alone, so `#define`/`#undef` in one file cannot be seen in another. -/
theorem file_isolation (D : Syms) (fs : List (List Char)) : preprocessFiles D fs = fs.map (preprocess · D) := by
  induction fs with
  | nil => rfl
  | cons f fs ih => simp [preprocessFiles, ih]

/-! ## (d) refinement of the line-by-line stack machine -/

/-- Token level, both directions.  (1) Whenever the model's parser accepts a token stream `toks` with tree `ns`, `toks` is
    the concatenation of the tokens of the abstract lines `ns.lines` (`src | #if e | #elif e | #else | #endif | #define s |
    #undef s`, all well-formed), and the textbook stack machine (frames `(anyBranchTaken, active, seenElse)`; a source line
    is selected iff every frame is active; `#define`/`#undef` act iff every frame is active; `#elif` is considered only if
    no earlier branch was taken) run over these lines from the symbols `D` ends with an empty stack and has emitted
    exactly the blocks, in the same order, and exactly the final symbol set that the model's `evalNodes` (the mirror of
    `process_nodes`) computes.  (2) Conversely, for EVERY list of abstract lines on which the stack machine ends balanced
    with result `out`, the parser accepts the tokens of these lines, the tree it builds has exactly these lines, and
    evaluating the tree gives `out`. -/
theorem refines_stack_machine_tokens (D : Syms) :
    (∀ toks ns, parsePre toks = some ns →
      linesToks ns.lines = toks ∧ specFile ns.lines D = some (evalNodes ns ⟨[], D⟩)) ∧
    (∀ ls out, specFile ls D = some out →
      ∃ ns, parsePre (linesToks ls) = some ns ∧ ns.lines = ls ∧ evalNodes ns ⟨[], D⟩ = out) := by
  refine ⟨fun toks ns h => ⟨(parsePre_sound toks ns h).symm, specFile_tree ns D⟩, ?_⟩
  intro ls out h
  obtain ⟨ns, h1, h2⟩ := parsePre_of_lines ls D (by rw [h]; simp)
  refine ⟨ns, h1, h2, ?_⟩
  have := specFile_tree ns D
  rw [h2, h] at this
  exact (Option.some.inj this).symm

/-- The stack machine on the lines of ANY tree (nested to any depth) computes what the model computes; inside an
    unselected region nothing is emitted and no symbol changes. -/
theorem stack_machine_on_tree (ns : Nodes) (stk : List Frame) (out : PState) :
    specRun ⟨stk, out⟩ ns.lines = some ⟨stk, if allActive stk then evalNodes ns out else out⟩ :=
  spec_nodes ns stk out

/-- The character-level link, lexer side.  For every file `f`: `lexPre f` succeeds with the token list `toks` iff the
    declarative line-by-line reading `declLines` of the lines of `f` (split at `'\n'`) gives `toks`.  That reading is:
    a line consisting of inline whitespace contributes nothing; a line whose first character other than inline
    whitespace is `#` contributes the tokens `dirLine` of its text from the `#` on (keyword after optional blanks,
    identifiers, `! && || ( )`, further `#keyword`s, an optional `//` comment to the end of the line; anything else is
    a lexical error) followed by `DirectiveEnd`; every maximal run of other lines containing a source line contributes
    ONE block token, which starts at the first non-blank character of its first source line (location = `locAt f` of
    that offset), and whose content is the text of `f` from there up to the `#` of the next directive line (after that
    line's indentation) or the end of the file.  A lexical error in ANY directive line makes `lexPre f` fail. -/
theorem lexer_reads_lines (f : List Char) (toks : List PTok) :
    lexPre f = .ok toks ↔ declLines f (splitLines f) none = some toks :=
  lexPre_ok_iff f toks

/-- Lexical well-formedness is decided line by line: `lexPre f` succeeds iff every directive line of `f` (first
    character other than inline whitespace is `#`), lexed ON ITS OWN, is lexically well-formed.  Source lines are never
    looked at (they are passed through verbatim inside a block). -/
theorem lexer_ok_iff_lines_ok (f : List Char) :
    (∃ toks, lexPre f = .ok toks) ↔ ∀ l ∈ splitLines f, isDirLine l → ∃ t, lexPre l = .ok t := by
  obtain ⟨_, hnl, _⟩ := splitLines_spec f
  have h1 : (∃ toks, lexPre f = .ok toks) ↔ declLines f (splitLines f) none ≠ none := by
    constructor
    · rintro ⟨toks, h⟩; rw [(lexPre_ok_iff f toks).mp h]; simp
    · intro h
      cases hd : declLines f (splitLines f) none with
      | none => exact absurd hd h
      | some toks => exact ⟨toks, (lexPre_ok_iff f toks).mpr hd⟩
  rw [h1, declLines_ne_none]
  constructor
  · intro h l hl ⟨d', hd⟩
    have := lexPre_dirline l d' (hnl l hl) hd
    cases hx : dirLine ('#' :: d') with
    | none => exact absurd hx (h l hl d' hd)
    | some ts =>
      rw [hx] at this
      cases hlex : lexPre l with
      | ok t => exact ⟨t, rfl⟩
      | error e => rw [hlex] at this; simp at this
  · intro h l hl d' hd
    obtain ⟨t, ht⟩ := h l hl ⟨d', hd⟩
    have := lexPre_dirline l d' (hnl l hl) hd
    rw [ht] at this
    intro hx
    rw [hx] at this
    simp at this

/-- The character-level SPEC read declaratively.  `cspecFile f D` (the stack machine over the raw lines of `f`, which
    classifies every line on its own) accepts iff every directive line of `f` spells a well-formed directive
    (`absLines ≠ none`) and the token-level stack machine `specFile` over the resulting abstract lines ends balanced;
    its result then is the located non-whitespace characters of the emitted blocks and the final symbols. -/
theorem spec_reads_lines (f : List Char) (D : Syms) :
    cspecFile f D = (absLines f (splitLines f) none).bind fun als =>
      (specFile als D).map fun o => (o.blocks.flatMap locatedBlock, o.syms) :=
  cspecFile_eq f D

/-- The model accepts exactly when the file reads as abstract lines on which the stack machine ends balanced, and
    then returns the stack machine's blocks and symbols. -/
theorem preprocess_iff_lines (f : List Char) (D : Syms) (bs : List Block) (D' : Syms) :
    preprocess f D = .ok (bs, D') ↔
      ∃ als out, absLines f (splitLines f) none = some als ∧ specFile als D = some out ∧ bs = out.blocks ∧ D' = out.syms := by
  constructor
  · intro h
    unfold preprocess at h
    cases hl : lexPre f with
    | error e => rw [hl] at h; cases h
    | ok toks =>
      rw [hl] at h
      simp only at h
      cases hp : parsePre toks with
      | none => rw [hp] at h; cases h
      | some ns =>
        rw [hp] at h
        simp only [Except.ok.injEq, Prod.mk.injEq] at h
        have ht := parsePre_sound toks ns hp
        refine ⟨ns.lines, evalNodes ns ⟨[], D⟩, ?_, specFile_tree ns D, h.1.symm, h.2.symm⟩
        apply absLines_of_toks
        rw [(lexPre_ok_iff f toks).mp hl, ht]
        rfl
  · rintro ⟨als, out, h1, h2, rfl, rfl⟩
    have hl := (lexPre_ok_iff f _).mpr (absLines_toks f _ _ _ h1)
    obtain ⟨ns, hp, hns⟩ := parsePre_of_lines als D (by rw [h2]; simp)
    have ht := specFile_tree ns D
    rw [hns, h2] at ht
    unfold preprocess
    rw [hl]
    simp only [hp]
    rw [← Option.some.inj ht]

/-- FULL, character level.  Whenever the stack machine over the raw lines of `f` accepts (every directive line is a
    well-formed directive, no `#elif`/`#else`/`#endif` without an open `#if` or after `#else`, nothing left open), the
    model accepts, the located non-whitespace characters of the emitted blocks are exactly those of the selected source
    lines, each at its original row and column, and the final symbol sets agree (they are equal). -/
theorem refines_stack_machine_full :
    ∀ (f : List Char) (D : Syms) (cs : List LChar) (D' : Syms), cspecFile f D = some (cs, D') →
      ∃ bs D'', preprocess f D = .ok (bs, D'') ∧ bs.flatMap locatedBlock = cs ∧ (∀ s, D''.contains s = D'.contains s) := by
  intro f D cs D' h
  rw [cspecFile_eq] at h
  cases ha : absLines f (splitLines f) none with
  | none => rw [ha] at h; cases h
  | some als =>
    rw [ha] at h
    simp only [Option.bind] at h
    cases hs : specFile als D with
    | none => rw [hs] at h; cases h
    | some out =>
      rw [hs] at h
      simp only [Option.map, Option.some.injEq, Prod.mk.injEq] at h
      exact ⟨out.blocks, out.syms, (preprocess_iff_lines f D _ _).mpr ⟨als, out, ha, hs, rfl, rfl⟩, h.1,
        fun s => by rw [h.2]⟩

/-! ## (e) malformed or unbalanced input is rejected -/

/-- COMPLETENESS of the parser: every list of (well-formed) abstract lines on which the stack machine does not fail —
    no `#elif`/`#else`/`#endif` without an open `#if`, none after `#else`, nothing left open — is accepted, and the tree
    the parser builds has exactly these lines. -/
theorem parser_complete (ls : List ALine) (D : Syms) (h : specFile ls D ≠ none) :
    ∃ ns, parsePre (linesToks ls) = some ns ∧ ns.lines = ls :=
  parsePre_of_lines ls D h

/-- Whether the stack machine fails on a line list depends on the lines only, not on the symbols. -/
theorem balance_indep_of_symbols (ls : List ALine) (D D' : Syms) : specFile ls D ≠ none ↔ specFile ls D' ≠ none :=
  specFile_ne_none_indep ls D D'

/-- FULL at the token level: the parser accepts a token stream iff it is the concatenation of the tokens of well-formed
    abstract lines on which the stack machine neither underflows, nor sees `#elif`/`#else` after `#else`, nor ends with
    an open conditional (for one, equivalently every, symbol set).  Hence every other stream is a syntax error. -/
theorem rejects_iff_malformed_tokens (toks : List PTok) (D : Syms) :
    parsePre toks ≠ none ↔ ∃ ls : List ALine, linesToks ls = toks ∧ specFile ls D ≠ none := by
  constructor
  · intro h
    cases hp : parsePre toks with
    | none => exact absurd hp h
    | some ns =>
      refine ⟨ns.lines, (parsePre_sound toks ns hp).symm, ?_⟩
      rw [specFile_tree]
      simp
  · rintro ⟨ls, rfl, h⟩
    obtain ⟨ns, hp, _⟩ := parsePre_of_lines ls D h
    rw [hp]; simp

/-- FULL, character level: the model rejects a file (lexical or syntax error) iff the stack machine over its raw lines
    rejects it — some directive line is not a well-formed directive, or `#elif`/`#else`/`#endif` come without an open
    `#if` or after `#else`, or a conditional is left open.  Nothing malformed or unbalanced is silently ignored, and
    nothing well-formed and balanced is rejected. -/
theorem rejects_iff_malformed_full :
    ∀ (f : List Char) (D : Syms), (∃ r, preprocess f D = .error r) ↔ cspecFile f D = none := by
  intro f D
  constructor
  · rintro ⟨r, hr⟩
    cases hc : cspecFile f D with
    | none => rfl
    | some x =>
      obtain ⟨cs, D'⟩ := x
      obtain ⟨bs, D'', h, _⟩ := refines_stack_machine_full f D cs D' hc
      rw [hr] at h; cases h
  · intro hc
    cases hp : preprocess f D with
    | error r => exact ⟨r, rfl⟩
    | ok x =>
      obtain ⟨bs, D'⟩ := x
      obtain ⟨als, out, h1, h2, _, _⟩ := (preprocess_iff_lines f D bs D').mp hp
      rw [cspecFile_eq, h1] at hc
      simp only [Option.bind, h2, Option.map] at hc
      cases hc

/-- Any lexical error and any syntax error rejects the whole file (`parse_slice_file` returns `Err` whenever an error
    was recorded, recovered or not): the model accepts only if both the lexer and the parser succeed. -/
theorem accepts_only_if_lexed_and_parsed (f : List Char) (D : Syms) (bs : List Block) (D' : Syms)
    (h : preprocess f D = .ok (bs, D')) :
    ∃ toks ns, lexPre f = .ok toks ∧ parsePre toks = some ns ∧ bs = (evalNodes ns ⟨[], D⟩).blocks ∧ D' = (evalNodes ns ⟨[], D⟩).syms := by
  unfold preprocess at h
  split at h
  · cases h
  · rename_i toks hl
    split at h
    · cases h
    · rename_i ns hp
      simp only [Except.ok.injEq, Prod.mk.injEq] at h
      exact ⟨toks, ns, hl, hp, h.1.symm, h.2.symm⟩

/-! ## (f) which directives are reported, and where (`Model/PreprocErrors.lean`)

  `reportedErrors f` is the list of located syntax errors (start, end) the compiler reports for the file `f`, in report
  order: the mirror of the one recovery production `Node → <!> directive_end` and of the LR driver around it (a bad
  directive line is reported at its first unacceptable token and skipped, the open conditionals are unchanged; end of
  input inside a conditional and a lexical error stop the parse).  The differential stream compares it with every
  diagnostic of the real preprocessor (`reject <row>:<col>[-<row>:<col>];…`). -/

/-- The recovery mirror is tied to the model the theorems above are about: for every file and symbol set, the model
    `preprocess` rejects the file iff `reportedErrors` reports at least one error.  (Nothing is rejected silently, and
    nothing is reported for an accepted file.) -/
theorem rejected_iff_reported (f : List Char) (D : Syms) :
    (∃ r, preprocess f D = .error r) ↔ reportedErrors f ≠ [] := by
  unfold preprocess
  rw [lexPre_of_E]
  cases hle : (lexPreLE f).2 with
  | some e =>
    simp only []
    exact ⟨fun _ => reported_lex_ne f e hle, fun _ => ⟨_, rfl⟩⟩
  | none =>
    simp only []
    have hiff := reported_nil_iff f hle
    have hrej := rejects_iff_malformed_tokens ((lexPreLE f).1.map (·.tok)) D
    cases hp : parsePre ((lexPreLE f).1.map (·.tok)) with
    | none =>
      simp only []
      refine ⟨fun _ hnil => ?_, fun _ => ⟨_, rfl⟩⟩
      obtain ⟨als, h1, h2⟩ := hiff.mp hnil
      exact hrej.mpr ⟨als, h1, (specFile_ne_none_iff als D).mpr h2⟩ hp
    | some ns =>
      simp only []
      constructor
      · rintro ⟨r, hr⟩; cases hr
      · intro hne
        exfalso
        apply hne
        obtain ⟨ls, h1, h2⟩ := hrej.mp (by rw [hp]; simp)
        exact hiff.mpr ⟨ls, h1, (specFile_ne_none_iff ls D).mp h2⟩

/-- The FULL statement about the locations.  For every file `f` and every reported span: both ends are the locations
    (`locAt`: rows and columns counted in CHARACTERS by `advance`) of offsets `i ≤ j ≤ |f|` of the file, and every
    recoverable error (all errors but the last one of a stopped parse) lies on ONE row, which is the row of a directive
    line of `f` (first character other than inline whitespace is `#`). -/
def every_error_is_located_in_its_line : Prop :=
  ∀ (f : List Char) (k : Nat) (sp : Loc × Loc), (reportedErrors f)[k]? = some sp →
    (∃ i j, i ≤ j ∧ j ≤ f.length ∧ sp.1 = locAt f i ∧ sp.2 = locAt f j) ∧
    ((parseStopped f = false ∨ k + 1 < (reportedErrors f).length) →
      sp.1.row = sp.2.row ∧ ∃ l, (splitLines f)[sp.1.row - 1]? = some l ∧ isDirLine l)

/-- What is proved of it, for every file: both ends of every reported span (a) are the location `locAt f i` of an offset
    `i ≤ |f|` of the file — inside the text, columns counted in characters, the sentence a byte-counting lexer breaks —
    and (b) are the start or the end of a token of the located lexer model `lexPreLE f` (or of its lexical error, or the
    initial location 1:1).  MISSING for the full statement: `i ≤ j`, and that all tokens of one directive line lie on the
    row of its `#` (a located version of `lexer_reads_lines`); the driver checks both on every generated file
    (`mirrorChecksFile`, and the rows against the line-by-line machine `cerrFile`). -/
theorem every_error_is_located_in_its_line_partial (f : List Char) :
    ∀ sp ∈ reportedErrors f,
      ((∃ i, i ≤ f.length ∧ sp.1 = locAt f i) ∧ (∃ j, j ≤ f.length ∧ sp.2 = locAt f j)) ∧
      (TokEnd f sp.1 ∧ TokEnd f sp.2) :=
  fun sp h => ⟨reported_locIn f sp h, reported_tokEnd f sp h⟩

/-- The FULL statement, proved (`Lemmas/PreprocErrSim.lean`): `i ≤ j` comes from the span invariant of the located lexer
    model (`lexPreLE_span`: every token and every lexical error starts at an offset ≤ the offset it ends at) carried
    through the mirror (`runLines_spans2`); the row clause comes from the line-by-line simulation `sim_file` (all tokens of
    one directive line lie on the row of its `#`; ALL reported spans, the unrecoverable last one included, lie on one
    row) and `cerrRun_rows` (every row the line machine collects is the row of a directive line). -/
theorem every_error_is_located_in_its_line_full : every_error_is_located_in_its_line := by
  intro f k sp h
  obtain ⟨i, j, h1, h2, h3, h4⟩ := reported_spanIn f sp (List.mem_of_getElem? h)
  have hr := reported_rows f k sp h
  exact ⟨⟨i, j, h1, h2, h3, h4⟩, fun hrec => ⟨hr.1, hr.2 hrec⟩⟩

/-- the rows the line-by-line machine and the recovery mirror report agree; the one licensed difference: when the run
    ends with a LEXICAL error the mirror may have lost the error of the directive line directly in front of it -/
def _root_.Slicec.Pp.ErrRows.agree (spec mirror : ErrRows) : Prop :=
  spec = mirror ∨ (spec.lexical = true ∧ mirror.lexical = true ∧ spec.stop = mirror.stop ∧ spec.rows.dropLast = mirror.rows)

/-- The FULL statement "not silently ignored", against a SPEC written independently of the recovery mirror: `cerrFile`
    is the error-collecting sibling of `cspecFile` — the stack machine over the RAW lines, each classified on its own;
    a malformed directive line is reported and skipped, a closer without opener is reported and skipped, a line with a
    lexical error is reported and ends the run, an unclosed opener is reported once at the end.  The rows it collects
    are the rows of `reportedErrors`, up to the first unrecoverable error.  Evaluated by the driver on EVERY generated
    file (a disagreement is a model counterexample); not proved (it needs a located `lexer_reads_lines`). -/
def each_bad_directive_reported_once : Prop := ∀ f : List Char, (cerrFile f).agree (mirrorRows f)

/-- What is proved of it, for every file and symbol set: the mirror reports at least one error iff the EXISTING line-by-line
    stack machine over the raw lines (`cspecFile`, which stops at the first bad line: a malformed directive line, a closer
    without opener or after `#else`, an unclosed opener at the end) finds a bad line — no file with a bad directive goes
    unreported, no report without a bad directive; and the error-collecting sibling `cerrFile` collects nothing (no row, no
    stop) exactly when the mirror reports nothing.  MISSING for the full statement: that the rows agree one by one when
    there are errors (`cerrFile` is compared with the mirror by the driver on every generated file). -/
theorem each_bad_directive_reported_once_partial (f : List Char) (D : Syms) :
    (reportedErrors f ≠ [] ↔ cspecFile f D = none) ∧
    (reportedErrors f = [] ↔ ((cerrFile f).rows = [] ∧ (cerrFile f).stop = none)) := by
  have h1 : reportedErrors f ≠ [] ↔ cspecFile f D = none :=
    (rejected_iff_reported f D).symm.trans (rejects_iff_malformed_full f D)
  refine ⟨h1, ?_⟩
  have h2 := cerrFile_clean_iff f D
  unfold ErrRows.clean at h2
  rw [h2]
  constructor
  · intro h hc; exact h1.mpr hc h
  · intro h
    cases hr : reportedErrors f with
    | nil => rfl
    | cons a b => exact absurd (h1.mp (by rw [hr]; simp)) h

/-- The FULL statement, proved (`Lemmas/PreprocErrSim.lean`, `sim_file`): a simulation, line by line of the file, of the
    error-collecting line machine `cerrRun` over the RAW lines by the recovery mirror `runLines ∘ tokLines` over the
    located token stream of the lexer model, the tokens in front of a lexical error included (`lexES_dir` / `hash_line`:
    the located lexer reads the file line by line, and every token of a directive line lies on the row of its `#`). -/
theorem each_bad_directive_reported_once_full : each_bad_directive_reported_once := by
  intro f
  exact cerr_agree f

/-! ### non-vacuity: the two inputs of the seeded changes C06-I / C06-J (evaluated by the kernel: `decide +kernel`) -/

/-- `#if Bar` / `#elif (Foo   // déjà vu: see the « naïve » façade` / `module M` / `#endif`: the missing `)` is reported at
    the end of line 2, column 50 counted in characters (56 counted in bytes) -/
example : reportedErrors "#if Bar\n#elif (Foo   // déjà vu: see the « naïve » façade\nmodule M\n#endif\n".toList = [(⟨2, 50⟩, ⟨2, 50⟩)] := by
  decide +kernel
/-- `#define Foo Bar` / `module M` / `#if Baz` / `struct A {}` / `#endif` / `#endif` / `struct B {}`: both bad directives are
    reported (rows 1 and 6), by the mirror and by the line-by-line machine -/
example : (reportedErrors "#define Foo Bar\nmodule M\n#if Baz\nstruct A {}\n#endif\n#endif\nstruct B {}\n".toList).map (·.1.row) = [1, 6] ∧
    cerrFile "#define Foo Bar\nmodule M\n#if Baz\nstruct A {}\n#endif\n#endif\nstruct B {}\n".toList = ⟨[1, 6], none, false⟩ := by
  decide +kernel
/-- a malformed `#if` makes its `#endif` a stray one; an open conditional is reported once, at the end of the last token -/
example : reportedErrors "#if\nx\n#endif".toList = [(⟨1, 4⟩, ⟨1, 4⟩), (⟨3, 1⟩, ⟨3, 7⟩)] ∧
    reportedFull "#if A\n#if B\n\n".toList = ([(⟨2, 6⟩, ⟨2, 6⟩)], true) := by
  decide +kernel
/-- the licensed difference: the error of the line directly in front of a lexical error is lost -/
example : reportedErrors "#if\n#foo".toList = [(⟨2, 1⟩, ⟨2, 5⟩)] ∧ cerrFile "#if\n#foo".toList = ⟨[1], some 2, true⟩ := by
  decide +kernel

/-! ## the tie to the source: the grammar the parser was written for is the extracted one -/

/-- the productions `parseNodes`/`parseNode`/`parseRest`/`parseExpr`/`parseTerm` implement -/
def modelGrammar : List (String × List (List String × String)) := [
  ("SliceFile", [(["BlockContent"], "")]),
  ("BlockContent", [(["Node*"], "")]),
  ("Node", [(["source_block"], "Node::SourceBlock"), (["DefineDirective"], "Node::DefineDirective"), (["UndefineDirective"], "Node::UndefineDirective"), (["Conditional"], "Node::Conditional"), (["<!>", "directive_end"], "")]),
  ("DefineDirective", [(["define_keyword", "identifier", "directive_end"], "")]),
  ("UndefineDirective", [(["undefine_keyword", "identifier", "directive_end"], "")]),
  ("IfDirective", [(["if_keyword", "Expression", "directive_end"], "")]),
  ("ElifDirective", [(["elif_keyword", "Expression", "directive_end"], "")]),
  ("ElseDirective", [(["else_keyword", "directive_end"], "")]),
  ("EndifDirective", [(["endif_keyword", "directive_end"], "")]),
  ("Conditional", [(["(IfDirective BlockContent)", "(ElifDirective BlockContent)*", "(ElseDirective BlockContent)?", "EndifDirective"], "")]),
  ("Expression", [(["Term"], "Expression::Term"), (["\"!\"", "Term"], "Expression::Not"), (["Expression", "\"&&\"", "Term"], "Expression::And"), (["Expression", "\"||\"", "Term"], "Expression::Or")]),
  ("Term", [(["identifier"], "Term::Symbol"), (["\"(\"", "Expression", "\")\""], "Term::Expression")])
]

/-- the terminal ↔ `TokenKind` mapping the parser was written for -/
def modelTerminals : List (String × String) := [("source_block", "SourceBlock"), ("identifier", "Identifier"), ("define_keyword", "DefineKeyword"), ("undefine_keyword", "UndefineKeyword"), ("if_keyword", "IfKeyword"), ("elif_keyword", "ElifKeyword"), ("else_keyword", "ElseKeyword"), ("endif_keyword", "EndifKeyword"), ("directive_end", "DirectiveEnd"), ("\"!\"", "Not"), ("\"&&\"", "And"), ("\"||\"", "Or"), ("\"(\"", "LeftParenthesis"), ("\")\"", "RightParenthesis")]

/-- the directive keywords the lexer model was written for -/
def modelKeywords : List (String × String) := [("define", "DefineKeyword"), ("undef", "UndefineKeyword"), ("if", "IfKeyword"), ("elif", "ElifKeyword"), ("else", "ElseKeyword"), ("endif", "EndifKeyword"), ("", "MissingDirective")]

/-- The productions of `grammar.lalrpop`, its terminal mapping and the lexer's directive keyword arms, as regenerated
    from the repository on every run, are the ones the model parser/lexer were written and proved for.  A changed
    production, constructor, terminal or keyword re-opens this obligation. -/
theorem model_grammar_eq_extracted :
    modelGrammar = Gen.preprocGrammar ∧ modelTerminals = Gen.preprocTerminals ∧
    modelKeywords = Gen.directiveKeywords ∧ Gen.directiveFallback = "UnknownDirective" :=
  ⟨rfl, rfl, rfl, rfl⟩

/-! ## non-vacuity -/

private def A : PTerm := .sym "A"
private def B : PTerm := .sym "B"
private def C : PTerm := .sym "C"

/-- `A || B && C` is `(A || B) && C` for this grammar (NOT C precedence) -/
example : parseExprAll [.ident "A", .or, .ident "B", .and, .ident "C"] = some (.and (.or (.term A) B) C) :=
  expr_parse_print (.and (.or (.term A) B) C)
/-- with A defined and C not, C precedence would say true; the grammar's tree says false -/
example : (PExpr.and (.or (.term A) B) C).eval ["A"] = false := by decide
/-- a nested tree: the stack machine and the model agree, and an unselected `#define` does nothing -/
example : specFile (Nodes.cons (.cond (.term A) (.cons (.define "B") .nil) (.els (.cons (.define "C") .nil))) .nil).lines [] =
    some ⟨[], ["C"]⟩ := by
  rw [specFile_tree]; rfl

/-- a balanced line list (hypothesis of `parser_complete`, right-hand side of `rejects_iff_malformed_tokens`) -/
example : specFile [.if_ (.term A), .src default, .elif (.term B), .else_, .define "C", .endif, .undef "A"] ["A"] ≠ none := by
  decide
/-- unbalanced line lists: `#else` twice, `#endif` without `#if`, `#if` left open -/
example : specFile [.if_ (.term A), .else_, .else_, .endif] [] = none ∧ specFile [.endif] [] = none ∧
    specFile [.if_ (.term A)] [] = none := by decide
/-- the character-level SPEC accepts a file with a source line (hypothesis of `refines_stack_machine_full`) … -/
example : cspecFile [' ', 'x', '\n', 'y'] [] = some ([(1, 2, 'x'), (2, 1, 'y')], []) := by decide
/-- … and so does the model, with one block starting at 1:2 -/
example : (match preprocess [' ', 'x', '\n', 'y'] [] with | .ok r => some r | .error _ => none) =
    some ([⟨⟨1, 2⟩, 1, ['x', '\n', 'y']⟩], []) := by decide

/-- a file with directives, indentation and a trailing comment: accepted by the SPEC over raw lines, with the selected
    line's character at its original location (hypothesis of `refines_stack_machine_full`, for two symbol sets) -/
private def f1 : List Char :=
  ['#', 'i', 'f', ' ', 'A', '\n', ' ', 'x', '\n', '#', 'e', 'l', 's', 'e', ' ', '/', '/', 'c', '\n', 'y', '\n',
   '#', 'e', 'n', 'd', 'i', 'f']
example : cspecFile f1 ["A"] = some ([(2, 2, 'x')], ["A"]) := by decide
example : cspecFile f1 [] = some ([(4, 1, 'y')], []) := by decide
/-- rejected files (right-hand side of `rejects_iff_malformed_full`): an open `#if`, a directive without expression -/
example : cspecFile ['#', 'i', 'f', ' ', 'A', '\n', 'x'] [] = none ∧ cspecFile ['#', 'i', 'f'] [] = none := by decide
/-- a directive line in the sense of `lexer_ok_iff_lines_ok` -/
example : isDirLine [' ', '#', 'i', 'f'] := ⟨['i', 'f'], by decide⟩

end Slicec.C06

#print axioms Slicec.C06.expr_parse_print
#print axioms Slicec.C06.expr_parse_print_in_context
#print axioms Slicec.C06.expr_parse_sound
#print axioms Slicec.C06.expr_eval
#print axioms Slicec.C06.in_place
#print axioms Slicec.C06.advance_fold
#print axioms Slicec.C06.file_isolation
#print axioms Slicec.C06.refines_stack_machine_tokens
#print axioms Slicec.C06.stack_machine_on_tree
#print axioms Slicec.C06.lexer_reads_lines
#print axioms Slicec.C06.lexer_ok_iff_lines_ok
#print axioms Slicec.C06.spec_reads_lines
#print axioms Slicec.C06.preprocess_iff_lines
#print axioms Slicec.C06.refines_stack_machine_full
#print axioms Slicec.C06.parser_complete
#print axioms Slicec.C06.balance_indep_of_symbols
#print axioms Slicec.C06.rejects_iff_malformed_tokens
#print axioms Slicec.C06.rejects_iff_malformed_full
#print axioms Slicec.C06.accepts_only_if_lexed_and_parsed
#print axioms Slicec.C06.model_grammar_eq_extracted
#print axioms Slicec.C06.rejected_iff_reported
#print axioms Slicec.C06.every_error_is_located_in_its_line_partial
#print axioms Slicec.C06.each_bad_directive_reported_once_partial
#print axioms Slicec.C06.every_error_is_located_in_its_line_full
#print axioms Slicec.C06.each_bad_directive_reported_once_full
