/-
  C06 — Conditional compilation selects exactly the right lines, in place.
  Model: `Model/Preproc.lean` (character-level mirror of the preprocessor lexer, the LALRPOP grammar as a
  recursive-descent parser, `process_nodes`); SPEC: the line-by-line stack machine `specRun` / `cspecFile`.
  Every statement quantifies over all files / token streams / trees / symbol sets.
-/
import SlicecVerif.Lemmas.Preproc

namespace Slicec.C06

open Slicec Slicec.Pp

/-! ## (a) expressions: the grammar fixes one tree per spelling -/

/-- what the grammar's `Expression` prints as -/
def printExpr (e : PExpr) : List PTok := e.toks

/-- the expression parser run on a complete token list -/
def parseExprAll (toks : List PTok) : Option PExpr :=
  match parseExpr (parseFuel toks) toks with
  | some (e, []) => some e
  | _ => none

/-- Printing any expression tree of the grammar (`Term | "!" Term | Expression "&&" Term | Expression "||" Term`,
    `Term = identifier | "(" Expression ")"`) and parsing the tokens gives the same tree back: `&&` and `||` have equal
    precedence and associate to the left, `!` applies to the first term only, parentheses are kept as nodes. -/
theorem expr_parse_print (e : PExpr) : parseExprAll (printExpr e) = some e := by
  unfold parseExprAll printExpr
  have h := parseExpr_print e (parseFuel e.toks) [] (by
    have := PExpr.size_le_toks e
    unfold parseFuel; omega) trivial
  rw [List.append_nil] at h
  rw [h]

/-- The same inside a directive: whatever follows the expression (a `DirectiveEnd`, a `)`, …, anything but `&&`/`||`)
    is left untouched, for every fuel the model can call the parser with. -/
theorem expr_parse_print_in_context (e : PExpr) (n : Nat) (r : List PTok) (hn : 2 * e.size + 1 ≤ n) (hr : noOp r) :
    parseExpr n (e.toks ++ r) = some (e, r) :=
  parseExpr_print e n r hn hr

/-- Conversely the parser only accepts printed expressions: what it consumed is the printed form of the tree it returns. -/
theorem expr_parse_sound (n : Nat) (toks : List PTok) (e : PExpr) (r : List PTok) (h : parseExpr n toks = some (e, r)) :
    toks = printExpr e ++ r :=
  (parseExpr_sound n).2.1 toks e r h

/-- The Boolean semantics of the tree (`Expression::evaluate`, `Term::evaluate`): a symbol is true iff it is defined. -/
theorem expr_eval (D : Syms) :
    (∀ s, (PTerm.sym s).eval D = D.contains s) ∧
    (∀ e, (PTerm.paren e).eval D = e.eval D) ∧
    (∀ t, (PExpr.term t).eval D = t.eval D) ∧
    (∀ t, (PExpr.not t).eval D = !t.eval D) ∧
    (∀ e t, (PExpr.and e t).eval D = (e.eval D && t.eval D)) ∧
    (∀ e t, (PExpr.or e t).eval D = (e.eval D || t.eval D)) := by
  refine ⟨?_, ?_, ?_, ?_, ?_, ?_⟩ <;> intros <;> simp [PExpr.eval, PTerm.eval]

/-! ## (b) in place -/

/-- Removing directives and unselected lines never shifts anything.  For every file `f`, every symbol set and every
    block `b` the preprocessor returns: `b.content` is the text of `f` at offsets `[b.off, b.off + |b|)`, and for every
    offset `i` into the block, advancing the block's start location over the first `i` characters of the block gives
    exactly the location that offset `b.off + i` has in the ORIGINAL file — every surviving character keeps its row and
    column.  Moreover the blocks come in file order and do not overlap. -/
theorem in_place (f : List Char) (D : Syms) (bs : List Block) (D' : Syms) (h : preprocess f D = .ok (bs, D')) :
    (∀ b ∈ bs, b.content = (f.drop b.off).take b.content.length ∧ b.off + b.content.length ≤ f.length ∧
      ∀ i, i ≤ b.content.length → (b.content.take i).foldl advance b.start = locAt f (b.off + i)) ∧
    bs.Pairwise (fun a b => a.off + a.content.length ≤ b.off) := by
  have hc := preprocess_chain f D bs D' h
  refine ⟨?_, chain_pairwise hc⟩
  intro b hb
  have hok := chain_mem hc b hb
  exact ⟨hok.2.2.2, hok.2.1, fun i hi => block_in_place f 0 f.length b hok i hi⟩

/-- The fold lemma everything above rests on: advancing over `a` and then over `b` is advancing over `a ++ b`. -/
theorem advance_fold (l : Loc) (a b : List Char) : b.foldl advance (a.foldl advance l) = (a ++ b).foldl advance l :=
  foldl_advance_append l a b

/-! ## (c) files are preprocessed independently -/

/-- `parse_files` gives every file a fresh clone of the command-line symbols: the result for a list of files is the
    list of the results of the files taken alone, so `#define`/`#undef` in one file cannot be seen in another. -/
theorem file_isolation (D : Syms) (fs : List (List Char)) : preprocessFiles D fs = fs.map (preprocess · D) := by
  induction fs with
  | nil => rfl
  | cons f fs ih => simp [preprocessFiles, ih]

/-! ## (d) refinement of the line-by-line stack machine -/

/-- FULL statement (character level; not proved, cross-checked on every generated file by the driver — a disagreement
    is emitted as a model counterexample): whenever the stack machine over the raw lines of `f` accepts, the model
    accepts, the located non-whitespace characters of the emitted blocks are exactly those of the selected source lines,
    and the final symbol sets agree. -/
def refines_stack_machine_full : Prop :=
  ∀ (f : List Char) (D : Syms) (cs : List LChar) (D' : Syms), cspecFile f D = some (cs, D') →
    ∃ bs D'', preprocess f D = .ok (bs, D'') ∧ bs.flatMap locatedBlock = cs ∧ (∀ s, D''.contains s = D'.contains s)

/-- PROVED for the line-structured fragment, at the token level.  Whenever the model's parser accepts a token stream
    `toks` with tree `ns`: (1) `toks` is the concatenation of the tokens of the abstract lines `ns.lines`
    (`src | #if e | #elif e | #else | #endif | #define s | #undef s`, all well-formed), and (2) the textbook stack machine
    (frames `(anyBranchTaken, active, seenElse)`; a source line is selected iff every frame is active; `#define`/`#undef`
    act iff every frame is active; `#elif` is considered only if no earlier branch was taken) run over these lines from
    the symbols `D` ends with an empty stack and has emitted exactly the blocks, in the same order, and exactly the final
    symbol set that the model's `evalNodes` (the mirror of `process_nodes`) computes.
    Missing for the full statement: the character-level link `lines of f ↔ lexPre f` (tied by correspondence and by the
    driver's cross-check instead) and the completeness direction of (e). -/
theorem refines_stack_machine_partial (toks : List PTok) (ns : Nodes) (D : Syms) (h : parsePre toks = some ns) :
    linesToks ns.lines = toks ∧ specFile ns.lines D = some (evalNodes ns ⟨[], D⟩) :=
  ⟨(parsePre_sound toks ns h).symm, specFile_tree ns D⟩

/-- The stack machine on the lines of ANY tree (nested to any depth) computes what the model computes; inside an
    unselected region nothing is emitted and no symbol changes. -/
theorem stack_machine_on_tree (ns : Nodes) (stk : List Frame) (out : PState) :
    specRun ⟨stk, out⟩ ns.lines = some ⟨stk, if allActive stk then evalNodes ns out else out⟩ :=
  spec_nodes ns stk out

/-! ## (e) malformed or unbalanced input is rejected -/

/-- FULL statement (character level; not proved, cross-checked by the driver on every generated file). -/
def rejects_iff_malformed_full : Prop :=
  ∀ (f : List Char) (D : Syms), (∃ r, preprocess f D = .error r) ↔ cspecFile f D = none

/-- PROVED direction, token level: acceptance implies well-formedness and balance — if the parser accepts `toks` then
    `toks` splits into well-formed abstract lines on which the stack machine never underflows, never sees `#elif`/`#else`
    after `#else`, and ends with an empty stack (for every symbol set).  Hence a token stream that admits no such
    reading is rejected.  Missing: that every balanced well-formed line list is accepted (completeness of the parser). -/
theorem rejects_iff_malformed_partial (toks : List PTok) (h : parsePre toks ≠ none) :
    ∃ ls : List ALine, linesToks ls = toks ∧ ∀ D, specFile ls D ≠ none := by
  cases hp : parsePre toks with
  | none => exact absurd hp h
  | some ns =>
    refine ⟨ns.lines, (parsePre_sound toks ns hp).symm, ?_⟩
    intro D
    rw [specFile_tree]
    simp

/-- Any lexical error and any syntax error rejects the whole file (`parse_slice_file` returns `Err` whenever an error
    was recorded, recovered or not): the model accepts only if both the lexer and the parser succeed. -/
theorem accepts_only_if_lexed_and_parsed (f : List Char) (D : Syms) (bs : List Block) (D' : Syms)
    (h : preprocess f D = .ok (bs, D')) :
    ∃ toks ns, lexPre f = .ok toks ∧ parsePre toks = some ns ∧ bs = (evalNodes ns ⟨[], D⟩).blocks ∧ D' = (evalNodes ns ⟨[], D⟩).syms := by
  unfold preprocess at h
  split at h
  · cases h
  · rename_i toks hl
    split at h
    · cases h
    · rename_i ns hp
      simp only [Except.ok.injEq, Prod.mk.injEq] at h
      exact ⟨toks, ns, hl, hp, h.1.symm, h.2.symm⟩

/-! ## the tie to the source: the grammar the parser was written for is the extracted one -/

/-- the productions `parseNodes`/`parseNode`/`parseRest`/`parseExpr`/`parseTerm` implement -/
def modelGrammar : List (String × List (List String × String)) := [
  ("SliceFile", [(["BlockContent"], "")]),
  ("BlockContent", [(["Node*"], "")]),
  ("Node", [(["source_block"], "Node::SourceBlock"), (["DefineDirective"], "Node::DefineDirective"), (["UndefineDirective"], "Node::UndefineDirective"), (["Conditional"], "Node::Conditional"), (["<!>", "directive_end"], "")]),
  ("DefineDirective", [(["define_keyword", "identifier", "directive_end"], "")]),
  ("UndefineDirective", [(["undefine_keyword", "identifier", "directive_end"], "")]),
  ("IfDirective", [(["if_keyword", "Expression", "directive_end"], "")]),
  ("ElifDirective", [(["elif_keyword", "Expression", "directive_end"], "")]),
  ("ElseDirective", [(["else_keyword", "directive_end"], "")]),
  ("EndifDirective", [(["endif_keyword", "directive_end"], "")]),
  ("Conditional", [(["(IfDirective BlockContent)", "(ElifDirective BlockContent)*", "(ElseDirective BlockContent)?", "EndifDirective"], "")]),
  ("Expression", [(["Term"], "Expression::Term"), (["\"!\"", "Term"], "Expression::Not"), (["Expression", "\"&&\"", "Term"], "Expression::And"), (["Expression", "\"||\"", "Term"], "Expression::Or")]),
  ("Term", [(["identifier"], "Term::Symbol"), (["\"(\"", "Expression", "\")\""], "Term::Expression")])
]

/-- the terminal ↔ `TokenKind` mapping the parser was written for -/
def modelTerminals : List (String × String) := [("source_block", "SourceBlock"), ("identifier", "Identifier"), ("define_keyword", "DefineKeyword"), ("undefine_keyword", "UndefineKeyword"), ("if_keyword", "IfKeyword"), ("elif_keyword", "ElifKeyword"), ("else_keyword", "ElseKeyword"), ("endif_keyword", "EndifKeyword"), ("directive_end", "DirectiveEnd"), ("\"!\"", "Not"), ("\"&&\"", "And"), ("\"||\"", "Or"), ("\"(\"", "LeftParenthesis"), ("\")\"", "RightParenthesis")]

/-- the directive keywords the lexer model was written for -/
def modelKeywords : List (String × String) := [("define", "DefineKeyword"), ("undef", "UndefineKeyword"), ("if", "IfKeyword"), ("elif", "ElifKeyword"), ("else", "ElseKeyword"), ("endif", "EndifKeyword"), ("", "MissingDirective")]

/-- The productions of `grammar.lalrpop`, its terminal mapping and the lexer's directive keyword arms, as regenerated
    from the repository on every run, are the ones the model parser/lexer were written and proved for.  A changed
    production, constructor, terminal or keyword re-opens this obligation. -/
theorem model_grammar_eq_extracted :
    modelGrammar = Gen.preprocGrammar ∧ modelTerminals = Gen.preprocTerminals ∧
    modelKeywords = Gen.directiveKeywords ∧ Gen.directiveFallback = "UnknownDirective" :=
  ⟨rfl, rfl, rfl, rfl⟩

/-! ## non-vacuity -/

private def A : PTerm := .sym "A"
private def B : PTerm := .sym "B"
private def C : PTerm := .sym "C"

/-- `A || B && C` is `(A || B) && C` for this grammar (NOT C precedence) -/
example : parseExprAll [.ident "A", .or, .ident "B", .and, .ident "C"] = some (.and (.or (.term A) B) C) :=
  expr_parse_print (.and (.or (.term A) B) C)
/-- with A defined and C not, C precedence would say true; the grammar's tree says false -/
example : (PExpr.and (.or (.term A) B) C).eval ["A"] = false := by decide
/-- a nested tree: the stack machine and the model agree, and an unselected `#define` does nothing -/
example : specFile (Nodes.cons (.cond (.term A) (.cons (.define "B") .nil) (.els (.cons (.define "C") .nil))) .nil).lines [] =
    some ⟨[], ["C"]⟩ := by
  rw [specFile_tree]; rfl

end Slicec.C06

#print axioms Slicec.C06.expr_parse_print
#print axioms Slicec.C06.expr_parse_print_in_context
#print axioms Slicec.C06.expr_parse_sound
#print axioms Slicec.C06.expr_eval
#print axioms Slicec.C06.in_place
#print axioms Slicec.C06.advance_fold
#print axioms Slicec.C06.file_isolation
#print axioms Slicec.C06.refines_stack_machine_partial
#print axioms Slicec.C06.stack_machine_on_tree
#print axioms Slicec.C06.rejects_iff_malformed_partial
#print axioms Slicec.C06.accepts_only_if_lexed_and_parsed
#print axioms Slicec.C06.model_grammar_eq_extracted
